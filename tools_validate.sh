#!/bin/sh
# dev helper: validate MANIFEST.json and evidence files against the harness schemas
python3-vt - <<'PY'
import json,jsonschema,glob
jsonschema.validate(json.load(open('/verif/MANIFEST.json')), json.load(open('/root/.vp/MANIFEST.schema.json'))); print('manifest ok')
s=json.load(open('/root/.vp/EVIDENCE.schema.json'))
for f in sorted(glob.glob('/verif/evidence/*.json')):
    jsonschema.validate(json.load(open(f)), s); print('ok', f)
PY
