// Demonstration for the R-SHARED known findings (not part of any check):
// go test -race reports data races when one compiled Regex is searched concurrently
// on paths that use an engine-level / searcher-level / DFA-level simulator.
package demo

import (
	"strings"
	"sync"
	"testing"

	"github.com/coregx/coregex"
)

func hammer(t *testing.T, pattern string, inputs []string, f func(re *coregex.Regex, s string)) {
	re := coregex.MustCompile(pattern)
	var wg sync.WaitGroup
	for g := 0; g < 4; g++ {
		wg.Add(1)
		go func(g int) {
			defer wg.Done()
			for i := 0; i < 200; i++ {
				f(re, inputs[(g+i)%len(inputs)])
			}
		}(g)
	}
	wg.Wait()
}

func TestRaceFamilies(t *testing.T) {
	long := strings.Repeat("ab1 cd22 ", 200)
	cases := []struct {
		name, pat string
		in        []string
	}{
		{"UseDFA/e.pikevm", `(foo|bar)[a-z]+\d+x`, []string{"zz fooabc123x yy", "barq9x " + long}},
		{"UseBoth", `[a-c]+\d{2,}z|q+w`, []string{long + "abc12z", "qqw " + long}},
		{"ReverseSuffix", `.*\.txt`, []string{"a/b/c.txt", long + "x.txt y"}},
		{"ReverseAnchored", `[a-z]+\d+$`, []string{"hello abc123", long + "abc1"}},
		{"ReverseInner", `[a-z]+@example[a-z.]+`, []string{"mail bob@example.com x", long + "z@examplex"}},
		{"ReverseSuffixSet", `.*\.(txt|log|md)`, []string{"a.txt b.log", long + "c.md"}},
		{"Composite", `[a-z]+[0-9]+`, []string{"abc123 def456", long}},
		{"CompositeBacktrack", `[a-z]{2,5}[0-9]{2,4}[a-z]`, []string{"abc123x def4567y", long + "ab12c"}},
		{"UseBoth", `[ab]+c[de]+f\d`, []string{"xx abcdef1 yy", long + "bcef2"}},
		{"BoundedBT/ascii", `^/.*[\w-]+\.php`, []string{"/a/b/index.php", "/" + long + "x.php"}},
	}
	for _, c := range cases {
		t.Run(c.name, func(t *testing.T) {
			hammer(t, c.pat, c.in, func(re *coregex.Regex, s string) {
				re.FindStringIndex(s)
				re.FindString(s)
				re.FindStringSubmatch(s)
				re.MatchString(s)
				re.FindAllStringIndex(s, -1)
			})
		})
	}
}

// The lazy DFA asks its shared d.pikevm whether an empty match exists at the end of the haystack
// (matchesEmptyAt, added by fix 6e116d7 next to matchesEmpty, which does the same for the empty haystack).
// FindAll resumes at len(haystack) behind a match that ends there.
func TestRaceLazyDFAAtEnd(t *testing.T) {
	for _, pat := range []string{`[a-c]+\d{2,}z|q+w`, `\d+[a-z]+\d+`, `[ab]+c[de]+f\d`, `[a-z]+\d+[a-z]+\d`} {
		hammer(t, pat, []string{"x abc12z", "qqw", "12ab34", "bcef2", "ab1cd2"}, func(re *coregex.Regex, s string) {
			re.FindAllStringIndex(s, -1)
		})
	}
}
