// Demonstration for the R-SHARED known findings (not part of any check):
// go test -race reports data races when one compiled Regex is searched concurrently
// on paths that use an engine-level / searcher-level / DFA-level simulator.
package demo

import (
	"regexp"
	"strings"
	"sync"
	"sync/atomic"
	"testing"

	"github.com/coregx/coregex"
	"github.com/coregx/coregex/dfa/lazy"
)

func hammer(t *testing.T, pattern string, inputs []string, f func(re *coregex.Regex, s string)) {
	re := coregex.MustCompile(pattern)
	var wg sync.WaitGroup
	for g := 0; g < 4; g++ {
		wg.Add(1)
		go func(g int) {
			defer wg.Done()
			for i := 0; i < 200; i++ {
				f(re, inputs[(g+i)%len(inputs)])
			}
		}(g)
	}
	wg.Wait()
}

func TestRaceFamilies(t *testing.T) {
	long := strings.Repeat("ab1 cd22 ", 200)
	cases := []struct {
		name, pat string
		in        []string
	}{
		{"UseDFA/e.pikevm", `(foo|bar)[a-z]+\d+x`, []string{"zz fooabc123x yy", "barq9x " + long}},
		{"UseBoth", `[a-c]+\d{2,}z|q+w`, []string{long + "abc12z", "qqw " + long}},
		{"ReverseSuffix", `.*\.txt`, []string{"a/b/c.txt", long + "x.txt y"}},
		{"ReverseAnchored", `[a-z]+\d+$`, []string{"hello abc123", long + "abc1"}},
		{"ReverseInner", `[a-z]+@example[a-z.]+`, []string{"mail bob@example.com x", long + "z@examplex"}},
		{"ReverseSuffixSet", `.*\.(txt|log|md)`, []string{"a.txt b.log", long + "c.md"}},
		{"Composite", `[a-z]+[0-9]+`, []string{"abc123 def456", long}},
		{"CompositeBacktrack", `[a-z]{2,5}[0-9]{2,4}[a-z]`, []string{"abc123x def4567y", long + "ab12c"}},
		{"UseBoth", `[ab]+c[de]+f\d`, []string{"xx abcdef1 yy", long + "bcef2"}},
		{"BoundedBT/ascii", `^/.*[\w-]+\.php`, []string{"/a/b/index.php", "/" + long + "x.php"}},
	}
	for _, c := range cases {
		t.Run(c.name, func(t *testing.T) {
			hammer(t, c.pat, c.in, func(re *coregex.Regex, s string) {
				re.FindStringIndex(s)
				re.FindString(s)
				re.FindStringSubmatch(s)
				re.MatchString(s)
				re.FindAllStringIndex(s, -1)
			})
		})
	}
}

// Before fix 84a4feb the lazy DFA asked its shared d.pikevm whether an empty match exists at the end of the
// haystack (matchesEmptyAt, added by fix 6e116d7 next to matchesEmpty): FindAll resumes at len(haystack) behind a
// match that ends there, and go test -race reported lazy.(*DFA).matchesEmptyAt. It now uses the caller's cache.
func TestRaceLazyDFAAtEnd(t *testing.T) {
	for _, pat := range []string{`[a-c]+\d{2,}z|q+w`, `[ab]+c[de]+f\d`} {
		hammer(t, pat, []string{"x abc12z", "qqw", "12ab34", "bcef2", "ab1cd2"}, func(re *coregex.Regex, s string) {
			re.FindAllStringIndex(s, -1)
		})
	}
}

// Wrong answers, not only reported races (round-9 agent's report, confirmed): before fix d8eeb09 the DFA
// strategies ran the engine's shared e.pikevm, so concurrent FindStringIndex calls mixed their thread queues.
// Run without -race: it compares every answer with regexp's.
func TestConcurrentFindSpans(t *testing.T) {
	long := strings.Repeat("ab1 cd22 ", 60)
	for _, pat := range []string{`(foo|bar)\d+?x[a-c]+[d-f]+`, `(?:foo|bar)\w+?\d[a-z]+\d`} {
		re := coregex.MustCompile(pat)
		std := regexp.MustCompile(pat)
		inputs := []string{long + "foo12xabcdef " + long, "bar9xad", long + long + "fooz1abc2", long}
		var bad atomic.Int64
		var wg sync.WaitGroup
		for g := 0; g < 8; g++ {
			wg.Add(1)
			go func(g int) {
				defer wg.Done()
				for i := 0; i < 400; i++ {
					s := inputs[(g+i)%len(inputs)]
					got, want := re.FindStringIndex(s), std.FindStringIndex(s)
					if len(got) != len(want) || (len(got) == 2 && (got[0] != want[0] || got[1] != want[1])) {
						bad.Add(1)
					}
				}
			}(g)
		}
		wg.Wait()
		if n := bad.Load(); n > 0 {
			t.Errorf("%s: %d wrong spans under concurrent use", pat, n)
		}
	}
}

// The lazy DFA's NFA fallback (cache full, empty haystack): before fix fbe798e every search of one DFA ran the
// same d.pikevm. Four goroutines, each with its own cache as the API requires, on a DFA whose one-byte cache makes
// every search fall back; go test -race reported nfa.(*PikeVM).SearchAt under lazy.(*DFA).nfaFallback.
func TestRaceLazyDFAFallback(t *testing.T) {
	d, err := lazy.CompilePatternWithConfig(`[a-c]+\d{2,}z|q+w`, lazy.DefaultConfig().WithCacheCapacity(1).WithMaxCacheClears(0))
	if err != nil {
		t.Fatal(err)
	}
	inputs := [][]byte{[]byte("x abc12z"), []byte("qqw"), []byte("bbb999z yy"), []byte("")}
	var wg sync.WaitGroup
	for g := 0; g < 4; g++ {
		wg.Add(1)
		go func(g int) {
			defer wg.Done()
			cache := d.NewCache()
			for i := 0; i < 300; i++ {
				h := inputs[(g+i)%len(inputs)]
				d.FindAt(cache, h, 0)
				d.IsMatch(cache, h)
			}
		}(g)
	}
	wg.Wait()
}
