package probe

import (
	"fmt"
	"regexp"
	"testing"

	"github.com/coregx/coregex"
	"github.com/coregx/coregex/meta"
)

// SearchReverseLimited returns lastMatch when the scan reaches the guard alive with a match already seen:
// the reported start is then not the leftmost one.
func TestLimitedScanLeftmost(t *testing.T) {
	for _, c := range []struct{ p, h string }{
		{`[a-z.]*[0-9]\.txt`, "a.txt5.txt"},
		{`[a-z.]+[0-9]\.txt`, "a.txt5.txt"},
		{`[a-z.]+[0-9]\.txt`, "a.txtb5.txt"},
		{`[a-z.]+[0-9]\.txt`, "zz a.txtb5.txt"},
		{`[a-z]+[a-z ]*error[a-z ]*[0-9]`, "a error b error 5"},
		{`[a-z.]+[0-9]\.(?:txt|log)`, "a.txtb5.log"},
		{`[a-z.]*[0-9]\.txt`, "a.txt a.txt5.txt"},
		{`[a-z. ]*[0-9] error [a-z]+`, "a error 5 error x"},
		{`[a-z.]*[0-9]\.(?:txt|log)`, "a.txt5.log"},
		{`(?:A[a-z.]*)?[0-9]\.txt`, "A.txt5.txt"},
		{`(?:A[a-z.]*)?[0-9]\.txt`, "xx A.txt5.txt"},
		{`(?:A[a-z. ]*)?[0-9] error [a-z]+`, "A error 5 error x"},
		{`(?:A[a-z.]*)?[0-9]\.(?:txt|log)`, "A.txt5.log"},
	} {
		re, std := coregex.MustCompile(c.p), regexp.MustCompile(c.p)
		e, _ := meta.Compile(c.p)
		g, w := fmt.Sprint(re.FindStringIndex(c.h)), fmt.Sprint(std.FindStringIndex(c.h))
		ga, wa := fmt.Sprint(re.FindAllStringIndex(c.h, -1)), fmt.Sprint(std.FindAllStringIndex(c.h, -1))
		if g != w || ga != wa {
			t.Errorf("%-36s %-20v on %q Find=%v want %v FindAll=%v want %v", c.p, e.Strategy(), c.h, g, w, ga, wa)
		} else {
			t.Logf("%-36s %-20v ok", c.p, e.Strategy())
		}
	}
}
