package probe

import (
	"fmt"
	"regexp"
	"testing"

	"github.com/coregx/coregex"
)

func TestOnePassLookAssertions(t *testing.T) {
	pats := []string{`\B(a|b|c)+\B`, `(a)\b`, `(a)$`, `(\w)\B(\w)`, `(a)\bx`, `(?m)(a)$`, `(a+)\b(b*)`, `^(a)\B`, `(x)(?m:^)(y)?`, `(a)(?:$|b)`, `\b(\w+)\b(!)?`}
	inputs := []string{"aabbcc", "ab", "a", "a b", "ax", "aab", "a\nb", "xy", "abc!", "ab!"}
	for _, p := range pats {
		re, std := coregex.MustCompile(p), regexp.MustCompile(p)
		for _, h := range inputs {
			g, w := fmt.Sprint(re.FindStringSubmatchIndex(h)), fmt.Sprint(std.FindStringSubmatchIndex(h))
			if g != w {
				t.Errorf("%-16s on %-8q FindSubmatchIndex=%v want %v (FindIndex=%v)", p, h, g, w, re.FindStringIndex(h))
			}
		}
	}
}
