package probe

import (
	"regexp"
	"strings"
	"testing"
	"time"

	"github.com/coregx/coregex"
	"github.com/coregx/coregex/meta"
)

// R-CANDLOOP probes: candidate loops whose backward scan is not bounded by an advancing guard.
func timeIt(f func()) time.Duration {
	best := time.Duration(1 << 62)
	for i := 0; i < 3; i++ {
		t := time.Now()
		f()
		if d := time.Since(t); d < best {
			best = d
		}
	}
	return best
}

func TestCandLoopScaling(t *testing.T) {
	cases := []struct{ pat, unit string }{
		{`[A-Z]+[a-z.]*\.txt`, ".txt"},
		{`[A-Z]+[a-z ]*error[a-z ]*[0-9]`, " error"},
		{`[A-Z]+[a-z ]*error[a-z ]+`, "error"},
		{`[A-Z]+[a-z.]*\.(?:txt|log|dat)`, ".txt.log"},
		{`[A-Z]+[a-z.]*(?:\.txt|\.log|\.dat)`, ".txt.log"},
	}
	for _, c := range cases {
		re := coregex.MustCompile(c.pat)
		std := regexp.MustCompile(c.pat)
		e, _ := meta.Compile(c.pat)
		var prev [4]time.Duration
		for _, n := range []int{2000, 4000, 8000, 16000} {
			h := strings.Repeat(c.unit, n)
			b := []byte(h)
			d := [4]time.Duration{
				timeIt(func() { re.FindIndex(b) }),
				timeIt(func() { re.Match(b) }),
				timeIt(func() { re.FindAllIndex(b, -1) }),
				timeIt(func() { std.FindIndex(b) }),
			}
			t.Logf("%-40s %-22v n=%6d Find=%-12v Match=%-12v FindAll=%-12v std=%-12v ratios %.1f %.1f %.1f", c.pat, e.Strategy(), len(h), d[0], d[1], d[2], d[3],
				float64(d[0])/float64(prev[0]+1), float64(d[1])/float64(prev[1]+1), float64(d[2])/float64(prev[2]+1))
			prev = d
		}
	}
}

// forward half: prefix matches at every candidate, the suffix scan runs to the end of the haystack and fails
func TestCandLoopForwardScaling(t *testing.T) {
	pat := `[A-Z]+[a-z ]*error[a-z ]*[0-9]`
	re := coregex.MustCompile(pat)
	std := regexp.MustCompile(pat)
	var prev [3]time.Duration
	for _, n := range []int{2000, 4000, 8000, 16000} {
		b := []byte("A" + strings.Repeat(" error", n))
		d := [3]time.Duration{
			timeIt(func() { re.FindIndex(b) }),
			timeIt(func() { re.Match(b) }),
			timeIt(func() { std.FindIndex(b) }),
		}
		t.Logf("n=%6d Find=%-12v Match=%-12v std=%-12v ratios %.1f %.1f", len(b), d[0], d[1], d[2], float64(d[0])/float64(prev[0]+1), float64(d[1])/float64(prev[1]+1))
		prev = d
	}
}

// forward half only: the prefix is one byte, the suffix scan runs to the end of the haystack for every candidate
func TestCandLoopForwardOnly(t *testing.T) {
	for _, pat := range []string{`[A-Z]error[A-Za-z ]*[0-9]`, `[A-Z]+error[A-Za-z ]*[0-9]`, `[A-Z]{1,3}error[A-Za-z ]*[0-9]`, `(?:[A-Z]|[0-9])error[A-Za-z ]*[0-9]`} {
		re := coregex.MustCompile(pat)
		std := regexp.MustCompile(pat)
		e, _ := meta.Compile(pat)
		var prev [4]time.Duration
		for _, n := range []int{2000, 4000, 8000, 16000} {
			b := []byte(strings.Repeat("Aerror ", n))
			d := [4]time.Duration{
				timeIt(func() { re.FindIndex(b) }),
				timeIt(func() { re.Match(b) }),
				timeIt(func() { re.FindAllIndex(b, -1) }),
				timeIt(func() { std.FindIndex(b) }),
			}
			t.Logf("%-32s %-18v n=%6d Find=%-12v Match=%-12v FindAll=%-12v std=%-12v ratios %.1f %.1f %.1f", pat, e.Strategy(), len(b), d[0], d[1], d[2], d[3], float64(d[0])/float64(prev[0]+1), float64(d[1])/float64(prev[1]+1), float64(d[2])/float64(prev[2]+1))
			prev = d
		}
	}
}

// digit-prefilter candidate loops: an anchored forward scan per digit, nothing bounds the total
func TestDigitCandidateScaling(t *testing.T) {
	for _, pat := range []string{`\d\d*-x`, `(?:\d+-|\d+:)x`, `[0-9][0-9a]*-x`, `\d+-x`} {
		re := coregex.MustCompile(pat)
		std := regexp.MustCompile(pat)
		e, _ := meta.Compile(pat)
		var prev [3]time.Duration
		for _, n := range []int{4000, 8000, 16000, 32000} {
			b := []byte(strings.Repeat("1", n))
			d := [3]time.Duration{
				timeIt(func() { re.FindIndex(b) }),
				timeIt(func() { re.Match(b) }),
				timeIt(func() { std.FindIndex(b) }),
			}
			t.Logf("%-20s %-18v n=%6d Find=%-12v Match=%-12v std=%-12v ratios %.1f %.1f", pat, e.Strategy(), len(b), d[0], d[1], d[2], float64(d[0])/float64(prev[0]+1), float64(d[1])/float64(prev[1]+1))
			prev = d
		}
	}
}

// UseNFA with a prefix prefilter: every candidate starts an UNANCHORED search over the rest of the haystack
func TestNFACandidateScaling(t *testing.T) {
	for _, pat := range []string{`foo\w*?bar\b`, `\bfoo[a-z ]*z\b`, `(foo|fob)\w*?y\b`} {
		re := coregex.MustCompile(pat)
		std := regexp.MustCompile(pat)
		e, _ := meta.Compile(pat)
		var prev [4]time.Duration
		for _, n := range []int{1000, 2000, 4000, 8000} {
			b := []byte(strings.Repeat("foo ", n))
			d := [4]time.Duration{
				timeIt(func() { re.FindIndex(b) }),
				timeIt(func() { re.Match(b) }),
				timeIt(func() { re.FindAllIndex(b, -1) }),
				timeIt(func() { std.FindIndex(b) }),
			}
			t.Logf("%-20s %-8v n=%6d Find=%-12v Match=%-12v FindAll=%-12v std=%-12v ratios %.1f %.1f %.1f", pat, e.Strategy(), len(b), d[0], d[1], d[2], d[3], float64(d[0])/float64(prev[0]+1), float64(d[1])/float64(prev[1]+1), float64(d[2])/float64(prev[2]+1))
			prev = d
		}
	}
}

// remaining forward-scan-per-candidate loops flagged by R-CANDLOOP (4)
func TestForwardScanCandidates(t *testing.T) {
	cases := []struct{ pat, unit string }{
		{`\d+error[a-z0-9 ]*[!?]`, "1error "},
		{`[A-Z]\d*error[a-z0-9A-Z ]*[!?]`, "A1error "},
		{`foo[\pL ]*[!?]`, "foo "},
		{`(?m)^/[a-z/.]*\.php[a-z/.]*!`, "/a.php"},
		{`(?m)^/.*\.php[a-z/. ]*!`, "/a.php "},
		{`\d+\.\d+\.35[0-9. ]*x`, "1.2.35 "},
	}
	for _, c := range cases {
		re := coregex.MustCompile(c.pat)
		std := regexp.MustCompile(c.pat)
		e, _ := meta.Compile(c.pat)
		var prev [4]time.Duration
		for _, n := range []int{1000, 2000, 4000, 8000} {
			b := []byte(strings.Repeat(c.unit, n))
			d := [4]time.Duration{
				timeIt(func() { re.FindIndex(b) }),
				timeIt(func() { re.Match(b) }),
				timeIt(func() { re.FindAllIndex(b, -1) }),
				timeIt(func() { std.FindIndex(b) }),
			}
			t.Logf("%-34s %-26v n=%6d Find=%-12v Match=%-12v FindAll=%-12v std=%-12v ratios %.1f %.1f %.1f", c.pat, e.Strategy(), len(b), d[0], d[1], d[2], d[3], float64(d[0])/float64(prev[0]+1), float64(d[1])/float64(prev[1]+1), float64(d[2])/float64(prev[2]+1))
			prev = d
		}
	}
}
