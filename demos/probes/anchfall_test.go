package probe

import (
	"regexp/syntax"
	"testing"

	"github.com/coregx/coregex/dfa/lazy"
	"github.com/coregx/coregex/literal"
	"github.com/coregx/coregex/nfa"
	"github.com/coregx/coregex/prefilter"
)

// R-ANCHFALL: the NFA take-over of the lazy DFA answers the question the scan was asked.
func TestProbeAnchoredFallbackKeepsAnchor(t *testing.T) {
	for _, capB := range []int{1, 100, 1 << 20} {
		cfg := lazy.DefaultConfig().WithCacheCapacity(capB).WithMaxCacheClears(0)
		d, err := lazy.CompilePatternWithConfig(`b+c`, cfg)
		if err != nil {
			t.Fatal(err)
		}
		cache := d.NewCache()
		h := []byte("bbx bbc")
		if got := d.SearchAtAnchored(cache, h, 0); got != -1 {
			t.Errorf("b+c anchored at 0 of %q, cache %d B: end %d, want -1 (no match begins at 0)", h, capB, got)
		}
		if got := d.SearchAtAnchored(cache, h, 4); got != 7 {
			t.Errorf("b+c anchored at 4 of %q, cache %d B: end %d, want 7", h, capB, got)
		}
	}
}

func TestProbePrefilterFallbackStartsAtAt(t *testing.T) {
	re, _ := syntax.Parse(`foo\d+`, syntax.Perl)
	c := nfa.NewCompiler(nfa.CompilerConfig{UTF8: true})
	n, err := c.CompileRegexp(re)
	if err != nil {
		t.Fatal(err)
	}
	ext := literal.New(literal.DefaultConfig())
	pf := prefilter.NewBuilder(ext.ExtractPrefixes(re), nil).Build()
	if pf == nil {
		t.Skip("no prefilter")
	}
	for _, capB := range []int{1, 400, 1 << 20} {
		cfg := lazy.DefaultConfig().WithCacheCapacity(capB).WithMaxCacheClears(0)
		d, err := lazy.CompileWithPrefilter(n, cfg, pf)
		if err != nil {
			t.Fatal(err)
		}
		cache := d.NewCache()
		h := []byte("foo1 foo22")
		if got := d.FindAt(cache, h, 5); got != 10 {
			t.Errorf("foo\\d+ FindAt 5 of %q, cache %d B: end %d, want 10", h, capB, got)
		}
	}
}
