package probe

import (
	"regexp"
	"testing"

	"github.com/coregx/coregex"
	"github.com/coregx/coregex/meta"
)

func TestFoldFirstBytes(t *testing.T) {
	pats := []string{`(?i)^foo.*bar`, `(?i)^foo[a-z]+\d`, `^(?i:f)oo\w+`, `(?i)^(foo|\d+)`, `(?i)^[a-c]x+y`, `(?i)^hello$`}
	inputs := []string{"FOO x BAR", "foo x bar", "Foo x bAr", "fooab1", "FOOAB1", "Fooabc", "foo", "FOO", "123", "Axxy", "bXY", "HELLO", "hello"}
	for _, p := range pats {
		re := coregex.MustCompile(p)
		std := regexp.MustCompile(p)
		e, _ := meta.Compile(p)
		for _, h := range inputs {
			g, w := re.FindStringIndex(h), std.FindStringIndex(h)
			gm, wm := re.MatchString(h), std.MatchString(h)
			if !eqi(g, w) || gm != wm {
				t.Errorf("%-24s %-24v on %-14q Match=%v want %v Find=%v want %v", p, e.Strategy(), h, gm, wm, g, w)
			}
		}
	}
}
