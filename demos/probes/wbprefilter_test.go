package probe

import (
	"regexp"
	"regexp/syntax"
	"testing"

	"github.com/coregx/coregex/dfa/lazy"
	"github.com/coregx/coregex/literal"
	"github.com/coregx/coregex/nfa"
	"github.com/coregx/coregex/prefilter"
)

// lazy.DFA.Find with a prefilter (findWithPrefilterAt) had the same word-boundary shortcut as searchAt:
// it returned the first position at which \b completed a match.
func TestLazyFindWithPrefilterWordBoundary(t *testing.T) {
	for _, c := range []struct{ pat, in string }{
		{`hello\b.*`, "say hello world again"},
		{`error\b.*warn.*`, "an error x warn y warn z"},
	} {
		re, err := syntax.Parse(c.pat, syntax.Perl)
		if err != nil {
			t.Fatal(err)
		}
		n, err := nfa.NewDefaultCompiler().CompileRegexp(re)
		if err != nil {
			t.Fatal(err)
		}
		ext := literal.New(literal.DefaultConfig())
		pf := prefilter.NewBuilder(ext.ExtractPrefixes(re), nil).Build()
		if pf == nil {
			t.Fatalf("%s: no prefilter", c.pat)
		}
		d, err := lazy.CompileWithPrefilter(n, lazy.DefaultConfig(), pf)
		if err != nil {
			t.Fatal(err)
		}
		want := regexp.MustCompile(c.pat).FindStringIndex(c.in)[1]
		if got := d.Find(d.NewCache(), []byte(c.in)); got != want {
			t.Errorf("%s on %q: lazy Find end %d, regexp end %d", c.pat, c.in, got, want)
		}
	}
}
