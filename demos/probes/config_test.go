package probe

import (
	"fmt"
	"regexp"
	"testing"

	"github.com/coregx/coregex"
	"github.com/coregx/coregex/meta"
)

// C12: configuration knobs change speed only
func TestConfigIndependence(t *testing.T) {
	pats := []string{`foo\d+`, `\w+@\w+\.com`, `(a|ab)(c|bcd)*`, `[a-z]+ing\b`, `(?m)^\w+:`, `x*y+z?`, `\bfoo\b.*bar`, `(?i)hello\s+world`, `[0-9]{2,4}-[0-9]+`, `a.*b.*c`}
	hs := []string{"foo123 bar", "me@x.com you@yy.com", "abcdbcd ab", "singing ring bringing", "key: v\nk2: w", "xxyyz yz", "foo is at the bar", "HeLLo   WORLD", "12-3 4567-89", "a1b2c3 abc"}
	seen := map[string]int{}
	for _, lim := range []int{1, 2, 3, 5, 10, 50} {
		for _, p := range pats {
			cfg := meta.DefaultConfig()
			cfg.DeterminizationLimit = lim
			re, err := coregex.CompileWithConfig(p, cfg)
			if err != nil {
				continue
			}
			std := regexp.MustCompile(p)
			for _, h := range hs {
				g, w := fmt.Sprint(re.FindAllStringIndex(h, -1)), fmt.Sprint(std.FindAllStringIndex(h, -1))
				gm, wm := re.MatchString(h), std.MatchString(h)
				gs, ws := fmt.Sprint(re.FindStringSubmatchIndex(h)), fmt.Sprint(std.FindStringSubmatchIndex(h))
				if g != w || gm != wm || gs != ws {
					k := fmt.Sprintf("lim=%d %s", lim, p)
					seen[k]++
					if seen[k] == 1 {
						t.Errorf("DeterminizationLimit=%d %-22s on %-24q All=%v want %v Match=%v want %v Sub=%v want %v", lim, p, h, g, w, gm, wm, gs, ws)
					}
				}
			}
		}
	}
}
