package probe

import (
	"regexp"
	"testing"

	"github.com/coregx/coregex"
	"github.com/coregx/coregex/meta"
)

func TestFoldAndLazyMore(t *testing.T) {
	pats := []string{`(?i)^foo.*bar`, `(?i)^/.*\.php$`, `^(?i:/API)/.*\.php$`, `(?i)^(?:get|post) /.*`, `(?m)^.*?\.php`, `(?m)^/.*?\.php`, `(?m)^.+?\.txt`, `^/.*?\.php$`, `(?i)^x[a-z]+\.php$`, `(?i)^abc`, `^(?i)k+x`}
	inputs := []string{"FOO x BAR", "/A/B.PHP", "/api/x.php", "GET /x", "a.php.php\nb.php", "/x.php/y.php", "q.txt.txt", "Xab.PHP", "ABCd", "KKx", "\u212ax"}
	for _, p := range pats {
		re, err := coregex.Compile(p)
		if err != nil {
			t.Errorf("%s: %v", p, err)
			continue
		}
		std := regexp.MustCompile(p)
		e, _ := meta.Compile(p)
		for _, h := range inputs {
			g, w := re.FindStringIndex(h), std.FindStringIndex(h)
			gm, wm := re.MatchString(h), std.MatchString(h)
			ga, wa := re.FindAllStringIndex(h, -1), std.FindAllStringIndex(h, -1)
			if !eqi(g, w) || gm != wm || !eqii(ga, wa) {
				t.Errorf("%-24s %-28v on %-22q Match=%v want %v Find=%v want %v | All=%v want %v", p, e.Strategy(), h, gm, wm, g, w, ga, wa)
			}
		}
	}
}
