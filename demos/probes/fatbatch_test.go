package probe

import (
	"fmt"
	"testing"

	"github.com/coregx/coregex/prefilter"
)

// FatTeddy.FindAllPositions: the batch kernel iterates the bits of x | x>>16 without masking the
// result to 16 bits, so a candidate of the high lane (buckets 8-15) at chunk position b is reported a
// second time as position b+16 with the high lane's bucket bits read as buckets 0-7 (and bytes beyond the
// 32-byte spill area as buckets 8-15). When the pattern of bucket j occurs 16 bytes after a pattern of
// bucket j+8, its position is reported twice.
func TestFatTeddyBatchDuplicates(t *testing.T) {
	patterns := make([][]byte, 40)
	for i := range patterns {
		patterns[i] = []byte(fmt.Sprintf("%c%cpat", 'a'+i%26, 'A'+i/26))
	}
	ft := prefilter.NewFatTeddy(patterns, nil)
	if ft == nil {
		t.Skip("no fat teddy")
	}
	// pattern 8 is in bucket 8 (high lane), pattern 0 in bucket 0
	hay := make([]byte, 96)
	for i := range hay {
		hay[i] = '.'
	}
	copy(hay[20:], patterns[8])
	copy(hay[36:], patterns[0])
	got := ft.FindAllPositions(hay)
	want := []int{20, 36}
	if fmt.Sprint(got) != fmt.Sprint(want) {
		t.Errorf("FindAllPositions = %v, want %v", got, want)
	}
}
