package probe

import (
	"regexp"
	"strings"
	"testing"
	"time"

	"github.com/coregx/coregex"
)

func TestEpochQuadratic(t *testing.T) {
	re := coregex.MustCompile(`([a-z])+[0-9]`)
	std := regexp.MustCompile(`([a-z])+[0-9]`)
	var prev time.Duration
	for _, n := range []int{2000, 4000, 8000} {
		h := strings.Repeat("a", n)
		t0 := time.Now()
		got := re.FindStringIndex(h)
		d := time.Since(t0)
		if (got == nil) != (std.FindStringIndex(h) == nil) {
			t.Fatalf("mismatch")
		}
		t.Logf("n=%d %v (ratio %.1f)", n, d, float64(d)/float64(prev+1))
		if prev > 0 && d > 3*prev && d > 50*time.Millisecond {
			t.Errorf("super-linear growth: n=%d took %v, previous %v", n, d, prev)
		}
		prev = d
	}
}
