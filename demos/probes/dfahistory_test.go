package probe

import (
	"fmt"
	"regexp"
	"testing"

	"github.com/coregx/coregex"
	"github.com/coregx/coregex/meta"
)

// C13: a warm lazy-DFA cache changes FindAll results (reported by a seeding agent as pre-existing)
func TestDFAHistory(t *testing.T) {
	for _, pat := range []string{`8cp+4|p*[p7]`, `ab|p*[p7]`, `p*[p7]`, `a|p*[p7]`, `ap+b|p*[p7]`, `ab|p*[pq]`, `ab|p*q`, `ab|p?[pq]`} {
		for _, c := range [][2]string{{"p", "7p"}, {"7", "4cpp8"}, {"q", "xppy"}, {"p", "qp"}} {
			e, _ := meta.Compile(pat)
			re := coregex.MustCompile(pat)
			re.FindAllStringIndex(c[0], -1)
			got := fmt.Sprint(re.FindAllStringIndex(c[1], -1))
			fresh := fmt.Sprint(coregex.MustCompile(pat).FindAllStringIndex(c[1], -1))
			want := fmt.Sprint(regexp.MustCompile(pat).FindAllStringIndex(c[1], -1))
			if got != want || fresh != want {
				t.Errorf("%v pat=%q warm=%q hay=%q warm-result=%s fresh-result=%s regexp=%s", e.Strategy(), pat, c[0], c[1], got, fresh, want)
			}
		}
	}
}
