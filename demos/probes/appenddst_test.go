package probe

import (
	"fmt"
	"regexp"
	"testing"

	"github.com/coregx/coregex"
)

// C04: AppendAllIndex(dst, h, n) == dst ++ FindAllIndex(h, n)
func TestAppendAllIndexKeepsDst(t *testing.T) {
	for _, p := range []string{`\d+`, `[a-z]+`, `a|ab`, `x*`} {
		re, std := coregex.MustCompile(p), regexp.MustCompile(p)
		for _, h := range []string{"a1 b22 c333", "", "abab"} {
			for _, n := range []int{-1, 0, 1, 2} {
				for _, dst := range [][][2]int{nil, {}, {{7, 9}}, append(make([][2]int, 0, 64), [2]int{7, 9}, [2]int{1, 2})} {
					want := append([][2]int{}, dst...)
					for _, m := range std.FindAllStringIndex(h, n) {
						want = append(want, [2]int{m[0], m[1]})
					}
					got := re.AppendAllStringIndex(dst, h, n)
					if fmt.Sprint(got) != fmt.Sprint(want) {
						t.Errorf("%q on %q n=%d dst=%v: got %v want %v", p, h, n, dst, got, want)
					}
				}
			}
		}
	}
}
