package probe

import (
	"fmt"
	"regexp"
	"testing"

	"github.com/coregx/coregex"
)

// ReverseSuffixSet: Find kept the LAST candidate of the whole haystack; the `.*` fast path skipped the
// verification of whatever stands between `.*` and the literal set; the end was the first suffix
// occurrence even when a greedy prefix runs over later ones.
func TestReverseSuffixSet(t *testing.T) {
	type pair struct {
		re  *coregex.Regex
		std *regexp.Regexp
	}
	cache := map[string]pair{}
	check := func(pat, in string) {
		pr, ok := cache[pat]
		if !ok {
			pr = pair{coregex.MustCompile(pat), regexp.MustCompile(pat)}
			cache[pat] = pr
		}
		re, std := pr.re, pr.std
		if got, want := fmt.Sprint(re.FindStringIndex(in)), fmt.Sprint(std.FindStringIndex(in)); got != want {
			t.Errorf("%s on %q: FindStringIndex %s, regexp %s", pat, in, got, want)
		}
		if got, want := re.MatchString(in), std.MatchString(in); got != want {
			t.Errorf("%s on %q: MatchString %v, regexp %v", pat, in, got, want)
		}
		if got, want := fmt.Sprint(re.FindAllStringIndex(in, -1)), fmt.Sprint(std.FindAllStringIndex(in, -1)); got != want {
			t.Errorf("%s on %q: FindAll %s, regexp %s", pat, in, got, want)
		}
	}
	check(`.*\.(txt|log|md)`, "a.txt\nb.log x.md y")
	check(`.*[a-z]+\.(txt|log)`, "1.txt")
	check(`.+(abab|babc)`, "xababc")
	// exhaustive over short strings
	alpha := []byte("ab.txl\n1")
	for _, pat := range []string{`.*\.(txt|log)`, `.+\.(tx|lo)`, `[a-z]+\.(tx|lo)`, `.*[a-z]+\.(tx|lo)`, `.+(ab|ba)`, `[ab.]+\.(tx|lo)`} {
		var rec func(buf []byte)
		n := 0
		rec = func(buf []byte) {
			if t.Failed() && n > 3 {
				return
			}
			before := t.Failed()
			check(pat, string(buf))
			if t.Failed() && !before {
				n++
			}
			if len(buf) == 6 {
				return
			}
			for _, c := range alpha {
				rec(append(buf, c))
			}
		}
		rec(nil)
	}
}
