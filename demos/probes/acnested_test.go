package probe

import (
	"regexp"
	"testing"

	"github.com/coregx/coregex"
	"github.com/coregx/coregex/meta"
)

func TestProbeACNested72(t *testing.T) {
	pat := "psirnr|rvngp|qfrhop|liqk|qgsq|sjyq|rkrffv|qsfmkk|xtrx|txwfmw|iwsrjw|ruho|oiwn|pmjkh|ojrx|lyuku|ujvos|slkvhi|iptros|lsosv|ygprvo|mwuo|khjwq|siyinl|sllmt|gfwlko|yxkpni|uplovu|ymfhqh|ukwn|puwgp|wunmy|lqsfg|ptow|ngisi|wxwt|kyif|pgojq|qikn|tkrv|tquhuv|rnuyjv|qyfhq|pikolh|qmkh|qmsu|vsfp|wofsg|uqggg|lqqjk|luswv|xsqfjf|lvwyxv|ngjtno|wyokr|rmopgx|uvtjwk|ovmqw|upfyw|pmxmji|jimigm|qjrp|iwwu|xiht|mrpk|jnkvuu|hnvy|yksqr|pwrys|vqqih|abcde|bcd"
	re, std := coregex.MustCompile(pat), regexp.MustCompile(pat)
	for _, h := range []string{"xabcde", "xxbcd abcde", "abcd"} {
		g, w := re.FindStringIndex(h), std.FindStringIndex(h)
		if len(g) != len(w) || (len(g) == 2 && (g[0] != w[0] || g[1] != w[1])) {
			t.Errorf("%q: coregex %v regexp %v", h, g, w)
		}
		ga, wa := re.FindAllStringIndex(h, -1), std.FindAllStringIndex(h, -1)
		if len(ga) != len(wa) {
			t.Errorf("%q: all %v vs %v", h, ga, wa)
		}
	}
}

// the small-haystack fallback of the Fat Teddy strategy (33..64 literals): Engine.Find vs FindIndices
func TestProbeFatTeddyFallbackNestedEngineFind(t *testing.T) {
	pat := "psirnr|rvngp|qfrhop|liqk|qgsq|sjyq|rkrffv|qsfmkk|xtrx|txwfmw|iwsrjw|ruho|oiwn|pmjkh|ojrx|lyuku|ujvos|slkvhi|iptros|lsosv|ygprvo|mwuo|khjwq|siyinl|sllmt|gfwlko|yxkpni|uplovu|ymfhqh|ukwn|puwgp|wunmy|lqsfg|ptow|ngisi|wxwt|kyif|pgojq|abcde|bcd"
	e, err := meta.Compile(pat)
	if err != nil {
		t.Fatal(err)
	}
	s, en, ok := e.FindIndices([]byte("xabcde"))
	m := e.Find([]byte("xabcde"))
	if !ok || m == nil || m.Start() != s || m.End() != en || s != 1 || en != 6 {
		t.Errorf("strategy %v: FindIndices [%d %d] %v, Find %v (want [1 6] from both)", e.Strategy(), s, en, ok, m)
	}
}
