package probe

import (
	"fmt"
	"regexp"
	"testing"

	"github.com/coregx/coregex"
)

// Ranges of supplementary-plane runes must match exactly their members (pinned tree: the 4-byte
// range compiler looked at the lead byte only, `[\x{10000}-\x{10200}]` matched U+20000) and a
// byte transition behind a non-multiline $ is never taken by the one-pass automaton.
func TestUTF8FourByteRangeExact(t *testing.T) {
	bounds := []rune{0x10000, 0x10001, 0x1003F, 0x10040, 0x10200, 0x10FFF, 0x11000, 0x1F600, 0x1FFFF, 0x20000, 0x2003F, 0x3FFFF, 0x40000, 0x40010, 0xFFFFF, 0x100000, 0x10FFFE, 0x10FFFF}
	probes := append([]rune{}, bounds...)
	for _, b := range bounds {
		probes = append(probes, b-1, b+1)
	}
	for _, lo := range bounds {
		for _, hi := range bounds {
			if hi < lo {
				continue
			}
			// > 256 members forces the range compiler; add a BMP filler range for small ones
			p := fmt.Sprintf(`^[\x{%X}-\x{%X}\x{4E00}-\x{4FFF}]$`, lo, hi)
			std := regexp.MustCompile(p)
			re := coregex.MustCompile(p)
			for _, r := range probes {
				if r > 0x10FFFF {
					continue
				}
				h := string(r)
				if std.MatchString(h) != re.MatchString(h) {
					t.Fatalf("%s on U+%X: std %v", p, r, std.MatchString(h))
				}
			}
		}
	}
}

func TestOnePassEndTextThenByte(t *testing.T) {
	for _, c := range []struct{ p, h string }{{`(a$)b`, "ab"}, {`(a|b$)c`, "bc"}, {`(a\z)b`, "ab"}, {`(a$)`, "a"}, {`(a$|b)c`, "bc"}, {`(x$)?y`, "xy"}} {
		std := regexp.MustCompile(c.p).FindStringSubmatchIndex(c.h)
		got := coregex.MustCompile(c.p).FindStringSubmatchIndex(c.h)
		if fmt.Sprint(std) != fmt.Sprint(got) {
			t.Errorf("%s on %q: std %v got %v", c.p, c.h, std, got)
		}
	}
}
