package probe

import (
	"fmt"
	"regexp"
	"testing"

	"github.com/coregx/coregex"
	"github.com/coregx/coregex/meta"
)

// captures of groups that match the empty string on an empty (or exhausted) haystack
func TestEmptyHaystackCaptures(t *testing.T) {
	for _, p := range []string{`(a*?)`, `(a*)`, `(a?)`, `()`, `(a*)(b*)`, `^(a*?)(a*)$`, `^(a*)$`, `(?:(a)|(b*))`, `x(a*)`, `(a*)+`, `(|a)`} {
		re, std := coregex.MustCompile(p), regexp.MustCompile(p)
		e, _ := meta.Compile(p)
		for _, h := range []string{"", "x", "b"} {
			g, w := fmt.Sprint(re.FindStringSubmatchIndex(h)), fmt.Sprint(std.FindStringSubmatchIndex(h))
			ga, wa := fmt.Sprint(re.FindAllStringSubmatchIndex(h, -1)), fmt.Sprint(std.FindAllStringSubmatchIndex(h, -1))
			if g != w || ga != wa {
				t.Errorf("%-14s %-22v on %-4q Submatch=%v want %v All=%v want %v", p, e.Strategy(), h, g, w, ga, wa)
			}
		}
	}
}
