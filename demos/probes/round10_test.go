package probe

// Round 10: defects of the unchanged tree reported by seeding agents, each confirmed here before it was repaired.

import (
	"reflect"
	"regexp"
	"runtime"
	"testing"

	"github.com/coregx/coregex"
	"github.com/coregx/coregex/meta"
)

func TestPreexistingCompositeRepeatZero(t *testing.T) {
	for _, c := range []struct{ pattern, input string }{
		{`[a-z]{0}[0-9]+`, "ab12"},
		{`[0-9]+[a-z]{0}`, "12ab"},
		{`[a-z][0-9]{0}[a-z]`, "a1b"},
		{`[a-z]+[0-9]{0,0}[a-z]+`, "a1b"},
	} {
		eng, _ := meta.Compile(c.pattern)
		std, re := regexp.MustCompile(c.pattern), coregex.MustCompile(c.pattern)
		b := []byte(c.input)
		if w, g := std.Match(b), re.Match(b); w != g {
			t.Errorf("[%v] Match(%q, %q) = %v, stdlib %v", eng.Strategy(), c.pattern, c.input, g, w)
		}
		if w, g := std.FindIndex(b), re.FindIndex(b); !reflect.DeepEqual(w, g) {
			t.Errorf("[%v] FindIndex(%q, %q) = %v, stdlib %v", eng.Strategy(), c.pattern, c.input, g, w)
		}
	}
}

// R-NEXTVALID: Compile panicked (index out of range [4294967295] in the one-pass builder) on an empty character
// class next to a capture group; regexp accepts both patterns (fix b00f1af).
func TestProbeEmptyClassWithCaptureCompiles(t *testing.T) {
	for _, p := range []string{`[^\x00-\x{10FFFF}](a)`, `(a)|[^\x00-\x{10FFFF}]`} {
		func() {
			defer func() {
				if r := recover(); r != nil {
					t.Errorf("%s: Compile panicked: %v", p, r)
				}
			}()
			re, err := coregex.Compile(p)
			if err != nil {
				t.Errorf("%s: %v (regexp accepts)", p, err)
				return
			}
			if g, w := re.FindStringSubmatchIndex("a"), regexp.MustCompile(p).FindStringSubmatchIndex("a"); !reflect.DeepEqual(g, w) {
				t.Errorf("%s on \"a\": %v, regexp %v", p, g, w)
			}
		}()
	}
}

// R-NESTEDSTATE: Count / FindAll hold the per-search state and resumed Teddy / Aho-Corasick searches at the end of
// the haystack (or in longest mode) took a second one from the pool, rebuilt after every GC (fix: the *AtWithState
// variants). Mallocs of a Count call that follows a GC, steady state.
func TestProbeNestedStateAfterGC(t *testing.T) {
	for _, pat := range []string{`foo|bar|baz`, `alpha|beta|gamma|delta|epsilon|zeta|eta|theta|iota|kappa`} {
		re := coregex.MustCompile(pat)
		h := []byte("xx foo bar zeta")
		for i := 0; i < 3; i++ {
			re.FindAllIndex(h, -1)
		}
		var ms runtime.MemStats
		total := uint64(0)
		for i := 0; i < 10; i++ {
			runtime.GC()
			runtime.ReadMemStats(&ms)
			before := ms.Mallocs
			n := re.Count(h, -1)
			runtime.ReadMemStats(&ms)
			total += ms.Mallocs - before
			_ = n
		}
		t.Logf("%s: %d mallocs in 10 Count calls each following a GC", pat, total)
		// Count is documented as zero-allocation; a rebuilt SearchState costs dozens of allocations
		if total > 5 {
			t.Errorf("%s: %d mallocs in 10 Count calls each following a GC (a SearchState is rebuilt per call)", pat, total)
		}
	}
}
