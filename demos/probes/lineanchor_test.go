package probe

import (
	"fmt"
	"regexp"
	"testing"

	"github.com/coregx/coregex"
	"github.com/coregx/coregex/meta"
)

// the (?m)^ wrapper checks a line start for EVERY candidate: only sound if every alternative begins with (?m)^
func TestLineAnchorWrapperScope(t *testing.T) {
	for _, p := range []string{`(?m)^foo|bar`, `(?m)(^foobar|bazquux\r)`, `(?m)^(?:foo|bar)`, `(?m)^foo|^bar`, `(?m)bar|^foo`, `(?m)(?:^foo|bar)baz`, `(?m)^foo|bar|^qux`, `(?m)foo^bar|baz`} {
		re, std := coregex.MustCompile(p), regexp.MustCompile(p)
		e, _ := meta.Compile(p)
		for _, h := range []string{"xbar", "foo\nxfoo bar", "xx bazquux\r", "foobar\nxfoobar", "barbaz foobaz\nfoobaz", "x qux\nqux bar"} {
			g, w := fmt.Sprint(re.FindAllStringIndex(h, -1)), fmt.Sprint(std.FindAllStringIndex(h, -1))
			gm, wm := re.MatchString(h), std.MatchString(h)
			if g != w || gm != wm {
				t.Errorf("%-28s %-10v on %-26q All=%v want %v Match=%v want %v", p, e.Strategy(), h, g, w, gm, wm)
			}
		}
	}
}
