package probe

import (
	"regexp"
	"testing"

	"github.com/coregx/coregex"
)

func TestRevSuffixLCS(t *testing.T) {
	for _, pat := range []string{`.*\.(e0z|e1z|e2z)`, `.*\.(e00z|e01z|e12z|e13z)`, `.*(fooz|barz)`, `[a-z]+(e0z|e1z|e2z|f3z)$`} {
		re := coregex.MustCompile(pat)
		std := regexp.MustCompile(pat)
		cmp3(t, "revsuf:"+pat, re, std, "file.e1z", "x.e0z y.e2z", "a.e13z", "abfooz", "qbarz barz", "abce2z", "xx f3z")
	}
}
