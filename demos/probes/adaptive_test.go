package probe

import (
	"fmt"
	"regexp"
	"testing"

	"github.com/coregx/coregex"
	"github.com/coregx/coregex/meta"
)

// UseBoth: a prefilter with FindMatch is taken for the whole match without a completeness test
func TestAdaptiveFindMatch(t *testing.T) {
	for _, p := range []string{`(?:foo|bar|baz)\d+`, `(?:foo|bar|baz)[a-z]*x`, `(foo|bar)(baz|qux)+\d`, `(?:alpha|beta|gamma)\s+\w+`, `(?:foo|foobar)\d`, `(?:abc|abd|abe|abf)+z`, `(foo|bar|baz|qux)\w*\.(txt|log)x?`} {
		re, std := coregex.MustCompile(p), regexp.MustCompile(p)
		e, _ := meta.Compile(p)
		for _, h := range []string{"xx foo123 bar", "foo bar9", "barbazqux7", "beta  version", "foobar1 foo2", "abcabdz", "fooooo.txt bar.logx"} {
			g, w := fmt.Sprint(re.FindStringIndex(h)), fmt.Sprint(std.FindStringIndex(h))
			ga, wa := fmt.Sprint(re.FindAllStringIndex(h, -1)), fmt.Sprint(std.FindAllStringIndex(h, -1))
			gf, wf := re.FindString(h), std.FindString(h)
			if g != w || ga != wa || gf != wf {
				t.Errorf("%-34s %-10v on %-22q Find=%v want %v All=%v want %v", p, e.Strategy(), h, g, w, ga, wa)
			}
		}
		t.Logf("%-34s %v", p, e.Strategy())
	}
}
