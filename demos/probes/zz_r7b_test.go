package probe

import (
	"fmt"
	"regexp"
	"testing"

	"github.com/coregx/coregex"
	"github.com/coregx/coregex/meta"
)

func TestR7B(t *testing.T) {
	pats := []string{`\pL+$`, `\pL$`, `[가-힣]+$`, `\p{Hangul}+$`, `[\x{CAC0}-\x{CAC2}]+$`, `é+$`, `[α-ω]+$`, `\p{Greek}+$`, `\p{Han}+$`, `\pL+\z`, `x\pL+$`, `\p{Cyrillic}+$`, `[^a]+$`}
	ins := []string{"쫁", "a쫁", "쫁쫁", "é", "aé", "ω", "日本", "xя", "я", "Ａ", "\U0001D400"}
	for _, p := range pats {
		std := regexp.MustCompile(p)
		re := coregex.MustCompile(p)
		e, _ := meta.Compile(p)
		for _, in := range ins {
			if std.MatchString(in) != re.MatchString(in) || fmt.Sprint(std.FindStringIndex(in)) != fmt.Sprint(re.FindStringIndex(in)) {
				t.Errorf("[%s] %s on %q: regexp %v %v coregex %v %v", e.Strategy(), p, in, std.MatchString(in), std.FindStringIndex(in), re.MatchString(in), re.FindStringIndex(in))
			}
		}
	}
}
