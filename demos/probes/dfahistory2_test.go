package probe

import (
	"fmt"
	"testing"

	"github.com/coregx/coregex/dfa/lazy"
	"github.com/coregx/coregex/meta"
	"github.com/coregx/coregex/nfa"
	"regexp/syntax"
)

func TestDFAHistoryLow(t *testing.T) {
	pat := `p*[p7]`
	e, _ := meta.Compile(pat)
	t.Log(e.Strategy())
	t.Log(e.FindIndices([]byte("7p")))
	t.Log(e.FindIndices([]byte("p")))
	t.Log(e.FindIndices([]byte("7p")))
	t.Log(e.FindAllIndicesStreaming([]byte("7p"), -1, nil))
	e2, _ := meta.Compile(pat)
	t.Log(e2.FindAllIndicesStreaming([]byte("p"), -1, nil))
	t.Log(e2.FindAllIndicesStreaming([]byte("7p"), -1, nil))

	// the DFA alone
	re, _ := syntax.Parse(pat, syntax.Perl)
	c := nfa.NewCompiler(nfa.DefaultCompilerConfig())
	n, err := c.CompileRegexp(re)
	if err != nil {
		t.Fatal(err)
	}
	d, err := lazy.CompileWithConfig(n, lazy.DefaultConfig())
	if err != nil {
		t.Fatal(err)
	}
	cache := d.NewCache()
	fmt.Println("fresh SearchAt(7p,0):", d.SearchAt(cache, []byte("7p"), 0))
	fmt.Println("SearchAt(p,0):", d.SearchAt(cache, []byte("p"), 0))
	fmt.Println("SearchAt(p,1):", d.SearchAt(cache, []byte("p"), 1))
	fmt.Println("warm SearchAt(7p,0):", d.SearchAt(cache, []byte("7p"), 0))
}
