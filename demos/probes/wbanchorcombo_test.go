package probe

import (
	"fmt"
	"regexp"
	"testing"

	"github.com/coregx/coregex"
)

// The lazy DFA answers "no match" when a line/text anchor is followed by a word boundary on the same
// epsilon path (a$\b on "a"). The strategy guard for such combinations applied to NFAs below 20 states
// only; larger patterns went to UseBoth, whose Match trusts a negative DFA answer while Find falls back.
func TestWordBoundaryAnchorCombo(t *testing.T) {
	for _, c := range []struct{ pat, in string }{
		{`.a{2,3}(?m:$)\b`, "1abfbbbaa"},
		{`\b(?m:^)[^a]+?`, "f."},
		{`[ab]*\b(\w+\b(?m:$)|x*?foo*?)x?`, "1a1\na "},
		{`a?\b\w?\w{2,3}|b*?b\.|\b(?m:^)[ab](?m:$)`, "a\na\n"},
		{`(?:error|warn|info)\w*(?m:$)\b`, "x error"},
	} {
		re := coregex.MustCompile(c.pat)
		std := regexp.MustCompile(c.pat)
		if got, want := re.MatchString(c.in), std.MatchString(c.in); got != want {
			t.Errorf("%s on %q: MatchString %v, regexp %v", c.pat, c.in, got, want)
		}
		if got, want := fmt.Sprint(re.FindStringIndex(c.in)), fmt.Sprint(std.FindStringIndex(c.in)); got != want {
			t.Errorf("%s on %q: FindStringIndex %s, regexp %s", c.pat, c.in, got, want)
		}
	}
}
