package probe

import (
	"fmt"
	"regexp"
	"testing"

	"github.com/coregx/coregex/dfa/lazy"
)

// R-CTXDROP (b): a search that starts at the end of a non-empty haystack is answered with the bytes before
// the position as context (fix 6e116d7; before it ^, (?m)^ and \B held at the end of "abc", \b did not).
func TestProbeLazyDFAAtEndKeepsContext(t *testing.T) {
	for _, pat := range []string{`^`, `(?m)^`, `\B`, `\b`, `$`, `(?m)$`, `x*`, `\B$`, `\b$`, `(?m)^$`, `a*\b`, `(?:\b|^)`, `^$`, `(?:\B|c)`, `c?\b`} {
		for _, hs := range []string{"abc", "ab ", "ab\n", ""} {
			d, err := lazy.CompilePattern(pat)
			if err != nil {
				t.Fatal(err)
			}
			h := []byte(hs)
			at := len(h)
			// an empty match at the end exists iff the whole haystack followed by the pattern matches up to \z
			// (FindAllIndex is no oracle here: it drops an empty match adjacent to the previous match)
			want := -1
			if regexp.MustCompile(fmt.Sprintf(`(?s)\A.{%d}(?:%s)\z`, at, pat)).Match(h) {
				want = at
			}
			cache := d.NewCache()
			if got := d.FindAt(cache, h, at); got != want {
				t.Errorf("%q on %q: FindAt(at=%d) = %d, want %d", pat, hs, at, got, want)
			}
			if got := d.SearchAtAnchored(cache, h, at); got != want {
				t.Errorf("%q on %q: SearchAtAnchored(at=%d) = %d, want %d", pat, hs, at, got, want)
			}
			if got := d.IsMatchAt(cache, h, at); got != (want >= 0) {
				t.Errorf("%q on %q: IsMatchAt(at=%d) = %v, want %v", pat, hs, at, got, want >= 0)
			}
		}
	}
}
