package probe

import (
	"regexp"
	"testing"

	"github.com/coregx/coregex/dfa/lazy"
)

// R-CTXDROP (b): a search that starts at the end of a non-empty haystack is answered with the bytes before
// the position as context (fix 6e116d7; before it ^, (?m)^ and \B held at the end of "abc", \b did not).
func TestProbeLazyDFAAtEndKeepsContext(t *testing.T) {
	for _, pat := range []string{`^`, `(?m)^`, `\B`, `\b`, `$`, `(?m)$`, `x*`} {
		for _, hs := range []string{"abc", "ab ", "ab\n", ""} {
			d, err := lazy.CompilePattern(pat)
			if err != nil {
				t.Fatal(err)
			}
			h := []byte(hs)
			at := len(h)
			want := -1
			for _, m := range regexp.MustCompile(pat).FindAllIndex(h, -1) {
				if m[0] == at {
					want = m[1]
				}
			}
			cache := d.NewCache()
			if got := d.FindAt(cache, h, at); got != want {
				t.Errorf("%q on %q: FindAt(at=%d) = %d, want %d", pat, hs, at, got, want)
			}
			if got := d.SearchAtAnchored(cache, h, at); got != want {
				t.Errorf("%q on %q: SearchAtAnchored(at=%d) = %d, want %d", pat, hs, at, got, want)
			}
			if got := d.IsMatchAt(cache, h, at); got != (want >= 0) {
				t.Errorf("%q on %q: IsMatchAt(at=%d) = %v, want %v", pat, hs, at, got, want >= 0)
			}
		}
	}
}
