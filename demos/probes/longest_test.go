package probe

import (
	"fmt"
	"regexp"
	"testing"

	"github.com/coregx/coregex"
	"github.com/coregx/coregex/meta"
)

// C10: every API honours Longest() under every strategy
func TestLongestAcrossStrategies(t *testing.T) {
	pats := []string{`a|ab`, `(a|ab)`, `(a|ab)(c|bcd)?`, `a+?`, `x(?:a|ab)`, `[a-c]+?d|[a-c]+`, `\d+?|\d+x`, `foo|foobar`, `(?:foo|foobar)\d?`, `.*?b|.*`, `\w+?@|\w+@\w+`, `^(?:a|ab)`, `(?:a|ab)$`,
		`\b(?:a|ab)`, `[a-z]+?\.txt|[a-z]+\.txtx`, `(?i)foo|foobar`, `a*?`, `(?:a|ab)+?`, `\d{1,2}?|\d+`, `one|oneself|two`, `foo|foobar|a1|b2|c3|d4|e5|f6|g7|h8`, `(?:foo|foobar|a1|b2|c3|d4|e5|f6|g7|h8)x?`, `(a|ab)(c|bcd)?`, `(\w{2,8}?|\w+x)+`, `(foo)|(foobar)`, `foo|foobar|bazqux`, `(?:foo|foobar|quxx)`, `foo|foob|fooba|foobar|a1|b2|c3|d4|e5|f6|g7|h8|i9|j0|k1|l2|m3|n4|o5|p6|q7|r8|s9|t0|u1|v2|w3|x4|y5|z6|aa|bb|cc|dd`}
	hs := []string{"ab", "abcd", "xab", "aab abd", "12x 345", "foobar1", "foobar", "ab@cd", "zz abc.txtx", "oneself two", "aaa"}
	seen := map[string]int{}
	for _, p := range pats {
		re, std := coregex.MustCompile(p), regexp.MustCompile(p)
		re.Longest()
		std.Longest()
		e, _ := meta.Compile(p)
		for _, h := range hs {
			chk := func(api string, g, w string) {
				if g != w {
					k := fmt.Sprint(e.Strategy()) + " " + api
					seen[k]++
					if seen[k] <= 2 {
						t.Errorf("%-26s %-22v %-22s on %-14q got %v want %v", p, e.Strategy(), api, h, g, w)
					}
				}
			}
			chk("FindStringIndex", fmt.Sprint(re.FindStringIndex(h)), fmt.Sprint(std.FindStringIndex(h)))
			chk("FindAllStringIndex", fmt.Sprint(re.FindAllStringIndex(h, -1)), fmt.Sprint(std.FindAllStringIndex(h, -1)))
			chk("FindStringSubmatchIndex", fmt.Sprint(re.FindStringSubmatchIndex(h)), fmt.Sprint(std.FindStringSubmatchIndex(h)))
			chk("FindAllStringSubmatchIndex", fmt.Sprint(re.FindAllStringSubmatchIndex(h, -1)), fmt.Sprint(std.FindAllStringSubmatchIndex(h, -1)))
			chk("ReplaceAllString", re.ReplaceAllString(h, "<$0>"), std.ReplaceAllString(h, "<$0>"))
			chk("CountString", fmt.Sprint(re.CountString(h, -1)), fmt.Sprint(len(std.FindAllStringIndex(h, -1))))
		}
	}
	for k, n := range seen {
		t.Logf("%-50s %d mismatches", k, n)
	}
}
