package probe

import (
	"regexp"
	"strings"
	"testing"

	"github.com/coregx/coregex"
)

func TestASCIIGuardPrefixOnly(t *testing.T) {
	p := `^/.*\.php`
	h := "/" + strings.Repeat("a", 5000) + "éb.php"
	re := coregex.MustCompile(p)
	std := regexp.MustCompile(p)
	if g, w := re.ReplaceAllLiteralString(h, "X"), std.ReplaceAllLiteralString(h, "X"); g != w {
		t.Errorf("ReplaceAllLiteralString differs: got len %d want len %d", len(g), len(w))
	}
	if g, w := len(re.FindAllStringIndex(h, -1)), len(std.FindAllStringIndex(h, -1)); g != w {
		t.Errorf("FindAll count %d want %d", g, w)
	}
	n := 0
	for range re.AllStringIndex(h) {
		n++
	}
	if n != 1 {
		t.Errorf("AllStringIndex yielded %d matches, want 1", n)
	}
}
