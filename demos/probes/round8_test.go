package probe

import (
	"bufio"
	"fmt"
	"math/rand"
	"regexp"
	"strings"
	"testing"
	"time"

	"github.com/coregx/coregex"
	"github.com/coregx/coregex/dfa/onepass"
	"github.com/coregx/coregex/nfa"
)

// Defects of the tree at dd01429 reported as pre-existing by round-8 seeding agents or found by the campaign; each
// repaired in /repo (f811220 .. 5d730bc). This file is a demonstration, not a registered check.
func TestRound8Reports(t *testing.T) {
	rnd := rand.New(rand.NewSource(7))
	ab := make([]byte, 16000)
	for i := range ab {
		ab[i] = "ab"[rnd.Intn(2)]
	}
	lits := []string{"abcd", "bc"}
	for i := 0; len(lits) < 70; i++ {
		lits = append(lits, fmt.Sprintf("q%03dz", i))
	}
	cases := []struct{ p, h string }{
		{`(?:\b|.){2,}`, "  ab c"}, {`(?:aa|a??){2,}`, "aaaaa"}, // x{n,} is n-1 copies and x+ (f811220)
		{`\w+@(\w+\.com)`, "joe@example.com"}, {`^ab(\d+cd)$`, "ab12cd"}, {`.*(?i:abcdefg---sxyz)`, "xxABCDEFG---SXYZ"}, // suffix literals across a cut (dedc96f)
		{`c[ab]{20}a[ab]*$`, "c" + string(ab)}, {`\d[ab]*a[ab]{14}[x-z]`, "7" + strings.Repeat("ab", 199990) + "a" + strings.Repeat("b", 14) + "x"}, // cache cleared under a scan (0a32373)
		{strings.Join(lits, "|"), "xabcd"},                                      // Aho-Corasick with a literal inside another (8e13d70)
		{`(?:^|,)[a-c]+d`, "7cd"}, {`(?:^|,)[a-c]+d`, "7cd,cd"}, {`(?:\A|;)\w+end`, "x wend"}, // assertion dropped by the reverse NFA (6308acf)
		{`[^ ]+(?:\dfoo|[a-z]food)`, "--xfood"}, {`[^ ]+(?:\dfoo|[a-z]food)`, "1foo xfood"}, // both suffix literals occur at the candidate (bdbdc72)
	}
	for _, c := range cases {
		std, re := regexp.MustCompile(c.p), coregex.MustCompile(c.p)
		w := fmt.Sprint(std.MatchString(c.h), std.FindStringIndex(c.h), std.FindAllStringIndex(c.h, -1), std.FindStringSubmatchIndex(c.h))
		g := fmt.Sprint(re.MatchString(c.h), re.FindStringIndex(c.h), re.FindAllStringIndex(c.h, -1), re.FindStringSubmatchIndex(c.h))
		if w != g {
			p, h := c.p, c.h
			if len(p) > 40 {
				p = p[:40] + "..."
			}
			if len(h) > 40 {
				h = h[:40] + "..."
			}
			t.Errorf("%s on %q: regexp %s, coregex %s", p, h, w, g)
		}
	}
	// reader offsets are stream offsets (401e551)
	for _, pat := range []string{`a`, `(a)(b)?`, `\x{FFFD}a`, `[^a]+`, `$`, `日(a)`} {
		std, re := regexp.MustCompile(pat), coregex.MustCompile(pat)
		for _, in := range []string{"\xffa", "\xff\xfe日a\xffab", "日\xffa", "x\xe6\x97a", "\xffa\xffa"} {
			w := fmt.Sprint(std.FindReaderIndex(strings.NewReader(in)), std.FindReaderSubmatchIndex(bufio.NewReader(strings.NewReader(in))), std.MatchReader(strings.NewReader(in)))
			g := fmt.Sprint(re.FindReaderIndex(strings.NewReader(in)), re.FindReaderSubmatchIndex(bufio.NewReader(strings.NewReader(in))), re.MatchReader(strings.NewReader(in)))
			if w != g {
				t.Errorf("reader %s on %q: regexp %s, coregex %s", pat, in, w, g)
			}
		}
	}
	// one-pass DFA driven directly: dead state 0 was the start state, IsMatch ignored end-only matches and the
	// start state (the two one-pass fixes)
	for _, pat := range []string{`a$`, `^a$`, `^(a)$`, `^a\z`, `^a*$`, `^ab?$`, `a*b`, `a*`, `(?:ab)*`, `(a)*`, `^a*`, `(?:a$)?`} {
		n, err := nfa.NewCompiler(nfa.CompilerConfig{UTF8: true, Anchored: true, MaxRecursionDepth: 100}).Compile(pat)
		if err != nil {
			t.Fatal(err)
		}
		d, err := onepass.Build(n)
		if err != nil {
			continue // not one-pass for this builder: declined
		}
		std := regexp.MustCompile(`^(?:` + pat + `)`)
		for _, in := range []string{"", "a", "ab", "aab", "abc", "a\n", "aa", "abab", "b"} {
			if g, w := d.IsMatch([]byte(in)), std.MatchString(in); g != w {
				t.Errorf("onepass %s IsMatch(%q)=%v, regexp %v", pat, in, g, w)
			}
			loc := std.FindStringSubmatchIndex(in)
			if got := d.Search([]byte(in), onepass.NewCache(d.NumCaptures())); got != nil && (loc == nil || got[0] != loc[0] || got[1] != loc[1]) {
				t.Errorf("onepass %s Search(%q)=%v, regexp %v", pat, in, got, loc)
			}
		}
	}
}

// Listed finding (C05, R-CANDLOOP 4): UseReverseInner verifies the suffix behind every inner-literal candidate with a
// forward scan of unbounded length. Not repaired; the test documents the growth and never fails.
func TestRound8ReverseInnerQuadratic(t *testing.T) {
	re, std := coregex.MustCompile(`\d+foo[a-z0-9]*[A-Z]`), regexp.MustCompile(`\d+foo[a-z0-9]*[A-Z]`)
	for _, k := range []int{2000, 4000, 8000} {
		in := strings.Repeat("1fooabababab", k)
		t0 := time.Now()
		m := re.MatchString(in)
		d1 := time.Since(t0)
		t0 = time.Now()
		sm := std.MatchString(in)
		t.Logf("k=%d coregex %v in %v, regexp %v in %v", k, m, d1, sm, time.Since(t0))
	}
}
