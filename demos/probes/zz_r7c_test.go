package probe

import (
	"fmt"
	"regexp"
	"strings"
	"testing"

	"github.com/coregx/coregex"
	"github.com/coregx/coregex/meta"
)

func TestR7C(t *testing.T) {
	for _, c := range []struct{ p, h string }{{`^([ab][ab]*)+$`, "ab"}, {`^([ab][ab]*)+$`, "abab"}, {`([ab][ab]*)+`, "ab"}, {`^(a[ab]*)+$`, "aab"}, {`^(\w\w*)+$`, "abc"}, {`^((a)|b)+$`, "ab"}} {
		std, re := regexp.MustCompile(c.p), coregex.MustCompile(c.p)
		e, _ := meta.Compile(c.p)
		if fmt.Sprint(std.FindStringSubmatchIndex(c.h)) != fmt.Sprint(re.FindStringSubmatchIndex(c.h)) {
			t.Errorf("[%s] %s on %q: regexp %v coregex %v", e.Strategy(), c.p, c.h, std.FindStringSubmatchIndex(c.h), re.FindStringSubmatchIndex(c.h))
		}
	}
	for _, c := range []struct{ p, h string }{{`(b[a-c]*)*`, "bbccb"}} {
		std, re := regexp.MustCompile(c.p), coregex.MustCompile(c.p)
		std.Longest()
		re.Longest()
		if fmt.Sprint(std.FindStringSubmatchIndex(c.h)) != fmt.Sprint(re.FindStringSubmatchIndex(c.h)) {
			t.Errorf("[longest] %s on %q: regexp %v coregex %v", c.p, c.h, std.FindStringSubmatchIndex(c.h), re.FindStringSubmatchIndex(c.h))
		}
	}
	// large haystack, longest mode
	in := strings.Repeat("1", 3) + strings.Repeat("a", 9_000_000)
	for _, p := range []string{`[0-9]+?[a-z]+?`} {
		std, re := regexp.MustCompile(p), coregex.MustCompile(p)
		std.Longest()
		re.Longest()
		e, _ := meta.Compile(p)
		w, g := std.FindStringIndex(in), re.FindStringIndex(in)
		if fmt.Sprint(w) != fmt.Sprint(g) {
			t.Errorf("[longest large %s] %s: regexp %v coregex %v", e.Strategy(), p, w, g)
		}
	}
}
