package probe

import (
	"regexp"
	"testing"

	"github.com/coregx/coregex"
	"github.com/coregx/coregex/meta"
)

func TestLoopArgStrategies(t *testing.T) {
	pats := []string{`\b(a|b|c)+`, `\B(a|b|c)+\B`, `(?m)^(a|b)+`, `\b[a-c]+x?`, `(\b[a-c])+`, `(?m)^[a-c]+$`, `\B[abc]+`, `(?:\B[a-c])+`, `\b(?:ab|cd)+\b`,
		`\b.*error.*`, `\B.+@example.+`, `(?m)^.*error.*$`, `\b\w+error\w+`, `.*\berror\b.*`, `\bx.*error.*`, `(a|b)+\b`, `^(a|b)+`, `(?m)(a|b)+$`}
	inputs := []string{"abc abc", "aabbcc", "xabcx abc", "ab\nab ab\nab", "an error here\nerror again x", "bob@example.com x@example.y", "xerrory xxerroryy", "x error y"}
	for _, p := range pats {
		re := coregex.MustCompile(p)
		std := regexp.MustCompile(p)
		e, _ := meta.Compile(p)
		bad := false
		for _, h := range inputs {
			ga, wa := re.FindAllStringIndex(h, -1), std.FindAllStringIndex(h, -1)
			gr, wr := re.ReplaceAllString(h, "<$0>"), std.ReplaceAllString(h, "<$0>")
			if !eqii(ga, wa) || gr != wr {
				bad = true
				t.Errorf("%-20s %-24v on %-30q All=%v want %v | Repl=%q want %q", p, e.Strategy(), h, ga, wa, gr, wr)
			}
		}
		if !bad {
			t.Logf("%-20s %-24v ok", p, e.Strategy())
		}
	}
}
