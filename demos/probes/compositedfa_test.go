package probe

import (
	"fmt"
	"regexp"
	"testing"

	"github.com/coregx/coregex"
)

// CompositeSequenceDFA: (1) after a dead transition the scan restarts at the dead byte, skipping start
// positions inside later parts whose class overlaps the first part's; (2) a minimum count above 1 is
// treated as 1.
func TestCompositeSequenceDFA(t *testing.T) {
	for _, c := range []struct{ pat, in string }{
		{`[a-z]+[0-9]+[a-z]+[!-/]+`, "a1ab1ab!"},
		{`[ax]+[by]+[ax]+[cz]+`, "abaabac"},
		{`[ab]{2,}[bc]+`, "bc"},
		{`[a-z]{3,}[0-9]+`, "ab1 abc2"},
	} {
		re := coregex.MustCompile(c.pat)
		std := regexp.MustCompile(c.pat)
		if got, want := fmt.Sprint(re.FindStringIndex(c.in)), fmt.Sprint(std.FindStringIndex(c.in)); got != want {
			t.Errorf("%s on %q: FindStringIndex %s, regexp %s", c.pat, c.in, got, want)
		}
		if got, want := re.MatchString(c.in), std.MatchString(c.in); got != want {
			t.Errorf("%s on %q: MatchString %v, regexp %v", c.pat, c.in, got, want)
		}
		if got, want := fmt.Sprint(re.FindAllStringIndex(c.in, -1)), fmt.Sprint(std.FindAllStringIndex(c.in, -1)); got != want {
			t.Errorf("%s on %q: FindAll %s, regexp %s", c.pat, c.in, got, want)
		}
	}
}

// exhaustive comparison with regexp over all strings of length <= 7 over a small alphabet
func TestCompositeSequenceDFAExhaustive(t *testing.T) {
	pats := []string{`[ab]+[bc]+`, `[ab]+[c]+[ab]+d+`, `a+[ab]+c+`, `[a-b]+[c-d]+[a-b]+[d]+`, `\w+\s+\d+`, `[ab]+[ab]+`, `[ab]+c+[abc]+d+`}
	alpha := []byte("abcd 1")
	for _, pat := range pats {
		re := coregex.MustCompile(pat)
		std := regexp.MustCompile(pat)
		var rec func(buf []byte)
		bad := 0
		rec = func(buf []byte) {
			if bad > 3 {
				return
			}
			if got, want := fmt.Sprint(re.FindAllIndex(buf, -1)), fmt.Sprint(std.FindAllIndex(buf, -1)); got != want {
				bad++
				t.Errorf("%s on %q: %s, regexp %s", pat, buf, got, want)
			}
			if len(buf) == 7 {
				return
			}
			for _, c := range alpha {
				rec(append(buf, c))
			}
		}
		rec(nil)
	}
}
