package probe

import (
	"fmt"
	"regexp"
	"strings"
	"testing"

	"github.com/coregx/coregex"
	"github.com/coregx/coregex/meta"
)

// Defects of the tree at 892afd4 reported as pre-existing by round-7 seeding agents; each repaired in /repo.
func TestRound7Reports(t *testing.T) {
	cases := []struct{ p, h string }{
		{`\pL+$`, "쫁"}, {`\pL+$`, "쫁쫁"}, {`\pL$`, "Ａ"}, {`\pL+\z`, "\U0001D400"}, // reverse DFA fallback read forwards
		{`[a-c]+(x*foo)\d*`, "axfoobfbx"}, {`\w+(\d?bar)\w*`, "ab1bar"}, // reverse-inner split literal behind x*
	}
	for _, c := range cases {
		std, re := regexp.MustCompile(c.p), coregex.MustCompile(c.p)
		if std.MatchString(c.h) != re.MatchString(c.h) || fmt.Sprint(std.FindStringIndex(c.h)) != fmt.Sprint(re.FindStringIndex(c.h)) {
			t.Errorf("%s on %q: regexp %v %v, coregex %v %v", c.p, c.h, std.MatchString(c.h), std.FindStringIndex(c.h), re.MatchString(c.h), re.FindStringIndex(c.h))
		}
	}
	// boundary shortcut declined for match-tagged DFA states (campaign seed 11)
	for _, c := range []struct{ p, h string }{{`\d.+\B[b]*`, "1xbaa"}, {`\d.+\B[^a]*`, "1xfbfbb1aa"}, {`\d.+\B[^a]*`, "1x1aa"}} {
		std, re := regexp.MustCompile(c.p), coregex.MustCompile(c.p)
		if w, g := fmt.Sprint(std.FindAllStringIndex(c.h, -1)), fmt.Sprint(re.FindAllStringIndex(c.h, -1)); w != g {
			t.Errorf("%s on %q: regexp %s, coregex %s", c.p, c.h, w, g)
		}
	}
	// one-pass builder merged capture masks
	for _, c := range []struct{ p, h string }{{`^([ab][ab]*)+$`, "ab"}, {`([ab][ab]*)+`, "abab"}, {`^(a[ab]*)+$`, "aab"}} {
		std, re := regexp.MustCompile(c.p), coregex.MustCompile(c.p)
		if w, g := fmt.Sprint(std.FindStringSubmatchIndex(c.h)), fmt.Sprint(re.FindStringSubmatchIndex(c.h)); w != g {
			t.Errorf("%s on %q: regexp %s, coregex %s", c.p, c.h, w, g)
		}
	}
	// large input, longest mode
	in := "111" + strings.Repeat("a", 9_000_000)
	std, re := regexp.MustCompile(`[0-9]+?[a-z]+?`), coregex.MustCompile(`[0-9]+?[a-z]+?`)
	std.Longest()
	re.Longest()
	if w, g := fmt.Sprint(std.FindStringIndex(in)), fmt.Sprint(re.FindStringIndex(in)); w != g {
		t.Errorf("longest, 9 MB: regexp %s, coregex %s", w, g)
	}
	if w, g := fmt.Sprint(std.FindAllStringIndex(in, 2)), fmt.Sprint(re.FindAllStringIndex(in, 2)); w != g {
		t.Errorf("longest, 9 MB, FindAll: regexp %s, coregex %s", w, g)
	}
	// case-folded literal without expansion
	cfg := meta.DefaultConfig()
	cfg.MaxLiterals = 1
	for _, c := range []struct{ p, h string }{{`x(?i:k)y`, "xKy"}, {`x(?i:k)y`, "xy"}, {`x(?i:k)yz`, "xyz xkyz"}} {
		e, err := meta.CompileWithConfig(c.p, cfg)
		if err != nil {
			t.Fatal(err)
		}
		s, en, ok := e.FindIndices([]byte(c.h))
		got := []int(nil)
		if ok {
			got = []int{s, en}
		}
		if w := regexp.MustCompile(c.p).FindStringIndex(c.h); fmt.Sprint(w) != fmt.Sprint(got) {
			t.Errorf("MaxLiterals=1 %s on %q: regexp %v, coregex %v", c.p, c.h, w, got)
		}
	}
}
