package probe

import (
	"fmt"
	"regexp"
	"testing"

	"github.com/coregx/coregex"
	"github.com/coregx/coregex/meta"
)

func TestReverseStart(t *testing.T) {
	for _, p := range []string{`p*[p7]`, `p*[pq]`, `a*[ab]`, `a*b`, `a*a`, `[a-c]*c`, `x*[xy]z?`} {
		re, std := coregex.MustCompile(p), regexp.MustCompile(p)
		e, _ := meta.Compile(p)
		for _, h := range []string{"4cpp8", "xppy", "pp", "cpp", "aab", "caab", "zaa", "zaaa", "bcc", "zxxy", "4cpp"} {
			g, w := fmt.Sprint(re.FindStringIndex(h)), fmt.Sprint(std.FindStringIndex(h))
			ga, wa := fmt.Sprint(re.FindAllStringIndex(h, -1)), fmt.Sprint(std.FindAllStringIndex(h, -1))
			if g != w || ga != wa {
				t.Errorf("%-10s %-8v on %-8q Find=%v want %v All=%v want %v", p, e.Strategy(), h, g, w, ga, wa)
			}
		}
	}
}
