package probe

import (
	"fmt"
	"regexp"
	"strings"
	"testing"

	"github.com/coregx/coregex/dfa/lazy"
)

func TestFlatTransStale(t *testing.T) {
	pats := []string{`[a-c]+x[d-f]+y`, `(foo|bar|baz)+qux`, `a[bc]*d[ef]*g`, `(ab|cd)*ef(gh|ij)*k`}
	bad := 0
	for _, pat := range pats {
		re := regexp.MustCompile(pat)
		for capB := 300; capB <= 2400; capB += 100 {
			cfg := lazy.DefaultConfig()
			cfg.CacheCapacityBytes = capB
			cfg.MaxCacheClears = 1000
			d, err := lazy.CompilePatternWithConfig(pat, cfg)
			if err != nil {
				continue
			}
			cache := d.NewCache()
			inputs := []string{
				strings.Repeat("abcabc", 5) + "xdefy",
				"zz foobarbazqux",
				"abcbcbdefefg tail",
				"ababcdcdefghijk",
				strings.Repeat("q", 50) + "aaxddy" + strings.Repeat("abcx", 10) + "foobazqux abdeg cdefk",
			}
			for rep := 0; rep < 3; rep++ {
				for _, in := range inputs {
					got := d.IsMatch(cache, []byte(in))
					want := re.MatchString(in)
					if got != want {
						bad++
						if bad < 6 {
							fmt.Printf("MISMATCH pat=%q cap=%d in=%q got=%v want=%v\n", pat, capB, in, got, want)
						}
					}
				}
			}
		}
	}
	if bad > 0 {
		t.Fatalf("%d mismatches", bad)
	}
}
