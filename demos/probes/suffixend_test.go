// preexisting_test.go -- place in the repository root (package coregex_test) and run
//
//	GOPROXY=off go test -mod=mod -vet=off -count=1 -run 'TestPreexisting' -v .
//
// These tests FAIL on the UNCHANGED library: they document violations of the
// "extracted literals are necessary for every match" property that exist at HEAD.
package probe

// Round 10 (C17 agent): suffix literals cut to MaxLiteralLen kept their beginning (fix bb7000f). P3 of the report
// (mixed Complete flags after the suffix walk stopped) is recorded as noticed in DESIGN.md, not repaired.

import (
	"regexp"
	"regexp/syntax"
	"strings"
	"testing"

	"github.com/coregx/coregex"
	"github.com/coregx/coregex/literal"
)

// P1: suffix extraction of a case-folded literal longer than MaxLiteralLen keeps
// the HEAD of the literal (generateCaseFoldVariants truncates b[:MaxLiteralLen],
// also when called from expandCaseFoldLiteralTail). With the limits meta uses
// (MaxLiterals 256, MaxLiteralLen 64) the reverse-suffix strategy then searches
// for a string no match ends with.
func TestPreexistingP1FoldedSuffixKeepsHead(t *testing.T) {
	digits := strings.Repeat("1234567890", 7) // 70 bytes
	pattern := `.*(?i:abc` + digits + `)`
	re, _ := syntax.Parse(pattern, syntax.Perl)
	ex := literal.New(literal.ExtractorConfig{MaxLiterals: 256, MaxLiteralLen: 64, MaxClassSize: 10})
	suf := ex.ExtractSuffixes(re)
	m := "abc" + digits // in L(pattern)
	ok := suf.IsEmpty()
	for i := 0; i < suf.Len(); i++ {
		ok = ok || strings.HasSuffix(m, string(suf.Get(i).Bytes))
	}
	if !ok {
		t.Errorf("match %q ends with none of the %d suffix literals (first: %q)", m, suf.Len(), suf.Get(0).Bytes)
	}
	h := "say ABC" + digits + " end"
	want := regexp.MustCompile(pattern).FindStringIndex(h)
	got := coregex.MustCompile(pattern).FindStringIndex(h)
	if len(got) != len(want) || (want != nil && (got[0] != want[0] || got[1] != want[1])) {
		t.Errorf("FindStringIndex = %v, stdlib = %v", got, want)
	}
}

// P2: same root cause at the literal level with small limits; also char classes
// (expandCharClass truncates the head of a multi-byte rune for suffixes too).
func TestPreexistingP2SmallMaxLiteralLenSuffix(t *testing.T) {
	cases := []struct {
		pattern string
		cfg     literal.ExtractorConfig
		match   string
	}{
		{`(?i:foo)`, literal.ExtractorConfig{MaxLiterals: 18, MaxLiteralLen: 2, MaxClassSize: 10, CrossProductLimit: 8}, "Foo"},
		{`(?i:ksa)`, literal.ExtractorConfig{MaxLiterals: 27, MaxLiteralLen: 4, MaxClassSize: 10, CrossProductLimit: 9}, "\u212A\u017Fa"},
		{`(?:x|é|k|foo)`, literal.ExtractorConfig{MaxLiterals: 35, MaxLiteralLen: 1, MaxClassSize: 10, CrossProductLimit: 2}, "é"},
	}
	for _, c := range cases {
		re, _ := syntax.Parse(c.pattern, syntax.Perl)
		suf := literal.New(c.cfg).ExtractSuffixes(re)
		if suf.IsEmpty() || suf.IsPartialCoverage() {
			continue
		}
		ok := false
		for i := 0; i < suf.Len(); i++ {
			ok = ok || strings.HasSuffix(c.match, string(suf.Get(i).Bytes))
		}
		if !ok {
			t.Errorf("%s %+v: match %q ends with none of the %d suffix literals", c.pattern, c.cfg, c.match, suf.Len())
		}
	}
}
