package probe

import (
	"regexp"
	"strings"
	"testing"

	"github.com/coregx/coregex"
	"github.com/coregx/coregex/meta"
)

func TestWordBoundaryAlternation(t *testing.T) {
	p := `(?iU)\b(eval|system|exec|execute|passthru|shell_exec|phpinfo)\b`
	e, _ := meta.Compile(p)
	re, std := coregex.MustCompile(p), regexp.MustCompile(p)
	for _, h := range []string{"phpinfo", " phpinfo", "Mozilla/5.0 Safari/537.36 phpinfo", strings.Repeat("Mozilla/5.0 Safari/537.36 phpinfo", 8), "x eval y", "exec", "execute"} {
		if g, w := re.MatchString(h), std.MatchString(h); g != w {
			t.Errorf("%v Match(%q)=%v want %v", e.Strategy(), h, g, w)
		}
		if g, w := re.FindStringIndex(h), std.FindStringIndex(h); (g == nil) != (w == nil) || (g != nil && (g[0] != w[0] || g[1] != w[1])) {
			t.Errorf("%v Find(%q)=%v want %v", e.Strategy(), h, g, w)
		}
	}
}
