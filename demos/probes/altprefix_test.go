package probe

import (
	"fmt"
	"regexp"
	"testing"

	"github.com/coregx/coregex"
	"github.com/coregx/coregex/meta"
)

// literal alternations where an earlier alternative is a proper prefix of a later one (leftmost-first must pick the earlier)
func TestAltPrefixPriority(t *testing.T) {
	for _, c := range []struct{ p, h string }{
		{`foo|foobar`, "foobar"},
		{`(foo|foobar)`, "foobar"},
		{`(?P<word>foo|foobar)`, "xx foobar"},
		{`foo|foobar|bazqux`, "foobar"},
		{`ab|abcd|abcdef`, "abcdef"},
		{`(?:foo|foobar)x?`, "foobarx"},
		{`foo|foobar|a1|b2|c3|d4|e5|f6|g7|h8`, "foobar"},
		{`foobar|foo`, "foobar"},
	} {
		re, std := coregex.MustCompile(c.p), regexp.MustCompile(c.p)
		e, _ := meta.Compile(c.p)
		g, w := fmt.Sprint(re.FindStringSubmatchIndex(c.h)), fmt.Sprint(std.FindStringSubmatchIndex(c.h))
		g2, w2 := fmt.Sprint(re.FindStringIndex(c.h)), fmt.Sprint(std.FindStringIndex(c.h))
		g3, w3 := fmt.Sprint(re.FindAllStringIndex(c.h, -1)), fmt.Sprint(std.FindAllStringIndex(c.h, -1))
		if g != w || g2 != w2 || g3 != w3 {
			t.Errorf("%-40s %-18v on %q Submatch=%v want %v Find=%v want %v All=%v want %v", c.p, e.Strategy(), c.h, g, w, g2, w2, g3, w3)
		} else {
			t.Logf("%-40s %-18v ok", c.p, e.Strategy())
		}
	}
}
