package probe

import (
	"testing"

	"github.com/coregx/coregex/dfa/lazy"
	"github.com/coregx/coregex/nfa"
	"regexp/syntax"
)

func TestDFAHistoryLow2(t *testing.T) {
	pat := `p*[p7]`
	re, _ := syntax.Parse(pat, syntax.Perl)
	c := nfa.NewCompiler(nfa.DefaultCompilerConfig())
	n, _ := c.CompileRegexp(re)
	d, _ := lazy.CompileWithConfig(n, lazy.DefaultConfig())
	// reverse
	rc := nfa.NewCompiler(nfa.DefaultCompilerConfig())
	_ = rc
	cache := d.NewCache()
	t.Log("SearchAt(p,0):", d.SearchAt(cache, []byte("p"), 0))
	t.Log("SearchAt(p,1):", d.SearchAt(cache, []byte("p"), 1))
	t.Log("warm SearchAt(7p,0):", d.SearchAt(cache, []byte("7p"), 0))
	t.Log("warm SearchAt(7p,1):", d.SearchAt(cache, []byte("7p"), 1))
	cache2 := d.NewCache()
	t.Log("fresh SearchAt(7p,0):", d.SearchAt(cache2, []byte("7p"), 0))
	t.Log("fresh SearchAt(7p,1):", d.SearchAt(cache2, []byte("7p"), 1))
	cache3 := d.NewCache()
	t.Log("fresh SearchAt(4cpp8,0):", d.SearchAt(cache3, []byte("4cpp8"), 0), "(want 4)")
	t.Log("fresh SearchAt(xppy,0):", d.SearchAt(cache3, []byte("xppy"), 0), "(want 3)")
}
