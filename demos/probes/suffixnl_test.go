package probe

import (
	"fmt"
	"regexp"
	"testing"

	"github.com/coregx/coregex"
)

// ReverseSuffix `.*` fast path with a newline inside the suffix literal: the line arithmetic cut the suffix.
func TestReverseSuffixNewlineInSuffix(t *testing.T) {
	for _, c := range []struct{ pat, in string }{
		{`.*x\nfoo`, "ax\nfoo bx\nfoo"},
		{`.*\nfoo`, "a\nfoo\nfoo"},
		{`.*;\n`, "a;\nb;\n"},
	} {
		re := coregex.MustCompile(c.pat)
		std := regexp.MustCompile(c.pat)
		if got, want := fmt.Sprint(re.FindStringIndex(c.in)), fmt.Sprint(std.FindStringIndex(c.in)); got != want {
			t.Errorf("%q on %q: FindStringIndex %s, regexp %s", c.pat, c.in, got, want)
		}
		if got, want := fmt.Sprint(re.FindAllStringIndex(c.in, -1)), fmt.Sprint(std.FindAllStringIndex(c.in, -1)); got != want {
			t.Errorf("%q on %q: FindAll %s, regexp %s", c.pat, c.in, got, want)
		}
	}
}
