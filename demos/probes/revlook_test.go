package probe

import (
	"fmt"
	"regexp"
	"testing"

	"github.com/coregx/coregex"
)

// The reverse NFA (nfa.ReverseAnchored, used by the bidirectional DFA strategy to find the match start)
// treats look-around assertions as epsilon edges: the reverse scan accepts start positions the assertion
// rules out.
func TestReverseNFAIgnoresAssertions(t *testing.T) {
	for _, c := range []struct{ pat, in string }{
		{`foo\b.*bar`, "foox foo bar"},
		{`a\b.*c`, "ara c"},
		{`\bfoo.*bar`, "xfoo foo bar"},
		{`(?m)^foo.*bar`, "xfoo\nfoo bar"},
		{`ab\B.*c`, "ab abx c"},
		{`x\b.*y\b.*z`, "xa x y z"},
		// strategy UseReverseAnchored (pattern ends in $): same reverse NFA
		{`\bfoo.*bar$`, "xfoo foo bar"},
		{`\b[a-z]+\.txt$`, "x1ab.txt"},
		{`[a-z]+\b.*\.txt$`, "abc1 de .txt"},
		{`x\b.*connection$`, "xa x connection"},
		// strategy UseReverseSuffix with a leading (?m)^
		{`(?m)^\w+\.txt`, "a b.txt\nc.txt"},
		{`(?m)^[a-z ]+\.txt`, "x\nab.txt"},
	} {
		re := coregex.MustCompile(c.pat)
		std := regexp.MustCompile(c.pat)
		if got, want := fmt.Sprint(re.FindStringIndex(c.in)), fmt.Sprint(std.FindStringIndex(c.in)); got != want {
			t.Errorf("%s on %q: FindStringIndex %s, regexp %s", c.pat, c.in, got, want)
		}
		if got, want := fmt.Sprint(re.FindAllStringIndex(c.in, -1)), fmt.Sprint(std.FindAllStringIndex(c.in, -1)); got != want {
			t.Errorf("%s on %q: FindAll %s, regexp %s", c.pat, c.in, got, want)
		}
	}
}
