package probe

import (
	"fmt"
	"regexp"
	"testing"

	"github.com/coregx/coregex"
	"github.com/coregx/coregex/meta"
)

// R-FOLD (4): the suffix extractor prepends the runes of a case-folded literal verbatim.
func TestSuffixFoldLiteral(t *testing.T) {
	for _, c := range []struct{ p, h string }{
		{`.*(?i:foo)(bar)`, "xx fOobar yy"},
		{`.*(?i:foo)(bar|baz)`, "xx foobaz yy"},
		{`\w+(?i:foo)(bar)`, "xxfoobar"},
		{`[a-z]+(?i:abc)(d)`, "zzAbcd"},
	} {
		re, std := coregex.MustCompile(c.p), regexp.MustCompile(c.p)
		e, _ := meta.Compile(c.p)
		g, w := fmt.Sprint(re.FindStringIndex(c.h)), fmt.Sprint(std.FindStringIndex(c.h))
		gm, wm := re.MatchString(c.h), std.MatchString(c.h)
		if g != w || gm != wm {
			t.Errorf("%-24s %-18v on %q Find=%v want %v Match=%v want %v", c.p, e.Strategy(), c.h, g, w, gm, wm)
		}
	}
}
