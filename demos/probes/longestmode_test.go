package probe

import (
	"fmt"
	"regexp"
	"testing"

	"github.com/coregx/coregex"
	"github.com/coregx/coregex/meta"
)

// Longest() is honoured by every strategy and every API (pinned tree: the reverse searchers, the branch
// dispatcher, the ASCII backtracker and the one-pass automaton reported leftmost-first spans in longest mode).
func TestLongestModeEveryStrategy(t *testing.T) {
	cases := []struct{ p, h string }{
		{`\w+ error(s|s found)?`, "two errors found here"},
		{`.*error(s|s found)?`, "two errors found here"},
		{`[a-z]+\.txt(x|xy)?`, "a.txtxy"},
		{`.*\.(txt|log)(x|xy)?`, "a.txtxy b.logxy"},
		{`(?m)^ab.*cd(e|ef)?`, "ab cdef"},
		{`(?m)^/.*\.php(x|xy)?`, "/a.phpxy\n/b.phpx"},
		{`[a-z.]*?\.txt`, "a.txt.txt"},
		{`\w*?\.txt`, "ab.txt.txt x.txt"},
		{`.*?\.(txt|log)`, "a.txt.log"},
		{`\w*?\.(txt|log|dat)`, "a.txt.log"},
		{`(?m)^/.*?\.php`, "/a.php.php\n/b.php"},
		{`(?m)^/.+?\.php`, "/a.php.php\n/b.php"},
		{`.*?foo\d??`, "foo1foo2"},
		{`(\d+?)-(\d+?)`, "12-34"},
		{`^(\w+?)@(\w+?)`, "ab@cd"},
		{`^(a+?|b)`, "aaab"},
		{`^(a\d+?|bc)`, "a123"},
		{`^(?:ax+?|bc|d)`, "axxx"},
		{`[a-z]+?[0-9]+?`, "abc123"},
		{`[a-z]+?`, "abc"},
		{`\d+?\.\d+?\.\d+?\.\d+?`, "10.20.30.40"},
		{`^(.|..)`, "abc"},
		{`^.+?b`, "abab"},
		{`^(a|ab)(c|bcd)?`, "abcd"},
		{`^(foo|foobar|x)`, "foobar"},
		{`^(ab|a\w+)`, "abcd"},
		{`^a(b)??`, "ab"},
		{`^(a+?)(b*?)`, "aabb"},
		{`(a|ab)(c|bcd)?$`, "xabcd"},
		{`[a-z]+[0-9]*?`, "abc123"},
		{`\w+\s+\d+?`, "ab  123"},
		{`\d+?`, "123 45"},
		{`(foo|foobar)`, "foobar"},
		{`x(a|ab)(c|bcd)?`, "xabcd"},
		{`\d+\.\d+?`, "1.234 5.67"},
		{`(?:a1|b1|x1|f1|o1|a12|b12|x12|fo)`, "a12 b12 fo"},
	}
	for _, c := range cases {
		std := regexp.MustCompile(c.p)
		std.Longest()
		re := coregex.MustCompile(c.p)
		re.Longest()
		e, _ := meta.Compile(c.p)
		strat := e.Strategy().String()
		for _, api := range []struct {
			name string
			w, g string
		}{
			{"FindStringIndex", fmt.Sprint(std.FindStringIndex(c.h)), fmt.Sprint(re.FindStringIndex(c.h))},
			{"FindStringSubmatchIndex", fmt.Sprint(std.FindStringSubmatchIndex(c.h)), fmt.Sprint(re.FindStringSubmatchIndex(c.h))},
			{"ReplaceAllLiteralString", std.ReplaceAllLiteralString(c.h, "_"), re.ReplaceAllLiteralString(c.h, "_")},
			{"FindAllStringIndex", fmt.Sprint(std.FindAllStringIndex(c.h, -1)), fmt.Sprint(re.FindAllStringIndex(c.h, -1))},
			{"FindAllStringSubmatchIndex", fmt.Sprint(std.FindAllStringSubmatchIndex(c.h, -1)), fmt.Sprint(re.FindAllStringSubmatchIndex(c.h, -1))},
			{"FindString", std.FindString(c.h), re.FindString(c.h)},
		} {
			if api.w != api.g {
				t.Errorf("[%s] %s %q on %q: regexp %v, coregex %v", strat, api.name, c.p, c.h, api.w, api.g)
			}
		}
	}
}
