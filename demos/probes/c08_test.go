package probe

import (
	"fmt"
	"regexp"
	"testing"

	"github.com/coregx/coregex"
)

// C08 probes: template grammar, rune-wise advance after an empty match, Split counts.
func TestC08Expand(t *testing.T) {
	pat := `(?P<first>\w+)\s(?P<second>\w+)(x)?(4)?(5)?(6)?(7)?(8)?(9)?(zz)?`
	re, std := coregex.MustCompile(pat), regexp.MustCompile(pat)
	src := "hello world"
	for _, tmpl := range []string{"$first", "${first}", "${second}-${first}", "$1x", "${1}x", "$10", "${10}", "$1_$2", "$$1", "$", "a$", "${", "${first", "$-", "$first$second", "${2}${1}", "$3", "$11", "$é", "${}", "$0"} {
		g, w := re.ReplaceAllString(src, tmpl), std.ReplaceAllString(src, tmpl)
		if g != w {
			t.Errorf("ReplaceAllString tmpl=%q got %q want %q", tmpl, g, w)
		}
		m := std.FindStringSubmatchIndex(src)
		g2, w2 := re.ExpandString([]byte("p:"), tmpl, src, m), std.ExpandString([]byte("p:"), tmpl, src, m)
		if string(g2) != string(w2) {
			t.Errorf("ExpandString tmpl=%q got %q want %q", tmpl, g2, w2)
		}
	}
}

func TestC08RuneAdvance(t *testing.T) {
	for _, p := range []string{``, `x*`, `\b`, `a?`, `(?:)`, `\pL*?`, `(é)?`} {
		re, std := coregex.MustCompile(p), regexp.MustCompile(p)
		for _, h := range []string{"é", "aé€😀b", "日本語", "a\xffb", "\xc3", "é x é"} {
			if g, w := fmt.Sprint(re.FindAllStringIndex(h, -1)), fmt.Sprint(std.FindAllStringIndex(h, -1)); g != w {
				t.Errorf("FindAllStringIndex %q on %q got %v want %v", p, h, g, w)
			}
			if g, w := re.ReplaceAllString(h, "-"), std.ReplaceAllString(h, "-"); g != w {
				t.Errorf("ReplaceAllString %q on %q got %q want %q", p, h, g, w)
			}
			if g, w := re.ReplaceAllString(h, "<$0>"), std.ReplaceAllString(h, "<$0>"); g != w {
				t.Errorf("ReplaceAllString$ %q on %q got %q want %q", p, h, g, w)
			}
			if g, w := re.ReplaceAllLiteralString(h, "-"), std.ReplaceAllLiteralString(h, "-"); g != w {
				t.Errorf("ReplaceAllLiteralString %q on %q got %q want %q", p, h, g, w)
			}
			if g, w := string(re.ReplaceAllFunc([]byte(h), func(b []byte) []byte { return []byte("-") })), string(std.ReplaceAllFunc([]byte(h), func(b []byte) []byte { return []byte("-") })); g != w {
				t.Errorf("ReplaceAllFunc %q on %q got %q want %q", p, h, g, w)
			}
			if g, w := fmt.Sprintf("%q", re.Split(h, -1)), fmt.Sprintf("%q", std.Split(h, -1)); g != w {
				t.Errorf("Split %q on %q got %v want %v", p, h, g, w)
			}
			if g, w := fmt.Sprint(re.FindAllStringSubmatchIndex(h, -1)), fmt.Sprint(std.FindAllStringSubmatchIndex(h, -1)); g != w {
				t.Errorf("FindAllStringSubmatchIndex %q on %q got %v want %v", p, h, g, w)
			}
			if g, w := re.CountString(h, -1), len(std.FindAllStringIndex(h, -1)); g != w {
				t.Errorf("CountString %q on %q got %v want %v", p, h, g, w)
			}
			var it [][2]int
			for m := range re.AllStringIndex(h) {
				it = append(it, m)
			}
			var ws [][2]int
			for _, m := range std.FindAllStringIndex(h, -1) {
				ws = append(ws, [2]int{m[0], m[1]})
			}
			if fmt.Sprint(it) != fmt.Sprint(ws) {
				t.Errorf("AllStringIndex %q on %q got %v want %v", p, h, it, ws)
			}
		}
	}
}

func TestC08Split(t *testing.T) {
	for _, p := range []string{`,`, `x*`, ``, `a`, `$`, `^`, `,+`, `\s*`} {
		re, std := coregex.MustCompile(p), regexp.MustCompile(p)
		for _, h := range []string{"", "a,b,c", "abc", ",a,,b,", "axb", "a", ",", "a b  c"} {
			for _, n := range []int{-1, 0, 1, 2, 3, 10} {
				g, w := re.Split(h, n), std.Split(h, n)
				if fmt.Sprintf("%q", g) != fmt.Sprintf("%q", w) || (g == nil) != (w == nil) {
					t.Errorf("Split %q on %q n=%d got %q (nil=%v) want %q (nil=%v)", p, h, n, g, g == nil, w, w == nil)
				}
			}
		}
	}
}
