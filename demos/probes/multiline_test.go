package probe

import (
	"fmt"
	"regexp"
	"testing"

	"github.com/coregx/coregex"
	"github.com/coregx/coregex/meta"
)

// MultilineReverseSuffix (patterns beginning with (?m)^ that have a suffix literal): the fast path
// (prefix literal at the line start + a suffix occurrence = match up to the FIRST suffix) was used for
// every pattern of the strategy, and a resumed search treated its offset as a line start.
func TestMultilineReverseSuffix(t *testing.T) {
	pats := []string{`(?m)^/.*\.p`, `(?m)^/.*?\.p`, `(?m)^x{2,3}.+?\.`, `(?m)^/[a-z]+\.p`, `(?m)^/.+\.p`, `(?m)^ab.*bc`, `(?m)^/.*p/`, `(?m)^(?:/|x).*\.p`}
	alpha := []byte("/.pxab\n")
	for _, pat := range pats {
		re := coregex.MustCompile(pat)
		std := regexp.MustCompile(pat)
		e, _ := meta.Compile(pat)
		bad := 0
		var rec func(buf []byte)
		rec = func(buf []byte) {
			if bad > 2 {
				return
			}
			in := string(buf)
			if got, want := fmt.Sprint(re.FindAllStringIndex(in, -1)), fmt.Sprint(std.FindAllStringIndex(in, -1)); got != want {
				bad++
				t.Errorf("%s (%v) on %q: FindAll %s, regexp %s", pat, e.Strategy(), in, got, want)
			} else if got, want := fmt.Sprint(re.FindStringIndex(in)), fmt.Sprint(std.FindStringIndex(in)); got != want {
				bad++
				t.Errorf("%s (%v) on %q: Find %s, regexp %s", pat, e.Strategy(), in, got, want)
			} else if re.MatchString(in) != std.MatchString(in) {
				bad++
				t.Errorf("%s (%v) on %q: Match %v, regexp %v", pat, e.Strategy(), in, re.MatchString(in), std.MatchString(in))
			}
			if len(buf) == 7 {
				return
			}
			for _, c := range alpha {
				rec(append(buf, c))
			}
		}
		rec(nil)
	}
}
