package probe

import (
	"fmt"
	"math/rand"
	"regexp"
	"testing"

	"github.com/coregx/coregex"
)

// After the lazy DFA's cache has overflowed once (a pattern with ~2^15 DFA states on a long haystack),
// later searches on the same Regex are compared with regexp.
func TestAfterCacheOverflow(t *testing.T) {
	rng := rand.New(rand.NewSource(1))
	buf := make([]byte, 200000)
	for i := range buf {
		buf[i] = "ab"[rng.Intn(2)]
	}
	warm := string(buf)
	for _, pat := range []string{`\Bz[ab]*a[ab]{14}`, `z[ab]*a[ab]{14}`, `(?:^|,)z[ab]*a[ab]{14}`, `\bz[ab]*a[ab]{14}c?`} {
		re := coregex.MustCompile(pat)
		std := regexp.MustCompile(pat)
		for _, in := range []string{"xz" + warm, "x,z" + warm[:300], "xz" + warm[:60] + " xz" + warm[100:140], "z" + warm} {
			if got, want := fmt.Sprint(re.FindStringIndex(in)), fmt.Sprint(std.FindStringIndex(in)); got != want {
				t.Errorf("%s on input of %d bytes: FindStringIndex %s, regexp %s", pat, len(in), got, want)
			}
			if got, want := re.MatchString(in), std.MatchString(in); got != want {
				t.Errorf("%s on input of %d bytes: MatchString %v, regexp %v", pat, len(in), got, want)
			}
			if len(in) < 1000 {
				if got, want := fmt.Sprint(re.FindAllStringIndex(in, -1)), fmt.Sprint(std.FindAllStringIndex(in, -1)); got != want {
					t.Errorf("%s on input of %d bytes: FindAll %s, regexp %s", pat, len(in), got, want)
				}
			}
		}
	}
}
