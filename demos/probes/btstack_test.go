package probe

import (
	"regexp"
	"strings"
	"testing"

	"github.com/coregx/coregex"
)

// The bounded backtracker does not recurse once per input byte (pinned tree: ^(\w+\s*)+$ on a 2 MB line killed
// the process with "fatal error: stack overflow" in Match, Find and FindAll; a fatal error cannot be recovered,
// so with the defect present this test takes the whole test binary down).
func TestBacktrackerDeepInputNoStackOverflow(t *testing.T) {
	in := strings.Repeat("ab ", 2000000/3) + "ab"
	for _, p := range []string{`^(\w+\s*)+$`, `^(?:\w+ ?)+\b`} {
		std, re := regexp.MustCompile(p), coregex.MustCompile(p)
		if std.MatchString(in) != re.MatchString(in) {
			t.Errorf("%s: Match differs", p)
		}
		w, g := std.FindStringIndex(in), re.FindStringIndex(in)
		if len(w) != len(g) || (len(w) == 2 && (w[0] != g[0] || w[1] != g[1])) {
			t.Errorf("%s: regexp %v coregex %v", p, w, g)
		}
		if n := len(re.FindAllStringIndex(in, -1)); n != len(std.FindAllStringIndex(in, -1)) {
			t.Errorf("%s: FindAll count %d", p, n)
		}
	}
}
