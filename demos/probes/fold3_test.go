package probe

import (
	"regexp"
	"testing"

	"github.com/coregx/coregex"
)

func TestFoldOrbit(t *testing.T) {
	pats := []string{`(?i)k`, `(?i)risk`, `(?i:é)`, `(?i)straße`, `(?i)^k+x`, `(?i)desk\d+`, `(?i)привет`, `(?i)[a-z]k`, `(?i)σ`, `a(?i:k)b`}
	inputs := []string{"k", "K", "K", "RIſK", "risk", "É", "é", "STRASSE", "straße", "Kx", "KKx", "DEſK12", "ПРИВЕТ", "привет", "ak", "aK", "Σ", "ς", "σ", "aKb", "aKb"}
	for _, p := range pats {
		re := coregex.MustCompile(p)
		std := regexp.MustCompile(p)
		for _, h := range inputs {
			if g, w := re.FindStringIndex(h), std.FindStringIndex(h); !eqi(g, w) {
				t.Errorf("%s on %q: Find=%v want %v", p, h, g, w)
			}
			if g, w := re.MatchString(h), std.MatchString(h); g != w {
				t.Errorf("%s on %q: Match=%v want %v", p, h, g, w)
			}
		}
	}
}
