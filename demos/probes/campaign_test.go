package probe

import (
	"fmt"
	"math/rand"
	"os"
	"regexp"
	"sort"
	"strconv"
	"strings"
	"testing"

	"github.com/coregx/coregex"
	"github.com/coregx/coregex/meta"
)

func genAtom(r *rand.Rand, d int) string {
	if os.Getenv("FUZZALPHA") == "unicode" && r.Intn(3) == 0 {
		if os.Getenv("FUZZNOANY") != "" {
			// without the atoms that accept a lone invalid byte (known design limit: they also match inside a rune)
			return []string{`\pL`, `[α-ω]`, `\p{Greek}`, `é`, `日`, `\pL+`, `ω`, `(?i:é)`, `[é日]`, `\p{Han}`, `쫁`, `[\x{10000}-\x{1FFFF}]`}[r.Intn(12)]
		}
		return []string{`\pL`, `[α-ω]`, `\p{Greek}`, `é`, `日`, `[^a]`, `\PL`, `(?i:é)`, `[é日]`, `\p{Han}`, `쫁`, `[\x{10000}-\x{1FFFF}]`}[r.Intn(12)]
	}
	if os.Getenv("FUZZGRAM") == "2" && r.Intn(2) == 0 {
		return []string{`\d`, `\d+`, `[a-z]+`, `\s`, `(?:ab|cd)`, `^`, `$`, `[0-9a-f]`, `\w+`, `\s+`, `[^\s]`, `1`, `-`, `\.`, `(?:x|xy)`, `[a-z]*`, `\S+`}[r.Intn(17)]
	}
	switch r.Intn(16) {
	case 0:
		return "a"
	case 1:
		return "b"
	case 2:
		return "."
	case 3:
		return "[ab]"
	case 4:
		return `\w`
	case 5:
		return `\d`
	case 6:
		return `\b`
	case 7:
		return "foo"
	case 8:
		return `\.`
	case 9:
		return "x"
	case 10:
		return `[^a]`
	case 11:
		return `(?m:^)`
	case 12:
		return `(?m:$)`
	case 13:
		return `\B`
	case 14:
		return `(?i:fo)`
	case 15:
		if os.Getenv("FUZZLONG") != "" {
			return []string{"(foo|bar|bax|fob)", `\d+`, "abx", `(?:a1|b1|x1|f1|o1|a.|b.|x.|fo)`}[r.Intn(4)]
		}
	}
	if d > 2 {
		return "c"
	}
	return "(" + genRe(r, d+1) + ")"
}
func genPiece(r *rand.Rand, d int) string {
	a := genAtom(r, d)
	if os.Getenv("FUZZNOANY") != "" {
		for a == "." || a == `[^a]` || a == `\B` || a == `\b` {
			a = genAtom(r, d)
		}
	}
	if strings.HasPrefix(a, `\b`) || strings.HasPrefix(a, `\B`) || strings.HasPrefix(a, "(?m") || a == "^" || a == "$" {
		return a
	}
	switch r.Intn(9) {
	case 0:
		return a + "*"
	case 1:
		return a + "+"
	case 2:
		return a + "?"
	case 3:
		return a + "{2,3}"
	case 4:
		return a + "+?"
	case 5:
		return a + "*?"
	}
	return a
}
func genConcat(r *rand.Rand, d int) string {
	n := 1 + r.Intn(4)
	s := ""
	for i := 0; i < n; i++ {
		s += genPiece(r, d)
	}
	return s
}
func genRe(r *rand.Rand, d int) string {
	n := 1
	if r.Intn(4) == 0 {
		n = 2 + r.Intn(2)
	}
	var parts []string
	for i := 0; i < n; i++ {
		parts = append(parts, genConcat(r, d))
	}
	return strings.Join(parts, "|")
}

// TestDifferentialCampaign is a dev aid (FUZZ=<seed> to run): random small patterns and inputs compared with
// regexp (FUZZMODE=longest: both in leftmost-longest mode), mismatches grouped by strategy. It found the word-boundary/anchor combination defect of UseBoth.
func TestDifferentialCampaign(t *testing.T) {
	seed, err := strconv.Atoi(os.Getenv("FUZZ"))
	if err != nil {
		t.Skip("set FUZZ=<seed>")
	}
	rng := rand.New(rand.NewSource(int64(seed)))
	alpha := []byte("abx.fo1 \nFO")
	if os.Getenv("FUZZGRAM") == "2" {
		alpha = []byte("abx.fo1 \n-2cdy9 ")
	}
	cats := map[string][]string{}
	for k := 0; k < 8000; k++ {
		pat := genRe(rng, 0)
		std, err := regexp.Compile(pat)
		if err != nil {
			continue
		}
		re, err := coregex.Compile(pat)
		if err != nil {
			continue
		}
		e, _ := meta.Compile(pat)
		if os.Getenv("FUZZMODE") == "longest" {
			std.Longest()
			re.Longest()
		}
		for i := 0; i < 60; i++ {
			n := rng.Intn(12)
			if os.Getenv("FUZZLONG") != "" {
				n = 20 + rng.Intn(60)
			}
			b := make([]byte, n)
			for j := range b {
				b[j] = alpha[rng.Intn(len(alpha))]
			}
			in := string(b)
			if os.Getenv("FUZZALPHA") == "unicode" {
				ua := []string{"a", "b", "x", "é", "日", "쫁", "𝐀", "ω", " ", "\n", "Ａ", "1"}
				in = ""
				for j := 0; j < n; j++ {
					in += ua[rng.Intn(len(ua))]
				}
			}
			a, w := fmt.Sprint(re.FindAllStringIndex(in, -1)), fmt.Sprint(std.FindAllStringIndex(in, -1))
			if a != w || re.MatchString(in) != std.MatchString(in) || fmt.Sprint(re.FindStringSubmatchIndex(in)) != fmt.Sprint(std.FindStringSubmatchIndex(in)) {
				key := e.Strategy().String()
				if len(cats[key]) < 6 {
					cats[key] = append(cats[key], fmt.Sprintf("%q on %q: all %s vs %s; sub %v vs %v; match %v vs %v", pat, in, a, w, re.FindStringSubmatchIndex(in), std.FindStringSubmatchIndex(in), re.MatchString(in), std.MatchString(in)))
				}
				break
			}
		}
	}
	var ks []string
	for k := range cats {
		ks = append(ks, k)
	}
	sort.Strings(ks)
	for _, k := range ks {
		fmt.Println("==", k)
		for _, l := range cats[k] {
			fmt.Println("  ", l)
		}
	}
}
