package probe

import (
	"regexp"
	"testing"

	"github.com/coregx/coregex"
	"github.com/coregx/coregex/meta"
)

func TestMultilineSuffix(t *testing.T) {
	pats := []string{`(?m)^/.*\.php`, `(?m)^.*\.php`, `(?m)^/.*?\.php`, `(?m)^[a-z]+.*\.php`, `(?m)^/.+\.php`}
	inputs := []string{"/x.php/y.php", "/x.php/y.php\n/z.php", "a/x.php q\n/b.php.php z", "ab.php.php", "zz\n/q.phpx.php\n"}
	for _, p := range pats {
		re := coregex.MustCompile(p)
		std := regexp.MustCompile(p)
		e, _ := meta.Compile(p)
		for _, h := range inputs {
			g, w := re.FindStringIndex(h), std.FindStringIndex(h)
			ga, wa := re.FindAllStringIndex(h, -1), std.FindAllStringIndex(h, -1)
			if !eqi(g, w) || !eqii(ga, wa) {
				t.Errorf("%-22s %-26v on %-26q Find=%v want %v | All=%v want %v", p, e.Strategy(), h, g, w, ga, wa)
			}
		}
	}
}
