package probe

import (
	"fmt"
	"regexp"
	"testing"

	"github.com/coregx/coregex"
)

// The anchored first-byte rejection filter (nfa.ExtractFirstBytes) treated an assertion that stands alone
// as a branch as "contributes no byte, fine": the branch can match empty, so the first byte is unconstrained.
func TestFirstByteFilterAssertionBranch(t *testing.T) {
	for _, c := range []struct{ pat, in string }{
		{`^(a|(?m:$))`, "\nb"},
		{`^(?:a|(?m:$))\n?b`, "\nb"},
		{`^(?:abc|(?m:$)\nxyz)+`, "\nxyz"},
		{`^(?:abc+|(?m:^)-x+)`, "-x"},
		{`^(?:abc|\B-x)`, "-x"},
	} {
		re := coregex.MustCompile(c.pat)
		std := regexp.MustCompile(c.pat)
		if got, want := fmt.Sprint(re.FindStringIndex(c.in)), fmt.Sprint(std.FindStringIndex(c.in)); got != want {
			t.Errorf("%s on %q: FindStringIndex %s, regexp %s", c.pat, c.in, got, want)
		}
		if got, want := re.MatchString(c.in), std.MatchString(c.in); got != want {
			t.Errorf("%s on %q: MatchString %v, regexp %v", c.pat, c.in, got, want)
		}
	}
}
