package probe

import (
	"regexp"
	"testing"

	"github.com/coregx/coregex"
)

func TestRevSuffixFastPath(t *testing.T) {
	for _, pat := range []string{`.*[ab]\.txt`, `.*\d\.txt`, `.*x?\.txt`, `.*(a|b)\.txt`, `.*\.txt`} {
		re := coregex.MustCompile(pat)
		std := regexp.MustCompile(pat)
		cmp3(t, "revsuf2:"+pat, re, std, "zz.txt", "a.txt", "9.txt q.txt", "foo.txt\nba.txt", "x.txt.txt")
	}
}
