package probe

import (
	"regexp"
	"strings"
	"testing"

	"github.com/coregx/coregex"
	"github.com/coregx/coregex/meta"
)

func TestLookBehindAtResume(t *testing.T) {
	pats := []string{`\B[a-c]+`, `\b[a-c]+`, `(?m)^[a-c]+`, `\b(a|b|c)+`, `\B(a|b|c)+\B`, `[a-c]+\b|\Bx`, `(\w)\B(\w)`, `\b\w\B`, `(?m)^(a|b)+$`, `^/.*\.php`, `\B.\b`, `(?:\b|\B)[ab]+`}
	inputs := []string{"abc abc", "aabbcc", "a b c", "xabcx abc", "ab\nab ab\nab", "/a.php/b.php", "ab ab ab", strings.Repeat("ab ", 5)}
	for _, p := range pats {
		re := coregex.MustCompile(p)
		std := regexp.MustCompile(p)
		e, _ := meta.Compile(p)
		for _, h := range inputs {
			ga, wa := re.FindAllStringIndex(h, -1), std.FindAllStringIndex(h, -1)
			if !eqii(ga, wa) {
				t.Errorf("%-18s %-24v on %-16q All=%v want %v", p, e.Strategy(), h, ga, wa)
			}
			gr, wr := re.ReplaceAllString(h, "<$0>"), std.ReplaceAllString(h, "<$0>")
			if gr != wr {
				t.Errorf("%-18s %-24v on %-16q Replace=%q want %q", p, e.Strategy(), h, gr, wr)
			}
		}
	}
}
