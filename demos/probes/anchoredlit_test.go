package probe

import (
	"fmt"
	"regexp"
	"testing"

	"github.com/coregx/coregex"
	"github.com/coregx/coregex/meta"
)

// UseAnchoredLiteral: the default dot does not match '\n'; (?m) anchors are line anchors
func TestAnchoredLiteralNewline(t *testing.T) {
	pats := []string{`^/.*\.php$`, `^/.+\.php$`, `(?s)^/.*\.php$`, `^/.*[\w-]+\.php$`, `^.*\.txt$`, `(?m)^/.*\.php$`, `(?m)^/.*[\w-]+\.php$`, `^/.*[\s\w]+\.php$`, `\A/.*\.php\z`}
	hs := []string{"/a.php", "/a\nb.php", "/a\n.php", "/\n.php", "x\n/a.php", "/a.php\n", "/a.php\nx", "/ab\n\ncd.php", "/a \n b.php", "/.php", "a.txt", "a\n.txt"}
	for _, p := range pats {
		re, std := coregex.MustCompile(p), regexp.MustCompile(p)
		e, _ := meta.Compile(p)
		for _, h := range hs {
			gm, wm := re.MatchString(h), std.MatchString(h)
			g, w := fmt.Sprint(re.FindStringIndex(h)), fmt.Sprint(std.FindStringIndex(h))
			ga, wa := fmt.Sprint(re.FindAllStringIndex(h, -1)), fmt.Sprint(std.FindAllStringIndex(h, -1))
			if gm != wm || g != w || ga != wa {
				t.Errorf("%-24s %-22v on %-14q Match=%v want %v Find=%v want %v All=%v want %v", p, e.Strategy(), h, gm, wm, g, w, ga, wa)
			}
		}
	}
}
