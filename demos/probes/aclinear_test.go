package probe

import (
	"strings"
	"testing"
	"time"

	"github.com/coregx/coregex"
)

func TestProbeAhoCorasickMatchLinear(t *testing.T) {
	var lits []string
	for _, c := range "0123456789ABCDEFGHIJKLMNOPQRSTUVWXYZabcdefghijklmnopqrstuvwxyz#%&!~" {
		lits = append(lits, string(c)+"qz")
	}
	re := coregex.MustCompile(strings.Join(lits, "|"))
	var prev time.Duration
	for _, n := range []int{32000, 128000} {
		h := []byte(strings.Repeat("a.", n/2))
		t0 := time.Now()
		if re.Match(h) {
			t.Fatal("unexpected match")
		}
		d := time.Since(t0)
		t.Logf("n=%d Match %v", n, d)
		if prev > 0 && d > 12*prev && d > 200*time.Millisecond {
			t.Errorf("Match grew %v -> %v for 4x the input", prev, d)
		}
		prev = d
	}
}
