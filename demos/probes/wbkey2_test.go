package probe

import (
	"testing"

	"github.com/coregx/coregex"
)

func TestWordBoundaryAlternationFresh(t *testing.T) {
	p := `(?iU)\b(eval|system|exec|execute|passthru|shell_exec|phpinfo)\b`
	for _, h := range []string{"Mozilla/5.0 Safari/537.36 phpinfo", "a phpinfo", "/5 phpinfo", "M phpinfo", "Mo phpinfo", "Safari phpinfo", "S phpinfo", "e phpinfo", "s phpinfo", "x phpinfo", "ex phpinfo"} {
		re := coregex.MustCompile(p)
		t.Logf("fresh Match(%q)=%v Find=%v", h, re.MatchString(h), coregex.MustCompile(p).FindStringIndex(h))
	}
}
