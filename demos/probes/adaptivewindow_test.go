package probe

import (
	"fmt"
	"math/rand"
	"regexp"
	"testing"

	"github.com/coregx/coregex"
)

// Strategy UseBoth: after the forward DFA found the end of the match the PikeVM was restarted at end-100
// as an estimate of the start, so a match longer than 100 bytes was lost (Find) while Match said true.
func TestAdaptiveWindowLosesLongMatch(t *testing.T) {
	rng := rand.New(rand.NewSource(1))
	buf := make([]byte, 200)
	for i := range buf {
		buf[i] = "ab"[rng.Intn(2)]
	}
	text := "x,z" + string(buf)
	for _, pat := range []string{`(?:^|,)z[ab]*a[ab]{14}`, `\Bz[ab]*a[ab]{14}`, `z[ab]*a[ab]{14}`} {
		re := coregex.MustCompile(pat)
		std := regexp.MustCompile(pat)
		for round := 0; round < 3; round++ {
			if got, want := fmt.Sprint(re.FindStringIndex(text)), fmt.Sprint(std.FindStringIndex(text)); got != want {
				t.Errorf("%s round %d: FindStringIndex %s, regexp %s", pat, round, got, want)
			}
			if got, want := re.MatchString(text), std.MatchString(text); got != want {
				t.Errorf("%s round %d: MatchString %v, regexp %v", pat, round, got, want)
			}
		}
	}
}
