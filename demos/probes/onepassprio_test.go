package probe

import (
	"fmt"
	"regexp"
	"testing"

	"github.com/coregx/coregex"
)

// one-pass DFA vs leftmost-first priority: FindSubmatchIndex from position 0 over small patterns and all haystacks
// of length <= 5 over {a,b,c}
func TestOnePassPriority(t *testing.T) {
	pats := []string{`(a|ab)`, `(a|ab)(c)?`, `(a*?)`, `(a+?)(b*)`, `(a*)(b|bc)`, `(ab|a)(bc|c)?`, `(a??)(a)`, `(a|ab|abc)`, `(?:(a)|b)*?c?`, `(a)(b)?(c)??`,
		`^(a|ab)$`, `^(a*?)(a*)$`, `^(a|ab)(c|bc)$`, `(a{1,2}?)(a*)`, `(b|ba)(a?)c?`, `(a)|(ab)`, `((a)|(ab))(c)`, `(a+)(b+)?`, `(\w+?)(c)`, `(a|b)*?(c)`}
	var hs []string
	var gen func(s string, n int)
	gen = func(s string, n int) {
		hs = append(hs, s)
		if n == 0 {
			return
		}
		for _, c := range "abc" {
			gen(s+string(c), n-1)
		}
	}
	gen("", 5)
	bad := 0
	for _, p := range pats {
		re, std := coregex.MustCompile(p), regexp.MustCompile(p)
		for _, h := range hs {
			g, w := fmt.Sprint(re.FindStringSubmatchIndex(h)), fmt.Sprint(std.FindStringSubmatchIndex(h))
			g2, w2 := fmt.Sprint(re.FindStringIndex(h)), fmt.Sprint(std.FindStringIndex(h))
			if g != w || g2 != w2 {
				bad++
				if bad < 25 {
					t.Errorf("%-18s on %-8q Submatch=%v want %v | Find=%v want %v", p, h, g, w, g2, w2)
				}
			}
		}
	}
	if bad > 0 {
		t.Errorf("%d mismatches", bad)
	}
}
