package probe

import (
	"regexp"
	"testing"

	"github.com/coregx/coregex"
	"github.com/coregx/coregex/meta"
)

func TestNonGreedyFamilies(t *testing.T) {
	pats := []string{`[a-z]+?`, `[a-z]*?`, `[a-z]{2,5}?`, `[a-z]+?[0-9]+?`, `[a-z]+?[0-9]+`, `[a-z]+[0-9]+?`, `[a-z]{1,3}?[0-9]`,
		`.*?\.txt`, `.+?\.txt`, `.*?error.*?`, `.*?@example.*?x`, `.*?\.(txt|log|md)`, `\d+?\.\d+?`, `\d+?\.\d+`,
		`^(?:foo+?|bar)`, `^(?i:foo|bar)x`, `(?i)^(foo|bar)`, `^/.*?\.php$`, `^/.+?[\w-]+\.php$`, `\w+?@\w+?\.com`, `[a-z]+?ing\b`, `x*?y`, `(a+?)(b*?)c`}
	inputs := []string{"abc123def", "a.txt.txt", "an error here error", "bob@example.com x y x", "f.txt.log.md", "12.34.56", "foooo", "FOOx", "Barx", "/a/b.php", "/ab-c.php", "a@b.com", "going doing", "xxy", "aabbc aac", ""}
	for _, p := range pats {
		re, err := coregex.Compile(p)
		if err != nil {
			t.Errorf("%s: %v", p, err)
			continue
		}
		std := regexp.MustCompile(p)
		e, _ := meta.Compile(p)
		for _, h := range inputs {
			g, w := re.FindStringIndex(h), std.FindStringIndex(h)
			ga, wa := re.FindAllStringIndex(h, -1), std.FindAllStringIndex(h, -1)
			if !eqi(g, w) || !eqii(ga, wa) {
				t.Errorf("%-22s %-28v on %-24q Find=%v want %v | All=%v want %v", p, e.Strategy(), h, g, w, ga, wa)
			}
		}
	}
}

func eqi(a, b []int) bool {
	if len(a) != len(b) {
		return false
	}
	for i := range a {
		if a[i] != b[i] {
			return false
		}
	}
	return true
}
func eqii(a, b [][]int) bool {
	if len(a) != len(b) {
		return false
	}
	for i := range a {
		if !eqi(a[i], b[i]) {
			return false
		}
	}
	return true
}
