package probe

import (
	"fmt"
	"regexp"
	"testing"

	"github.com/coregx/coregex"
)

// The copy-on-write capture slots of the PikeVM's thread-list search (used by the two-phase strategies
// through SearchWithCapturesInSpan) took the right branch's reference AFTER the left branch had been
// explored; with a single owner the left branch's updates are written in place, so the right branch
// inherited them.
func TestCowCapturesSplitOrder(t *testing.T) {
	for _, c := range []struct{ pat, in string }{
		{`(a+){2,3}b`, "aaab"},
		{`(.+){2,3}b`, "Fbb"},
		{`(\w{2,3}){2,3}b`, "OxfOOb"},
		{`((.)?){2,3}a`, "O a"},
		{`(a|b)*c$`, "xxabc"},
		{`(?:(x)|y)*z\.txt`, "xyyz.txt"},
	} {
		re := coregex.MustCompile(c.pat)
		std := regexp.MustCompile(c.pat)
		if got, want := fmt.Sprint(re.FindStringSubmatchIndex(c.in)), fmt.Sprint(std.FindStringSubmatchIndex(c.in)); got != want {
			t.Errorf("%s on %q: FindStringSubmatchIndex %s, regexp %s", c.pat, c.in, got, want)
		}
		if got, want := fmt.Sprint(re.FindAllStringSubmatchIndex(c.in, -1)), fmt.Sprint(std.FindAllStringSubmatchIndex(c.in, -1)); got != want {
			t.Errorf("%s on %q: FindAllStringSubmatchIndex %s, regexp %s", c.pat, c.in, got, want)
		}
	}
}
