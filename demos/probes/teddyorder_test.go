package probe

import (
	"fmt"
	"regexp"
	"strings"
	"testing"

	"github.com/coregx/coregex"
)

// A complete multi-literal prefilter answers for the whole pattern, so among the literals that match at
// the leftmost position the first alternative in pattern order must win (leftmost-first). Teddy verifies
// buckets in bucket order (literal index mod 8), so with nine or more literals a later alternative in a
// lower bucket beats an earlier one in a higher bucket.
func TestTeddyAlternationOrder(t *testing.T) {
	for _, c := range []struct {
		alts []string
		in   string
	}{
		{[]string{"alpha", "foobar", "gamma", "delta", "epsil", "zetaa", "etaaa", "theta", "foo"}, "....................xx foobar yy ........................................"},
		{[]string{"alpha", "foo", "gamma", "delta", "epsil", "zetaa", "etaaa", "theta", "foobar"}, "....................xx foobar yy ........................................"},
		{[]string{"aaa1", "bbb2", "ccc3", "ddd4", "eee5", "fff6", "ggg7", "hhh8", "iii9", "abcde", "jjj0", "kkk1", "lll2", "mmm3", "nnn4", "ooo5", "ppp6", "abc"}, "....................zz abcde zz ........................................"},
		{fatAlts(), "....................zz abcde zz ........................................"},
	} {
		pat := strings.Join(c.alts, "|")
		re := coregex.MustCompile(pat)
		std := regexp.MustCompile(pat)
		if got, want := fmt.Sprint(re.FindStringIndex(c.in)), fmt.Sprint(std.FindStringIndex(c.in)); got != want {
			t.Errorf("%s on %q: FindStringIndex %s, regexp %s", pat, c.in, got, want)
		}
		if got, want := fmt.Sprint(re.FindAllString(c.in, -1)), fmt.Sprint(std.FindAllString(c.in, -1)); got != want {
			t.Errorf("%s on %q: FindAllString %s, regexp %s", pat, c.in, got, want)
		}
	}
}

// 40 literals (fat Teddy): "abcde" is literal 9, "abc" literal 33 (bucket 1): leftmost-first picks abcde.
func fatAlts() []string {
	var out []string
	for i := 0; i < 40; i++ {
		switch i {
		case 9:
			out = append(out, "abcde")
		case 33:
			out = append(out, "abc")
		default:
			out = append(out, fmt.Sprintf("q%02dz", i))
		}
	}
	return out
}
