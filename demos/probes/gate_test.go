package probe

import (
	"fmt"
	"regexp"
	"strings"
	"testing"

	"github.com/coregx/coregex"
	"github.com/coregx/coregex/meta"
)

func words(n int, suffix string) string {
	var bs []string
	for i := 0; i < n; i++ {
		bs = append(bs, fmt.Sprintf("w%03dx%s", i, suffix))
	}
	return strings.Join(bs, "|")
}

func TestGatePartialCoverage(t *testing.T) {
	type tc struct{ name, pat string }
	cases := []tc{
		{"plain400", "(" + words(400, "") + ")"},
		{"plain400+tail", "(" + words(400, "") + ")[a-z]+\\d"},
		{"tail-class", "(" + words(300, "[a-z]") + ")"},
		{"dfa-ish", "(" + words(300, "") + ")+z"},
		{"caps", "(" + words(260, "") + ")(\\d+)"},
		{"wordb", "\\b(" + words(300, "") + ")\\b"},
	}
	for _, c := range cases {
		for _, ml := range []int{0, 16, 64} {
			cfg := meta.DefaultConfig()
			if ml > 0 {
				cfg.MaxLiterals = ml
			}
			re, err := coregex.CompileWithConfig(c.pat, cfg)
			if err != nil {
				t.Logf("%s: %v", c.name, err)
				continue
			}
			std := regexp.MustCompile(c.pat)
			eng, _ := meta.CompileWithConfig(c.pat, cfg)
			for _, h := range []string{"zz w399x9 yy", "w250xq1", "aaa w299xbz w001x", "w399x", " w259x77 "} {
				wantM := std.MatchString(h)
				wantI := std.FindStringIndex(h)
				gotM := re.MatchString(h)
				gotI := re.FindStringIndex(h)
				gotAll := re.FindAllStringIndex(h, -1)
				wantAll := std.FindAllStringIndex(h, -1)
				if gotM != wantM || fmt.Sprint(gotI) != fmt.Sprint(wantI) || fmt.Sprint(gotAll) != fmt.Sprint(wantAll) {
					t.Errorf("%s MaxLiterals=%d strategy=%v h=%q: Match=%v want %v; Find=%v want %v; All=%v want %v", c.name, ml, eng.Strategy(), h, gotM, wantM, gotI, wantI, gotAll, wantAll)
				}
			}
		}
	}
}
