package probe

import (
	"fmt"
	"regexp"
	"testing"

	"github.com/coregx/coregex"
	"github.com/coregx/coregex/meta"
)

// \b with bytes outside the pattern's own classes: digits/underscore (word) and punctuation (non-word) must not share a byte class
func TestWordBoundaryByteClasses(t *testing.T) {
	pats := []string{`\b[a-c]+\b`, `\b(?:ab|cd)+\b`, `\b[a-c]+`, `[a-c]+\b`, `\B[a-c]+`, `\b(?:eval|exec)\b`, `(?i)\b(?:eval|system|exec)\b`, `x\B.y`, `\b[a-c]{2}\b.`, `\b\d+\b`, `\b[a-c]+\b|\bq\b`}
	hs := []string{"5/ab", "/5ab", "5 ab", "36 ab", "a_b ab", "_ab", "ab5", "ab/", "ab_ /ab", "/537.36 ab", "x!y", "x5y", "5.0 eval", "/5eval/", "é ab", "éab", "abé", "7ab7 ab"}
	for _, p := range pats {
		re, std := coregex.MustCompile(p), regexp.MustCompile(p)
		e, _ := meta.Compile(p)
		for _, h := range hs {
			g, w := fmt.Sprint(re.FindAllStringIndex(h, -1)), fmt.Sprint(std.FindAllStringIndex(h, -1))
			gm, wm := re.MatchString(h), std.MatchString(h)
			if g != w || gm != wm {
				t.Errorf("%-34s %-18v on %-14q All=%v want %v Match=%v want %v", p, e.Strategy(), h, g, w, gm, wm)
			}
		}
	}
}
