package probe

import (
	"testing"

	"github.com/coregx/coregex"
)

func TestCompileCloneRecursion(t *testing.T) {
	for _, p := range []string{`(([^a]|b))+((b( )?x|barfo))?o(?:[^a])*^[ab](?:(b)|-o)`} {
		re, err := coregex.Compile(p)
		t.Log(p, re != nil, err)
	}
}
