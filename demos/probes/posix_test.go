package probe

import (
	"regexp"
	"testing"

	"github.com/coregx/coregex"
)

func TestProbeCompilePOSIXLanguage(t *testing.T) {
	for _, pat := range []string{`\d`, `(?:a)`, `\pL`, `a\z`, `(?i)a`, `\Qab\E`, `a*?`, `a**`, `^a`, `a$`, `(a|ab)(c|bcd)`, `[[:alpha:]]+`, `a{2,3}`, `\w`, `[a`} {
		_, e1 := regexp.CompilePOSIX(pat)
		_, e2 := coregex.CompilePOSIX(pat)
		if (e1 == nil) != (e2 == nil) {
			t.Errorf("%q: regexp err=%v coregex err=%v", pat, e1, e2)
		} else if e1 != nil && e1.Error() != e2.Error() {
			t.Errorf("%q: error text %q vs %q", pat, e1, e2)
		}
	}
	// ^ and $ are line anchors in POSIX syntax
	for _, c := range []struct{ pat, s string }{{`^a`, "b\na"}, {`a$`, "a\nb"}, {`^a$`, "b\na\nc"}} {
		want := regexp.MustCompilePOSIX(c.pat).FindStringIndex(c.s)
		got := coregex.MustCompilePOSIX(c.pat).FindStringIndex(c.s)
		if (want == nil) != (got == nil) || (want != nil && (want[0] != got[0] || want[1] != got[1])) {
			t.Errorf("%q on %q: regexp %v coregex %v", c.pat, c.s, want, got)
		}
		cp := coregex.MustCompilePOSIX(c.pat).Copy()
		got = cp.FindStringIndex(c.s)
		if (want == nil) != (got == nil) || (want != nil && (want[0] != got[0] || want[1] != got[1])) {
			t.Errorf("copy of %q on %q: regexp %v coregex %v", c.pat, c.s, want, got)
		}
	}
}
