package probe

import (
	"fmt"
	"math/rand"
	"regexp"
	"testing"

	"github.com/coregx/coregex"
)

// The forward lazy DFA returned at the first position where a word-boundary assertion completed a match
// (the shortcut that lets `test\b` end before the non-word byte), even when other threads could extend the
// match: \bx.*error.* on "x error and error again" gave [0 7] (regexp [0 23]).
func TestWordBoundaryShortcutIsNotEarliest(t *testing.T) {
	pats := []string{`\bx.*error.*`, `\Bz[ab]*a[ab]{14}`, `\bfoo\b.*bar\b.*`, `\b\w+ing\b.*\bend\b`, `x\b.*?y\b.*`, `\bab+\b|\bab+c+\b.*`,
		`\b[a-c]+\b.*?\b[a-c]+\b`, `(?:\bfoo\b.*){2}`, `\bkey=\w*\b.*;`}
	rng := rand.New(rand.NewSource(7))
	alpha := []byte("abcxyz  ;=fooerrorbarendingkey")
	for _, pat := range pats {
		re := coregex.MustCompile(pat)
		std := regexp.MustCompile(pat)
		bad := 0
		check := func(in string) {
			if bad > 2 {
				return
			}
			if got, want := fmt.Sprint(re.FindStringIndex(in)), fmt.Sprint(std.FindStringIndex(in)); got != want {
				bad++
				t.Errorf("%s on %q: FindStringIndex %s, regexp %s", pat, in, got, want)
			}
			if got, want := fmt.Sprint(re.FindAllStringIndex(in, -1)), fmt.Sprint(std.FindAllStringIndex(in, -1)); got != want {
				bad++
				t.Errorf("%s on %q: FindAll %s, regexp %s", pat, in, got, want)
			}
		}
		check("x error and error again")
		check("xz" + "abababababbbabababaabbbabababababababababbbababababababab" + " yy")
		check("a foo b bar c foo d bar e")
		for i := 0; i < 3000; i++ {
			n := 1 + rng.Intn(40)
			b := make([]byte, n)
			for j := range b {
				b[j] = alpha[rng.Intn(len(alpha))]
			}
			check(string(b))
		}
	}
}
