package probe

import (
	"fmt"
	"regexp"
	"testing"

	"github.com/coregx/coregex"
)

// The digit-prefilter loops skip the rest of a run of [0-9] after a failed candidate when the leading class
// is greedy and unbounded; the guard accepted proper subsets of [0-9], for which a later start in the run matches.
func TestDigitRunSkipSubsetClass(t *testing.T) {
	for _, c := range []struct{ pat, in string }{
		{`[0-5]+\.[0-5]+`, "915.2"},
		{`[0-5]+\.[0-5]+`, "x 9915.25 y"},
		{`[1-3]+-x`, "0123-x"},
	} {
		re := coregex.MustCompile(c.pat)
		std := regexp.MustCompile(c.pat)
		if got, want := fmt.Sprint(re.FindStringIndex(c.in)), fmt.Sprint(std.FindStringIndex(c.in)); got != want {
			t.Errorf("%s on %q: FindStringIndex %s, regexp %s", c.pat, c.in, got, want)
		}
		if got, want := re.MatchString(c.in), std.MatchString(c.in); got != want {
			t.Errorf("%s on %q: MatchString %v, regexp %v", c.pat, c.in, got, want)
		}
		if got, want := fmt.Sprint(re.FindAllStringIndex(c.in, -1)), fmt.Sprint(std.FindAllStringIndex(c.in, -1)); got != want {
			t.Errorf("%s on %q: FindAll %s, regexp %s", c.pat, c.in, got, want)
		}
	}
}
