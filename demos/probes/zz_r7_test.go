package probe

import (
	"fmt"
	"regexp"
	"testing"

	"github.com/coregx/coregex"
	"github.com/coregx/coregex/meta"
)

func TestR7Reports(t *testing.T) {
	cases := []struct{ p, h string }{
		{`[a-c]+(x*foo)\d*`, "axfoobfbx"},
		{`[a-c]+x*foo\d*`, "axfoobfbx"},
		{`[a-c]+x?foo`, "axfoo"},
		{`\w+x*foo`, "abxxfoo"},
		{`(?:\pL)+$`, "쫁"},
		{`\pL+$`, "쫁"},
		{`\pL$`, "쫁"},
		{`(?:\pL)+`, "쫁"},
		{`^(?:\W){3}$`, "日"},
	}
	for _, c := range cases {
		std := regexp.MustCompile(c.p)
		re := coregex.MustCompile(c.p)
		e, _ := meta.Compile(c.p)
		if std.MatchString(c.h) != re.MatchString(c.h) || fmt.Sprint(std.FindStringIndex(c.h)) != fmt.Sprint(re.FindStringIndex(c.h)) {
			t.Errorf("[%s] %s on %q: regexp %v %v coregex %v %v", e.Strategy(), c.p, c.h, std.MatchString(c.h), std.FindStringIndex(c.h), re.MatchString(c.h), re.FindStringIndex(c.h))
		}
	}
	cfg := meta.DefaultConfig()
	cfg.MaxLiterals = 1
	for _, c := range []struct{ p, h string }{{`x(?i:k)y`, "xKy"}, {`x(?i:k)y`, "xky"}, {`x(?i:k)y`, "xy"}, {`x(?i:k)yz`, "xyz xkyz"}} {
		e, err := meta.CompileWithConfig(c.p, cfg)
		if err != nil {
			t.Fatal(err)
		}
		std := regexp.MustCompile(c.p)
		s, en, ok := e.FindIndices([]byte(c.h))
		w := std.FindStringIndex(c.h)
		got := []int(nil)
		if ok {
			got = []int{s, en}
		}
		if fmt.Sprint(w) != fmt.Sprint(got) || e.IsMatch([]byte(c.h)) != std.MatchString(c.h) {
			t.Errorf("[MaxLiterals=1 %s] %s on %q: regexp %v coregex %v match %v", e.Strategy(), c.p, c.h, w, got, e.IsMatch([]byte(c.h)))
		}
	}
}
