package probe

import (
	"fmt"
	"regexp"
	"testing"

	"github.com/coregx/coregex"
	"github.com/coregx/coregex/meta"
)

// two-phase capture extraction (DFA span, then PikeVM inside the span)
func TestCapturesInSpan(t *testing.T) {
	pats := []string{`(a|b)*c$`, `(a|b)+c$`, `(\w)+\.txt`, `(\w+)\.(txt|log)`, `([a-z])*error(\d)*`, `(a)(b)?c$`, `(?:(a)|(b))+z$`, `(x*)(y+)\.php`, `(\d+)-(\d+)?$`, `((a)|(b)|(c))+\.go`}
	hs := []string{"x abc", "abab c", "zz ab.txt", "file.log x.txt", "an error12", "abc", "abbaz", "xxyy.php y.php", "12-34", "abc.go cab.go", "bc", "ac"}
	for _, p := range pats {
		re, std := coregex.MustCompile(p), regexp.MustCompile(p)
		e, _ := meta.Compile(p)
		for _, h := range hs {
			g, w := fmt.Sprint(re.FindStringSubmatchIndex(h)), fmt.Sprint(std.FindStringSubmatchIndex(h))
			ga, wa := fmt.Sprint(re.FindAllStringSubmatchIndex(h, -1)), fmt.Sprint(std.FindAllStringSubmatchIndex(h, -1))
			if g != w || ga != wa {
				t.Errorf("%-24s %-20v on %-16q Sub=%v want %v All=%v want %v", p, e.Strategy(), h, g, w, ga, wa)
			}
		}
	}
}
