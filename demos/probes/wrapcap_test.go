package probe

import (
	"fmt"
	"regexp"
	"strings"
	"testing"

	"github.com/coregx/coregex"
	"github.com/coregx/coregex/meta"
)

// The backtracker's wrap-clear covers len(Visited) of the wrapping call only: rows beyond it keep the stamps of the
// previous cycle and are seen as visited when the same generation value comes round on a longer haystack.
func TestBacktrackerWrapClearExtent(t *testing.T) {
	pat := `(\w+)\s(\w+)`
	e, _ := meta.Compile(pat)
	t.Log(e.Strategy())
	std := regexp.MustCompile(pat)
	long := strings.Repeat("-", 40) + "hello world" + strings.Repeat("-", 10)
	short := "a b"
	want := fmt.Sprint(std.FindStringIndex(long))
	bad := 0
	for delta := 65530; delta <= 65542; delta++ {
		re := coregex.MustCompile(pat)
		re.FindStringIndex(long) // allocates the big table (generation restarts at 1)
		for i := 0; i < 4; i++ {
			re.FindStringIndex(short)
		}
		if g := fmt.Sprint(re.FindStringIndex(long)); g != want { // stamps the high rows with a generation > 1
			t.Fatalf("first long search: got %v want %v", g, want)
		}
		for i := 0; i < delta-1; i++ {
			re.FindStringIndex(short)
		}
		if g := fmt.Sprint(re.FindStringIndex(long)); g != want {
			bad++
			t.Errorf("long search %d calls after the first one: got %v want %v", delta, g, want)
		}
	}
	t.Logf("%d of 13 offsets wrong", bad)
}
