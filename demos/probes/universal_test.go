package probe

import (
	"fmt"
	"regexp"
	"testing"

	"github.com/coregx/coregex"
	"github.com/coregx/coregex/meta"
)

// ReverseInner "universal" shortcut: span assumed [at, len] whenever the inner literal occurs
func TestUniversalShortcut(t *testing.T) {
	pats := []string{`.*connection.*`, `.+connection.*`, `.*connection.+`, `(?s).*connection.*`, `.*connection\d.*`, `(?s).*connection\d.*`, `.*connection[a-z]+.*`, `(?s).*connection(?-s).*`, `.*(connection).*`}
	hs := []string{"connection", "x\nconnection\ny", "a connection b", "connection\n", "\nconnection", "a connection7 b connection", "xconnectiony\nconnection8", "connection x\nconnectionab"}
	for _, p := range pats {
		re, std := coregex.MustCompile(p), regexp.MustCompile(p)
		e, _ := meta.Compile(p)
		for _, h := range hs {
			gm, wm := re.MatchString(h), std.MatchString(h)
			g, w := fmt.Sprint(re.FindStringIndex(h)), fmt.Sprint(std.FindStringIndex(h))
			ga, wa := fmt.Sprint(re.FindAllStringIndex(h, -1)), fmt.Sprint(std.FindAllStringIndex(h, -1))
			if gm != wm || g != w || ga != wa {
				t.Errorf("%-26s %-16v on %-30q Match=%v/%v Find=%v want %v All=%v want %v", p, e.Strategy(), h, gm, wm, g, w, ga, wa)
			}
		}
	}
}
