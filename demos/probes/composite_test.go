package probe

import (
	"strings"
	"testing"
	"time"

	"github.com/coregx/coregex"
)

func TestCompositeBacktrackBlowup(t *testing.T) {
	re := coregex.MustCompile(`[a-z]+[a-z]+[a-z]+[0-9]`)
	var prev time.Duration
	for _, n := range []int{100, 200, 400} {
		h := strings.Repeat("a", n)
		t0 := time.Now()
		re.MatchString(h)
		d := time.Since(t0)
		t.Logf("n=%d %v", n, d)
		if prev > 0 && d > 4*prev && d > 50*time.Millisecond {
			t.Errorf("super-linear growth: n=%d took %v, previous %v", n, d, prev)
		}
		prev = d
	}
}
