package probe

import (
	"fmt"
	"regexp"
	"strings"
	"testing"

	"github.com/coregx/coregex"
	"github.com/coregx/coregex/meta"
)

func cmp3(t *testing.T, name string, re *coregex.Regex, std *regexp.Regexp, hs ...string) {
	t.Helper()
	for _, h := range hs {
		if g, w := re.MatchString(h), std.MatchString(h); g != w {
			t.Errorf("%s Match(%.40q)=%v want %v", name, h, g, w)
		}
		if g, w := fmt.Sprint(re.FindStringIndex(h)), fmt.Sprint(std.FindStringIndex(h)); g != w {
			t.Errorf("%s FindIndex(%.40q)=%v want %v", name, h, g, w)
		}
		if g, w := fmt.Sprint(re.FindAllStringIndex(h, -1)), fmt.Sprint(std.FindAllStringIndex(h, -1)); g != w {
			t.Errorf("%s FindAll(%.40q)=%v want %v", name, h, g, w)
		}
	}
}

func TestLongLiteral(t *testing.T) {
	lit := strings.Repeat("abcdefghij", 8) // 80 bytes
	for _, pat := range []string{lit, lit + "|zz", "(" + lit + ")x?", "q*" + lit} {
		re := coregex.MustCompile(pat)
		std := regexp.MustCompile(pat)
		cmp3(t, "long:"+pat[:10], re, std, "xx"+lit+"yy", "xx"+lit[:70]+"yy", lit[:64]+"#"+lit, lit)
	}
}

func TestSmallMaxLiterals(t *testing.T) {
	for _, ml := range []int{1, 2, 3, 5} {
		for _, pat := range []string{`abc|xyz|pqr|uvw|mno`, `[abc]foo`, `x(ab|cd|ef|gh)y`, `.*(\.txt|\.log|\.md|\.go|\.rs)`, `(?i)hello`, `foo(bar|baz|qux|quux)$`} {
			cfg := meta.DefaultConfig()
			cfg.MaxLiterals = ml
			re, err := coregex.CompileWithConfig(pat, cfg)
			if err != nil {
				continue
			}
			std := regexp.MustCompile(pat)
			cmp3(t, fmt.Sprintf("ml=%d %s", ml, pat), re, std, "zz mno", "cfoo", "xghy xaby", "a.rs b.go", "HeLLo", "fooquux", "uvw abc", "xefy")
		}
	}
}

func TestManySuffixes(t *testing.T) {
	var alts []string
	for i := 0; i < 90; i++ {
		alts = append(alts, fmt.Sprintf("e%02dz", i))
	}
	for _, pat := range []string{`.*\.(` + strings.Join(alts, "|") + `)`, `[a-z]+(` + strings.Join(alts, "|") + `)$`, `\w+@(` + strings.Join(alts, "|") + `)\b`} {
		re := coregex.MustCompile(pat)
		std := regexp.MustCompile(pat)
		cmp3(t, "suffixes:"+pat[:8], re, std, "file.e89z", "abc e70z", "x.e05z y.e88z", "abce77z", "bob@e80z", "a@e01z b@e85z")
	}
}
