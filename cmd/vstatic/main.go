package main

import (
	"flag"
	"fmt"
	"os"
	"sort"
	"strings"

	"verif/internal/core"
	"verif/internal/rules"
)

func main() {
	if len(os.Args) < 2 {
		fmt.Fprintln(os.Stderr, "usage: vstatic check -property Cxx -tier quick|thorough | rule <name> [-arch a] | manifest | explain <path>")
		os.Exit(2)
	}
	switch os.Args[1] {
	case "check":
		fs := flag.NewFlagSet("check", flag.ExitOnError)
		prop := fs.String("property", "", "property id")
		tier := fs.String("tier", "", "quick|thorough")
		fs.Parse(os.Args[2:])
		if *tier == "" {
			*tier = os.Getenv("VERIF_TIER")
		}
		if *tier != "thorough" {
			*tier = "quick"
		}
		spec := rules.Properties[*prop]
		if spec == nil {
			fmt.Fprintf(os.Stderr, "unknown or unclaimed property %q\n", *prop)
			os.Exit(2)
		}
		os.Exit(core.Check(spec, *tier, os.Stdout))
	case "check-all":
		// dev helper (seed matrix): every claimed property in one process; rule results are computed once.
		// Prints one line per property that does not exit 0, with the rules involved.
		tier := "quick"
		var ids []string
		for id := range rules.Properties {
			ids = append(ids, id)
		}
		sort.Strings(ids)
		devnull, _ := os.OpenFile(os.DevNull, os.O_WRONLY, 0)
		tmp, _ := os.CreateTemp("", "vstatic-all")
		defer os.Remove(tmp.Name())
		worst := 0
		for _, id := range ids {
			tmp.Truncate(0)
			tmp.Seek(0, 0)
			rc := core.Check(rules.Properties[id], tier, tmp)
			if rc != 0 {
				if rc > worst {
					worst = rc
				}
				b, _ := os.ReadFile(tmp.Name())
				fmt.Printf("FIRED %s exit=%d\n", id, rc)
				for _, l := range strings.Split(string(b), "\n") {
					if strings.HasPrefix(l, "VIOLATED") || strings.HasPrefix(l, "UNDECIDED") || strings.HasPrefix(l, "ANALYSIS-FAILURE") || strings.HasPrefix(l, "    key=") {
						if len(l) > 240 {
							l = l[:240]
						}
						fmt.Println("  " + l)
					}
				}
			}
		}
		_ = devnull
		os.Exit(worst)
	case "rule":
		fs := flag.NewFlagSet("rule", flag.ExitOnError)
		arch := fs.String("arch", "amd64", "GOARCH")
		all := fs.Bool("all", false, "print discharged obligations too")
		fs.Parse(os.Args[2:])
		for _, name := range fs.Args() {
			r := core.Registry[name]
			if r == nil {
				fmt.Fprintf(os.Stderr, "unknown rule %s\n", name)
				os.Exit(2)
			}
			p, err := core.Load(*arch, true)
			if err != nil {
				fmt.Fprintln(os.Stderr, err)
				os.Exit(2)
			}
			res := r.Run(p)
			cnt := map[string]int{}
			for _, o := range res.Obligations {
				cnt[o.Status.String()]++
				if o.Status != core.Discharged || *all {
					fmt.Printf("%-10s %s\n    at %s: %s\n", o.Status, o.Key, o.Pos, o.Detail)
					for _, s := range o.Path {
						fmt.Printf("      via %s\n", s)
					}
				}
			}
			for _, n := range res.Notes {
				fmt.Println("note:", n)
			}
			for _, f := range res.Fatal {
				fmt.Println("FATAL:", f)
			}
			fmt.Printf("rule %s: %d obligations %v (floor %d)\n", name, len(res.Obligations), cnt, r.Min)
		}
	case "floors":
		// dev-time helper (never used by checks): instance count of every rule against its floor
		p, err := core.Load("amd64", true)
		if err != nil {
			fmt.Fprintln(os.Stderr, err)
			os.Exit(2)
		}
		var names []string
		for n := range core.Registry {
			names = append(names, n)
		}
		sort.Strings(names)
		for _, n := range names {
			r := core.Registry[n]
			res := r.Run(p)
			fmt.Printf("%-16s n=%-4d floor=%d\n", n, len(res.Obligations), r.Min)
		}
	case "anchors":
		// dev-time helper (never used by checks): print the anchor table (rule<TAB>function hosting an instance) for the
		// tree under VSTATIC_REPO; the committed /verif/anchors.txt is this output on the reference tree, read through
		p, err := core.Load("amd64", true)
		if err != nil {
			fmt.Fprintln(os.Stderr, err)
			os.Exit(2)
		}
		var names []string
		for n := range core.Registry {
			names = append(names, n)
		}
		sort.Strings(names)
		fmt.Println("# rule<TAB>function in which the rule found an instance on the reference tree; written by `vstatic anchors`, see internal/core/anchors.go")
		for _, n := range names {
			r := core.Registry[n]
			res := r.Run(p)
			// targeted rules with a tight floor only: a rule that enumerates every loop or write of the module has a
			// loose floor already, and a function that loses its last loop has lost nothing the rule guards
			if len(res.Obligations) > 30 || r.Min*5 < len(res.Obligations)*3 {
				continue
			}
			for _, h := range core.HostFuncs(p, res.Obligations) {
				fmt.Printf("%s\t%s\n", n, h)
			}
		}
	case "findings-template":
		// dev-time helper (never used by checks): print finding: lines for the currently violated obligations of a rule
		fs := flag.NewFlagSet("findings-template", flag.ExitOnError)
		props := fs.String("props", "", "comma list of property ids")
		text := fs.String("text", "", "what fails")
		fs.Parse(os.Args[2:])
		p, err := core.Load("amd64", true)
		if err != nil {
			fmt.Fprintln(os.Stderr, err)
			os.Exit(2)
		}
		for _, name := range fs.Args() {
			res := core.Registry[name].Run(p)
			for _, o := range res.Obligations {
				if o.Status == core.Violated {
					t := *text
					if t == "" {
						t = o.Detail
					}
					fmt.Printf("finding: property=%s key=%s :: %s\n", *props, o.Key, t)
				}
			}
		}
	case "rules":
		var names []string
		for n := range core.Registry {
			names = append(names, n)
		}
		sort.Strings(names)
		for _, n := range names {
			fmt.Printf("%s (min %d)\n  %s\n", n, core.Registry[n].Min, core.Registry[n].Doc)
		}
	case "manifest":
		if err := rules.WriteManifest(); err != nil {
			fmt.Fprintln(os.Stderr, err)
			os.Exit(1)
		}
	case "explain":
		if len(os.Args) < 3 {
			os.Exit(2)
		}
		b, err := os.ReadFile(os.Args[2])
		if err != nil {
			fmt.Fprintln(os.Stderr, err)
			os.Exit(1)
		}
		os.Stdout.Write(b)
	default:
		fmt.Fprintln(os.Stderr, "unknown command")
		os.Exit(2)
	}
}
