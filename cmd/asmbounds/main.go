// asmbounds: dev helper that prints the bounds analysis of every TEXT block of the given .s files.
package main

import (
	"fmt"
	"os"
	"strings"

	"verif/internal/asm"
)

func main() {
	for _, f := range os.Args[1:] {
		fs, err := asm.ParseFile(f, f)
		if err != nil {
			fmt.Println(err)
			continue
		}
		for _, fn := range fs {
			pre := &asm.Pre{PtrSize: map[string]int64{}, ElemSize: map[string]int64{"buf": 8}}
			// PRE="fn: fact; fact | fn2: fact"   PTR="fn.param=size,..."
			for _, blk := range strings.Split(os.Getenv("PRE"), "|") {
				kv := strings.SplitN(blk, ":", 2)
				if len(kv) == 2 && strings.TrimSpace(kv[0]) == fn.Name {
					for _, f := range strings.Split(kv[1], ";") {
						if strings.TrimSpace(f) == "" {
							continue
						}
						l, err := asm.ParseFact(f)
						if err != nil {
							fmt.Println("bad fact", f, err)
							continue
						}
						pre.Facts = append(pre.Facts, l)
					}
				}
			}
			for _, kv := range strings.Split(os.Getenv("PTR"), ",") {
				var name string
				var sz int64
				if i := strings.Index(kv, "="); i > 0 {
					name = kv[:i]
					fmt.Sscan(kv[i+1:], &sz)
					if strings.HasPrefix(name, fn.Name+".") {
						pre.PtrSize[strings.TrimPrefix(name, fn.Name+".")] = sz
					}
				}
			}
			acc := asm.Bounds(fn, pre)
			fmt.Printf("== %s (%s:%d) frame=%d\n", fn.Name, fn.File, fn.Line, fn.Frame)
			for _, a := range acc {
				st := "OK "
				if !a.Lower || !a.Upper {
					st = "???"
				}
				fmt.Printf("  %s L%d %-40s obj=%-16s w=%d addr=%s lower=%v upper=%v\n", st, a.Line, a.Instr, a.Object, a.Width, a.Addr, a.Lower, a.Upper)
				if st != "OK " && os.Getenv("V") != "" {
					fmt.Printf("        %s\n", a.Note)
				}
			}
		}
	}
}
