// Package core holds the shared analysis infrastructure: loading /repo's current
// working tree, SSA + call graph, obligations, evidence and known-finding matching.
package core

import (
	"fmt"
	"go/ast"
	"go/token"
	"go/types"
	"os"
	"path/filepath"
	"sort"
	"strings"

	"golang.org/x/tools/go/callgraph"
	"golang.org/x/tools/go/callgraph/cha"
	"golang.org/x/tools/go/callgraph/vta"
	"golang.org/x/tools/go/packages"
	"golang.org/x/tools/go/ssa"
	"golang.org/x/tools/go/ssa/ssautil"
)

// ModPath is the module under analysis.
const ModPath = "github.com/coregx/coregex"

// RepoDir is where the analysed tree lives; overridable for self-tests on scratch copies.
func RepoDir() string {
	if d := os.Getenv("VSTATIC_REPO"); d != "" {
		return d
	}
	return "/repo"
}

// Prog is one loaded build configuration of the repository.
type Prog struct {
	GOARCH string
	Fset   *token.FileSet
	Pkgs   []*packages.Package // module packages only (non-test)
	All    []*packages.Package // including deps
	ByPath map[string]*packages.Package
	SSA    *ssa.Program
	ssaPkg map[string]*ssa.Package

	cg    *callgraph.Graph
	chaCG *callgraph.Graph

	fileOf map[*ast.File]*packages.Package
	// function declarations by types.Func
	Decls map[*types.Func]*ast.FuncDecl
	// all source functions in module packages (incl. anonymous)
	srcFuncs []*ssa.Function
	byName   map[string]*ssa.Function
}

func setEnv() {
	gobin := "/opt/veriftools/go1.26.8/bin"
	p := os.Getenv("PATH")
	if !strings.HasPrefix(p, gobin) {
		os.Setenv("PATH", gobin+":"+p)
	}
	os.Setenv("GOTOOLCHAIN", "local")
	os.Setenv("GOFLAGS", "-mod=mod")
	os.Setenv("GOPROXY", "off")
	os.Setenv("GOWORK", "off")
	os.Setenv("GOSUMDB", "off")
}

// Load type-checks ./... of the repository for one GOARCH and builds SSA.
func Load(goarch string, needSSA bool) (*Prog, error) {
	setEnv()
	env := append(os.Environ(), "GOARCH="+goarch, "GOOS=linux", "CGO_ENABLED=0")
	cfg := &packages.Config{
		Mode:  packages.LoadAllSyntax,
		Dir:   RepoDir(),
		Env:   env,
		Tests: false,
	}
	pkgs, err := packages.Load(cfg, "./...")
	if err != nil {
		return nil, fmt.Errorf("load: %w", err)
	}
	p := &Prog{GOARCH: goarch, ByPath: map[string]*packages.Package{}, fileOf: map[*ast.File]*packages.Package{}, Decls: map[*types.Func]*ast.FuncDecl{}}
	var errs []string
	packages.Visit(pkgs, nil, func(pk *packages.Package) {
		p.All = append(p.All, pk)
		p.ByPath[pk.PkgPath] = pk
		for _, e := range pk.Errors {
			errs = append(errs, pk.PkgPath+": "+e.Error())
		}
	})
	if len(errs) > 0 {
		sort.Strings(errs)
		if len(errs) > 10 {
			errs = errs[:10]
		}
		return nil, fmt.Errorf("type errors in analysed tree:\n  %s", strings.Join(errs, "\n  "))
	}
	for _, pk := range pkgs {
		if pk.PkgPath == ModPath || strings.HasPrefix(pk.PkgPath, ModPath+"/") {
			p.Pkgs = append(p.Pkgs, pk)
		}
	}
	sort.Slice(p.Pkgs, func(i, j int) bool { return p.Pkgs[i].PkgPath < p.Pkgs[j].PkgPath })
	if len(p.Pkgs) < 10 {
		return nil, fmt.Errorf("expected >= 10 module packages, loaded %d", len(p.Pkgs))
	}
	if len(p.Pkgs) > 0 {
		p.Fset = p.Pkgs[0].Fset
	}
	for _, pk := range p.Pkgs {
		for _, f := range pk.Syntax {
			p.fileOf[f] = pk
			for _, d := range f.Decls {
				if fd, ok := d.(*ast.FuncDecl); ok {
					if obj, ok := pk.TypesInfo.Defs[fd.Name].(*types.Func); ok {
						p.Decls[obj] = fd
					}
				}
			}
		}
	}
	if needSSA {
		prog, spkgs := ssautil.AllPackages(pkgs, ssa.InstantiateGenerics)
		_ = spkgs
		prog.Build()
		p.SSA = prog
		p.ssaPkg = map[string]*ssa.Package{}
		for _, sp := range prog.AllPackages() {
			p.ssaPkg[sp.Pkg.Path()] = sp
		}
		for fn := range ssautil.AllFunctions(prog) {
			if fn.Pkg != nil && p.InModule(fn.Pkg.Pkg) && fn.Blocks != nil {
				p.srcFuncs = append(p.srcFuncs, fn)
			} else if fn.Pkg == nil && fn.Origin() != nil && fn.Origin().Pkg != nil && p.InModule(fn.Origin().Pkg.Pkg) && fn.Blocks != nil {
				p.srcFuncs = append(p.srcFuncs, fn)
			}
		}
		sort.Slice(p.srcFuncs, func(i, j int) bool { return FuncName(p.srcFuncs[i]) < FuncName(p.srcFuncs[j]) })
	}
	return p, nil
}

// InModule reports whether the package belongs to the analysed module.
func (p *Prog) InModule(pk *types.Package) bool {
	if pk == nil {
		return false
	}
	return pk.Path() == ModPath || strings.HasPrefix(pk.Path(), ModPath+"/")
}

// Pkg returns a module package by its path relative to the module ("" = root).
func (p *Prog) Pkg(rel string) *packages.Package {
	path := ModPath
	if rel != "" {
		path += "/" + rel
	}
	return p.ByPath[path]
}

// SSAPkg returns the SSA package for a module-relative path.
func (p *Prog) SSAPkg(rel string) *ssa.Package {
	path := ModPath
	if rel != "" {
		path += "/" + rel
	}
	return p.ssaPkg[path]
}

// SrcFuncs lists every SSA function with a body that belongs to the module.
func (p *Prog) SrcFuncs() []*ssa.Function { return p.srcFuncs }

// CallGraph returns the VTA call graph (seeded by CHA), built lazily.
func (p *Prog) CallGraph() *callgraph.Graph {
	if p.cg == nil {
		p.chaCG = cha.CallGraph(p.SSA)
		p.cg = vta.CallGraph(ssautil.AllFunctions(p.SSA), p.chaCG)
	}
	return p.cg
}

// CHAGraph returns the CHA call graph.
func (p *Prog) CHAGraph() *callgraph.Graph {
	p.CallGraph()
	return p.chaCG
}

// Pos renders a position relative to the repo root.
func (p *Prog) Pos(pos token.Pos) string {
	if !pos.IsValid() {
		return "-"
	}
	ps := p.Fset.Position(pos)
	rel, err := filepath.Rel(RepoDir(), ps.Filename)
	if err != nil || strings.HasPrefix(rel, "..") {
		rel = ps.Filename
	}
	return fmt.Sprintf("%s:%d", rel, ps.Line)
}

// File returns the repo-relative file of a position.
func (p *Prog) File(pos token.Pos) string {
	s := p.Pos(pos)
	if i := strings.LastIndex(s, ":"); i >= 0 {
		return s[:i]
	}
	return s
}

// FuncName gives a stable, module-relative name for an SSA function:
// "meta.(*Engine).findIndicesNFA", "coregex.(*Regex).AllIndex$1".
func FuncName(fn *ssa.Function) string {
	if fn == nil {
		return "<nil>"
	}
	s := fn.String()
	s = strings.ReplaceAll(s, ModPath+"/", "")
	s = strings.ReplaceAll(s, ModPath, "coregex")
	return s
}

// ObjName gives a stable name for a types.Func.
func ObjName(f *types.Func) string {
	s := f.FullName()
	s = strings.ReplaceAll(s, ModPath+"/", "")
	s = strings.ReplaceAll(s, ModPath, "coregex")
	return s
}

// TypeName renders a type with module-relative package qualifiers.
func TypeName(t types.Type) string {
	return types.TypeString(t, func(pk *types.Package) string {
		if pk.Path() == ModPath {
			return "coregex"
		}
		return strings.TrimPrefix(pk.Path(), ModPath+"/")
	})
}

// LookupFunc resolves "rel/pkg", "Func" or "rel/pkg", "Type.Method" to a types.Func; nil if absent.
func (p *Prog) LookupFunc(rel, name string) *types.Func {
	pk := p.Pkg(rel)
	if pk == nil {
		return nil
	}
	if i := strings.Index(name, "."); i >= 0 {
		tn, _ := pk.Types.Scope().Lookup(name[:i]).(*types.TypeName)
		if tn == nil {
			return nil
		}
		obj, _, _ := types.LookupFieldOrMethod(types.NewPointer(tn.Type()), true, pk.Types, name[i+1:])
		f, _ := obj.(*types.Func)
		return f
	}
	f, _ := pk.Types.Scope().Lookup(name).(*types.Func)
	return f
}

// LookupType resolves a named type in a module package.
func (p *Prog) LookupType(rel, name string) *types.Named {
	pk := p.Pkg(rel)
	if pk == nil {
		return nil
	}
	tn, _ := pk.Types.Scope().Lookup(name).(*types.TypeName)
	if tn == nil {
		return nil
	}
	n, _ := tn.Type().(*types.Named)
	return n
}

// SSAFunc returns the SSA function for a types.Func.
func (p *Prog) SSAFunc(f *types.Func) *ssa.Function {
	if f == nil {
		return nil
	}
	return p.SSA.FuncValue(f)
}

// Info returns the types.Info holding the given file.
func (p *Prog) InfoFor(f *ast.File) *types.Info { return p.fileOf[f].TypesInfo }

// EnclosingPkg finds the package of a FuncDecl's object.
func (p *Prog) PkgOf(obj types.Object) *packages.Package {
	if obj == nil || obj.Pkg() == nil {
		return nil
	}
	return p.ByPath[obj.Pkg().Path()]
}
