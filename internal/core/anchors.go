package core

import (
	"bufio"
	"fmt"
	"os"
	"path/filepath"
	"sort"
	"strings"

	"golang.org/x/tools/go/ssa"
)

// Anchors: for every rule, the functions in which the rule found an instance on the reference tree
// (confirmed by reading; frozen in /verif/anchors.txt, one "RULE<TAB>function" per line, written by
// `vstatic anchors`, never at check time).
//
// The count floor alone cannot tell 'two copies of the checked construct were merged into one helper'
// (nothing lost) from 'the construct was reshaped in place so that the rule no longer sees it' (the rule
// went blind where it used to look). The anchor obligation can: an anchor function that still exists must
// still host an instance of the rule, or reach - through static calls, at most three deep, closures
// included - a function of the module that hosts one. A function that no longer exists under its name
// (renamed, inlined into its callers) is not an anchor any more; the count floor, kept at about half the
// reference count, remains as the guard against a rule that matches nothing.
func LoadAnchors(path string) (map[string][]string, error) {
	f, err := os.Open(path)
	if err != nil {
		return nil, err
	}
	defer f.Close()
	out := map[string][]string{}
	sc := bufio.NewScanner(f)
	sc.Buffer(make([]byte, 1<<20), 1<<20)
	for sc.Scan() {
		ln := sc.Text()
		if ln == "" || strings.HasPrefix(ln, "#") {
			continue
		}
		i := strings.IndexByte(ln, '\t')
		if i < 0 {
			return nil, fmt.Errorf("anchors: malformed line %q", ln)
		}
		out[ln[:i]] = append(out[ln[:i]], ln[i+1:])
	}
	return out, sc.Err()
}

var anchorsCache map[string][]string

func anchorsOf(rule string) ([]string, error) {
	if anchorsCache == nil {
		a, err := LoadAnchors(filepath.Join(VerifDir(), "anchors.txt"))
		if err != nil {
			return nil, err
		}
		anchorsCache = a
	}
	return anchorsCache[rule], nil
}

// keyFunc: the function slot of an obligation key rule|function|construct#k.
func keyFunc(key string) string {
	parts := strings.SplitN(key, "|", 3)
	if len(parts) < 3 {
		return ""
	}
	return parts[1]
}

func (p *Prog) funcIndex() map[string]*ssa.Function {
	if p.byName == nil {
		p.byName = map[string]*ssa.Function{}
		for _, fn := range p.srcFuncs {
			p.byName[FuncName(fn)] = fn
		}
	}
	return p.byName
}

// HostFuncs: the functions (by FuncName) named in the function slot of the obligations, restricted to
// names that resolve to a function of the program.
func HostFuncs(p *Prog, obs []Obligation) []string {
	idx := p.funcIndex()
	seen := map[string]bool{}
	var out []string
	for _, o := range obs {
		f := keyFunc(o.Key)
		if f != "" && !seen[f] && idx[f] != nil {
			seen[f] = true
			out = append(out, f)
		}
	}
	sort.Strings(out)
	return out
}

// reachesHost: fn, its closures, or a module function reached from them through at most depth static
// calls is in hosts.
func reachesHost(p *Prog, fn *ssa.Function, hosts map[string]bool, depth int, seen map[*ssa.Function]bool) string {
	if fn == nil || seen[fn] {
		return ""
	}
	seen[fn] = true
	if hosts[FuncName(fn)] {
		return FuncName(fn)
	}
	for _, an := range fn.AnonFuncs {
		if h := reachesHost(p, an, hosts, depth, seen); h != "" {
			return h
		}
	}
	if depth == 0 {
		return ""
	}
	for _, b := range fn.Blocks {
		for _, in := range b.Instrs {
			ci, ok := in.(ssa.CallInstruction)
			if !ok {
				continue
			}
			cal := ci.Common().StaticCallee()
			if cal == nil {
				// a closure value called directly
				if mc, ok := ci.Common().Value.(*ssa.MakeClosure); ok {
					cal, _ = mc.Fn.(*ssa.Function)
				}
			}
			if cal == nil || cal.Blocks == nil {
				continue
			}
			pk := cal.Pkg
			if pk == nil && cal.Origin() != nil {
				pk = cal.Origin().Pkg
			}
			if pk == nil || !p.InModule(pk.Pkg) {
				continue
			}
			if h := reachesHost(p, cal, hosts, depth-1, seen); h != "" {
				return h
			}
		}
	}
	return ""
}

// AnchorObligations decides the anchors of one rule against its result on the amd64 program.
func AnchorObligations(p *Prog, rule string, res *RuleResult) ([]Obligation, []string, error) {
	anchors, err := anchorsOf(rule)
	if err != nil {
		return nil, nil, err
	}
	idx := p.funcIndex()
	hosts := map[string]bool{}
	for _, h := range HostFuncs(p, res.Obligations) {
		hosts[h] = true
	}
	var out []Obligation
	var notes []string
	gone := 0
	for _, a := range anchors {
		fn := idx[a]
		if fn == nil {
			gone++
			continue
		}
		o := Obligation{Rule: rule, Key: rule + "|" + a + "|anchor: the rule still finds its construct here or in a callee", Pos: p.Pos(fn.Pos()), Nontrivial: false}
		if h := reachesHost(p, fn, hosts, 3, map[*ssa.Function]bool{}); h != "" {
			o.Status, o.Verdict = Discharged, "discharged"
			if h == a {
				o.Detail = "the function hosts an instance of the rule"
			} else {
				o.Detail = "the construct is found in " + h + ", which this function calls"
			}
		} else {
			o.Status, o.Verdict = Violated, "violated"
			o.Nontrivial = true
			o.Detail = "on the reference tree " + rule + " checked a construct in this function; the function still exists, but neither it nor any function it calls (three deep) contains something the rule recognises: the construct was removed or reshaped and the rule no longer decides it (see the rule's text for what it looks for)"
		}
		out = append(out, o)
	}
	if gone > 0 {
		notes = append(notes, fmt.Sprintf("%d anchor function(s) of the reference tree no longer exist under their name (renamed, removed or inlined): not required", gone))
	}
	return out, notes, nil
}
