package core

import (
	"crypto/sha1"
	"encoding/hex"
	"encoding/json"
	"fmt"
	"os"
	"path/filepath"
	"sort"
	"strconv"
	"strings"
	"time"

	"golang.org/x/tools/go/ssa"
)

// PropertySpec binds a property to the rules that decide its structural clauses.
type PropertySpec struct {
	ID         string
	Rules      []string // rule names
	Decided    string   // what the rules decide for this property
	NotDecided string   // clauses declined
	DesignRef  string
}

// Registry of rules, filled by package rules.
var Registry = map[string]*Rule{}

func Register(r *Rule) {
	if _, dup := Registry[r.Name]; dup {
		panic("duplicate rule " + r.Name)
	}
	Registry[r.Name] = r
}

// progCache loads each GOARCH once per process.
var progCache = map[string]*Prog{}

func getProg(arch string) (*Prog, error) {
	if p, ok := progCache[arch]; ok {
		return p, nil
	}
	p, err := Load(arch, true)
	if err != nil {
		return nil, err
	}
	progCache[arch] = p
	return p, nil
}

// ruleCache caches rule results per (arch, rule) within a process (the "all" command runs many properties).
var ruleCache = map[string]*RuleResult{}

func runRule(r *Rule, arch string) (res *RuleResult, err error) {
	ck := arch + "/" + r.Name
	if rr, ok := ruleCache[ck]; ok {
		return rr, nil
	}
	p, err := getProg(arch)
	if err != nil {
		return nil, err
	}
	defer func() {
		if x := recover(); x != nil {
			if os.Getenv("VSTATIC_PANIC") != "" {
				panic(x)
			}
			err = fmt.Errorf("rule %s panicked on %s: %v", r.Name, arch, x)
		}
	}()
	res = r.Run(p)
	res.Rule = r.Name
	for i := range res.Obligations {
		o := &res.Obligations[i]
		o.Rule = r.Name
		o.Verdict = o.Status.String()
		if arch != "amd64" {
			o.Arch = arch
		}
	}
	SortObligations(res.Obligations)
	ruleCache[ck] = res
	return res, nil
}

// CheckResult summarises one property check.
type CheckResult struct {
	Exit int
}

// Check runs all rules of a property and writes evidence. Returns process exit code.
func Check(spec *PropertySpec, tier string, out *os.File) int {
	start := time.Now()
	seed := 0
	if s := os.Getenv("VERIF_SEED"); s != "" {
		seed, _ = strconv.Atoi(s)
	}
	findings, err := LoadFindings(filepath.Join(VerifDir(), "known_findings.txt"))
	if err != nil {
		fmt.Fprintf(out, "ERROR property=%s cannot read known_findings.txt: %v\n", spec.ID, err)
		return 2
	}
	known := map[string]Finding{}
	for _, f := range findings {
		if f.Kind != "finding" {
			continue
		}
		for _, pid := range f.Props {
			if pid == spec.ID {
				known[f.Key] = f
			}
		}
	}

	var all []Obligation
	var fatal []string
	var notes []string
	perRule := map[string]map[string]int{}
	anchored := map[string]bool{}
	funcsAnalysed := 0
	archs := []string{"amd64"}
	for _, rn := range spec.Rules {
		r := Registry[rn]
		if r == nil {
			fatal = append(fatal, "unknown rule "+rn)
			continue
		}
		ruleArchs := []string{"amd64"}
		if tier == "thorough" {
			if r.ThoroughArchs == nil {
				ruleArchs = append(ruleArchs, "arm64", "386")
			} else {
				ruleArchs = append(ruleArchs, r.ThoroughArchs...)
			}
		}
		for _, arch := range ruleArchs {
			res, err := runRule(r, arch)
			if err != nil {
				fatal = append(fatal, err.Error())
				continue
			}
			if !contains(archs, arch) {
				archs = append(archs, arch)
			}
			for _, f := range res.Fatal {
				fatal = append(fatal, fmt.Sprintf("%s[%s]: %s", rn, arch, f))
			}
			floor := r.Min
			if arch == "amd64" {
				// anchors (see anchors.go): where the rule found its constructs on the reference tree
				aobs, anotes, err := AnchorObligations(progCache[arch], rn, res)
				if err != nil {
					fatal = append(fatal, "anchors.txt: "+err.Error())
				}
				if listed, _ := anchorsOf(rn); len(listed) > 0 {
					floor = (r.Min + 1) / 2
					anchored[rn] = true
				}
				all = append(all, aobs...)
				for _, n := range anotes {
					notes = append(notes, fmt.Sprintf("%s[%s]: %s", rn, arch, n))
				}
			} else if anchored[rn] {
				floor = (r.Min + 1) / 2
			}
			if len(res.Obligations) < floor {
				// a rule that lost targets it had on the reference tree cannot pass: reported as a violation of its own
				all = append(all, Obligation{Rule: rn, Key: rn + "|instance-floor|" + arch, Pos: "-", Status: Violated, Verdict: "violated", Nontrivial: true,
					Detail: fmt.Sprintf("instance floor: the rule found %d instances, the floor is %d: constructs the rule used to check have disappeared or changed shape so that they are no longer recognised", len(res.Obligations), floor)})
			}
			for _, n := range res.Notes {
				notes = append(notes, fmt.Sprintf("%s[%s]: %s", rn, arch, n))
			}
			all = append(all, res.Obligations...)
			c := perRule[rn]
			if c == nil {
				c = map[string]int{}
				perRule[rn] = c
			}
			for _, o := range res.Obligations {
				c["instances"]++
				c[o.Status.String()]++
			}
		}
		if tier == "thorough" && r.Canary != nil {
			if err := r.Canary(); err != nil {
				fatal = append(fatal, fmt.Sprintf("%s: canary did not fire: %v", rn, err))
			} else {
				notes = append(notes, rn+": canary fixture fired as required")
			}
		}
	}
	if p := progCache["amd64"]; p != nil {
		funcsAnalysed = len(p.SrcFuncs())
	}

	// classify
	discharged, nontrivial := 0, 0
	distinct := map[string]bool{}
	var newViol, knownViol []Obligation
	seenKnown := map[string]bool{}
	for _, o := range all {
		if o.Nontrivial && !distinct[o.Key] {
			distinct[o.Key] = true
			nontrivial++
		}
		switch o.Status {
		case Discharged:
			discharged++
		default:
			if _, ok := known[o.Key]; ok && o.Status == Violated {
				if !seenKnown[o.Key] {
					knownViol = append(knownViol, o)
					seenKnown[o.Key] = true
				}
			} else {
				newViol = append(newViol, o)
			}
		}
	}

	// a listed finding that moved: the violating construct was wrapped into a helper G that the listed function F now
	// calls (F's own obligation no longer reproduces, G shows the same construct). That is the listed defect at a new
	// address, not a different violation; anything else - another construct, a G that no formerly violating function
	// calls - is new.
	var movedViol []Obligation
	if p := progCache["amd64"]; p != nil && len(newViol) > 0 {
		stripOrd := func(c string) string {
			if i := strings.LastIndex(c, "#"); i >= 0 {
				if _, err := strconv.Atoi(c[i+1:]); err == nil {
					return c[:i]
				}
			}
			return c
		}
		split := func(key string) (rule, fn, construct string) {
			parts := strings.SplitN(key, "|", 3)
			if len(parts) < 3 {
				return "", "", ""
			}
			return parts[0], parts[1], stripOrd(parts[2])
		}
		idx := p.funcIndex()
		var rest []Obligation
		for _, o := range newViol {
			moved := false
			if o.Status == Violated {
				r, g, c := split(o.Key)
				var ks []string
				for k := range known {
					ks = append(ks, k)
				}
				sort.Strings(ks)
				for _, k := range ks {
					kr, f, kc := split(k)
					if seenKnown[k] || kr != r || kc != c || f == g || idx[f] == nil || idx[g] == nil {
						continue
					}
					if reachesHost(p, idx[f], map[string]bool{g: true}, 2, map[*ssa.Function]bool{}) != "" {
						fmt.Fprintf(out, "KNOWN-FINDING: property=%s %s (%s) %s [the listed site %s now reaches this construct through %s]\n", spec.ID, k, o.Pos, known[k].Text, f, g)
						seenKnown[k] = true
						moved = true
					}
				}
			}
			if moved {
				movedViol = append(movedViol, o)
			} else {
				rest = append(rest, o)
			}
		}
		newViol = rest
	}

	exit := 0
	replayDir := filepath.Join(VerifDir(), "evidence", "replay")
	if d := os.Getenv("VSTATIC_EVIDENCE_DIR"); d != "" {
		replayDir = filepath.Join(d, "replay")
	}
	for _, o := range knownViol {
		fmt.Fprintf(out, "KNOWN-FINDING: property=%s %s (%s) %s\n", spec.ID, o.Key, o.Pos, known[o.Key].Text)
	}
	seenNew := map[string]bool{}
	for _, o := range newViol {
		if seenNew[o.Key] {
			continue
		}
		seenNew[o.Key] = true
		exit = 1
		path := writeReplay(replayDir, spec.ID, o)
		fmt.Fprintf(out, "%s rule=%s at %s: %s\n    key=%s\n", strings.ToUpper(o.Status.String()), o.Rule, o.Pos, o.Detail, o.Key)
		for _, s := range o.Path {
			fmt.Fprintf(out, "      via %s\n", s)
		}
		fmt.Fprintf(out, "VIOLATION property=%s replay=%s\n", spec.ID, path)
	}
	for _, f := range fatal {
		fmt.Fprintf(out, "ANALYSIS-FAILURE property=%s %s\n", spec.ID, f)
	}
	if len(fatal) > 0 && exit == 0 {
		exit = 2
	}
	// stale findings are reported, never an error
	var stale []string
	for k := range known {
		if !seenKnown[k] {
			stale = append(stale, k)
		}
	}
	sort.Strings(stale)
	for _, k := range stale {
		fmt.Fprintf(out, "note: listed finding no longer reproduces (site repaired or removed): %s\n", k)
	}

	// samples: a few of each verdict
	var samples []any
	addSamples := func(st Status, max int) {
		n := 0
		for _, o := range all {
			if o.Status == st && n < max {
				samples = append(samples, o)
				n++
			}
		}
	}
	addSamples(Violated, 6)
	addSamples(Undecided, 3)
	// spread discharged samples across rules
	perRuleSample := map[string]int{}
	for _, o := range all {
		if o.Status == Discharged && perRuleSample[o.Rule] < 2 {
			perRuleSample[o.Rule]++
			samples = append(samples, o)
		}
	}

	var ruleDocs []string
	for _, rn := range spec.Rules {
		if r := Registry[rn]; r != nil {
			ruleDocs = append(ruleDocs, rn+": "+r.Doc)
		}
	}
	expl := fmt.Sprintf("Static analysis of /repo's current working tree (type-checked AST, go/ssa, VTA call graph; nothing is executed). "+
		"DECIDED for %s: %s NOT DECIDED (declined, see DESIGN.md): %s Each rule enumerates its instances from the source and decides each as discharged/violated/undecided; "+
		"violated obligations listed in known_findings.txt are genuine defects of the pinned tree that were demonstrated on the real code.",
		spec.ID, spec.Decided, spec.NotDecided)
	cov := map[string]any{
		"explanation":         expl,
		"rules":               ruleDocs,
		"rule_counts":         perRule,
		"obligations":         len(all),
		"discharged":          discharged,
		"known_findings":      len(knownViol) + len(movedViol),
		"new_violations":      len(seenNew),
		"evaluations":         len(all),
		"distinct_nontrivial": nontrivial,
		"rule":                "one obligation per rule instance found in the source (call site, switch, store, loop, function); keyed rule|function|construct#ordinal; non-trivial = deciding it needed a dataflow, dominance, path or call-graph argument rather than a syntactic lookup",
		"samples":             samples,
		"exhaustive":          true,
		"functions_analysed":  funcsAnalysed,
		"build_configs":       archs,
		"notes":               notes,
		"analysis_failures":   fatal,
		"checker_cmd":         "./bin/vstatic check -property " + spec.ID + " -tier " + tier,
		"trusted_base":        []string{"go/types type checker (go1.26.8)", "golang.org/x/tools v0.50.0 go/ssa, go/cfg, callgraph/vta+cha", "Go memory model: no unsynchronised shared write => no race on that memory"},
	}
	ev := &Evidence{
		PropertyID: spec.ID, Tier: tier, Seed: seed, Level: "other", Coverage: cov,
		Assumptions: []string{
			"the rules are necessary conditions of the property, not the behavioural equality itself",
			"class propagation replaces points-to analysis; sound here because shared memory is reachable only via receiver, package variables and the haystack (checked by R-UNSAFE/R-NOGO)",
		},
		WallS: Since(start), Violations: len(seenNew),
	}
	if len(fatal) > 0 {
		ev.Violations += 0
	}
	if err := WriteEvidence(ev); err != nil {
		fmt.Fprintf(out, "ERROR property=%s cannot write evidence: %v\n", spec.ID, err)
		return 2
	}
	fmt.Fprintf(out, "property=%s tier=%s obligations=%d discharged=%d known_findings=%d new_violations=%d analysis_failures=%d wall=%.1fs\n",
		spec.ID, tier, len(all), discharged, len(knownViol)+len(movedViol), len(seenNew), len(fatal), Since(start))
	return exit
}

func writeReplay(dir, prop string, o Obligation) string {
	_ = os.MkdirAll(dir, 0o755)
	h := sha1.Sum([]byte(o.Key))
	path := filepath.Join(dir, prop+"-"+hex.EncodeToString(h[:6])+".json")
	rec := map[string]any{"property": prop, "obligation": o, "rule_doc": ""}
	if r := Registry[o.Rule]; r != nil {
		rec["rule_doc"] = r.Doc
	}
	b, _ := json.MarshalIndent(rec, "", " ")
	_ = os.WriteFile(path, append(b, '\n'), 0o644)
	return path
}

func contains(xs []string, x string) bool {
	for _, y := range xs {
		if y == x {
			return true
		}
	}
	return false
}
