package core

import (
	"bufio"
	"encoding/json"
	"fmt"
	"os"
	"path/filepath"
	"sort"
	"strings"
	"time"
)

// Status of an obligation.
type Status int

const (
	Discharged Status = iota
	Violated
	Undecided
)

func (s Status) String() string {
	switch s {
	case Discharged:
		return "discharged"
	case Violated:
		return "violated"
	}
	return "undecided"
}

// Obligation is one rule instance found in the current source.
type Obligation struct {
	Rule   string   `json:"rule"`
	Key    string   `json:"key"` // rule|function|construct[#k]; never a line number
	Pos    string   `json:"pos"` // file:line on today's tree (diagnostic only)
	Status Status   `json:"-"`
	Verdict string  `json:"verdict"`
	Detail string   `json:"detail,omitempty"`
	Path   []string `json:"path,omitempty"` // call chain or CFG path
	// Nontrivial: deciding it required a non-empty dataflow/path/call-graph argument.
	Nontrivial bool `json:"nontrivial,omitempty"`
	// Arch: build configuration the obligation was found in ("" = amd64).
	Arch string `json:"arch,omitempty"`
}

// RuleResult is what one rule produced on one program.
type RuleResult struct {
	Rule        string
	Obligations []Obligation
	Notes       []string // free-text "what was analysed"
	Fatal       []string // unresolved anchors, instance floor etc. -> exit 2
}

// Rule is a repository-specific checker.
type Rule struct {
	Name string
	Doc  string // statement of the rule and why it is a necessary condition
	Min  int    // instance floor confirmed by hand on the pinned tree
	// NeedSSA tells the driver to build SSA.
	NeedSSA bool
	Run     func(p *Prog) *RuleResult
	// Archs beyond amd64 on which the rule is re-run in the thorough tier. nil = arm64 and 386 (the pure-Go
	// fallback kernels and the 32-bit build); an empty non-nil slice = amd64 only.
	ThoroughArchs []string
	// Canary: positive fixture that must fire (expected-zero rules); returns error text if it did not.
	Canary func() error
}

// KeyCounter hands out ordinals "#k" per (function, construct) so keys stay stable without line numbers.
type KeyCounter struct{ m map[string]int }

func NewKeyCounter() *KeyCounter { return &KeyCounter{m: map[string]int{}} }

// Key builds rule|fn|construct#k with k = ordinal of this construct string in fn.
func (k *KeyCounter) Key(rule, fn, construct string) string {
	base := rule + "|" + fn + "|" + construct
	n := k.m[base]
	k.m[base] = n + 1
	if n == 0 {
		return base
	}
	return fmt.Sprintf("%s#%d", base, n)
}

// ---- known findings ----

// Finding is one line of known_findings.txt.
type Finding struct {
	Kind  string // "finding" or "fixed"
	Props []string
	Key   string
	Commit string
	Text  string
}

// LoadFindings parses /verif/known_findings.txt. Format, one per line:
//
//	finding: property=C06,C13 key=<obligation key> :: <what fails, with the demonstrating input>
//	fixed: property=C13,C14 <commit> key=<obligation key> :: <what failed>
//
// '#' starts a comment. The file is never written at run time.
func LoadFindings(path string) ([]Finding, error) {
	f, err := os.Open(path)
	if err != nil {
		if os.IsNotExist(err) {
			return nil, nil
		}
		return nil, err
	}
	defer f.Close()
	var out []Finding
	sc := bufio.NewScanner(f)
	sc.Buffer(make([]byte, 1<<20), 1<<20)
	ln := 0
	for sc.Scan() {
		ln++
		line := strings.TrimSpace(sc.Text())
		if line == "" || strings.HasPrefix(line, "#") {
			continue
		}
		var fd Finding
		switch {
		case strings.HasPrefix(line, "finding:"):
			fd.Kind = "finding"
			line = strings.TrimSpace(strings.TrimPrefix(line, "finding:"))
		case strings.HasPrefix(line, "fixed:"):
			fd.Kind = "fixed"
			line = strings.TrimSpace(strings.TrimPrefix(line, "fixed:"))
		default:
			return nil, fmt.Errorf("%s:%d: line must start with finding: or fixed:", path, ln)
		}
		head, text, _ := strings.Cut(line, " :: ")
		fd.Text = strings.TrimSpace(text)
		if !strings.HasPrefix(head, "property=") {
			return nil, fmt.Errorf("%s:%d: missing property=", path, ln)
		}
		rest := strings.TrimPrefix(head, "property=")
		propStr, rest, _ := strings.Cut(rest, " ")
		fd.Props = strings.Split(propStr, ",")
		rest = strings.TrimSpace(rest)
		if fd.Kind == "fixed" {
			fd.Commit, rest, _ = strings.Cut(rest, " ")
			rest = strings.TrimSpace(rest)
		}
		if !strings.HasPrefix(rest, "key=") {
			return nil, fmt.Errorf("%s:%d: missing key=", path, ln)
		}
		fd.Key = strings.TrimSpace(strings.TrimPrefix(rest, "key="))
		out = append(out, fd)
	}
	return out, sc.Err()
}

// ---- evidence ----

type Evidence struct {
	PropertyID  string         `json:"property_id"`
	Tier        string         `json:"tier"`
	Seed        int            `json:"seed"`
	Level       string         `json:"level"`
	Coverage    map[string]any `json:"coverage"`
	Assumptions []string       `json:"assumptions"`
	WallS       float64        `json:"wall_s"`
	Violations  int            `json:"violations"`
}

// VerifDir is the directory of the verification framework (cwd of checks).
func VerifDir() string {
	if d := os.Getenv("VSTATIC_VERIF"); d != "" {
		return d
	}
	if _, err := os.Stat("properties.jsonl"); err == nil {
		d, _ := os.Getwd()
		return d
	}
	return "/verif"
}

func WriteEvidence(ev *Evidence) error {
	dir := filepath.Join(VerifDir(), "evidence")
	if d := os.Getenv("VSTATIC_EVIDENCE_DIR"); d != "" {
		dir = d
	}
	if err := os.MkdirAll(dir, 0o755); err != nil {
		return err
	}
	b, err := json.MarshalIndent(ev, "", " ")
	if err != nil {
		return err
	}
	return os.WriteFile(filepath.Join(dir, ev.PropertyID+".json"), append(b, '\n'), 0o644)
}

// SortObligations orders by key for deterministic output.
func SortObligations(obs []Obligation) {
	sort.SliceStable(obs, func(i, j int) bool {
		if obs[i].Key != obs[j].Key {
			return obs[i].Key < obs[j].Key
		}
		return obs[i].Arch < obs[j].Arch
	})
}

// Since is a small helper for wall-clock reporting.
func Since(t time.Time) float64 { return float64(time.Since(t).Milliseconds()) / 1000 }
