// Package asm is a small parser for the Go-assembler sources of this repository (amd64 only)
// with a register-provenance dataflow: for every instruction whose destination operand is
// memory it determines which object the address is derived from (own stack frame, a result
// slot, or a named Go parameter).
package asm

import (
	"bufio"
	"fmt"
	"os"
	"regexp"
	"sort"
	"strings"
)

// Store is one instruction with a memory destination.
type Store struct {
	File   string
	Line   int
	Text   string // TEXT symbol
	Instr  string
	Target string   // "frame", "result:<name>", "param:<name>", "unknown", "static"
	Prov   []string // provenance set of the address
}

// Func is one TEXT block.
type Func struct {
	File    string
	Line    int
	Name    string
	Instrs  int
	Stores  []Store
	Params  map[string]bool // FP names loaded
	Written map[string]bool // Go parameter names whose memory is written
	Unknown []Store         // stores whose address has no provenance
	Frame   int64           // declared frame size ($frame-args)
	body    []instr
}

type instr struct {
	line  int
	label string
	mnem  string
	ops   []string
	raw   string
}

var (
	reText  = regexp.MustCompile(`^TEXT\s+·([A-Za-z0-9_]+)\(SB\)`)
	reLabel = regexp.MustCompile(`^([A-Za-z_][A-Za-z0-9_]*):`)
	reFP    = regexp.MustCompile(`^([A-Za-z_][A-Za-z0-9_]*)\+(-?\d+)\(FP\)$`)
	reMem   = regexp.MustCompile(`^(-?(?:0x)?[0-9a-fA-F]*)\(([A-Z0-9]+)\)(?:\(([A-Z0-9]+)\*(\d)\))?$`)
	reSB    = regexp.MustCompile(`\(SB\)`)
	reFrame = regexp.MustCompile(`\$(\d+)(?:-\d+)?\s*$`)
	reReg   = regexp.MustCompile(`^(?:[A-D]X|[SD]I|[SB]P|R\d+|[A-D]L|R\d+[BWL]?|X\d+|Y\d+|Z\d+|K\d)$`)
)

func splitOps(s string) []string {
	var out []string
	depth := 0
	cur := ""
	for _, r := range s {
		switch r {
		case '(':
			depth++
		case ')':
			depth--
		case ',':
			if depth == 0 {
				out = append(out, strings.TrimSpace(cur))
				cur = ""
				continue
			}
		}
		cur += string(r)
	}
	if strings.TrimSpace(cur) != "" {
		out = append(out, strings.TrimSpace(cur))
	}
	return out
}

func normReg(r string) string {
	if len(r) >= 2 && (r[0] == 'X' || r[0] == 'Z') && r[1] >= '0' && r[1] <= '9' {
		return "Y" + r[1:]
	}
	switch r {
	case "AL":
		return "AX"
	case "BL":
		return "BX"
	case "CL":
		return "CX"
	case "DL":
		return "DX"
	}
	return r
}

// ParseFile parses one .s file into TEXT blocks with provenance results.
func ParseFile(path, rel string) ([]*Func, error) {
	f, err := os.Open(path)
	if err != nil {
		return nil, err
	}
	defer f.Close()
	var funcs []*Func
	var cur *Func
	var body []instr
	flush := func() {
		if cur != nil {
			cur.body = body
			analyse(cur, body)
			funcs = append(funcs, cur)
		}
		cur = nil
		body = nil
	}
	sc := bufio.NewScanner(f)
	ln := 0
	inBlockComment := false
	for sc.Scan() {
		ln++
		line := sc.Text()
		if inBlockComment {
			if i := strings.Index(line, "*/"); i >= 0 {
				line = line[i+2:]
				inBlockComment = false
			} else {
				continue
			}
		}
		if i := strings.Index(line, "//"); i >= 0 {
			line = line[:i]
		}
		if i := strings.Index(line, "/*"); i >= 0 {
			if j := strings.Index(line[i:], "*/"); j >= 0 {
				line = line[:i] + line[i+j+2:]
			} else {
				line = line[:i]
				inBlockComment = true
			}
		}
		line = strings.TrimSpace(line)
		if line == "" || strings.HasPrefix(line, "#") {
			continue
		}
		if m := reText.FindStringSubmatch(line); m != nil {
			flush()
			cur = &Func{File: rel, Line: ln, Name: m[1], Params: map[string]bool{}, Written: map[string]bool{}}
			if fm := reFrame.FindStringSubmatch(line); fm != nil {
				fmt.Sscan(fm[1], &cur.Frame)
			}
			continue
		}
		if strings.HasPrefix(line, "DATA") || strings.HasPrefix(line, "GLOBL") {
			continue
		}
		if cur == nil {
			continue
		}
		for _, part := range strings.Split(line, ";") {
			part = strings.TrimSpace(part)
			if part == "" {
				continue
			}
			var in instr
			in.line = ln
			in.raw = part
			if m := reLabel.FindStringSubmatch(part); m != nil {
				in.label = m[1]
				part = strings.TrimSpace(part[len(m[0]):])
				if part == "" {
					body = append(body, in)
					continue
				}
				body = append(body, in)
				in = instr{line: ln, raw: part}
			}
			fields := strings.SplitN(part, " ", 2)
			if i := strings.IndexAny(part, " \t"); i >= 0 {
				fields = []string{part[:i], strings.TrimSpace(part[i:])}
			}
			in.mnem = fields[0]
			if len(fields) > 1 {
				in.ops = splitOps(fields[1])
			}
			body = append(body, in)
		}
	}
	flush()
	return funcs, sc.Err()
}

type state map[string]map[string]bool // reg -> provenance set

func (s state) clone() state {
	n := state{}
	for k, v := range s {
		m := map[string]bool{}
		for x := range v {
			m[x] = true
		}
		n[k] = m
	}
	return n
}

// merge adds o into s; reports change.
func (s state) merge(o state) bool {
	ch := false
	for k, v := range o {
		m := s[k]
		if m == nil {
			m = map[string]bool{}
			s[k] = m
		}
		for x := range v {
			if !m[x] {
				m[x] = true
				ch = true
			}
		}
	}
	return ch
}

func isNoWrite(m string) bool {
	switch {
	case strings.HasPrefix(m, "CMP"), strings.HasPrefix(m, "TEST"), m == "VPTEST", m == "PTEST",
		strings.HasPrefix(m, "J"), m == "RET", m == "VZEROUPPER", m == "CALL", strings.HasPrefix(m, "PREFETCH"),
		m == "NOP", m == "PCALIGN", strings.HasPrefix(m, "BT") && m != "BTRL" && m != "BTRQ" && m != "BTSL" && m != "BTSQ" && m != "BTCL" && m != "BTCQ",
		m == "PUSHQ", m == "POPQ", m == "BYTE", m == "WORD", m == "LONG", m == "QUAD", m == "FUNCDATA", m == "PCDATA", m == "NO_LOCAL_POINTERS":
		return true
	}
	return false
}

func isJump(m string) bool { return strings.HasPrefix(m, "J") }

// srcProv computes provenance of a source operand.
func srcProv(op string, st state, fn *Func) map[string]bool {
	if strings.HasPrefix(op, "$") {
		return nil
	}
	if m := reFP.FindStringSubmatch(op); m != nil {
		name := m[1]
		fn.Params[name] = true
		switch {
		case strings.HasSuffix(name, "_len"), strings.HasSuffix(name, "_cap"):
			return nil
		case strings.HasSuffix(name, "_base"):
			return map[string]bool{"param:" + strings.TrimSuffix(name, "_base"): true}
		default:
			// scalar or pointer parameter; pointer-ness is decided by the Go signature later: keep the name
			return map[string]bool{"param:" + name: true}
		}
	}
	if reReg.MatchString(op) {
		return st[normReg(op)]
	}
	if reMem.MatchString(op) || reSB.MatchString(op) {
		// value loaded from memory: not a pointer we can track
		return nil
	}
	return nil
}

// addrProv computes the provenance of a memory operand's address; ok=false if not a memory operand.
func addrProv(op string, st state) (prov map[string]bool, kind string, ok bool) {
	if m := reFP.FindStringSubmatch(op); m != nil {
		return nil, "result:" + m[1], true
	}
	if reSB.MatchString(op) {
		return nil, "static", true
	}
	m := reMem.FindStringSubmatch(op)
	if m == nil {
		return nil, "", false
	}
	base, idx := m[2], m[3]
	if base == "SP" {
		return map[string]bool{"frame": true}, "frame", true
	}
	if base == "FP" {
		return nil, "result:?", true
	}
	p := st[normReg(base)]
	if len(p) == 0 && idx != "" {
		p = st[normReg(idx)]
	}
	return p, "", true
}

func analyse(fn *Func, body []instr) {
	in := map[string]state{}
	type rec struct {
		prov   map[string]bool
		target string
	}
	results := map[int]*rec{} // instruction index -> store record (joined over passes)
	for pass := 0; pass < 50; pass++ {
		changed := false
		cur := state{}
		reachable := true
		for i, ins := range body {
			if ins.label != "" && ins.mnem == "" {
				l := in[ins.label]
				if l == nil {
					l = state{}
					in[ins.label] = l
				}
				if reachable {
					if l.merge(cur) {
						changed = true
					}
				}
				cur = l.clone()
				reachable = true
				continue
			}
			if !reachable {
				continue
			}
			m := ins.mnem
			if isJump(m) {
				if len(ins.ops) == 1 {
					l := in[ins.ops[0]]
					if l == nil {
						l = state{}
						in[ins.ops[0]] = l
						changed = true
					}
					if l.merge(cur) {
						changed = true
					}
				}
				if m == "JMP" {
					reachable = false
				}
				continue
			}
			if m == "RET" {
				reachable = false
				continue
			}
			if isNoWrite(m) || len(ins.ops) == 0 {
				continue
			}
			dst := ins.ops[len(ins.ops)-1]
			srcs := ins.ops[:len(ins.ops)-1]
			// memory destination?
			if !reReg.MatchString(dst) && !strings.HasPrefix(dst, "$") {
				if prov, kind, ok := addrProv(dst, cur); ok {
					r := results[i]
					if r == nil {
						r = &rec{prov: map[string]bool{}}
						results[i] = r
					}
					if kind != "" && kind != "frame" {
						r.target = kind
					}
					for p := range prov {
						if !r.prov[p] {
							r.prov[p] = true
							changed = true
						}
					}
					if kind == "frame" {
						r.prov["frame"] = true
					}
					continue
				}
			}
			if !reReg.MatchString(dst) {
				continue
			}
			d := normReg(dst)
			np := map[string]bool{}
			switch {
			case strings.HasPrefix(m, "LEA"):
				if p, _, ok := addrProv(srcs[0], cur); ok {
					for x := range p {
						np[x] = true
					}
					// LEA base+index: index may carry the pointer when base is scalar
					if mm := reMem.FindStringSubmatch(srcs[0]); mm != nil && mm[3] != "" {
						for x := range cur[normReg(mm[3])] {
							np[x] = true
						}
					}
				}
			case strings.HasPrefix(m, "MOV") || strings.HasPrefix(m, "VMOV") || strings.HasPrefix(m, "VPBROADCAST") || strings.HasPrefix(m, "VBROADCAST"):
				for x := range srcProv(srcs[0], cur, fn) {
					np[x] = true
				}
			case (strings.HasPrefix(m, "XOR") || strings.HasPrefix(m, "VPXOR") || strings.HasPrefix(m, "PXOR") || strings.HasPrefix(m, "SUB")) && len(srcs) >= 1 && allSame(srcs, dst) && m[:3] != "SUB":
				// zeroing idiom
			case strings.HasPrefix(m, "BSF"), strings.HasPrefix(m, "BSR"), strings.HasPrefix(m, "TZCNT"), strings.HasPrefix(m, "LZCNT"),
				strings.HasPrefix(m, "POPCNT"), strings.HasPrefix(m, "SET"), strings.HasPrefix(m, "VPMOVMSK"), strings.HasPrefix(m, "PMOVMSK"),
				strings.HasPrefix(m, "VPCMP"), strings.HasPrefix(m, "PCMP"):
				// results are scalars/masks
			default:
				// arithmetic: destination keeps its provenance and gains the sources'
				for x := range cur[d] {
					np[x] = true
				}
				for _, s := range srcs {
					for x := range srcProv(s, cur, fn) {
						np[x] = true
					}
				}
			}
			cur[d] = np
		}
		if !changed && pass > 0 {
			break
		}
	}
	fn.Instrs = 0
	for i, ins := range body {
		if ins.mnem != "" {
			fn.Instrs++
		}
		r := results[i]
		if r == nil {
			continue
		}
		st := Store{File: fn.File, Line: ins.line, Text: fn.Name, Instr: ins.raw}
		for p := range r.prov {
			st.Prov = append(st.Prov, p)
		}
		sort.Strings(st.Prov)
		switch {
		case r.target != "":
			st.Target = r.target
		case len(st.Prov) == 0:
			st.Target = "unknown"
			fn.Unknown = append(fn.Unknown, st)
		default:
			var t []string
			for _, p := range st.Prov {
				if strings.HasPrefix(p, "param:") {
					fn.Written[strings.TrimPrefix(p, "param:")] = true
				}
				t = append(t, p)
			}
			st.Target = strings.Join(t, "+")
		}
		fn.Stores = append(fn.Stores, st)
	}
}

func allSame(srcs []string, dst string) bool {
	for _, s := range srcs {
		if normReg(s) != normReg(dst) {
			return false
		}
	}
	return true
}

func (s Store) String() string {
	return fmt.Sprintf("%s:%d %s: %s -> %s", s.File, s.Line, s.Text, s.Instr, s.Target)
}
