package asm

// Class folding: a byte-class kernel (a TEXT block whose only parameters are one slice) classifies
// each haystack byte independently of all others - in the vector body by lane-wise instructions on
// broadcast constants, in the scalar tail by a chain of CMPB/Jcc. Both are folded here over the 256
// byte values: the vector body by evaluating the lane-wise instructions for one lane holding x, the
// tail by following the compare-and-branch chain with the loaded register holding x. Nothing is
// executed; the instruction semantics below are the table the fold relies on.

import (
	"fmt"
	"strings"
)

// ClassFold is the result for one TEXT block.
type ClassFold struct {
	Vector     [256]bool
	VectorOK   bool
	VectorLine int
	VectorWhy  string
	Scalar     [256]bool
	ScalarOK   bool
	ScalarLine int
	ScalarWhy  string
}

// OnlySliceParams reports whether the block reads no parameter besides the fields of slices.
func (fn *Func) OnlySliceParams() bool {
	if len(fn.Params) == 0 {
		return false
	}
	for n := range fn.Params {
		if !(strings.HasSuffix(n, "_base") || strings.HasSuffix(n, "_len") || strings.HasSuffix(n, "_cap")) {
			return false
		}
	}
	return true
}

func vecName(op string) (string, bool) {
	if len(op) >= 2 && (op[0] == 'X' || op[0] == 'Y' || op[0] == 'Z') && op[1] >= '0' && op[1] <= '9' {
		return "V" + op[1:], true
	}
	return "", false
}

func plainMem(op string) bool {
	m := reMem.FindStringSubmatch(op)
	return m != nil && m[2] != "SP" && !reFP.MatchString(op) && !reSB.MatchString(op)
}

// foldVector evaluates, for one lane holding x, the straight-line vector code from the top of the
// block to the first (V)PMOVMSKB after the haystack load and the scalar code up to the branch that
// tests the mask. Returns whether the lane's mask bit makes the kernel report a hit.
func foldVector(fn *Func, x uint8) (hit bool, line int, why string) {
	gp := map[string]uint64{}
	gpOK := map[string]bool{}
	vec := map[string]uint8{}
	vecOK := map[string]bool{}
	loaded := false
	maskReg := ""
	var bit, bitOK bool
	for _, ins := range fn.body {
		m, ops := ins.mnem, ins.ops
		if m == "" || isJump(m) && maskReg == "" {
			continue
		}
		if maskReg != "" {
			// scalar code between the mask extraction and the branch on it
			switch {
			case (m == "NOTL" || m == "NOTQ") && len(ops) == 1 && sameGP(ops[0], maskReg):
				bit = !bit
			case (m == "TESTL" || m == "TESTQ") && len(ops) == 2 && sameGP(ops[0], maskReg) && sameGP(ops[1], maskReg):
				// flags = mask
			case m == "JNZ" || m == "JNE":
				return bit, ins.line, ""
			case m == "JZ" || m == "JE" || m == "JEQ":
				return !bit, ins.line, "" // jumps away when no bit is set: falling through is the hit
			default:
				return false, ins.line, "instruction between mask extraction and branch not understood: " + ins.raw
			}
			continue
		}
		if len(ops) == 0 {
			continue
		}
		dst := ops[len(ops)-1]
		switch {
		case m == "MOVQ" || m == "MOVL" || m == "MOVD":
			if d, ok := gpName(dst); ok {
				if n, ok := parseImm(ops[0]); ok {
					gp[d], gpOK[d] = uint64(n), true
				} else if s, ok := gpName(ops[0]); ok {
					gp[d], gpOK[d] = gp[s], gpOK[s]
				} else {
					gpOK[d] = false
				}
			} else if d, ok := vecName(dst); ok {
				if s, ok := gpName(ops[0]); ok && gpOK[s] {
					// low lane(s) of the vector = low bytes of the GP register; remember byte 0 and
					// whether all eight bytes are equal (for VPBROADCASTQ)
					v := gp[s]
					vec[d], vecOK[d] = uint8(v), true
					b0 := v & 0xFF
					uniform := true
					for i := 1; i < 8; i++ {
						if (v>>(8*uint(i)))&0xFF != b0 {
							uniform = false
						}
					}
					if !uniform && m != "MOVD" {
						vec["q:"+d] = 0
						vecOK["q:"+d] = false
					} else {
						vecOK["q:"+d] = uniform
					}
				} else {
					vecOK[d] = false
				}
			}
		case m == "VPBROADCASTB":
			d, ok1 := vecName(dst)
			s, ok2 := vecName(ops[0])
			if ok1 && ok2 {
				vec[d], vecOK[d] = vec[s], vecOK[s]
			}
		case m == "VPBROADCASTQ" || m == "VPBROADCASTD" || m == "VPBROADCASTW":
			d, ok1 := vecName(dst)
			s, ok2 := vecName(ops[0])
			if ok1 && ok2 {
				// lane-uniform only if the broadcast element consists of equal bytes
				vec[d], vecOK[d] = vec[s], vecOK[s] && vecOK["q:"+s]
			}
		case (m == "VMOVDQU" || m == "VMOVDQA" || m == "MOVOU" || m == "MOVOA") && plainMem(ops[0]):
			if d, ok := vecName(dst); ok {
				vec[d], vecOK[d] = x, true
				loaded = true
			}
		case m == "VMOVDQU" || m == "VMOVDQA" || m == "MOVOU" || m == "MOVOA":
			d, ok1 := vecName(dst)
			s, ok2 := vecName(ops[0])
			if ok1 && ok2 {
				vec[d], vecOK[d] = vec[s], vecOK[s]
			} else if ok1 {
				vecOK[d] = false
			}
		case m == "VPMOVMSKB" || m == "PMOVMSKB":
			if !loaded {
				return false, ins.line, "mask extracted before any haystack load"
			}
			s, ok := vecName(ops[0])
			if !ok || !vecOK[s] {
				return false, ins.line, "mask source is not a known lane value"
			}
			r, _ := gpName(dst)
			maskReg = r
			bit, bitOK = vec[s]&0x80 != 0, true
			_ = bitOK
		case strings.HasPrefix(m, "VP") && len(ops) == 3:
			a, okA := vecName(ops[0])
			b, okB := vecName(ops[1])
			d, okD := vecName(dst)
			if !okD {
				continue
			}
			if !okA || !okB || !vecOK[a] || !vecOK[b] {
				// VPXOR r, r, d zeroes and VPCMPEQB r, r, d sets all bits, whatever r held
				if (m == "VPXOR" || m == "VPSUBB") && okA && okB && a == b {
					vec[d], vecOK[d] = 0, true
					continue
				}
				if (m == "VPCMPEQB" || m == "VPCMPEQD" || m == "VPCMPEQW" || m == "VPCMPEQQ") && okA && okB && a == b {
					vec[d], vecOK[d] = 0xFF, true
					continue
				}
				vecOK[d] = false
				continue
			}
			va, vb := vec[a], vec[b]
			var r uint8
			switch m {
			case "VPMINUB":
				r = va
				if vb < r {
					r = vb
				}
			case "VPMAXUB":
				r = va
				if vb > r {
					r = vb
				}
			case "VPCMPEQB":
				if va == vb {
					r = 0xFF
				}
			case "VPCMPGTB":
				// Go operand order: VPCMPGTB A, B, D  =>  D = (B > A), signed bytes
				if int8(vb) > int8(va) {
					r = 0xFF
				}
			case "VPOR":
				r = va | vb
			case "VPAND":
				r = va & vb
			case "VPXOR":
				r = va ^ vb
			case "VPANDN":
				// Go operand order: VPANDN A, B, D  =>  D = ^B & A
				r = ^vb & va
			case "VPSUBB":
				r = vb - va
			case "VPADDB":
				r = vb + va
			case "VPSUBUSB":
				if vb > va {
					r = vb - va
				}
			case "VPADDUSB":
				s := uint16(vb) + uint16(va)
				if s > 255 {
					s = 255
				}
				r = uint8(s)
			default:
				vecOK[d] = false
				continue
			}
			vec[d], vecOK[d] = r, true
		default:
			if d, ok := gpName(dst); ok && !isNoWrite(m) {
				gpOK[d] = false
			} else if d, ok := vecName(dst); ok {
				vecOK[d] = false
			}
		}
	}
	return false, 0, "no mask extraction found"
}

func sameGP(a, b string) bool {
	x, ok1 := gpName(a)
	y, ok2 := gpName(b)
	if !ok2 {
		y = b
		ok2 = true
	}
	return ok1 && ok2 && x == y
}

// foldScalar follows the compare-and-branch chain after the byte load of the tail loop.
func foldScalar(fn *Func, x uint8) (hit bool, line int, why string) {
	labels := map[string]int{}
	for i, ins := range fn.body {
		if ins.label != "" && ins.mnem == "" {
			labels[ins.label] = i
		}
	}
	// the byte load: MOVBLZX (reg), R
	start, reg, ptr := -1, "", ""
	for i, ins := range fn.body {
		if (ins.mnem == "MOVBLZX" || ins.mnem == "MOVBQZX") && len(ins.ops) == 2 && plainMem(ins.ops[0]) {
			if r, ok := gpName(ins.ops[1]); ok {
				mm := reMem.FindStringSubmatch(ins.ops[0])
				if mm[3] == "" && (mm[1] == "" || mm[1] == "0") {
					start, reg, ptr = i, r, mm[2]
					break
				}
			}
		}
	}
	if start < 0 {
		return false, 0, "no byte load from the haystack"
	}
	line = fn.body[start].line
	var a, b uint64
	flags := false
	pc := start + 1
	for steps := 0; steps < 400 && pc < len(fn.body); steps++ {
		ins := fn.body[pc]
		m, ops := ins.mnem, ins.ops
		switch {
		case m == "":
			pc++
		case (m == "CMPB" || m == "CMPL" || m == "CMPQ") && len(ops) == 2:
			r, ok := gpName(ops[0])
			n, ok2 := parseImm(ops[1])
			if !ok || r != reg || !ok2 {
				return false, line, "comparison not of the loaded byte with a constant: " + ins.raw
			}
			a, b, flags = uint64(x), uint64(uint8(n)), true
			if m != "CMPB" {
				b = uint64(n)
			}
			pc++
		case m == "RET":
			return true, line, ""
		case m == "JMP":
			t, ok := labels[ops[0]]
			if !ok {
				return false, line, "jump target not found"
			}
			pc = t
		case isJump(m):
			if !flags {
				return false, line, "branch on flags not set by a comparison of the loaded byte: " + ins.raw
			}
			var take bool
			switch m {
			case "JB", "JCS", "JLO":
				take = a < b
			case "JBE", "JLS":
				take = a <= b
			case "JA", "JHI":
				take = a > b
			case "JAE", "JCC", "JHS":
				take = a >= b
			case "JE", "JEQ", "JZ":
				take = a == b
			case "JNE", "JNZ":
				take = a != b
			default:
				return false, line, "condition code not understood: " + m
			}
			if take {
				t, ok := labels[ops[0]]
				if !ok {
					return false, line, "jump target not found"
				}
				pc = t
			} else {
				pc++
			}
		case (m == "INCQ" && len(ops) == 1 && ops[0] == ptr) || (m == "ADDQ" && len(ops) == 2 && ops[0] == "$1" && ops[1] == ptr):
			return false, line, "" // advances to the next byte: this one was rejected
		default:
			// anything else must leave the flags alone or come after the decision
			if !flagsPreserved(m) {
				flags = false
			}
			if len(ops) > 0 {
				if d, ok := gpName(ops[len(ops)-1]); ok && d == reg && !isNoWrite(m) {
					return false, line, "the loaded byte is overwritten before the decision: " + ins.raw
				}
			}
			pc++
		}
	}
	return false, line, "no decision reached"
}

// FoldClass folds both halves of a byte-class kernel.
func FoldClass(fn *Func) *ClassFold {
	cf := &ClassFold{VectorOK: true, ScalarOK: true}
	for x := 0; x < 256; x++ {
		if cf.VectorOK {
			h, l, why := foldVector(fn, uint8(x))
			cf.VectorLine = l
			if why != "" {
				cf.VectorOK, cf.VectorWhy = false, why
			} else {
				cf.Vector[x] = h
			}
		}
		if cf.ScalarOK {
			h, l, why := foldScalar(fn, uint8(x))
			cf.ScalarLine = l
			if why != "" {
				cf.ScalarOK, cf.ScalarWhy = false, why
			} else {
				cf.Scalar[x] = h
			}
		}
	}
	return cf
}

func (cf *ClassFold) String() string {
	return fmt.Sprintf("vector ok=%v (%s) scalar ok=%v (%s)", cf.VectorOK, cf.VectorWhy, cf.ScalarOK, cf.ScalarWhy)
}
