package asm

// Bounds analysis of the assembly kernels: an abstract interpretation in which every general
// purpose register holds a linear expression over symbols (slice base / len / scalar parameters,
// loop symbols introduced where control joins, opaque results with a known range) and every
// program point carries a set of linear inequalities established by the dominating compare-and-
// branch instructions. For every instruction with a memory operand the address expression is
// checked against the object it is derived from: base <= addr and addr+width <= base+len for a
// slice parameter, 0 <= off and off+width <= size for a pointer parameter or the frame.
// Nothing is executed; loop invariants are found as the greatest fixed point of candidate facts
// taken from the loop's entry edge and checked on every back edge.

import (
	"fmt"
	"regexp"
	"sort"
	"strconv"
	"strings"
)

// Lin is c + sum t[s]*s. Values are immutable once built.
type Lin struct {
	c int64
	t map[string]int64
}

func konst(c int64) Lin { return Lin{c: c} }
func symL(s string) Lin { return Lin{t: map[string]int64{s: 1}} }

func (a Lin) plus(b Lin, k int64) Lin {
	r := Lin{c: a.c + k*b.c, t: map[string]int64{}}
	for s, v := range a.t {
		r.t[s] = v
	}
	for s, v := range b.t {
		r.t[s] += k * v
		if r.t[s] == 0 {
			delete(r.t, s)
		}
	}
	return r
}

func (a Lin) scale(k int64) Lin { return konst(0).plus(a, k) }

func (a Lin) isConst() (int64, bool) { return a.c, len(a.t) == 0 }

func (a Lin) eq(b Lin) bool {
	if a.c != b.c || len(a.t) != len(b.t) {
		return false
	}
	for s, v := range a.t {
		if b.t[s] != v {
			return false
		}
	}
	return true
}

func (a Lin) mentions(s string) bool { return a.t[s] != 0 }

func (a Lin) mentionsPrefix(p string) bool {
	for s := range a.t {
		if strings.HasPrefix(s, p) {
			return true
		}
	}
	return false
}

func (a Lin) subst(s string, r Lin) Lin {
	k := a.t[s]
	if k == 0 {
		return a
	}
	b := Lin{c: a.c, t: map[string]int64{}}
	for x, v := range a.t {
		if x != s {
			b.t[x] = v
		}
	}
	return b.plus(r, k)
}

func (a Lin) String() string {
	var ss []string
	for s := range a.t {
		ss = append(ss, s)
	}
	sort.Strings(ss)
	var sb strings.Builder
	for _, s := range ss {
		v := a.t[s]
		switch {
		case v == 1:
			sb.WriteString("+" + s)
		case v == -1:
			sb.WriteString("-" + s)
		default:
			sb.WriteString(fmt.Sprintf("%+d*%s", v, s))
		}
	}
	if a.c != 0 || len(ss) == 0 {
		sb.WriteString(fmt.Sprintf("%+d", a.c))
	}
	return strings.TrimPrefix(sb.String(), "+")
}

// Access is one instruction with a memory operand that is not an FP/SB reference.
type Access struct {
	File   string
	Line   int
	Text   string
	Instr  string
	Store  bool
	Width  int
	Object string // "slice:<param>", "ptr:<param>", "frame", "unknown"
	Addr   string
	Lower  bool // base <= addr proved
	Upper  bool // addr+width <= end proved
	Note   string
}

// Pre carries what the Go side guarantees for one TEXT block.
type Pre struct {
	// Facts: inequalities e <= 0 over the symbols "<p>.base", "<p>.len", "<p>.cap", "param:<name>".
	Facts []Lin
	// PtrSize: size in bytes of the object a pointer parameter points to.
	PtrSize map[string]int64
	// ElemSize: element size in bytes of a slice parameter (default 1).
	ElemSize map[string]int64
}

// ParseFact parses "a + b - 3 <= c" style inequalities (only +,-, integer coefficients k*sym, <=, >=, <, >).
func ParseFact(s string) (Lin, error) {
	var op string
	for _, o := range []string{"<=", ">=", "<", ">"} {
		if strings.Contains(s, o) {
			op = o
			break
		}
	}
	if op == "" {
		return Lin{}, fmt.Errorf("no relation in %q", s)
	}
	parts := strings.SplitN(s, op, 2)
	l, err := parseLin(parts[0])
	if err != nil {
		return Lin{}, err
	}
	r, err := parseLin(parts[1])
	if err != nil {
		return Lin{}, err
	}
	switch op {
	case "<=":
		return l.plus(r, -1), nil
	case "<":
		return l.plus(r, -1).plus(konst(1), 1), nil
	case ">=":
		return r.plus(l, -1), nil
	default:
		return r.plus(l, -1).plus(konst(1), 1), nil
	}
}

var reTerm = regexp.MustCompile(`^(?:(\d+)\*)?([A-Za-z_][A-Za-z0-9_.:]*)$`)

func parseLin(s string) (Lin, error) {
	s = strings.ReplaceAll(s, " ", "")
	r := konst(0)
	i := 0
	for i < len(s) {
		sign := int64(1)
		if s[i] == '+' {
			i++
		} else if s[i] == '-' {
			sign = -1
			i++
		}
		j := i
		for j < len(s) && s[j] != '+' && s[j] != '-' {
			j++
		}
		tok := s[i:j]
		i = j
		if tok == "" {
			return Lin{}, fmt.Errorf("empty term in %q", s)
		}
		if n, err := strconv.ParseInt(tok, 0, 64); err == nil {
			r = r.plus(konst(n), sign)
			continue
		}
		m := reTerm.FindStringSubmatch(tok)
		if m == nil {
			return Lin{}, fmt.Errorf("bad term %q", tok)
		}
		k := int64(1)
		if m[1] != "" {
			k, _ = strconv.ParseInt(m[1], 10, 64)
		}
		r = r.plus(symL(m[2]), sign*k)
	}
	return r, nil
}

type bstate struct {
	regs  map[string]Lin
	facts []Lin
}

func (s *bstate) clone() *bstate {
	n := &bstate{regs: map[string]Lin{}, facts: append([]Lin(nil), s.facts...)}
	for k, v := range s.regs {
		n.regs[k] = v
	}
	return n
}

func (s *bstate) addFact(f Lin) {
	if k, ok := f.isConst(); ok && k <= 0 {
		return
	}
	for _, g := range s.facts {
		if g.eq(f) {
			return
		}
	}
	s.facts = append(s.facts, f)
}

func (s *bstate) same(o *bstate) bool {
	if o == nil || len(s.regs) != len(o.regs) || len(s.facts) != len(o.facts) {
		return false
	}
	for k, v := range s.regs {
		w, ok := o.regs[k]
		if !ok || !v.eq(w) {
			return false
		}
	}
	for _, f := range s.facts {
		found := false
		for _, g := range o.facts {
			if f.eq(g) {
				found = true
				break
			}
		}
		if !found {
			return false
		}
	}
	return true
}

var gpRegs = []string{"AX", "BX", "CX", "DX", "SI", "DI", "BP", "R8", "R9", "R10", "R11", "R12", "R13", "R14", "R15"}

var reGP = regexp.MustCompile(`^(?:[A-D]X|[SD]I|BP|R(?:8|9|1[0-5]))$`)
var reSub = regexp.MustCompile(`^(?:([A-D])L|(R(?:8|9|1[0-5]))[BWL])$`)

func gpName(op string) (string, bool) {
	if reGP.MatchString(op) {
		return op, true
	}
	if m := reSub.FindStringSubmatch(op); m != nil {
		if m[1] != "" {
			return m[1] + "X", true
		}
		return m[2], true
	}
	return "", false
}

func parseImm(op string) (int64, bool) {
	if !strings.HasPrefix(op, "$") {
		return 0, false
	}
	v := op[1:]
	if n, err := strconv.ParseInt(v, 0, 64); err == nil {
		return n, true
	}
	if n, err := strconv.ParseUint(v, 0, 64); err == nil {
		return int64(n), true
	}
	return 0, false
}

type bctx struct {
	fn        *Func
	body      []instr
	pre       *Pre
	upper     map[string]int64 // symbol -> inclusive upper bound (lower bound 0)
	nonneg    map[string]bool
	frame     int64
	labels    map[string]int
	phis      map[string]map[string]bool // label -> registers joined by a loop symbol
	edges     map[string]map[int]*bstate // label -> source index (-1: fall-through keyed by label index) -> state on that edge
	access    map[int]*Access
	prov      map[string]map[string]bool // symbol -> objects ("<p>.base", "param:<p>") it is derived from
	shr16     map[string]Lin             // symbol created by SHRL $16 -> the value that was shifted
	fold16    map[string]bool            // symbol holds x | x>>16
	budget    int
	verbose   bool
	frozen    map[string]*bstate
	converged bool
}

func (c *bctx) axioms(t Lin) []Lin {
	var out []Lin
	for s := range t.t {
		if c.nonneg[s] {
			out = append(out, symL(s).scale(-1))
		}
		if u, ok := c.upper[s]; ok {
			out = append(out, symL(s).plus(konst(u), -1))
		}
	}
	return out
}

// provOf: the objects an expression's pointer part may be derived from.
func (c *bctx) provOf(e Lin) map[string]bool {
	out := map[string]bool{}
	for s := range e.t {
		if strings.HasSuffix(s, ".base") || (strings.HasPrefix(s, "param:") && c.pre.PtrSize[strings.TrimPrefix(s, "param:")] > 0) {
			out[s] = true
		}
		for o := range c.prov[s] {
			out[o] = true
		}
	}
	return out
}

// entails: do the facts imply t <= 0 ?
func (c *bctx) entails(facts []Lin, t Lin, depth int) bool {
	if k, ok := t.isConst(); ok {
		return k <= 0
	}
	if depth == 0 {
		return false
	}
	c.budget--
	if c.budget < 0 {
		return false
	}
	try := func(f Lin) bool {
		// f <= 0 helps if it shares a symbol with t with the same sign
		for s, tv := range t.t {
			fv := f.t[s]
			if fv == 0 || (fv > 0) != (tv > 0) {
				continue
			}
			k := int64(1)
			if tv%fv == 0 && tv/fv > 0 {
				k = tv / fv
			}
			if c.entails(facts, t.plus(f, -k), depth-1) {
				return true
			}
			if k != 1 && c.entails(facts, t.plus(f, -1), depth-1) {
				return true
			}
			return false
		}
		return false
	}
	for _, f := range c.axioms(t) {
		if try(f) {
			return true
		}
	}
	for _, f := range facts {
		if try(f) {
			return true
		}
	}
	return false
}

func (c *bctx) proves(st *bstate, t Lin) bool {
	c.budget = 200000
	return c.entails(st.facts, t, 5)
}

func (c *bctx) nonNegative(st *bstate, e Lin) bool { return c.proves(st, e.scale(-1)) }

// operand value as a linear expression; ok=false for memory/vector/unknown operands.
func (c *bctx) val(st *bstate, op string) (Lin, bool) {
	if n, ok := parseImm(op); ok {
		return konst(n), true
	}
	if r, ok := gpName(op); ok {
		return st.regs[r], true
	}
	if m := reFP.FindStringSubmatch(op); m != nil {
		return c.fpSym(m[1]), true
	}
	return Lin{}, false
}

func (c *bctx) fpSym(name string) Lin {
	switch {
	case strings.HasSuffix(name, "_base"):
		s := strings.TrimSuffix(name, "_base") + ".base"
		c.nonneg[s] = true
		return symL(s)
	case strings.HasSuffix(name, "_len"):
		s := strings.TrimSuffix(name, "_len") + ".len"
		c.nonneg[s] = true
		return symL(s)
	case strings.HasSuffix(name, "_cap"):
		s := strings.TrimSuffix(name, "_cap") + ".cap"
		c.nonneg[s] = true
		return symL(s)
	}
	s := "param:" + name
	if _, ok := c.pre.PtrSize[name]; ok {
		c.nonneg[s] = true
	}
	return symL(s)
}

// memAddr computes the address expression of a memory operand disp(base)(idx*scale).
func (c *bctx) memAddr(st *bstate, op string) (Lin, string, bool) {
	m := reMem.FindStringSubmatch(op)
	if m == nil {
		return Lin{}, "", false
	}
	disp := int64(0)
	if m[1] != "" && m[1] != "-" {
		d, err := strconv.ParseInt(m[1], 0, 64)
		if err != nil {
			return Lin{}, "", false
		}
		disp = d
	}
	base := m[2]
	var a Lin
	kind := ""
	switch base {
	case "SP":
		a = symL("SP")
		kind = "frame"
	case "FP", "SB":
		return Lin{}, "", false
	default:
		r, ok := gpName(base)
		if !ok {
			return Lin{}, "", false
		}
		a = st.regs[r]
	}
	a = a.plus(konst(disp), 1)
	if m[3] != "" {
		r, ok := gpName(m[3])
		if !ok {
			return Lin{}, "", false
		}
		sc, _ := strconv.ParseInt(m[4], 10, 64)
		a = a.plus(st.regs[r], sc)
	}
	return a, kind, true
}

func isMemOp(op string) bool {
	if reFP.MatchString(op) || reSB.MatchString(op) {
		return false
	}
	return reMem.MatchString(op)
}

func accessWidth(mnem string, ops []string) int {
	vec := 0
	for _, o := range ops {
		if len(o) >= 2 && o[1] >= '0' && o[1] <= '9' {
			switch o[0] {
			case 'Y':
				vec = 32
			case 'X':
				if vec < 16 {
					vec = 16
				}
			case 'Z':
				vec = 64
			}
		}
	}
	switch {
	case mnem == "VBROADCASTI128":
		return 16
	case strings.HasPrefix(mnem, "VPBROADCASTB"):
		return 1
	case strings.HasPrefix(mnem, "VPBROADCASTQ"):
		return 8
	case strings.HasPrefix(mnem, "MOVB"), mnem == "CMPB", mnem == "TESTB":
		return 1
	case strings.HasPrefix(mnem, "MOVW"), mnem == "CMPW":
		return 2
	case vec > 0:
		return vec
	case strings.HasSuffix(mnem, "Q"):
		return 8
	case strings.HasSuffix(mnem, "L"):
		return 4
	case strings.HasSuffix(mnem, "W"):
		return 2
	case strings.HasSuffix(mnem, "B"):
		return 1
	}
	return 0
}

func flagsPreserved(m string) bool {
	switch {
	case strings.HasPrefix(m, "MOV"), strings.HasPrefix(m, "LEA"), strings.HasPrefix(m, "VMOV"),
		strings.HasPrefix(m, "VPBROADCAST"), strings.HasPrefix(m, "VBROADCAST"), m == "VZEROUPPER", m == "NOP",
		m == "NOTL", m == "NOTQ":
		return true
	case m == "VPTEST" || m == "PTEST":
		return false
	case strings.HasPrefix(m, "VP"), strings.HasPrefix(m, "P") && !strings.HasPrefix(m, "POP") && !strings.HasPrefix(m, "PUSH"):
		return true
	}
	return false
}

type cmpInfo struct {
	a, b  Lin
	valid bool
}

func (c *bctx) opaque(st *bstate, idx int, reg string, lo0 bool, up int64) Lin {
	s := fmt.Sprintf("v%d:%s", c.body[idx].line, reg)
	c.kill(st, s, reg)
	delete(c.upper, s)
	delete(c.nonneg, s)
	delete(c.fold16, s)
	delete(c.shr16, s)
	if lo0 {
		c.nonneg[s] = true
	}
	if up >= 0 {
		c.upper[s] = up
	}
	return symL(s)
}

// kill forgets everything known about a symbol that is about to denote a new value.
func (c *bctx) kill(st *bstate, s string, except string) {
	var nf []Lin
	for _, f := range st.facts {
		if !f.mentions(s) {
			nf = append(nf, f)
		}
	}
	st.facts = nf
	for r, e := range st.regs {
		if r != except && e.mentions(s) {
			st.regs[r] = symL("stale:" + r + ":" + s)
		}
	}
}

func (c *bctx) symUpper(e Lin) (int64, bool) {
	if k, ok := e.isConst(); ok && k >= 0 {
		return k, true
	}
	if e.c == 0 && len(e.t) == 1 {
		for s, v := range e.t {
			if v == 1 && c.nonneg[s] {
				if u, ok := c.upper[s]; ok {
					return u, true
				}
			}
		}
	}
	return 0, false
}

// branch facts for "CMP a, b ; Jcc": returns facts on the taken edge and on the fall-through edge.
func (c *bctx) branchFacts(st *bstate, m string, ci cmpInfo) (taken, fall []Lin) {
	if !ci.valid {
		return nil, nil
	}
	a, b := ci.a, ci.b
	le := func(x, y Lin) Lin { return x.plus(y, -1) }                   // x <= y
	lt := func(x, y Lin) Lin { return x.plus(y, -1).plus(konst(1), 1) } // x < y
	uns := func(f Lin, big Lin) []Lin {
		// an unsigned comparison says x <= y about the mathematical values only if y is not a
		// wrapped negative number
		if c.nonNegative(st, big) {
			return []Lin{f}
		}
		return nil
	}
	switch m {
	case "JA", "JHI":
		return uns(lt(b, a), a), uns(le(a, b), b)
	case "JAE", "JCC", "JHS":
		return uns(le(b, a), a), uns(lt(a, b), b)
	case "JB", "JCS", "JLO":
		return uns(lt(a, b), b), uns(le(b, a), a)
	case "JBE", "JLS":
		return uns(le(a, b), b), uns(lt(b, a), a)
	case "JE", "JEQ", "JZ":
		fs := []Lin{le(a, b), le(b, a)}
		var nz []Lin
		if bz, ok := b.isConst(); ok && bz == 0 && c.nonNegative(st, a) {
			nz = []Lin{lt(b, a)}
		}
		return fs, nz
	case "JNE", "JNZ":
		fs := []Lin{le(a, b), le(b, a)}
		var nz []Lin
		if bz, ok := b.isConst(); ok && bz == 0 && c.nonNegative(st, a) {
			nz = []Lin{lt(b, a)}
		}
		return nz, fs
	case "JL", "JLT":
		return []Lin{lt(a, b)}, []Lin{le(b, a)}
	case "JLE":
		return []Lin{le(a, b)}, []Lin{lt(b, a)}
	case "JG", "JGT":
		return []Lin{lt(b, a)}, []Lin{le(a, b)}
	case "JGE":
		return []Lin{le(b, a)}, []Lin{lt(a, b)}
	}
	return nil, nil
}

// step interprets one non-jump instruction.
func (c *bctx) step(st *bstate, idx int, ci *cmpInfo, final bool) {
	ins := c.body[idx]
	m := ins.mnem
	ops := ins.ops
	// memory operands -> accesses
	for oi, op := range ops {
		if !isMemOp(op) {
			continue
		}
		if strings.HasPrefix(m, "LEA") || strings.HasPrefix(m, "PREFETCH") {
			continue
		}
		if final {
			c.recordAccess(st, idx, op, oi == len(ops)-1 && !isNoWrite(m))
		}
	}
	if m == "CMPQ" && len(ops) == 2 {
		a, ok1 := c.val(st, ops[0])
		b, ok2 := c.val(st, ops[1])
		*ci = cmpInfo{a: a, b: b, valid: ok1 && ok2}
		return
	}
	if m == "TESTQ" && len(ops) == 2 && ops[0] == ops[1] {
		a, ok := c.val(st, ops[0])
		*ci = cmpInfo{a: a, b: konst(0), valid: ok}
		return
	}
	if (m == "CMPL" || m == "TESTL") && len(ops) == 2 {
		// 32-bit compares say something about the full values only when both fit
		a, ok1 := c.val(st, ops[0])
		b, ok2 := c.val(st, ops[1])
		_, f1 := c.symUpper(a)
		_, f2 := c.symUpper(b)
		if m == "TESTL" {
			if ops[0] == ops[1] && ok1 && f1 {
				*ci = cmpInfo{a: a, b: konst(0), valid: true}
			} else {
				ci.valid = false
			}
			return
		}
		*ci = cmpInfo{a: a, b: b, valid: ok1 && ok2 && f1 && f2}
		return
	}
	if !flagsPreserved(m) {
		ci.valid = false
	}
	if isNoWrite(m) || len(ops) == 0 {
		return
	}
	dst := ops[len(ops)-1]
	d, ok := gpName(dst)
	if !ok {
		return
	}
	srcs := ops[:len(ops)-1]
	set := func(e Lin) { st.regs[d] = e }
	cur := st.regs[d]
	switch {
	case m == "MOVQ" && len(srcs) == 1:
		if v, ok := c.val(st, srcs[0]); ok {
			set(v)
		} else {
			set(c.opaque(st, idx, d, false, -1))
		}
	case m == "MOVL" && len(srcs) == 1:
		v, ok := c.val(st, srcs[0])
		if _, fits := c.symUpper(v); ok && fits {
			set(v)
		} else if reFP.MatchString(srcs[0]) {
			set(c.opaque(st, idx, d, true, 1<<32-1))
		} else {
			set(c.opaque(st, idx, d, true, 1<<32-1))
		}
	case m == "MOVBLZX" || m == "MOVBQZX":
		v, ok := c.val(st, srcs[0])
		if u, fits := c.symUpper(v); ok && fits && u <= 255 && !reFP.MatchString(srcs[0]) {
			set(v)
		} else {
			set(c.opaque(st, idx, d, true, 255))
		}
	case m == "MOVWLZX" || m == "MOVWQZX":
		set(c.opaque(st, idx, d, true, 65535))
	case m == "LEAQ" && len(srcs) == 1:
		if a, _, ok := c.memAddr(st, srcs[0]); ok {
			set(a)
		} else {
			set(c.opaque(st, idx, d, false, -1))
		}
	case (m == "XORQ" || m == "XORL") && len(srcs) == 1 && gpEq(srcs[0], dst):
		set(konst(0))
	case (m == "SUBQ") && len(srcs) == 1:
		if v, ok := c.val(st, srcs[0]); ok {
			set(cur.plus(v, -1))
		} else {
			set(c.opaque(st, idx, d, false, -1))
		}
	case (m == "ADDQ") && len(srcs) == 1:
		if v, ok := c.val(st, srcs[0]); ok {
			set(cur.plus(v, 1))
		} else {
			set(c.opaque(st, idx, d, false, -1))
		}
	case m == "INCQ":
		set(cur.plus(konst(1), 1))
	case m == "DECQ":
		set(cur.plus(konst(1), -1))
	case m == "NEGQ":
		set(cur.scale(-1))
	case m == "SHLQ" && len(srcs) == 1:
		if k, ok := parseImm(srcs[0]); ok && k >= 0 && k < 32 {
			set(cur.scale(1 << uint(k)))
		} else {
			set(c.opaque(st, idx, d, false, -1))
		}
	case (m == "ANDQ" || m == "ANDL") && len(srcs) == 1:
		if k, ok := parseImm(srcs[0]); ok && k >= 0 {
			up := k
			if u, fits := c.symUpper(cur); fits && u < up {
				up = u
			}
			set(c.opaque(st, idx, d, true, up))
		} else if m == "ANDL" {
			set(c.opaque(st, idx, d, true, 1<<32-1))
		} else {
			set(c.opaque(st, idx, d, false, -1))
		}
	case (m == "SHRQ" || m == "SHRL") && len(srcs) == 1:
		k, okk := parseImm(srcs[0])
		u, fits := c.symUpper(cur)
		defer func(before Lin) {
			if okk && k == 16 && m == "SHRL" {
				if e := st.regs[d]; len(e.t) == 1 && e.c == 0 {
					for s := range e.t {
						c.shr16[s] = before
					}
				}
			}
		}(cur)
		switch {
		case okk && fits && k >= 0 && k < 64:
			set(c.opaque(st, idx, d, true, u>>uint(k)))
		case okk && m == "SHRL" && k >= 0 && k < 32:
			set(c.opaque(st, idx, d, true, (1<<32-1)>>uint(k)))
		default:
			set(c.opaque(st, idx, d, m == "SHRL", -1))
		}
	case m == "BSFL" || m == "BSRL" || m == "TZCNTL":
		// the index of a set bit of a value <= U is at most bitlen(U)-1. BSF/BSR of zero leave the
		// destination undefined, so a bound is claimed only where the source is proved non-zero.
		v, ok := c.val(st, srcs[0])
		if !(ok && (m == "TZCNTL" || c.proves(st, konst(1).plus(v, -1)))) {
			set(c.opaque(st, idx, d, false, -1))
			break
		}
		up := int64(31)
		if u, fits := c.symUpper(v); fits && u > 0 {
			n := int64(0)
			for x := u; x > 0; x >>= 1 {
				n++
			}
			if n-1 < up {
				up = n - 1
			}
		}
		if m == "BSFL" && len(v.t) == 1 && v.c == 0 {
			for s := range v.t {
				if c.fold16[s] && up > 15 {
					// x | x>>16 of a non-zero 32-bit x has a set bit among its low 16 bits
					up = 15
				}
			}
		}
		set(c.opaque(st, idx, d, true, up))
	case m == "BSFQ" || m == "BSRQ" || m == "TZCNTQ":
		set(c.opaque(st, idx, d, true, 63))
	case m == "POPCNTL" || m == "POPCNTQ":
		set(c.opaque(st, idx, d, true, 64))
	case m == "ORL" && len(srcs) == 1 && c.isShr16Of(st, srcs[0], cur):
		// dst = x | x>>16 (x a 32-bit value): remember the shape for the bit scan that follows
		nz := c.proves(st, konst(1).plus(cur, -1))
		e := c.opaque(st, idx, d, true, 1<<32-1)
		for s := range e.t {
			c.fold16[s] = true
			if nz {
				st.addFact(konst(1).plus(e, -1))
			}
		}
		set(e)
	case (m == "XORL" || m == "ORL" || m == "XORQ" || m == "ORQ") && len(srcs) == 1:
		// x op imm with 0 <= x <= U: the result has no bit above the highest bit of max(U, imm)
		k, okk := parseImm(srcs[0])
		u, fits := c.symUpper(cur)
		if okk && fits && k >= 0 {
			mx := u
			if k > mx {
				mx = k
			}
			b := int64(1)
			for b <= mx {
				b <<= 1
			}
			set(c.opaque(st, idx, d, true, b-1))
		} else if strings.HasSuffix(m, "L") {
			set(c.opaque(st, idx, d, true, 1<<32-1))
		} else {
			set(c.opaque(st, idx, d, false, -1))
		}
	case m == "BTRL" || m == "BTRQ":
		// clearing a bit does not increase an unsigned value
		if u, fits := c.symUpper(cur); fits {
			set(c.opaque(st, idx, d, true, u))
		} else {
			set(c.opaque(st, idx, d, m == "BTRL", -1))
		}
	case m == "VPMOVMSKB":
		set(c.opaque(st, idx, d, true, 1<<32-1))
	case m == "PMOVMSKB":
		set(c.opaque(st, idx, d, true, 65535))
	case strings.HasSuffix(m, "L"):
		// any other 32-bit operation zero-extends its result
		set(c.opaque(st, idx, d, true, 1<<32-1))
	default:
		set(c.opaque(st, idx, d, false, -1))
	}
}

func (c *bctx) isShr16Of(st *bstate, src string, x Lin) bool {
	r, ok := gpName(src)
	if !ok {
		return false
	}
	e := st.regs[r]
	if len(e.t) != 1 || e.c != 0 {
		return false
	}
	for s := range e.t {
		if b, ok := c.shr16[s]; ok && b.eq(x) {
			if _, fits := c.symUpper(x); fits {
				return true
			}
		}
	}
	return false
}

func gpEq(a, b string) bool {
	x, ok1 := gpName(a)
	y, ok2 := gpName(b)
	return ok1 && ok2 && x == y
}

func (c *bctx) recordAccess(st *bstate, idx int, op string, store bool) {
	ins := c.body[idx]
	addr, kind, ok := c.memAddr(st, op)
	a := &Access{File: c.fn.File, Line: ins.line, Text: c.fn.Name, Instr: ins.raw, Store: store}
	c.access[idx] = a
	a.Width = accessWidth(ins.mnem, ins.ops)
	if !ok || a.Width == 0 {
		a.Object = "unknown"
		a.Note = "operand or width not understood"
		return
	}
	a.Addr = addr.String()
	w := konst(int64(a.Width))
	var lowT, upT Lin
	switch {
	case kind == "frame":
		a.Object = "frame"
		off := addr.plus(symL("SP"), -1)
		lowT = off.scale(-1)
		upT = off.plus(w, 1).plus(konst(c.frame), -1)
	default:
		pv := c.provOf(addr)
		var objs []string
		for o := range pv {
			objs = append(objs, o)
		}
		sort.Strings(objs)
		if len(objs) == 1 && strings.HasSuffix(objs[0], ".base") {
			obj := objs[0]
			name := strings.TrimSuffix(obj, ".base")
			a.Object = "slice:" + name
			lowT = symL(obj).plus(addr, -1)
			es := int64(1)
			if v := c.pre.ElemSize[name]; v > 0 {
				es = v
			}
			upT = addr.plus(w, 1).plus(symL(obj), -1).plus(symL(name+".len"), -es)
			break
		}
		if len(objs) == 1 {
			s := objs[0]
			name := strings.TrimPrefix(s, "param:")
			a.Object = "ptr:" + name
			off := addr.plus(symL(s), -1)
			lowT = off.scale(-1)
			upT = off.plus(w, 1).plus(konst(c.pre.PtrSize[name]), -1)
			break
		}
		if len(objs) > 1 {
			a.Object = "unknown"
			a.Note = "address derived from several objects: " + strings.Join(objs, ",")
			return
		}
		if a.Object == "" {
			a.Object = "unknown"
			a.Note = "address not derived from a slice base, a sized pointer parameter or SP"
			return
		}
	}
	a.Lower = c.proves(st, lowT)
	a.Upper = c.proves(st, upT)
	if !a.Lower || !a.Upper {
		var fs []string
		for _, f := range st.facts {
			fs = append(fs, f.String()+"<=0")
		}
		sort.Strings(fs)
		a.Note = "facts at this point: " + strings.Join(fs, " ; ")
	}
}

// join computes the state at a label from the states on its incoming edges.
func (c *bctx) join(label string) *bstate {
	em := c.edges[label]
	if len(em) == 0 {
		return nil
	}
	var srcs []int
	for k := range em {
		srcs = append(srcs, k)
	}
	sort.Ints(srcs)
	if len(srcs) == 1 {
		return em[srcs[0]].clone()
	}
	ref := em[srcs[0]]
	phis := c.phis[label]
	if phis == nil {
		phis = map[string]bool{}
		c.phis[label] = phis
	}
	for _, r := range gpRegs {
		for _, k := range srcs[1:] {
			if !em[k].regs[r].eq(ref.regs[r]) {
				phis[r] = true
			}
		}
	}
	out := &bstate{regs: map[string]Lin{}}
	phiSym := func(r string) string { return "phi:" + label + ":" + r }
	for r := range phis {
		ps := phiSym(r)
		if c.prov[ps] == nil {
			c.prov[ps] = map[string]bool{}
		}
		for _, k := range srcs {
			for o := range c.provOf(em[k].regs[r]) {
				if o != ps {
					c.prov[ps][o] = true
				}
			}
		}
	}
	for _, r := range gpRegs {
		if phis[r] {
			out.regs[r] = symL(phiSym(r))
		} else {
			out.regs[r] = ref.regs[r]
		}
	}
	// a loop symbol inherits a range when every incoming value has one
	for r := range phis {
		ps := phiSym(r)
		mx, all := int64(0), true
		for _, k := range srcs {
			e := em[k].regs[r]
			if e.mentions(ps) {
				all = false
				break
			}
			u, fits := c.symUpper(e)
			if !fits {
				all = false
				break
			}
			if u > mx {
				mx = u
			}
		}
		if all {
			c.upper[ps] = mx
			c.nonneg[ps] = true
		} else {
			delete(c.upper, ps)
			delete(c.nonneg, ps)
		}
	}
	// candidate facts
	var cands []Lin
	add := func(f Lin) {
		if f.mentionsPrefix("phi:"+label+":") && false {
			return
		}
		for _, g := range cands {
			if g.eq(f) {
				return
			}
		}
		cands = append(cands, f)
	}
	own := "phi:" + label + ":"
	var base []Lin
	for _, f := range ref.facts {
		if !f.mentionsPrefix(own) {
			base = append(base, f)
		}
	}
	var pr []string
	for r := range phis {
		pr = append(pr, r)
	}
	sort.Strings(pr)
	for _, f := range base {
		add(f)
	}
	// equalities phi_R == ref value, and the ref facts re-expressed over the loop symbols
	type sub struct {
		s string
		e Lin
	}
	var subs []sub
	for _, r := range pr {
		e := ref.regs[r]
		if e.mentionsPrefix(own) {
			continue
		}
		p := symL(phiSym(r))
		add(p.plus(e, -1))
		add(e.plus(p, -1))
		if len(e.t) == 1 {
			for s, v := range e.t {
				if v == 1 {
					// s = phi - c
					subs = append(subs, sub{s, p.plus(konst(e.c), -1)})
				}
			}
		}
	}
	for _, sb := range subs {
		for _, f := range base {
			if f.mentions(sb.s) {
				add(f.subst(sb.s, sb.e))
			}
		}
	}
	for i := 0; i < len(pr); i++ {
		for j := i + 1; j < len(pr); j++ {
			d := ref.regs[pr[i]].plus(ref.regs[pr[j]], -1)
			if d.mentionsPrefix(own) {
				continue
			}
			if len(d.t) <= 1 {
				pi, pj := symL(phiSym(pr[i])), symL(phiSym(pr[j]))
				add(pi.plus(pj, -1).plus(d, -1))
				add(pj.plus(pi, -1).plus(d, 1))
			}
		}
	}
	// keep the candidates that hold on every edge
	holds := func(f Lin) bool {
		for _, k := range srcs {
			e := em[k]
			g := f
			for _, r := range pr {
				g = g.subst(phiSym(r), e.regs[r])
			}
			c.budget = 20000
			if !c.entails(e.facts, g, 4) {
				return false
			}
		}
		return true
	}
	for _, f := range cands {
		if holds(f) {
			out.addFact(f)
			continue
		}
		// the join of x >= b+16 and x >= b is x >= b: weaken the constant by the least slack
		// (at most 256) under which the fact holds on every edge
		if !f.mentionsPrefix(own) || !holds(f.plus(konst(256), -1)) {
			continue
		}
		lo, hi := int64(1), int64(256)
		for lo < hi {
			mid := (lo + hi) / 2
			if holds(f.plus(konst(mid), -1)) {
				hi = mid
			} else {
				lo = mid + 1
			}
		}
		out.addFact(f.plus(konst(lo), -1))
	}
	return out
}

// Bounds runs the analysis on one TEXT block.
func Bounds(fn *Func, pre *Pre) []*Access {
	if pre == nil {
		pre = &Pre{}
	}
	if pre.PtrSize == nil {
		pre.PtrSize = map[string]int64{}
	}
	c := &bctx{fn: fn, body: fn.body, pre: pre, upper: map[string]int64{}, nonneg: map[string]bool{},
		frame: fn.Frame, labels: map[string]int{}, phis: map[string]map[string]bool{},
		edges: map[string]map[int]*bstate{}, access: map[int]*Access{}, prov: map[string]map[string]bool{},
		shr16: map[string]Lin{}, fold16: map[string]bool{}}
	for i, ins := range c.body {
		if ins.label != "" && ins.mnem == "" {
			c.labels[ins.label] = i
		}
	}
	setEdge := func(label string, src int, st *bstate) bool {
		m := c.edges[label]
		if m == nil {
			m = map[int]*bstate{}
			c.edges[label] = m
		}
		if old := m[src]; old != nil && old.same(st) {
			return false
		}
		m[src] = st.clone()
		return true
	}
	run := func(final bool) bool {
		changed := false
		cur := &bstate{regs: map[string]Lin{}}
		for _, r := range gpRegs {
			cur.regs[r] = symL("init:" + r)
		}
		for _, f := range pre.Facts {
			cur.addFact(f)
		}
		reachable := true
		var ci cmpInfo
		for i, ins := range c.body {
			if ins.label != "" && ins.mnem == "" {
				if reachable {
					if setEdge(ins.label, -1, cur) {
						changed = true
					}
				}
				var j *bstate
				if c.frozen != nil {
					if f := c.frozen[ins.label]; f != nil {
						j = f.clone()
					}
				} else {
					j = c.join(ins.label)
				}
				if j == nil {
					reachable = false
					continue
				}
				cur = j
				reachable = true
				ci.valid = false
				continue
			}
			if !reachable {
				continue
			}
			m := ins.mnem
			if isJump(m) {
				if len(ins.ops) == 1 {
					if _, ok := c.labels[ins.ops[0]]; ok {
						tk, fl := c.branchFacts(cur, m, ci)
						ts := cur.clone()
						if m != "JMP" {
							for _, f := range tk {
								ts.addFact(f)
							}
						}
						if setEdge(ins.ops[0], i, ts) {
							changed = true
						}
						for _, f := range fl {
							cur.addFact(f)
						}
					}
				}
				if m == "JMP" {
					reachable = false
				}
				continue
			}
			if m == "RET" {
				reachable = false
				continue
			}
			c.step(cur, i, &ci, final)
		}
		return changed
	}
	// phase 1: guess. Candidate invariants are propagated until nothing changes (or a pass limit:
	// the guesses need not be right, phase 2 decides).
	for pass := 0; pass < 12; pass++ {
		if !run(false) {
			break
		}
	}
	// phase 2: verify. The label states are frozen and taken as assumptions; one pass computes the
	// state on every edge; a fact (a register value, a symbol range) that does not hold on every
	// incoming edge is deleted and the pass repeated. Facts are only deleted and registers only
	// turned into loop symbols, so this terminates, and what is left is an inductive invariant.
	c.frozen = map[string]*bstate{}
	for l := range c.labels {
		if j := c.join(l); j != nil {
			c.frozen[l] = j
		}
	}
	c.converged = false
	for round := 0; round < 200; round++ {
		c.edges = map[string]map[int]*bstate{}
		run(false)
		changed := false
		var ls []string
		for l := range c.frozen {
			ls = append(ls, l)
		}
		sort.Strings(ls)
		for _, l := range ls {
			st := c.frozen[l]
			em := c.edges[l]
			var srcs []int
			for k := range em {
				srcs = append(srcs, k)
			}
			sort.Ints(srcs)
			phiSym := func(r string) string { return "phi:" + l + ":" + r }
			isPhi := func(r string) bool { e := st.regs[r]; return len(e.t) == 1 && e.c == 0 && e.t[phiSym(r)] == 1 }
			for _, r := range gpRegs {
				if isPhi(r) {
					// range attribute of the loop symbol
					ps := phiSym(r)
					if u, ok := c.upper[ps]; ok || c.nonneg[ps] {
						for _, k := range srcs {
							eu, fits := c.symUpper(em[k].regs[r])
							if em[k].regs[r].mentions(ps) || !fits || (ok && eu > u) {
								delete(c.upper, ps)
								delete(c.nonneg, ps)
								changed = true
								break
							}
						}
					}
					if c.prov[ps] == nil {
						c.prov[ps] = map[string]bool{}
					}
					for _, k := range srcs {
						for o := range c.provOf(em[k].regs[r]) {
							if o != ps && !c.prov[ps][o] {
								c.prov[ps][o] = true
								changed = true
							}
						}
					}
					continue
				}
				for _, k := range srcs {
					if !em[k].regs[r].eq(st.regs[r]) {
						ps := phiSym(r)
						st.regs[r] = symL(ps)
						delete(c.upper, ps)
						delete(c.nonneg, ps)
						c.prov[ps] = map[string]bool{}
						for _, k2 := range srcs {
							for o := range c.provOf(em[k2].regs[r]) {
								if o != ps {
									c.prov[ps][o] = true
								}
							}
						}
						changed = true
						break
					}
				}
			}
			var keep []Lin
			for _, f := range st.facts {
				ok := true
				for _, k := range srcs {
					e := em[k]
					g := f
					for _, r := range gpRegs {
						if isPhi(r) {
							g = g.subst(phiSym(r), e.regs[r])
						}
					}
					c.budget = 20000
					if !c.entails(e.facts, g, 4) {
						ok = false
						break
					}
				}
				if ok {
					keep = append(keep, f)
				} else {
					changed = true
				}
			}
			st.facts = keep
		}
		if !changed {
			c.converged = true
			break
		}
	}
	c.edges = map[string]map[int]*bstate{}
	run(true)
	if !c.converged {
		for _, a := range c.access {
			a.Lower, a.Upper = false, false
			a.Note = "no inductive invariant found within the round limit"
		}
	}
	var idxs []int
	for i := range c.access {
		idxs = append(idxs, i)
	}
	sort.Ints(idxs)
	var out []*Access
	for _, i := range idxs {
		out = append(out, c.access[i])
	}
	return out
}

// Exported helpers for callers that state and check facts over the same linear domain.

// Sym is the linear expression consisting of one symbol.
func Sym(s string) Lin { return symL(s) }

// Const is a constant linear expression.
func Const(c int64) Lin { return konst(c) }

// Plus returns a + k*b.
func (a Lin) Plus(b Lin, k int64) Lin { return a.plus(b, k) }

// Subst replaces symbol s by r.
func (a Lin) Subst(s string, r Lin) Lin { return a.subst(s, r) }

// Symbols lists the symbols of the expression.
func (a Lin) Symbols() []string {
	var ss []string
	for s := range a.t {
		ss = append(ss, s)
	}
	sort.Strings(ss)
	return ss
}

// Entails reports whether the facts (each e <= 0), together with s >= 0 for every symbol in nonneg,
// imply t <= 0.
func Entails(facts []Lin, nonneg map[string]bool, t Lin) bool {
	c := &bctx{pre: &Pre{}, upper: map[string]int64{}, nonneg: nonneg, budget: 200000}
	return c.entails(facts, t, 5)
}

// Coef returns the coefficient of symbol s.
func (a Lin) Coef(s string) int64 { return a.t[s] }

// ConstPart returns the constant term.
func (a Lin) ConstPart() int64 { return a.c }
