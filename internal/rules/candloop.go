package rules

import (
	"fmt"
	"go/token"
	"strings"

	"golang.org/x/tools/go/ssa"

	"verif/internal/core"
)

// reverseScan: a backward DFA scan of package dfa/lazy; returns the index (in Call.Args, receiver first) of the
// argument that bounds the scan from below, and whether it is the limited variant.
func reverseScan(cal *ssa.Function) (lowIdx int, limited, ok bool) {
	if cal == nil || cal.Signature.Recv() == nil {
		return 0, false, false
	}
	pk := ownPkg(cal)
	if pk == nil || !strings.HasSuffix(pk.Path(), "/dfa/lazy") {
		return 0, false, false
	}
	n := cal.Name()
	if !strings.Contains(n, "Reverse") {
		return 0, false, false
	}
	// (recv, cache, haystack, start, end[, minStart])
	ints := []int{}
	for i, prm := range cal.Params {
		if isIntType(prm.Type()) {
			ints = append(ints, i)
		}
	}
	hasHay := false
	for _, prm := range cal.Params {
		if isByteSlice(prm.Type()) {
			hasHay = true
		}
	}
	if !hasHay || len(ints) < 2 {
		return 0, false, false
	}
	if len(ints) >= 3 {
		return ints[2], true, true
	}
	return ints[0], false, true
}

// phiWebLeaves returns the in-SCC incoming (pred, value) pairs of phi, looking through phis of the same SCC.
func phiWebLeaves(phi *ssa.Phi, comp []int) (web map[*ssa.Phi]bool, leaves []struct {
	pred *ssa.BasicBlock
	val  ssa.Value
}) {
	web = map[*ssa.Phi]bool{}
	scc := comp[phi.Block().Index]
	var walk func(ph *ssa.Phi)
	walk = func(ph *ssa.Phi) {
		if web[ph] {
			return
		}
		web[ph] = true
		for i, e := range ph.Edges {
			pred := ph.Block().Preds[i]
			if comp[pred.Index] != scc {
				continue
			}
			if p2, ok := e.(*ssa.Phi); ok && comp[p2.Block().Index] == scc {
				walk(p2)
				continue
			}
			leaves = append(leaves, struct {
				pred *ssa.BasicBlock
				val  ssa.Value
			}{pred, e})
		}
	}
	walk(phi)
	return
}

// loopAdvancing: v depends on a phi of the SCC that receives, from inside the SCC, a value other than itself.
func loopAdvancing(v ssa.Value, comp []int, scc int, seen map[ssa.Value]bool) (*ssa.Phi, bool) {
	if v == nil || seen[v] {
		return nil, false
	}
	seen[v] = true
	switch x := v.(type) {
	case *ssa.Phi:
		if comp[x.Block().Index] == scc {
			_, leaves := phiWebLeaves(x, comp)
			if len(leaves) > 0 {
				return x, true
			}
			return nil, false
		}
		for _, e := range x.Edges {
			if ph, ok := loopAdvancing(e, comp, scc, seen); ok {
				return ph, true
			}
		}
	case *ssa.BinOp:
		if ph, ok := loopAdvancing(x.X, comp, scc, seen); ok {
			return ph, true
		}
		return loopAdvancing(x.Y, comp, scc, seen)
	case *ssa.Call:
		// min/max builtins
		if bi, ok := x.Call.Value.(*ssa.Builtin); ok && (bi.Name() == "max" || bi.Name() == "min") {
			for _, a := range x.Call.Args {
				if ph, ok := loopAdvancing(a, comp, scc, seen); ok {
					return ph, true
				}
			}
		}
	}
	return nil, false
}

func reachableWithin(from, to *ssa.BasicBlock, comp []int, scc int, avoid *ssa.BasicBlock) bool {
	seen := map[*ssa.BasicBlock]bool{}
	var dfs func(b *ssa.BasicBlock) bool
	dfs = func(b *ssa.BasicBlock) bool {
		if b == to {
			return true
		}
		if seen[b] || comp[b.Index] != scc || b == avoid {
			return false
		}
		seen[b] = true
		for _, s := range b.Succs {
			if dfs(s) {
				return true
			}
		}
		return false
	}
	for _, s := range from.Succs {
		if dfs(s) {
			return true
		}
	}
	return false
}

func init() {
	core.Register(&core.Rule{
		Name: "R-CANDLOOP",
		Doc: "Candidate loops of the reverse strategies do linear total work: in package meta, (1) every backward DFA scan (SearchReverse*, IsMatchReverse of dfa/lazy) called inside a loop has a lower bound that advances with the loop (it depends on a loop-carried variable that is updated inside the loop: the resume position of a match-iteration loop, or the anti-quadratic guard minStart); a constant lower bound lets every candidate scan back to the start of the haystack: candidates x n steps; (2) on every path from a limited scan back to the loop head the guard is updated (a path that keeps it lets the next candidate rescan the same bytes); (3) the branch taken on the 'scan was cut short' signal (SearchReverseLimitedQuadratic) leaves the loop on every path: the fallback it runs is a full O(states x n) search, so running it per candidate is quadratic again; (4) a forward scan over the un-resliced haystack that starts at a loop-carried candidate position and can be repeated by the loop - decided for UNANCHORED scans started at the candidate itself (a failure has already covered every start position up to the end) and for anchored scans whose candidates come from a byte-class finder (DigitPrefilter: every byte of a run is a candidate) or that belong to a searcher of the frozen table of demonstrated cases (ReverseInnerSearcher: the suffix behind the inner literal is an arbitrary pattern tail); other anchored verification of literal-prefilter candidates and scans of haystack windows are not decided - needs a progress or budget guard: either the next position depends on the scan's result (a match-iteration loop resumes behind the match), or some loop-carried variable that the loop updates is compared with something other than len(haystack) in a branch that leaves the loop (a failure budget, or 'candidate before the end of the last scan'); otherwise every candidate may scan to the end of the haystack: candidates x n steps. Necessary for C05 (time linear in n for a fixed pattern).",
		Min: 25, NeedSSA: true,
		Run: func(p *core.Prog) *core.RuleResult {
			res := &core.RuleResult{}
			kc := core.NewKeyCounter()
			for _, fn := range p.SrcFuncs() {
				if strings.HasSuffix(p.File(fn.Pos()), "_test.go") {
					continue
				}
				pk := ownPkg(fn)
				if pk == nil || !strings.HasSuffix(pk.Path(), "/meta") {
					continue
				}
				comp, cyclic := blockSCCs(fn)
				for _, b := range fn.Blocks {
					for _, in := range b.Instrs {
						c, ok := in.(*ssa.Call)
						if !ok {
							continue
						}
						cal := c.Call.StaticCallee()
						if o4, found := forwardScanObligation(p, fn, b, c, cal, comp, cyclic, kc); found {
							res.Obligations = append(res.Obligations, o4)
						}
						lowIdx, limited, ok := reverseScan(cal)
						if !ok || lowIdx >= len(c.Call.Args) {
							continue
						}
						scc := comp[b.Index]
						o := core.Obligation{Key: kc.Key("R-CANDLOOP", core.FuncName(fn), "lower bound of "+cal.Name()), Pos: p.Pos(c.Pos()), Nontrivial: cyclic[scc]}
						if !cyclic[scc] {
							o.Status = core.Discharged
							o.Detail = "not in a loop: one scan per call"
							res.Obligations = append(res.Obligations, o)
						} else {
							low := c.Call.Args[lowIdx]
							phi, adv := loopAdvancing(low, comp, scc, map[ssa.Value]bool{})
							if adv {
								o.Status = core.Discharged
								o.Detail = "the scan's lower bound depends on a loop-carried variable that is updated inside the loop"
							} else {
								o.Status = core.Violated
								o.Detail = fmt.Sprintf("the backward scan is called once per loop iteration with the lower bound %s, which does not advance with the loop: every candidate can scan back to it, so a haystack with k candidates costs k x n steps (e.g. [A-Z]+[a-z.]*\\.txt on \".txt.txt.txt...\")", low.String())
							}
							res.Obligations = append(res.Obligations, o)
							// (2)
							if limited && adv && phi != nil {
								o2 := core.Obligation{Key: kc.Key("R-CANDLOOP", core.FuncName(fn), "guard updated after "+cal.Name()), Pos: p.Pos(c.Pos()), Nontrivial: true, Status: core.Discharged, Detail: "every path from the scan back to the loop head updates the guard"}
								web, leaves := phiWebLeaves(phi, comp)
								// oldVia: the value e arriving over the edge from pred can be the guard's old value on a path that
								// passed the scan (block b)
								var oldVia func(e ssa.Value, pred *ssa.BasicBlock, depth int) *ssa.BasicBlock
								oldVia = func(e ssa.Value, pred *ssa.BasicBlock, depth int) *ssa.BasicBlock {
									if depth > 6 {
										return nil
									}
									if e == ssa.Value(phi) {
										if pred == b || reachableWithin(b, pred, comp, scc, phi.Block()) {
											return pred
										}
										return nil
									}
									p2, ok := e.(*ssa.Phi)
									if !ok || !web[p2] || p2 == phi {
										return nil
									}
									for j, e2 := range p2.Edges {
										pj := p2.Block().Preds[j]
										if e2 == ssa.Value(phi) {
											// monotone idiom `if x > guard { guard = x }`: the old value is kept only when it is already >= x
											if iff, ok := pj.Instrs[len(pj.Instrs)-1].(*ssa.If); ok {
												if bo, ok := iff.Cond.(*ssa.BinOp); ok && (bo.Op == token.GTR || bo.Op == token.LSS || bo.Op == token.GEQ || bo.Op == token.LEQ) {
													mono := false
													for _, e3 := range p2.Edges {
														if e3 != ssa.Value(phi) && ((sameExpr(bo.X, e3, 0) && bo.Y == ssa.Value(phi)) || (sameExpr(bo.Y, e3, 0) && bo.X == ssa.Value(phi))) {
															mono = true
														}
													}
													if mono {
														continue
													}
												}
											}
										}
										if w := oldVia(e2, pj, depth+1); w != nil {
											return w
										}
									}
									return nil
								}
								for i, e := range phi.Edges {
									pred := phi.Block().Preds[i]
									if comp[pred.Index] != scc {
										continue
									}
									if w := oldVia(e, pred, 0); w != nil {
										o2.Status = core.Violated
										o2.Detail = fmt.Sprintf("a path from the limited scan back to the loop head (through block %d of the function) keeps the guard unchanged: the next candidate rescans the bytes this one already covered", w.Index)
									}
								}
								_ = leaves
								res.Obligations = append(res.Obligations, o2)
							}
						}
						// (3) signal branch
						if !limited {
							continue
						}
						for _, ref := range *c.Referrers() {
							bo, ok := ref.(*ssa.BinOp)
							if !ok || bo.Op != token.EQL {
								continue
							}
							cst, isC := constInt(bo.Y)
							if !isC {
								cst, isC = constInt(bo.X)
							}
							if !isC || cst != -2 {
								continue
							}
							for _, r2 := range *bo.Referrers() {
								iff, ok := r2.(*ssa.If)
								if !ok {
									continue
								}
								ib := iff.Block()
								o3 := core.Obligation{Key: kc.Key("R-CANDLOOP", core.FuncName(fn), "cut-short signal of "+cal.Name()+" leaves the loop"), Pos: p.Pos(bo.Pos()), Nontrivial: true}
								t := ib.Succs[0]
								if !cyclic[comp[ib.Index]] || !(t == ib || comp[t.Index] == comp[ib.Index]) {
									o3.Status = core.Discharged
									o3.Detail = "the signal branch returns (or the scan is not in a loop)"
								} else {
									o3.Status = core.Violated
									o3.Detail = "after the 'scan was cut short' signal the candidate loop continues: the fallback search it runs (O(states x n)) is repeated for every candidate that hits the guard"
								}
								res.Obligations = append(res.Obligations, o3)
							}
						}
					}
				}
			}
			return res
		},
	})
}


var forwardScanMethods = map[string]bool{"SearchAtAnchored": true, "SearchAt": true, "FindAt": true, "Find": true, "IsMatchAt": true, "IsMatch": true, "SearchFirstAt": true,
	"SearchWithSlotTableAt": true, "SearchAtWithState": true, "SearchWithCapturesAt": true, "SearchWithSlotTableCapturesAt": true}

// forwardScanObligation decides clause (4) for one call.
func forwardScanObligation(p *core.Prog, fn *ssa.Function, b *ssa.BasicBlock, c *ssa.Call, cal *ssa.Function, comp []int, cyclic map[int]bool, kc *core.KeyCounter) (core.Obligation, bool) {
	if cal == nil || cal.Signature.Recv() == nil || !forwardScanMethods[cal.Name()] {
		return core.Obligation{}, false
	}
	cpk := ownPkg(cal)
	if cpk == nil {
		return core.Obligation{}, false
	}
	recv := cal.Signature.Recv().Type().String()
	isDFA := strings.HasSuffix(cpk.Path(), "/dfa/lazy") && strings.HasSuffix(recv, "lazy.DFA")
	isVM := nfaEngineMethod(cal)
	if !isDFA && !isVM {
		return core.Obligation{}, false
	}
	scc := comp[b.Index]
	if !cyclic[scc] {
		return core.Obligation{}, false
	}
	// the scan starts at a loop-carried position given as an int argument next to the un-resliced haystack
	var cand *ssa.Phi
	var startArg ssa.Value
	for _, a := range c.Call.Args {
		if isByteSlice(a.Type()) {
			if _, resliced := a.(*ssa.Slice); resliced {
				return core.Obligation{}, false // a window of the haystack: what the scan covers is not decided here
			}
		}
		if !isIntType(a.Type()) {
			continue
		}
		if ph, ok := loopCarried(a, comp, scc, map[ssa.Value]bool{}); ok {
			cand = ph
			startArg = a
		}
	}
	if cand == nil {
		return core.Obligation{}, false
	}
	// decided shapes: (a) an UNANCHORED scan (its failure covers every start position up to the end), started at the
	// candidate itself; (b) an anchored scan whose candidates come from a byte-class finder (every byte of a run is a candidate)
	anchored := strings.Contains(cal.Name(), "Anchored")
	if anchored {
		if !candidateFromByteClassFinder(startArg, 0) && anchoredVerifyDecided(fn) == "" {
			return core.Obligation{}, false
		}
	} else if fromReverseScan(startArg, 0) {
		return core.Obligation{}, false // the start was computed by another engine (reverse scan), not the candidate itself
	}
	o := core.Obligation{Key: kc.Key("R-CANDLOOP", core.FuncName(fn), "forward scan "+cal.Name()+" per candidate is bounded"), Pos: p.Pos(c.Pos()), Nontrivial: true}
	// can the loop repeat the scan? (a path from the call back to its own block inside the SCC)
	if !reachableWithin(b, b, comp, scc, nil) {
		o.Status = core.Discharged
		o.Detail = "the loop is left after the scan on every path"
		return o, true
	}
	// (i) progress by result: a loop-carried position receives a value that depends on the scan's result
	for _, blk := range fn.Blocks {
		if comp[blk.Index] != scc {
			continue
		}
		for _, in := range blk.Instrs {
			ph, ok := in.(*ssa.Phi)
			if !ok || !isIntType(ph.Type()) {
				continue
			}
			// only variables carried around the loop: phis of a loop head (a block entered from outside the loop)
			head := false
			for _, pr := range blk.Preds {
				if comp[pr.Index] != scc {
					head = true
				}
			}
			if !head {
				continue
			}
			_, leaves := phiWebLeaves(ph, comp)
			for _, lf := range leaves {
				if dependsOnNoCalls(lf.val, c, map[ssa.Value]bool{}) {
					o.Status = core.Discharged
					o.Detail = "the next position depends on the scan's result (the loop resumes behind what the scan covered)"
					return o, true
				}
			}
		}
	}
	// (ii) a guard: a loop-carried variable updated in the loop is compared with something other than a length in a branch that leaves the loop
	for _, blk := range fn.Blocks {
		if comp[blk.Index] != scc || len(blk.Instrs) == 0 {
			continue
		}
		iff, ok := blk.Instrs[len(blk.Instrs)-1].(*ssa.If)
		if !ok {
			continue
		}
		bo, ok := iff.Cond.(*ssa.BinOp)
		if !ok {
			continue
		}
		switch bo.Op {
		case token.LSS, token.LEQ, token.GTR, token.GEQ:
		default:
			continue
		}
		leavesLoop := comp[blk.Succs[0].Index] != scc || comp[blk.Succs[1].Index] != scc
		if !leavesLoop || isLenCall(bo.X) || isLenCall(bo.Y) {
			continue
		}
		for _, side := range []ssa.Value{bo.X, bo.Y} {
			if ph, ok := loopCarried(side, comp, scc, map[ssa.Value]bool{}); ok && ph != nil {
				if _, leaves := phiWebLeaves(ph, comp); len(leaves) > 0 {
					// the guard must not be the bare search position compared with a constant such as 0
					other := bo.Y
					if side == bo.Y {
						other = bo.X
					}
					if cst, isC := constInt(other); isC && cst <= 0 {
						continue
					}
					// the guard must be updated on every path from the scan back to the loop head: a `continue` that
					// bypasses the update lets those iterations repeat for free
					if through := guardKeptFrom(ph, b, comp, scc); through != nil {
						o.Status = core.Violated
						o.Detail = fmt.Sprintf("the budget/progress guard (%s) is not updated on a path from the scan back to the loop head (through block %d, near %s): iterations taking that path are never charged, so the guard does not bound them", ph.Comment, through.Index, p.Pos(lastPos(through)))
						return o, true
					}
					o.Status = core.Discharged
					o.Detail = "a loop-carried guard (" + ph.Comment + ") is compared in a branch that leaves the loop and updated on every path from the scan back to the loop head"
					return o, true
				}
			}
		}
	}
	o.Status = core.Violated
	o.Detail = "the forward scan starts at every candidate the loop finds and may run to the end of the haystack; the next candidate does not depend on how far the scan went and no budget or progress guard leaves the loop: k failing candidates cost k x n steps (\\d\\d*-x on a long run of digits)"
	if why := anchoredVerifyDecided(fn); why != "" && anchored {
		o.Detail += "; " + why
	}
	return o, true
}

// loopCarried: v is (arithmetic on) a phi of the given SCC.
func loopCarried(v ssa.Value, comp []int, scc int, seen map[ssa.Value]bool) (*ssa.Phi, bool) {
	if v == nil || seen[v] {
		return nil, false
	}
	seen[v] = true
	switch x := v.(type) {
	case *ssa.Phi:
		if comp[x.Block().Index] == scc {
			return x, true
		}
		for _, e := range x.Edges {
			if ph, ok := loopCarried(e, comp, scc, seen); ok {
				return ph, true
			}
		}
	case *ssa.BinOp:
		if ph, ok := loopCarried(x.X, comp, scc, seen); ok {
			return ph, true
		}
		return loopCarried(x.Y, comp, scc, seen)
	case *ssa.Call:
		// a candidate found from the loop-carried position: prefilter.Find(haystack, pos)
		for _, a := range x.Call.Args {
			if isIntType(a.Type()) {
				if ph, ok := loopCarried(a, comp, scc, seen); ok {
					return ph, true
				}
			}
		}
	}
	return nil, false
}

// dependsOnNoCalls: v is computed from target through arithmetic, phis, tuples (not through other calls).
func dependsOnNoCalls(v, target ssa.Value, seen map[ssa.Value]bool) bool {
	if v == target {
		return true
	}
	if v == nil || seen[v] {
		return false
	}
	seen[v] = true
	switch x := v.(type) {
	case *ssa.BinOp:
		return dependsOnNoCalls(x.X, target, seen) || dependsOnNoCalls(x.Y, target, seen)
	case *ssa.Phi:
		for _, e := range x.Edges {
			if dependsOnNoCalls(e, target, seen) {
				return true
			}
		}
	case *ssa.Extract:
		return dependsOnNoCalls(x.Tuple, target, seen)
	case *ssa.Convert:
		return dependsOnNoCalls(x.X, target, seen)
	}
	return false
}


// candidateFromByteClassFinder: v is (arithmetic on) the result of a Find method of a byte-class prefilter (DigitPrefilter),
// which reports every byte of a run as a candidate.
func candidateFromByteClassFinder(v ssa.Value, depth int) bool {
	if depth > 4 || v == nil {
		return false
	}
	switch x := v.(type) {
	case *ssa.Call:
		if cal := x.Call.StaticCallee(); cal != nil && cal.Signature.Recv() != nil && cal.Name() == "Find" && strings.HasSuffix(cal.Signature.Recv().Type().String(), "DigitPrefilter") {
			return true
		}
	case *ssa.BinOp:
		return candidateFromByteClassFinder(x.X, depth+1) || candidateFromByteClassFinder(x.Y, depth+1)
	case *ssa.Phi:
		for _, e := range x.Edges {
			if candidateFromByteClassFinder(e, depth+1) {
				return true
			}
		}
	}
	return false
}

// anchoredVerifyDecided: searchers whose anchored forward verification of literal candidates is decided by clause (4),
// each with the input that showed the cost (frozen table; other literal-candidate verifications stay undecided
// because no input could be produced that makes them quadratic).
func anchoredVerifyDecided(fn *ssa.Function) string {
	if fn.Signature.Recv() == nil {
		return ""
	}
	if strings.HasSuffix(fn.Signature.Recv().Type().String(), "meta.ReverseInnerSearcher") {
		return "the suffix behind the inner literal is an arbitrary pattern tail: \\d+foo[a-z0-9]*[A-Z] on '1fooabababab' x k scans from every 'foo' to the end of the haystack (k=4000: 0.25 s, k=8000: 0.98 s; regexp 3 ms)"
	}
	return ""
}

// fromReverseScan: v is (arithmetic on) the result of a backward DFA scan.
func fromReverseScan(v ssa.Value, depth int) bool {
	if depth > 4 || v == nil {
		return false
	}
	switch x := v.(type) {
	case *ssa.Call:
		if _, _, ok := reverseScan(x.Call.StaticCallee()); ok {
			return true
		}
	case *ssa.BinOp:
		return fromReverseScan(x.X, depth+1) || fromReverseScan(x.Y, depth+1)
	case *ssa.Phi:
		for _, e := range x.Edges {
			if fromReverseScan(e, depth+1) {
				return true
			}
		}
	}
	return false
}


// guardKeptFrom: an in-loop incoming edge of the guard's phi web carries the old value on a path that passed block from;
// returns the predecessor block of that edge, or nil. The monotone idiom `if x > g { g = x }` does not count.
func guardKeptFrom(phi *ssa.Phi, from *ssa.BasicBlock, comp []int, scc int) *ssa.BasicBlock {
	web, _ := phiWebLeaves(phi, comp)
	var oldVia func(e ssa.Value, pred *ssa.BasicBlock, depth int) *ssa.BasicBlock
	oldVia = func(e ssa.Value, pred *ssa.BasicBlock, depth int) *ssa.BasicBlock {
		if depth > 6 {
			return nil
		}
		if e == ssa.Value(phi) {
			if pred == from || reachableWithin(from, pred, comp, scc, phi.Block()) {
				return pred
			}
			return nil
		}
		p2, ok := e.(*ssa.Phi)
		if !ok || !web[p2] || p2 == phi {
			return nil
		}
		for j, e2 := range p2.Edges {
			pj := p2.Block().Preds[j]
			if e2 == ssa.Value(phi) {
				if iff, ok := pj.Instrs[len(pj.Instrs)-1].(*ssa.If); ok {
					if bo, ok := iff.Cond.(*ssa.BinOp); ok && (bo.Op == token.GTR || bo.Op == token.LSS || bo.Op == token.GEQ || bo.Op == token.LEQ) {
						mono := false
						for _, e3 := range p2.Edges {
							if e3 != ssa.Value(phi) && ((sameExpr(bo.X, e3, 0) && bo.Y == ssa.Value(phi)) || (sameExpr(bo.Y, e3, 0) && bo.X == ssa.Value(phi))) {
								mono = true
							}
						}
						if mono {
							continue
						}
					}
				}
			}
			if w := oldVia(e2, pj, depth+1); w != nil {
				return w
			}
		}
		return nil
	}
	for i, e := range phi.Edges {
		pred := phi.Block().Preds[i]
		if comp[pred.Index] != scc {
			continue
		}
		if w := oldVia(e, pred, 0); w != nil {
			return w
		}
	}
	return nil
}

func lastPos(b *ssa.BasicBlock) token.Pos {
	for i := len(b.Instrs) - 1; i >= 0; i-- {
		if b.Instrs[i].Pos().IsValid() {
			return b.Instrs[i].Pos()
		}
	}
	return token.NoPos
}
