package rules

import (
	"fmt"
	"go/token"
	"strings"

	"golang.org/x/tools/go/ssa"

	"verif/internal/core"
)

// reverseScan: a backward DFA scan of package dfa/lazy; returns the index (in Call.Args, receiver first) of the
// argument that bounds the scan from below, and whether it is the limited variant.
func reverseScan(cal *ssa.Function) (lowIdx int, limited, ok bool) {
	if cal == nil || cal.Signature.Recv() == nil {
		return 0, false, false
	}
	pk := ownPkg(cal)
	if pk == nil || !strings.HasSuffix(pk.Path(), "/dfa/lazy") {
		return 0, false, false
	}
	n := cal.Name()
	if !strings.Contains(n, "Reverse") {
		return 0, false, false
	}
	// (recv, cache, haystack, start, end[, minStart])
	ints := []int{}
	for i, prm := range cal.Params {
		if isIntType(prm.Type()) {
			ints = append(ints, i)
		}
	}
	hasHay := false
	for _, prm := range cal.Params {
		if isByteSlice(prm.Type()) {
			hasHay = true
		}
	}
	if !hasHay || len(ints) < 2 {
		return 0, false, false
	}
	if len(ints) >= 3 {
		return ints[2], true, true
	}
	return ints[0], false, true
}

// phiWebLeaves returns the in-SCC incoming (pred, value) pairs of phi, looking through phis of the same SCC.
func phiWebLeaves(phi *ssa.Phi, comp []int) (web map[*ssa.Phi]bool, leaves []struct {
	pred *ssa.BasicBlock
	val  ssa.Value
}) {
	web = map[*ssa.Phi]bool{}
	scc := comp[phi.Block().Index]
	var walk func(ph *ssa.Phi)
	walk = func(ph *ssa.Phi) {
		if web[ph] {
			return
		}
		web[ph] = true
		for i, e := range ph.Edges {
			pred := ph.Block().Preds[i]
			if comp[pred.Index] != scc {
				continue
			}
			if p2, ok := e.(*ssa.Phi); ok && comp[p2.Block().Index] == scc {
				walk(p2)
				continue
			}
			leaves = append(leaves, struct {
				pred *ssa.BasicBlock
				val  ssa.Value
			}{pred, e})
		}
	}
	walk(phi)
	return
}

// loopAdvancing: v depends on a phi of the SCC that receives, from inside the SCC, a value other than itself.
func loopAdvancing(v ssa.Value, comp []int, scc int, seen map[ssa.Value]bool) (*ssa.Phi, bool) {
	if v == nil || seen[v] {
		return nil, false
	}
	seen[v] = true
	switch x := v.(type) {
	case *ssa.Phi:
		if comp[x.Block().Index] == scc {
			_, leaves := phiWebLeaves(x, comp)
			if len(leaves) > 0 {
				return x, true
			}
			return nil, false
		}
		for _, e := range x.Edges {
			if ph, ok := loopAdvancing(e, comp, scc, seen); ok {
				return ph, true
			}
		}
	case *ssa.BinOp:
		if ph, ok := loopAdvancing(x.X, comp, scc, seen); ok {
			return ph, true
		}
		return loopAdvancing(x.Y, comp, scc, seen)
	case *ssa.Call:
		// min/max builtins
		if bi, ok := x.Call.Value.(*ssa.Builtin); ok && (bi.Name() == "max" || bi.Name() == "min") {
			for _, a := range x.Call.Args {
				if ph, ok := loopAdvancing(a, comp, scc, seen); ok {
					return ph, true
				}
			}
		}
	}
	return nil, false
}

func reachableWithin(from, to *ssa.BasicBlock, comp []int, scc int, avoid *ssa.BasicBlock) bool {
	seen := map[*ssa.BasicBlock]bool{}
	var dfs func(b *ssa.BasicBlock) bool
	dfs = func(b *ssa.BasicBlock) bool {
		if b == to {
			return true
		}
		if seen[b] || comp[b.Index] != scc || b == avoid {
			return false
		}
		seen[b] = true
		for _, s := range b.Succs {
			if dfs(s) {
				return true
			}
		}
		return false
	}
	for _, s := range from.Succs {
		if dfs(s) {
			return true
		}
	}
	return false
}

func init() {
	core.Register(&core.Rule{
		Name: "R-CANDLOOP",
		Doc: "Candidate loops of the reverse strategies do linear total work: in package meta, (1) every backward DFA scan (SearchReverse*, IsMatchReverse of dfa/lazy) called inside a loop has a lower bound that advances with the loop (it depends on a loop-carried variable that is updated inside the loop: the resume position of a match-iteration loop, or the anti-quadratic guard minStart); a constant lower bound lets every candidate scan back to the start of the haystack: candidates x n steps; (2) on every path from a limited scan back to the loop head the guard is updated (a path that keeps it lets the next candidate rescan the same bytes); (3) the branch taken on the 'scan was cut short' signal (SearchReverseLimitedQuadratic) leaves the loop on every path: the fallback it runs is a full O(states x n) search, so running it per candidate is quadratic again. Necessary for C05 (time linear in n for a fixed pattern).",
		Min: 25, NeedSSA: true,
		Run: func(p *core.Prog) *core.RuleResult {
			res := &core.RuleResult{}
			kc := core.NewKeyCounter()
			for _, fn := range p.SrcFuncs() {
				if strings.HasSuffix(p.File(fn.Pos()), "_test.go") {
					continue
				}
				pk := ownPkg(fn)
				if pk == nil || !strings.HasSuffix(pk.Path(), "/meta") {
					continue
				}
				comp, cyclic := blockSCCs(fn)
				for _, b := range fn.Blocks {
					for _, in := range b.Instrs {
						c, ok := in.(*ssa.Call)
						if !ok {
							continue
						}
						cal := c.Call.StaticCallee()
						lowIdx, limited, ok := reverseScan(cal)
						if !ok || lowIdx >= len(c.Call.Args) {
							continue
						}
						scc := comp[b.Index]
						o := core.Obligation{Key: kc.Key("R-CANDLOOP", core.FuncName(fn), "lower bound of "+cal.Name()), Pos: p.Pos(c.Pos()), Nontrivial: cyclic[scc]}
						if !cyclic[scc] {
							o.Status = core.Discharged
							o.Detail = "not in a loop: one scan per call"
							res.Obligations = append(res.Obligations, o)
						} else {
							low := c.Call.Args[lowIdx]
							phi, adv := loopAdvancing(low, comp, scc, map[ssa.Value]bool{})
							if adv {
								o.Status = core.Discharged
								o.Detail = "the scan's lower bound depends on a loop-carried variable that is updated inside the loop"
							} else {
								o.Status = core.Violated
								o.Detail = fmt.Sprintf("the backward scan is called once per loop iteration with the lower bound %s, which does not advance with the loop: every candidate can scan back to it, so a haystack with k candidates costs k x n steps (e.g. [A-Z]+[a-z.]*\\.txt on \".txt.txt.txt...\")", low.String())
							}
							res.Obligations = append(res.Obligations, o)
							// (2)
							if limited && adv && phi != nil {
								o2 := core.Obligation{Key: kc.Key("R-CANDLOOP", core.FuncName(fn), "guard updated after "+cal.Name()), Pos: p.Pos(c.Pos()), Nontrivial: true, Status: core.Discharged, Detail: "every path from the scan back to the loop head updates the guard"}
								web, leaves := phiWebLeaves(phi, comp)
								// oldVia: the value e arriving over the edge from pred can be the guard's old value on a path that
								// passed the scan (block b)
								var oldVia func(e ssa.Value, pred *ssa.BasicBlock, depth int) *ssa.BasicBlock
								oldVia = func(e ssa.Value, pred *ssa.BasicBlock, depth int) *ssa.BasicBlock {
									if depth > 6 {
										return nil
									}
									if e == ssa.Value(phi) {
										if pred == b || reachableWithin(b, pred, comp, scc, phi.Block()) {
											return pred
										}
										return nil
									}
									p2, ok := e.(*ssa.Phi)
									if !ok || !web[p2] || p2 == phi {
										return nil
									}
									for j, e2 := range p2.Edges {
										pj := p2.Block().Preds[j]
										if e2 == ssa.Value(phi) {
											// monotone idiom `if x > guard { guard = x }`: the old value is kept only when it is already >= x
											if iff, ok := pj.Instrs[len(pj.Instrs)-1].(*ssa.If); ok {
												if bo, ok := iff.Cond.(*ssa.BinOp); ok && (bo.Op == token.GTR || bo.Op == token.LSS || bo.Op == token.GEQ || bo.Op == token.LEQ) {
													mono := false
													for _, e3 := range p2.Edges {
														if e3 != ssa.Value(phi) && ((sameExpr(bo.X, e3, 0) && bo.Y == ssa.Value(phi)) || (sameExpr(bo.Y, e3, 0) && bo.X == ssa.Value(phi))) {
															mono = true
														}
													}
													if mono {
														continue
													}
												}
											}
										}
										if w := oldVia(e2, pj, depth+1); w != nil {
											return w
										}
									}
									return nil
								}
								for i, e := range phi.Edges {
									pred := phi.Block().Preds[i]
									if comp[pred.Index] != scc {
										continue
									}
									if w := oldVia(e, pred, 0); w != nil {
										o2.Status = core.Violated
										o2.Detail = fmt.Sprintf("a path from the limited scan back to the loop head (through block %d of the function) keeps the guard unchanged: the next candidate rescans the bytes this one already covered", w.Index)
									}
								}
								_ = leaves
								res.Obligations = append(res.Obligations, o2)
							}
						}
						// (3) signal branch
						if !limited {
							continue
						}
						for _, ref := range *c.Referrers() {
							bo, ok := ref.(*ssa.BinOp)
							if !ok || bo.Op != token.EQL {
								continue
							}
							cst, isC := constInt(bo.Y)
							if !isC {
								cst, isC = constInt(bo.X)
							}
							if !isC || cst != -2 {
								continue
							}
							for _, r2 := range *bo.Referrers() {
								iff, ok := r2.(*ssa.If)
								if !ok {
									continue
								}
								ib := iff.Block()
								o3 := core.Obligation{Key: kc.Key("R-CANDLOOP", core.FuncName(fn), "cut-short signal of "+cal.Name()+" leaves the loop"), Pos: p.Pos(bo.Pos()), Nontrivial: true}
								t := ib.Succs[0]
								if !cyclic[comp[ib.Index]] || !(t == ib || comp[t.Index] == comp[ib.Index]) {
									o3.Status = core.Discharged
									o3.Detail = "the signal branch returns (or the scan is not in a loop)"
								} else {
									o3.Status = core.Violated
									o3.Detail = "after the 'scan was cut short' signal the candidate loop continues: the fallback search it runs (O(states x n)) is repeated for every candidate that hits the guard"
								}
								res.Obligations = append(res.Obligations, o3)
							}
						}
					}
				}
			}
			return res
		},
	})
}
