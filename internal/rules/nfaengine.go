package rules

import (
	"strings"

	"golang.org/x/tools/go/ssa"
)

// nfaEngineRecv: the receiver type of cal is one of the NFA simulators of package nfa.
func nfaEngineRecv(cal *ssa.Function) bool {
	if cal == nil || cal.Signature.Recv() == nil {
		return false
	}
	r := cal.Signature.Recv().Type().String()
	return strings.HasSuffix(r, "nfa.PikeVM") || strings.HasSuffix(r, "nfa.BoundedBacktracker")
}

// nfaEngineMethod: cal is a search method of an NFA simulator, or a forwarding wrapper around one - a method of a
// module type whose body hands its own haystack parameter to a method of an NFA simulator (meta.pooledPikeVM, which
// takes the simulator from a pool for the duration of the search). Found structurally, one level deep.
func nfaEngineMethod(cal *ssa.Function) bool {
	if nfaEngineRecv(cal) {
		return true
	}
	if cal == nil || cal.Signature.Recv() == nil || len(cal.Blocks) == 0 {
		return false
	}
	for _, b := range cal.Blocks {
		for _, in := range b.Instrs {
			c, ok := in.(ssa.CallInstruction)
			if !ok {
				continue
			}
			g := c.Common().StaticCallee()
			if !nfaEngineRecv(g) {
				continue
			}
			for _, a := range c.Common().Args {
				for _, prm := range cal.Params {
					if a == ssa.Value(prm) && isByteSlice(prm.Type()) {
						return true
					}
				}
			}
		}
	}
	return false
}
