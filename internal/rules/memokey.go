package rules

import (
	"fmt"
	"go/constant"
	"go/token"
	"go/types"
	"sort"
	"strings"

	"golang.org/x/tools/go/ssa"

	"verif/internal/core"
)

// memoPair: a named type with a lookup method (key...) V and a store method (key..., V) over the same key types.
type memoPair struct {
	get, set *types.Func
	nkeys    int
}

func findMemoPairs(p *core.Prog) map[*types.Named][]memoPair {
	out := map[*types.Named][]memoPair{}
	for _, pk := range p.Pkgs {
		if pk.Types == nil {
			continue
		}
		sc := pk.Types.Scope()
		for _, name := range sc.Names() {
			tn, ok := sc.Lookup(name).(*types.TypeName)
			if !ok {
				continue
			}
			nm, ok := tn.Type().(*types.Named)
			if !ok {
				continue
			}
			var gets, sets []*types.Func
			for i := 0; i < nm.NumMethods(); i++ {
				m := nm.Method(i)
				switch m.Name() {
				case "Get", "Lookup":
					gets = append(gets, m)
				case "Set", "Insert", "Put":
					sets = append(sets, m)
				}
			}
			for _, g := range gets {
				gs := g.Type().(*types.Signature)
				if gs.Params().Len() == 0 || gs.Results().Len() == 0 {
					continue
				}
				for _, s := range sets {
					ss := s.Type().(*types.Signature)
					if ss.Params().Len() != gs.Params().Len()+1 {
						continue
					}
					same := true
					for i := 0; i < gs.Params().Len(); i++ {
						if !types.Identical(gs.Params().At(i).Type(), ss.Params().At(i).Type()) {
							same = false
						}
					}
					if same {
						out[nm] = append(out[nm], memoPair{g, s, gs.Params().Len()})
					}
				}
			}
		}
	}
	return out
}

// keyVal: a key argument seen from the function under analysis: an SSA value of that function, a constant, or unknown.
type keyVal struct {
	v ssa.Value // value of the analysed function (nil if constant/unknown)
	k constant.Value
}

func (a keyVal) known() bool { return a.v != nil || a.k != nil }
func (a keyVal) eq(b keyVal) bool {
	if a.v != nil && b.v != nil {
		return a.v == b.v
	}
	if a.k != nil && b.k != nil {
		return constant.Compare(a.k, token.EQL, b.k)
	}
	return false
}
func (a keyVal) String() string {
	if a.v != nil {
		return a.v.Name()
	}
	if a.k != nil {
		return a.k.String()
	}
	return "?"
}

func init() {
	core.Register(&core.Rule{
		Name: "R-MEMOKEY",
		Doc: "A memo table is filled under the key it was asked with. For every type of the module with a lookup/store method pair over the same key types (Get(k...) V with Set/Insert(k..., V): the lazy DFA's start table and state cache), a function that looks a key up and - itself or through helpers up to two calls deep, arguments followed through parameter binding; a helper's store counts when its key uses a parameter of the helper - stores into a table of the same type stores under the very key values it looked up (same SSA values, or equal constants). A store under another key (a helper shared by the anchored and the unanchored lookup that always records 'unanchored') hands the entry to the next caller that asks with that other key: after an anchored search, an unanchored search from the same kind of position runs anchored and answers 'no match' for a match that begins later (C14 exact-or-declined, C13 no history). Unknown key arguments are undecided, not passed. (b) Inside the store method itself, an element index whose type is the named type of a key parameter (StartKind) is that parameter: a second store under a constant of the type files the value under a key it was not computed for.",
		Min: 3, NeedSSA: true,
		Run: func(p *core.Prog) *core.RuleResult {
			res := &core.RuleResult{}
			kc := core.NewKeyCounter()
			pairs := findMemoPairs(p)
			if len(pairs) == 0 {
				res.Fatal = append(res.Fatal, "no lookup/store method pair found in the module")
				return res
			}
			recvNamed := func(cal *ssa.Function) *types.Named {
				if cal == nil || cal.Signature.Recv() == nil {
					return nil
				}
				t := cal.Signature.Recv().Type()
				if pt, ok := t.(*types.Pointer); ok {
					t = pt.Elem()
				}
				nm, _ := t.(*types.Named)
				return nm
			}
			type store struct {
				nm   *types.Named
				keys []keyVal
				pos  string
				via  string
			}
			// stores performed by fn, with key arguments expressed through env (callee parameter -> caller-side keyVal)
			var storesOf func(fn *ssa.Function, env map[ssa.Value]keyVal, depth int, via string, seen map[*ssa.Function]bool) []store
			storesOf = func(fn *ssa.Function, env map[ssa.Value]keyVal, depth int, via string, seen map[*ssa.Function]bool) []store {
				var out []store
				if fn == nil || fn.Blocks == nil || seen[fn] {
					return out
				}
				seen[fn] = true
				defer delete(seen, fn)
				tr := func(v ssa.Value) keyVal {
					if k, ok := v.(*ssa.Const); ok && k.Value != nil {
						return keyVal{k: k.Value}
					}
					if env == nil {
						return keyVal{v: v}
					}
					if kv, ok := env[v]; ok {
						return kv
					}
					return keyVal{}
				}
				for _, b := range fn.Blocks {
					for _, in := range b.Instrs {
						c, ok := in.(*ssa.Call)
						if !ok {
							continue
						}
						cal := c.Call.StaticCallee()
						if cal == nil {
							continue
						}
						if nm := recvNamed(cal); nm != nil {
							for _, mp := range pairs[nm] {
								if cal.Object() == mp.set && len(c.Call.Args) >= 1+mp.nkeys {
									st := store{nm: nm, pos: p.Pos(c.Pos()), via: via}
									onBehalf := env == nil
									for _, a := range c.Call.Args[1 : 1+mp.nkeys] {
										st.keys = append(st.keys, tr(a))
										if _, isParam := a.(*ssa.Parameter); isParam {
											onBehalf = true
										}
									}
									// inside a helper only stores keyed (at least partly) by the helper's parameters are
									// made on behalf of the caller; a key built inside the helper is its own entry
									if onBehalf {
										out = append(out, st)
									}
								}
							}
						}
						// helpers of the module, not the table's own methods
						if depth < 2 && cal.Blocks != nil && cal.Pkg != nil && p.InModule(cal.Pkg.Pkg) {
							if nm := recvNamed(cal); nm != nil && len(pairs[nm]) > 0 {
								continue
							}
							cenv := map[ssa.Value]keyVal{}
							for i, prm := range cal.Params {
								if i < len(c.Call.Args) {
									cenv[prm] = tr(c.Call.Args[i])
								}
							}
							v := via
							if v != "" {
								v += " -> "
							}
							out = append(out, storesOf(cal, cenv, depth+1, v+core.FuncName(cal), seen)...)
						}
					}
				}
				return out
			}
			// (b) the store method itself files the value under its own key: an element index whose type is the named
			// type of a key parameter is that parameter, not another value of the type
			for nm, mps := range pairs {
				for _, mp := range mps {
					sf := p.SSAFunc(mp.set)
					if sf == nil || sf.Blocks == nil || len(sf.Params) < 1+mp.nkeys {
						continue
					}
					keyOf := map[types.Type]*ssa.Parameter{}
					for _, prm := range sf.Params[1 : 1+mp.nkeys] {
						if n, ok := prm.Type().(*types.Named); ok {
							if _, basic := n.Underlying().(*types.Basic); basic {
								keyOf[n] = prm
							}
						}
					}
					if len(keyOf) == 0 {
						continue
					}
					for _, b := range sf.Blocks {
						for _, in := range b.Instrs {
							st, ok := in.(*ssa.Store)
							if !ok {
								continue
							}
							addr := st.Addr
							for d := 0; d < 6; d++ {
								ia, ok := addr.(*ssa.IndexAddr)
								if !ok {
									if fa, ok := addr.(*ssa.FieldAddr); ok {
										addr = fa.X
										continue
									}
									break
								}
								idx := ia.Index
								for {
									if cv, ok := idx.(*ssa.Convert); ok {
										idx = cv.X
										continue
									}
									if ct, ok := idx.(*ssa.ChangeType); ok {
										idx = ct.X
										continue
									}
									break
								}
								if prm, isKey := keyOf[idx.Type()]; isKey {
									o := core.Obligation{Key: kc.Key("R-MEMOKEY", core.FuncName(sf), "element of "+nm.Obj().Name()+" filed under the key parameter"), Pos: p.Pos(st.Pos()), Nontrivial: true}
									if idx == ssa.Value(prm) {
										o.Status = core.Discharged
										o.Detail = "the " + prm.Type().(*types.Named).Obj().Name() + " index is the method's key parameter " + prm.Name()
									} else {
										o.Status = core.Violated
										o.Detail = fmt.Sprintf("the store method writes the slot of %s, not of its key parameter %s: the entry computed for one key is handed to the next caller that asks with the other (a start state computed behind a line feed served to a search from position 0)", idx.String(), prm.Name())
									}
									res.Obligations = append(res.Obligations, o)
								}
								addr = ia.X
							}
						}
					}
				}
			}
			var fns []*ssa.Function
			for _, fn := range p.SrcFuncs() {
				pk := ownPkg(fn)
				if pk == nil || !p.InModule(pk) || strings.HasSuffix(p.File(fn.Pos()), "_test.go") {
					continue
				}
				if nm := recvNamed(fn); nm != nil && len(pairs[nm]) > 0 {
					continue // the table's own methods (GetOrInsert = Get + Insert is covered as a caller below only if outside the type)
				}
				fns = append(fns, fn)
			}
			sort.Slice(fns, func(i, j int) bool { return core.FuncName(fns[i]) < core.FuncName(fns[j]) })
			for _, fn := range fns {
				// lookups of this function
				type lookup struct {
					nm   *types.Named
					keys []keyVal
				}
				var gets []lookup
				for _, b := range fn.Blocks {
					for _, in := range b.Instrs {
						c, ok := in.(*ssa.Call)
						if !ok {
							continue
						}
						cal := c.Call.StaticCallee()
						nm := recvNamed(cal)
						if nm == nil {
							continue
						}
						for _, mp := range pairs[nm] {
							if cal.Object() == mp.get && len(c.Call.Args) >= 1+mp.nkeys {
								g := lookup{nm: nm}
								for _, a := range c.Call.Args[1 : 1+mp.nkeys] {
									if k, ok := a.(*ssa.Const); ok && k.Value != nil {
										g.keys = append(g.keys, keyVal{k: k.Value})
									} else {
										g.keys = append(g.keys, keyVal{v: a})
									}
								}
								gets = append(gets, g)
							}
						}
					}
				}
				if len(gets) == 0 {
					continue
				}
				for _, st := range storesOf(fn, nil, 0, "", map[*ssa.Function]bool{}) {
					var cands []lookup
					for _, g := range gets {
						if g.nm == st.nm && len(g.keys) == len(st.keys) {
							cands = append(cands, g)
						}
					}
					if len(cands) == 0 {
						continue
					}
					o := core.Obligation{Key: kc.Key("R-MEMOKEY", core.FuncName(fn), "store into "+st.nm.Obj().Name()+" under the looked-up key"), Pos: st.pos, Nontrivial: true}
					match, unknown := false, false
					for _, k := range st.keys {
						if !k.known() {
							unknown = true
						}
					}
					for _, g := range cands {
						all := true
						for i := range st.keys {
							if !st.keys[i].eq(g.keys[i]) {
								all = false
							}
						}
						if all {
							match = true
						}
					}
					ks := []string{}
					for _, k := range st.keys {
						ks = append(ks, k.String())
					}
					gk := []string{}
					for _, k := range cands[0].keys {
						gk = append(gk, k.String())
					}
					where := ""
					if st.via != "" {
						where = " (through " + st.via + ")"
					}
					switch {
					case match:
						o.Status = core.Discharged
						o.Detail = fmt.Sprintf("stored under (%s), the key of the lookup%s", strings.Join(ks, ", "), where)
					case unknown:
						o.Status = core.Undecided
						o.Detail = fmt.Sprintf("a key argument of the store%s cannot be expressed in the looking-up function's values: (%s) against the lookup's (%s)", where, strings.Join(ks, ", "), strings.Join(gk, ", "))
					default:
						o.Status = core.Violated
						o.Detail = fmt.Sprintf("looked up with (%s) but stored under (%s)%s: the next caller asking with the stored key gets an entry computed for another one", strings.Join(gk, ", "), strings.Join(ks, ", "), where)
					}
					res.Obligations = append(res.Obligations, o)
				}
			}
			return res
		},
	})
}
