package rules

import (
	"fmt"
	"go/ast"
	"go/token"
	"go/types"
	"sort"
	"strings"

	"golang.org/x/tools/go/packages"

	"verif/internal/core"
)

// fastPaths: the special-purpose searchers, each with the entry points of its family (applicability predicate and
// constructor) and the pattern data its answer depends on. The table was frozen from reading SelectStrategy /
// selectReverseStrategy / build* on the pinned tree and from probes that showed, for each listed datum, two patterns
// that differ only in it and have different answers (demos/probes/nongreedy_test.go, fold_test.go, fold2_test.go).
// A datum is listed only where the fast path itself computes the answer (greedy-only scanners, byte tables);
// predicates whose verification is done by a general automaton are not required to read it.
type fastPath struct {
	name  string
	roots []string // module-relative package "." function
	needs []string // "NonGreedy", "FoldCase", "RepeatBounds", "DotNL"
	why   string
}

var fastPaths = []fastPath{
	{"CharClassSearcher", []string{"nfa.IsSimpleCharClassPlus", "nfa.ExtractCharClassRanges"}, []string{"NonGreedy"},
		"greedy run scanner: [a-z]+? must match one byte, [a-z]+ the whole run"},
	{"CompositeSearcher", []string{"nfa.IsCompositeCharClassPattern", "nfa.NewCompositeSearcher"}, []string{"NonGreedy", "RepeatBounds"},
		"greedy-with-backtracking over class runs: [a-z]+?[0-9]+? vs [a-z]+[0-9]+ on abc123"},
	{"CompositeSequenceDFA", []string{"nfa.IsCompositeSequenceDFAPattern", "nfa.NewCompositeSequenceDFA"}, []string{"NonGreedy", "RepeatBounds"},
		"longest-run DFA over class runs"},
	{"BranchDispatcher", []string{"nfa.IsBranchDispatchPattern", "nfa.NewBranchDispatcher"}, []string{"NonGreedy", "FoldCase"},
		"per-branch byte matcher: ^(?i)(foo|bar) must accept FOO; ^(foo+?|bar) is lazy"},
	{"first-byte rejection filter", []string{"nfa.ExtractFirstBytes"}, []string{"FoldCase"},
		"256-entry first-byte table: (?i)^hello$ must not reject 'hello'"},
	{"AnchoredLiteral", []string{"meta.DetectAnchoredLiteral"}, []string{"FoldCase", "DotNL"},
		"byte-wise prefix/suffix comparison, wildcard by skipping: (?i)^/.*\\.php$ must accept /x.php; ^/.*\\.php$ must reject /a\\nb.php, (?s)^/.*\\.php$ must accept it"},
	{"ReverseSuffix/ReverseSuffixSet", []string{"meta.isSafeForReverseSuffix"}, []string{"NonGreedy"},
		"span end chosen as the last suffix / leftmost-longest DFA end: .*?\\.(txt|log|md) on a.txt.txt"},
	{"ReverseSuffix '.*' fast path", []string{"meta.isDotStarLiteral"}, []string{"NonGreedy", "FoldCase", "DotNL"},
		"returns [line start, last literal occurrence] without an automaton"},
	{"ReverseInner", []string{"meta.isSafeForReverseInner"}, []string{"NonGreedy"},
		"span end from a leftmost-longest forward DFA: .*?error.*? on 'an error here error'"},
	{"ReverseInner whole-haystack span", []string{"meta.isUniversalMatch", "meta.endsWithUniversalMatch", "meta.isDotAllStar", "meta.isLiteralThenDotAllStar"}, []string{"DotNL"},
		"returns [start, len(haystack)] without a scan: right for (?s).*lit(?s).*, wrong for .*lit.* on x\\nlit\\ny"},
	{"MultilineReverseSuffix fast path", []string{"meta.multilineLiteralDotStarLiteral"}, []string{"NonGreedy", "FoldCase", "DotNL"},
		"answers [line start, last suffix on the line] without an automaton: exact only for a greedy default-dot star between two case-sensitive literals (the strategy's other patterns are answered by the anchored forward DFA of the whole pattern, which needs no datum)"},
}

type funcFacts struct {
	ops        map[string]bool // syntax.Op constants compared with / switched on
	readsFlag  map[string]bool // "NonGreedy", "FoldCase"
	readsField map[string]bool // "Min", "Max", "Rune", "Flags"
	callees    []*types.Func
	// dotSeparated: a comparison (or case clause) selects OpAnyChar or OpAnyCharNotNL without the other one next to it
	dotSeparated bool
}

func collectFuncFacts(pk *packages.Package, fd *ast.FuncDecl) *funcFacts {
	ff := &funcFacts{ops: map[string]bool{}, readsFlag: map[string]bool{}, readsField: map[string]bool{}}
	info := pk.TypesInfo
	isSyntaxConst := func(e ast.Expr) (string, bool) {
		se, ok := e.(*ast.SelectorExpr)
		if !ok {
			return "", false
		}
		c, ok := info.Uses[se.Sel].(*types.Const)
		if !ok || c.Pkg() == nil || c.Pkg().Path() != "regexp/syntax" {
			return "", false
		}
		return c.Name(), true
	}
	// dot discrimination: collect the logical groups (operands of one ||/&& chain, entries of one case clause) in which
	// the two dot operators are mentioned
	dotOf := func(e ast.Expr) string {
		be, ok := e.(*ast.BinaryExpr)
		if !ok || (be.Op != token.EQL && be.Op != token.NEQ) {
			return ""
		}
		for _, side := range []ast.Expr{be.X, be.Y} {
			if nm, ok := isSyntaxConst(side); ok && (nm == "OpAnyChar" || nm == "OpAnyCharNotNL") {
				return nm
			}
		}
		return ""
	}
	var chain func(e ast.Expr, out *[]string)
	chain = func(e ast.Expr, out *[]string) {
		switch x := e.(type) {
		case *ast.ParenExpr:
			chain(x.X, out)
		case *ast.BinaryExpr:
			if x.Op == token.LOR || x.Op == token.LAND {
				chain(x.X, out)
				chain(x.Y, out)
				return
			}
			if d := dotOf(x); d != "" {
				*out = append(*out, d)
			}
		}
	}
	inChain := map[ast.Node]bool{}
	ast.Inspect(fd.Body, func(n ast.Node) bool {
		switch x := n.(type) {
		case *ast.BinaryExpr:
			if inChain[x] {
				return true
			}
			if x.Op == token.LOR || x.Op == token.LAND {
				// mark the whole chain as visited
				var mark func(e ast.Expr)
				mark = func(e ast.Expr) {
					switch y := e.(type) {
					case *ast.ParenExpr:
						mark(y.X)
					case *ast.BinaryExpr:
						inChain[y] = true
						if y.Op == token.LOR || y.Op == token.LAND {
							mark(y.X)
							mark(y.Y)
						}
					}
				}
				mark(x)
				var ds []string
				chain(x, &ds)
				seen := map[string]bool{}
				for _, d := range ds {
					seen[d] = true
				}
				if len(seen) == 1 {
					ff.dotSeparated = true
				}
			} else if d := dotOf(x); d != "" {
				ff.dotSeparated = true
			}
		case *ast.CaseClause:
			seen := map[string]bool{}
			for _, e := range x.List {
				if nm, ok := isSyntaxConst(e); ok && (nm == "OpAnyChar" || nm == "OpAnyCharNotNL") {
					seen[nm] = true
				}
			}
			if len(seen) == 1 {
				ff.dotSeparated = true
			}
		}
		return true
	})
	ast.Inspect(fd.Body, func(n ast.Node) bool {
		switch x := n.(type) {
		case *ast.CaseClause:
			for _, e := range x.List {
				if nm, ok := isSyntaxConst(e); ok && strings.HasPrefix(nm, "Op") {
					ff.ops[nm] = true
				}
			}
		case *ast.BinaryExpr:
			switch x.Op {
			case token.EQL, token.NEQ:
				for _, e := range []ast.Expr{x.X, x.Y} {
					if nm, ok := isSyntaxConst(e); ok && strings.HasPrefix(nm, "Op") {
						ff.ops[nm] = true
					}
				}
			case token.AND:
				for _, e := range []ast.Expr{x.X, x.Y} {
					if nm, ok := isSyntaxConst(e); ok && (nm == "NonGreedy" || nm == "FoldCase") {
						ff.readsFlag[nm] = true
					}
				}
			}
		case *ast.SelectorExpr:
			if tv, ok := info.Types[x.X]; ok && isSyntaxRegexpPtr(tv.Type) {
				ff.readsField[x.Sel.Name] = true
			}
		case *ast.CallExpr:
			if f, ok := calleeObj(pk, x).(*types.Func); ok && f != nil {
				ff.callees = append(ff.callees, f)
			}
		}
		return true
	})
	return ff
}

func takesRegexp(f *types.Func) bool {
	sig, ok := f.Type().(*types.Signature)
	if !ok {
		return false
	}
	check := func(t types.Type) bool {
		if isSyntaxRegexpPtr(t) {
			return true
		}
		if sl, ok := t.(*types.Slice); ok && isSyntaxRegexpPtr(sl.Elem()) {
			return true
		}
		return false
	}
	for i := 0; i < sig.Params().Len(); i++ {
		if check(sig.Params().At(i).Type()) {
			return true
		}
	}
	return false
}

func init() {
	core.Register(&core.Rule{
		Name: "R-DISTINGUISH",
		Doc: "Each fast-path family (an applicability predicate or constructor of a special-purpose searcher plus every function over the syntax tree it reaches) must read the datum that distinguishes patterns it would otherwise treat alike: if it compares re.Op with OpStar/OpPlus/OpQuest/OpRepeat it must read Flags&syntax.NonGreedy (x+ and x+? differ in no other field); if it reads Rune of a node it matched as OpLiteral it must read Flags&syntax.FoldCase (abc vs (?i)abc); if it matches OpRepeat it must read both Min and Max; if it implements a dot wildcard by skipping bytes it must tell OpAnyChar from OpAnyCharNotNL. A family that never reads the field returns the same answer for both patterns and is wrong for one of them. Necessary for C19 (fast paths exact on everything they accept) and C02.",
		Min: 16,
		Run: func(p *core.Prog) *core.RuleResult {
			res := &core.RuleResult{}
			facts := map[*types.Func]*funcFacts{}
			for _, pk := range p.Pkgs {
				for _, f := range pk.Syntax {
					if strings.HasSuffix(p.Fset.Position(f.Pos()).Filename, "_test.go") {
						continue
					}
					for _, d := range f.Decls {
						fd, ok := d.(*ast.FuncDecl)
						if !ok || fd.Body == nil {
							continue
						}
						if obj, ok := pk.TypesInfo.Defs[fd.Name].(*types.Func); ok {
							facts[obj] = collectFuncFacts(pk, fd)
						}
					}
				}
			}
			for _, fp := range fastPaths {
				fam := map[*types.Func]bool{}
				var work []*types.Func
				var firstObj *types.Func
				for _, r := range fp.roots {
					pkgRel, fn, _ := strings.Cut(r, ".")
					obj := p.LookupFunc(pkgRel, fn)
					if obj == nil {
						res.Notes = append(res.Notes, "fast-path entry point "+r+" no longer exists (renamed or removed)")
						continue
					}
					if firstObj == nil {
						firstObj = obj
					}
					if !fam[obj] {
						fam[obj] = true
						work = append(work, obj)
					}
				}
				if firstObj == nil {
					continue
				}
				for len(work) > 0 {
					f := work[len(work)-1]
					work = work[:len(work)-1]
					ff := facts[f]
					if ff == nil {
						continue
					}
					for _, c := range ff.callees {
						if !fam[c] && facts[c] != nil && takesRegexp(c) && p.InModule(c.Pkg()) {
							fam[c] = true
							work = append(work, c)
						}
					}
				}
				ops, flags, fields := map[string]bool{}, map[string]bool{}, map[string]bool{}
				dotSeparated := false
				var members []string
				for f := range fam {
					members = append(members, f.Name())
					ff := facts[f]
					if ff.dotSeparated {
						dotSeparated = true
					}
					for k := range ff.ops {
						ops[k] = true
					}
					for k := range ff.readsFlag {
						flags[k] = true
					}
					for k := range ff.readsField {
						fields[k] = true
					}
				}
				sort.Strings(members)
				var quant []string
				for _, q := range []string{"OpStar", "OpPlus", "OpQuest", "OpRepeat"} {
					if ops[q] {
						quant = append(quant, q)
					}
				}
				for _, need := range fp.needs {
					o := core.Obligation{Key: "R-DISTINGUISH|" + fp.name + "|reads " + need, Pos: p.Pos(firstObj.Pos()), Nontrivial: true, Path: []string{"family: " + strings.Join(members, ", "), "why: " + fp.why}}
					switch need {
					case "NonGreedy":
						switch {
						case len(quant) == 0:
							o.Status = core.Discharged
							o.Detail = "family matches no quantifier operator"
						case flags["NonGreedy"]:
							o.Status = core.Discharged
							o.Detail = fmt.Sprintf("family matches %v and reads Flags&syntax.NonGreedy", quant)
						default:
							o.Status = core.Violated
							o.Detail = fmt.Sprintf("%s family matches %v but never reads Flags&syntax.NonGreedy: the lazy and the greedy form of a quantifier are indistinguishable to it, so it returns the greedy answer for both", fp.name, quant)
						}
					case "FoldCase":
						switch {
						case !(ops["OpLiteral"] && fields["Rune"]):
							o.Status = core.Discharged
							o.Detail = "family does not consume literal runes"
						case flags["FoldCase"]:
							o.Status = core.Discharged
							o.Detail = "family consumes literal runes and reads Flags&syntax.FoldCase"
						default:
							o.Status = core.Violated
							o.Detail = fp.name + " family consumes the runes of OpLiteral nodes but never reads Flags&syntax.FoldCase: abc and (?i)abc are indistinguishable to it"
						}
					case "DotNL":
						switch {
						case !ops["OpAnyCharNotNL"] && !ops["OpAnyChar"]:
							o.Status = core.Discharged
							o.Detail = "family does not match a dot operator"
						case dotSeparated:
							o.Status = core.Discharged
							o.Detail = "family tells OpAnyChar from OpAnyCharNotNL (one of them is selected without the other)"
						default:
							o.Status = core.Violated
							o.Detail = fp.name + " family mentions the dot operators only together (Op == OpAnyChar || Op == OpAnyCharNotNL): '.' and '(?s).' are indistinguishable to it, so a wildcard it implements by skipping bytes either crosses '\\n' for both or for neither"
						}
					case "RepeatBounds":
						switch {
						case !ops["OpRepeat"]:
							o.Status = core.Discharged
							o.Detail = "family does not match OpRepeat"
						case fields["Min"] && fields["Max"]:
							o.Status = core.Discharged
							o.Detail = "family matches OpRepeat and reads Min and Max"
						default:
							o.Status = core.Violated
							o.Detail = fp.name + " family matches OpRepeat without reading both Min and Max: x{2,3} and x{2,5} are indistinguishable to it"
						}
					}
					res.Obligations = append(res.Obligations, o)
				}
			}
			return res
		},
	})
}
