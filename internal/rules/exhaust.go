package rules

import (
	"fmt"
	"go/ast"
	"go/constant"
	"go/token"
	"go/types"
	"sort"
	"strings"

	"golang.org/x/tools/go/packages"

	"verif/internal/core"
)

// enumConsts lists the package-level constants of a named type, by name, in its defining package.
func enumConsts(n *types.Named) map[string]*types.Const {
	out := map[string]*types.Const{}
	pk := n.Obj().Pkg()
	if pk == nil {
		return out
	}
	sc := pk.Scope()
	for _, nm := range sc.Names() {
		if c, ok := sc.Lookup(nm).(*types.Const); ok && types.Identical(c.Type(), n) {
			out[nm] = c
		}
	}
	return out
}

type switchInfo struct {
	pkg      *packages.Package
	fn       *ast.FuncDecl
	sw       *ast.SwitchStmt
	tagType  *types.Named
	covered  map[string]bool // constant names
	hasDef   bool
	defBody  []ast.Stmt
	clauses  []*ast.CaseClause
	allRet   bool // every clause body ends in return
	lastStmt bool // the switch is the last statement of the function body
	ordinal  int
}

// collectEnumSwitches finds switch statements whose tag has one of the given named types.
func collectEnumSwitches(p *core.Prog, want func(*types.Named) bool) []*switchInfo {
	var out []*switchInfo
	for _, pk := range p.Pkgs {
		for _, f := range pk.Syntax {
			fname := p.Fset.Position(f.Pos()).Filename
			if strings.HasSuffix(fname, "_test.go") {
				continue
			}
			for _, d := range f.Decls {
				fd, ok := d.(*ast.FuncDecl)
				if !ok || fd.Body == nil {
					continue
				}
				ord := map[string]int{}
				ast.Inspect(fd.Body, func(n ast.Node) bool {
					sw, ok := n.(*ast.SwitchStmt)
					if !ok || sw.Tag == nil {
						return true
					}
					tv, ok := pk.TypesInfo.Types[sw.Tag]
					if !ok {
						return true
					}
					named, ok := tv.Type.(*types.Named)
					if !ok || !want(named) {
						return true
					}
					si := &switchInfo{pkg: pk, fn: fd, sw: sw, tagType: named, covered: map[string]bool{}, allRet: true}
					consts := enumConsts(named)
					for _, st := range sw.Body.List {
						cc := st.(*ast.CaseClause)
						si.clauses = append(si.clauses, cc)
						if cc.List == nil {
							si.hasDef = true
							si.defBody = cc.Body
						}
						for _, e := range cc.List {
							if tv, ok := pk.TypesInfo.Types[e]; ok && tv.Value != nil {
								for nm, c := range consts {
									if constant.Compare(c.Val(), token.EQL, tv.Value) {
										si.covered[nm] = true
									}
								}
							}
						}
						if len(cc.Body) == 0 {
							si.allRet = false
						} else if _, ok := cc.Body[len(cc.Body)-1].(*ast.ReturnStmt); !ok {
							si.allRet = false
						}
					}
					if n := len(fd.Body.List); n > 0 && fd.Body.List[n-1] == ast.Stmt(sw) {
						si.lastStmt = true
					}
					key := core.TypeName(named)
					si.ordinal = ord[key]
					ord[key]++
					out = append(out, si)
					return true
				})
			}
		}
	}
	return out
}

func declName(p *core.Prog, pk *packages.Package, fd *ast.FuncDecl) string {
	if obj, ok := pk.TypesInfo.Defs[fd.Name].(*types.Func); ok {
		return core.ObjName(obj)
	}
	return fd.Name.Name
}

// firstCallName returns the selector/ident name of the first call expression in the statements.
func firstCallName(stmts []ast.Stmt) string {
	name := ""
	for _, s := range stmts {
		ast.Inspect(s, func(n ast.Node) bool {
			if name != "" {
				return false
			}
			if c, ok := n.(*ast.CallExpr); ok {
				switch f := c.Fun.(type) {
				case *ast.SelectorExpr:
					name = f.Sel.Name
				case *ast.Ident:
					name = f.Name
				}
				return false
			}
			return true
		})
		if name != "" {
			break
		}
	}
	return name
}

func missing(all map[string]*types.Const, covered map[string]bool, except map[string]bool) []string {
	var m []string
	for nm := range all {
		if !covered[nm] && !except[nm] {
			m = append(m, nm)
		}
	}
	sort.Strings(m)
	return m
}

func init() {
	core.Register(&core.Rule{
		Name: "R-EXHAUST",
		Doc: "Switches over the repository's closed enumerations: (a) the NFA compiler's switch over regexp/syntax.Op covers every operator the parser can emit (all exported Op constants except OpNoMatch, which the parser removes from alternations and never returns at top level) and its default returns an error; (b) every dispatcher-shaped switch over meta.Strategy (every clause ends in return) either covers all strategies or has a default that calls the same universal helper as its UseNFA clause; (c) the total evaluators over nfa.Look (a frozen table: checkLookAssertion, LookSet.Contains, LookSet.Insert) have a clause of their own for every look-around kind - a default or the code behind the switch answers the same for kinds that need different answers; other switches over nfa.Look may be partial (a predicate 'is a word assertion that holds'), omitted kinds are listed in the evidence; (d) every switch over nfa.StateKind covers all kinds or has a default. Necessary for C09 (Compile accepts stdlib's language), C01/C11 (every strategy is answered by every dispatcher) and C14 (no assertion kind is silently ignored).",
		Min: 40,
		Run: func(p *core.Prog) *core.RuleResult {
			res := &core.RuleResult{}
			isType := func(n *types.Named, pkgSuffix, name string) bool {
				return n.Obj().Name() == name && n.Obj().Pkg() != nil && (n.Obj().Pkg().Path() == pkgSuffix || strings.HasSuffix(n.Obj().Pkg().Path(), "/"+pkgSuffix))
			}
			sws := collectEnumSwitches(p, func(n *types.Named) bool {
				return isType(n, "regexp/syntax", "Op") || isType(n, "meta", "Strategy") || isType(n, "nfa", "Look") || isType(n, "nfa", "StateKind")
			})
			counts := map[string]int{}
			evaluators := 0
			kc := core.NewKeyCounter()
			for _, si := range sws {
				fname := declName(p, si.pkg, si.fn)
				tn := core.TypeName(si.tagType)
				if isType(si.tagType, "regexp/syntax", "Op") {
					tn = "syntax.Op"
				}
				all := enumConsts(si.tagType)
				o := core.Obligation{Pos: p.Pos(si.sw.Pos())}
				switch {
				case tn == "syntax.Op":
					if !strings.HasSuffix(fname, "nfa.Compiler).compileRegexp") {
						continue // analysers over the syntax tree are R-ASTWALK's subject
					}
					counts["compile"]++
					o.Key = kc.Key("R-EXHAUST", fname, "switch syntax.Op")
					miss := missing(all, si.covered, map[string]bool{"OpNoMatch": true})
					// drop unexported pseudo ops
					var m2 []string
					for _, m := range miss {
						if ast.IsExported(m) {
							m2 = append(m2, m)
						}
					}
					switch {
					case len(m2) > 0:
						o.Status = core.Violated
						o.Detail = fmt.Sprintf("the compiler does not handle %v, which regexp/syntax can emit: Compile rejects patterns stdlib accepts", m2)
					case !si.hasDef:
						o.Status = core.Violated
						o.Detail = "no default clause: an unknown operator would compile to nothing"
					default:
						o.Status = core.Discharged
						o.Detail = fmt.Sprintf("covers %d of %d operators (OpNoMatch is never emitted by the parser); default returns an error", len(si.covered), len(all))
					}
				case tn == "meta.Strategy":
					o.Key = kc.Key("R-EXHAUST", fname, "switch meta.Strategy")
					if !si.allRet || (!si.hasDef && !si.lastStmt) {
						counts["strategy-partial"]++
						o.Status = core.Discharged
						o.Detail = fmt.Sprintf("not a dispatcher (some clause falls through to strategy-independent code); covers %d of %d", len(si.covered), len(all))
						break
					}
					counts["strategy-dispatch"]++
					o.Nontrivial = true
					miss := missing(all, si.covered, nil)
					if len(miss) == 0 {
						o.Status = core.Discharged
						o.Detail = "dispatcher covers every strategy"
						break
					}
					if !si.hasDef {
						o.Status = core.Violated
						o.Detail = fmt.Sprintf("dispatcher has no default and does not handle %v", miss)
						break
					}
					// default must call the same helper as the UseNFA clause (the universal engine), or return a constant/identity
					nfaCall := ""
					for _, cc := range si.clauses {
						for _, e := range cc.List {
							if id, ok := e.(*ast.Ident); ok && id.Name == "UseNFA" {
								nfaCall = firstCallName(cc.Body)
							}
						}
					}
					defCall := firstCallName(si.defBody)
					switch {
					case nfaCall != "" && defCall == nfaCall:
						o.Status = core.Discharged
						o.Detail = fmt.Sprintf("strategies %v fall to the default, which calls the universal helper %s", miss, defCall)
					case nfaCall == "":
						o.Status = core.Discharged
						o.Detail = fmt.Sprintf("selector without a UseNFA clause (strategies %v take the default %q)", miss, defCall)
					default:
						o.Status = core.Violated
						o.Detail = fmt.Sprintf("strategies %v fall to a default that calls %q, not the universal helper %q used for UseNFA", miss, defCall, nfaCall)
					}
				default: // Look, StateKind
					counts[tn]++
					o.Key = kc.Key("R-EXHAUST", fname, "switch "+tn)
					miss := missing(all, si.covered, nil)
					switch {
					case tn == "nfa.Look" && lookEvaluators[fname] != "":
						// a total evaluator: every kind has a clause of its own, a default or the code behind the switch
						// gives one answer for kinds that need different ones
						evaluators++
						if len(miss) == 0 {
							o.Status = core.Discharged
							o.Detail = "total evaluator (" + lookEvaluators[fname] + "): every look-around kind has its own clause"
						} else {
							o.Status = core.Violated
							o.Detail = fmt.Sprintf("total evaluator (%s) has no clause for %v: those assertions get the answer of the default / of the code after the switch, i.e. are treated as always false/true", lookEvaluators[fname], miss)
						}
					case len(miss) == 0:
						o.Status = core.Discharged
						o.Detail = "covers every constant"
					case si.hasDef:
						o.Status = core.Discharged
						o.Detail = fmt.Sprintf("%v handled by the default clause", miss)
					default:
						// a switch without default that omits kinds: the omitted kinds take the code after the switch, which is
						// the same as a default clause; a partial predicate ('is a word assertion that holds') is legitimate
						o.Status = core.Discharged
						o.Detail = fmt.Sprintf("no default; %v are not selected by this switch (they take the code after it)", miss)
					}
				}
				res.Obligations = append(res.Obligations, o)
			}
			res.Notes = append(res.Notes, fmt.Sprintf("switch instances: %v", counts))
			if evaluators == 0 {
				res.Fatal = append(res.Fatal, "none of the total look-around evaluators of the table (lookEvaluators) was found")
			}
			if counts["compile"] != 1 {
				res.Fatal = append(res.Fatal, "compileRegexp's switch over syntax.Op not found (anchor lost)")
			}
			return res
		},
	})
}

// lookEvaluators: the functions that answer for every look-around kind (confirmed by reading); a helper that decides
// a subset on purpose ('is this \\b or \\B and does it hold') is not one of them.
var lookEvaluators = map[string]string{
	"nfa.checkLookAssertion":       "the PikeVM/backtracker evaluation of an assertion at a position",
	"(dfa/lazy.LookSet).Contains": "membership in the DFA's set of assertions that hold",
	"(dfa/lazy.LookSet).Insert":   "insertion into the DFA's set of assertions that hold",
}

// tagIsParam: the switch tag is an identifier naming a parameter (or receiver) of the enclosing function.
func tagIsParam(si *switchInfo) bool {
	id, ok := si.sw.Tag.(*ast.Ident)
	if !ok {
		return false
	}
	obj := si.pkg.TypesInfo.Uses[id]
	if obj == nil {
		return false
	}
	check := func(fl *ast.FieldList) bool {
		if fl == nil {
			return false
		}
		for _, f := range fl.List {
			for _, n := range f.Names {
				if si.pkg.TypesInfo.Defs[n] == obj {
					return true
				}
			}
		}
		return false
	}
	return check(si.fn.Type.Params) || check(si.fn.Recv)
}


// anyClauseReturns: some clause of the switch contains a return statement (the switch decides the function's result).
func anyClauseReturns(si *switchInfo) bool {
	found := false
	for _, cl := range si.clauses {
		for _, st := range cl.Body {
			ast.Inspect(st, func(n ast.Node) bool {
				if _, ok := n.(*ast.ReturnStmt); ok {
					found = true
				}
				if _, ok := n.(*ast.FuncLit); ok {
					return false
				}
				return true
			})
		}
	}
	return found
}
