package rules

import (
	"fmt"
	"go/constant"
	"go/token"
	"go/types"
	"sort"
	"strings"

	"golang.org/x/tools/go/ssa"

	"verif/internal/asm"
	"verif/internal/core"
)

// foldScanCondition: for a scalar scan loop `for i, b := range h { if cond(b) { return i } }` computes the
// set of byte values for which the loop returns at that byte. The body is folded from the byte load
// onwards with the loaded value bound to x; reaching a return whose result is not the constant -1 is a
// hit, coming back to a block that dominates the load (the loop header) is a miss.
func foldScanCondition(g *ssa.Function) (*byteSet, string) {
	var load *ssa.UnOp
	for _, b := range g.Blocks {
		for _, in := range b.Instrs {
			u, ok := in.(*ssa.UnOp)
			if !ok || u.Op != token.MUL {
				continue
			}
			ia, ok := u.X.(*ssa.IndexAddr)
			if !ok || !isByteSeq(ia.X.Type()) {
				continue
			}
			if _, ok := ia.X.(*ssa.Parameter); !ok {
				continue
			}
			if load == nil {
				load = u
			}
		}
	}
	if load == nil {
		return nil, "no byte load from a []byte parameter"
	}
	var set byteSet
	for x := 0; x < 256; x++ {
		env := map[ssa.Value]constant.Value{load: constant.MakeInt64(int64(x))}
		get := func(v ssa.Value) (constant.Value, bool) {
			if c, ok := v.(*ssa.Const); ok && c.Value != nil {
				return c.Value, true
			}
			r, ok := env[v]
			return r, ok
		}
		blk := load.Block()
		idx := 0
		for i, in := range blk.Instrs {
			if in == ssa.Instruction(load) {
				idx = i + 1
			}
		}
		var prev *ssa.BasicBlock
		decided := false
		for steps := 0; steps < 512 && !decided; steps++ {
			next := (*ssa.BasicBlock)(nil)
			for _, in := range blk.Instrs[idx:] {
				switch in := in.(type) {
				case *ssa.DebugRef:
				case *ssa.Phi:
					for i, p := range blk.Preds {
						if p == prev {
							if v, ok := get(in.Edges[i]); ok {
								env[in] = v
							}
						}
					}
				case *ssa.BinOp:
					a, ok1 := get(in.X)
					b, ok2 := get(in.Y)
					if !ok1 || !ok2 {
						continue
					}
					switch in.Op {
					case token.EQL, token.NEQ, token.LSS, token.LEQ, token.GTR, token.GEQ:
						if a.Kind() == constant.Int && b.Kind() == constant.Int {
							env[in] = constant.MakeBool(constant.Compare(a, in.Op, b))
						}
					case token.ADD, token.SUB, token.AND, token.OR, token.XOR:
						if a.Kind() == constant.Int && b.Kind() == constant.Int {
							if r, ok := truncTo(constant.BinaryOp(a, in.Op, b), in.Type()); ok {
								env[in] = r
							}
						}
					}
				case *ssa.UnOp:
					if a, ok := get(in.X); ok && in.Op == token.NOT && a.Kind() == constant.Bool {
						env[in] = constant.MakeBool(!constant.BoolVal(a))
					}
				case *ssa.Convert:
					if a, ok := get(in.X); ok {
						if r, ok := truncTo(a, in.Type()); ok {
							env[in] = r
						}
					}
				case *ssa.Call:
					if cal := in.Call.StaticCallee(); cal != nil && len(in.Call.Args) == 1 {
						if a, ok := get(in.Call.Args[0]); ok && a.Kind() == constant.Int {
							ai, _ := constant.Int64Val(a)
							if r, ok := foldPred(cal, ai, 0); ok {
								env[in] = constant.MakeBool(r)
							}
						}
					}
				case *ssa.If:
					c, ok := get(in.Cond)
					if !ok {
						if blk.Dominates(load.Block()) && blk != load.Block() {
							decided = true // back at the loop header: this byte was rejected
							break
						}
						return nil, "a branch of the scan body depends on something other than the byte: " + in.Cond.String()
					}
					prev = blk
					if constant.BoolVal(c) {
						next = blk.Succs[0]
					} else {
						next = blk.Succs[1]
					}
				case *ssa.Jump:
					prev = blk
					next = blk.Succs[0]
				case *ssa.Return:
					hit := false
					for _, r := range in.Results {
						if c, ok := r.(*ssa.Const); !ok || c.Value == nil || c.Value.Kind() != constant.Int || c.Int64() != -1 {
							if b, ok := r.Type().Underlying().(*types.Basic); ok && b.Info()&types.IsInteger != 0 {
								hit = true
							}
						}
					}
					set[x] = hit
					decided = true
				}
				if decided || next != nil {
					break
				}
			}
			if decided {
				break
			}
			if next == nil {
				return nil, "scan body does not end in a branch"
			}
			if next == load.Block() || (next.Dominates(load.Block()) && next != blk) {
				decided = true // loops back for the next byte
				break
			}
			blk, idx = next, 0
		}
		if !decided {
			return nil, "no decision reached"
		}
	}
	return &set, ""
}

func diffSets(a *[256]bool, b *byteSet) (extra, missing []int) {
	for x := 0; x < 256; x++ {
		if a[x] && !b[x] {
			extra = append(extra, x)
		}
		if !a[x] && b[x] {
			missing = append(missing, x)
		}
	}
	return
}

func init() {
	core.Register(&core.Rule{
		Name: "R-ASMCLASS",
		Doc: "The byte-class kernels classify exactly the bytes their scalar definitions do. A TEXT block whose only parameter is one slice (memchrWordAVX2, memchrNotWordAVX2, memchrDigitAVX2) decides each haystack byte independently: in the vector body by lane-wise instructions on broadcast constants (VPMINUB/VPMAXUB/VPCMPEQB clamps, VPCMPGTB/VPANDN ranges), in the tail loop by a chain of CMPB/Jcc. Both halves are folded over the 256 byte values - the lane-wise instructions evaluated for one lane holding x, the compare-and-branch chain followed with the loaded register holding x - and compared with the set obtained the same way from the Go sibling the dispatcher falls back to (`for i, b := range h { if cond(b) { return i } }`, folded from the byte load to the return). A range constant off by one ('z'+1, '0'-1 as a signed compare bound, JBE for JB) changes the answer only for haystacks containing that one byte. Nothing is executed; the instruction table is part of the trusted base. Necessary for C18 (digit/word search and their negations equal their scalar definitions).",
		Min: 6, ThoroughArchs: []string{}, NeedSSA: true,
		Run: func(p *core.Prog) *core.RuleResult {
			res := &core.RuleResult{}
			ai := loadAsm(p)
			bl := bodiless(p)
			var names []string
			for n := range bl {
				names = append(names, n)
			}
			sort.Strings(names)
			for _, name := range names {
				fn := ai.byName[name]
				if fn == nil || !fn.OnlySliceParams() {
					continue
				}
				obj := bl[name]
				callee := p.SSAFunc(obj)
				if callee == nil {
					continue
				}
				// the Go sibling: a function with a body and the same signature called from a caller of the kernel
				var sib *ssa.Function
				for _, caller := range p.SrcFuncs() {
					callsKernel := false
					var cands []*ssa.Function
					for _, b := range caller.Blocks {
						for _, in := range b.Instrs {
							c, ok := in.(ssa.CallInstruction)
							if !ok {
								continue
							}
							g := c.Common().StaticCallee()
							if g == nil {
								continue
							}
							if g == callee {
								callsKernel = true
							} else if len(g.Blocks) > 0 && types.Identical(g.Signature, callee.Signature) && g.Pkg == caller.Pkg {
								cands = append(cands, g)
							}
						}
					}
					if callsKernel && len(cands) == 1 {
						sib = cands[0]
					}
				}
				if sib != nil {
					if rs := sib.Signature.Results(); rs.Len() != 1 || !isIntType(rs.At(0).Type()) {
						res.Notes = append(res.Notes, name+": the kernel does not return a position (not an obligation)")
						continue
					}
				}
				if sib == nil {
					res.Notes = append(res.Notes, name+": no Go sibling with the same signature found next to it (not an obligation)")
					continue
				}
				ref, why := foldScanCondition(sib)
				if ref == nil {
					res.Notes = append(res.Notes, fmt.Sprintf("%s: sibling %s is not a per-byte scan (%s): not an obligation", name, core.FuncName(sib), why))
					continue
				}
				cf := asm.FoldClass(fn)
				for _, half := range []struct {
					what string
					ok   bool
					set  *[256]bool
					line int
					why  string
				}{{"vector body", cf.VectorOK, &cf.Vector, cf.VectorLine, cf.VectorWhy}, {"scalar tail", cf.ScalarOK, &cf.Scalar, cf.ScalarLine, cf.ScalarWhy}} {
					o := core.Obligation{Key: "R-ASMCLASS|" + name + "|" + half.what + " accepts the bytes " + core.FuncName(sib) + " does", Pos: fmt.Sprintf("%s:%d", fn.File, half.line), Nontrivial: true}
					switch {
					case !half.ok:
						o.Status = core.Undecided
						o.Detail = "the " + half.what + " could not be folded: " + half.why
					default:
						extra, missing := diffSets(half.set, ref)
						if len(extra)+len(missing) == 0 {
							o.Status = core.Discharged
							o.Detail = fmt.Sprintf("folded over 0..255: %d bytes accepted, the same as the Go sibling", ref.count())
						} else {
							o.Status = core.Violated
							o.Detail = fmt.Sprintf("folded over 0..255: the %s reports {%s} which %s does not, and misses {%s}", half.what, describeBytes(extra), core.FuncName(sib), describeBytes(missing))
						}
					}
					res.Obligations = append(res.Obligations, o)
				}
			}
			_ = strings.TrimSpace
			return res
		},
	})
}
