package rules

import (
	"fmt"
	"go/token"
	"go/types"
	"sort"
	"strings"

	"golang.org/x/tools/go/ssa"

	"verif/internal/core"
)

// stateFieldOf: addr is &P.f where P is (a load of) a pointer to a module struct; returns the struct and the field.
func stateFieldOf(addr ssa.Value) (*types.Named, *types.Var, ssa.Value) {
	fa, ok := addr.(*ssa.FieldAddr)
	if !ok {
		return nil, nil, nil
	}
	pt, ok := fa.X.Type().Underlying().(*types.Pointer)
	if !ok {
		return nil, nil, nil
	}
	named, ok := pt.Elem().(*types.Named)
	if !ok {
		return nil, nil, nil
	}
	st, ok := named.Underlying().(*types.Struct)
	if !ok {
		return nil, nil, nil
	}
	return named, st.Field(fa.Field), fa.X
}

func init() {
	core.Register(&core.Rule{
		Name: "R-CALLCONFIG",
		Doc: "Per-call configuration of recycled state: a scalar field f of a state struct T that some function sets from one of its own parameters through a *T parameter (BacktrackerState.SpanStart = at, InputLen = haystackLen) describes the current call, not the object. Every exported method that receives a *T and from which a read of f is reachable must also reach a store to f (its own, or a reset helper's): otherwise it runs with the value the previous call on the same pooled state left behind - the visited-table index (pos-SpanStart)*NumStates+state goes negative after a search resumed at at>0 (panic), or a stale length bounds the search. Sibling agreement over the entry points of one state type. Necessary for C13 (history independence), C07 (no panic) and C03.",
		Min: 4, NeedSSA: true,
		Run: func(p *core.Prog) *core.RuleResult {
			res := &core.RuleResult{}
			cg := p.CallGraph()
			type key struct {
				t *types.Named
				f *types.Var
			}
			config := map[key]string{}              // per-call config fields -> where established
			stores := map[key]map[*ssa.Function]bool{} // functions storing the field
			reads := map[key]map[*ssa.Function]bool{}
			isScalar := func(t types.Type) bool {
				b, ok := t.Underlying().(*types.Basic)
				return ok && b.Info()&(types.IsInteger|types.IsBoolean) != 0
			}
			for _, fn := range p.SrcFuncs() {
				if strings.HasSuffix(p.File(fn.Pos()), "_test.go") || !p.InModule(ownPkg(fn)) {
					continue
				}
				for _, b := range fn.Blocks {
					for _, in := range b.Instrs {
						switch x := in.(type) {
						case *ssa.Store:
							t, f, base := stateFieldOf(x.Addr)
							if t == nil || !isScalar(f.Type()) || !p.InModule(t.Obj().Pkg()) {
								continue
							}
							k := key{t, f}
							if stores[k] == nil {
								stores[k] = map[*ssa.Function]bool{}
							}
							stores[k][fn] = true
							// set from a parameter through a *T parameter that is not the receiver
							bp, isParam := base.(*ssa.Parameter)
							if !isParam || (fn.Signature.Recv() != nil && len(fn.Params) > 0 && bp == fn.Params[0]) {
								continue
							}
							for _, prm := range fn.Params {
								if prm == bp || !isScalar(prm.Type()) {
									continue
								}
								if dependsOnNoCalls(x.Val, prm, map[ssa.Value]bool{}) {
									config[k] = core.FuncName(fn)
								}
							}
						case *ssa.UnOp:
							if x.Op != token.MUL {
								continue
							}
							t, f, _ := stateFieldOf(x.X)
							if t == nil || !isScalar(f.Type()) {
								continue
							}
							k := key{t, f}
							if reads[k] == nil {
								reads[k] = map[*ssa.Function]bool{}
							}
							reads[k][fn] = true
						}
					}
				}
			}
			reachSet := func(from *ssa.Function) map[*ssa.Function]bool {
				seen := map[*ssa.Function]bool{from: true}
				work := []*ssa.Function{from}
				for len(work) > 0 {
					f := work[0]
					work = work[1:]
					if n := cg.Nodes[f]; n != nil {
						for _, e := range n.Out {
							c := e.Callee.Func
							if !seen[c] && p.InModule(ownPkg(c)) {
								seen[c] = true
								work = append(work, c)
							}
						}
					}
				}
				return seen
			}
			var keys []key
			for k := range config {
				keys = append(keys, k)
			}
			sort.Slice(keys, func(i, j int) bool {
				return core.TypeName(keys[i].t)+"."+keys[i].f.Name() < core.TypeName(keys[j].t)+"."+keys[j].f.Name()
			})
			reachMemo := map[*ssa.Function]map[*ssa.Function]bool{}
			for _, k := range keys {
				var entries []*ssa.Function
				for _, fn := range p.SrcFuncs() {
					if strings.HasSuffix(p.File(fn.Pos()), "_test.go") || fn.Object() == nil || !fn.Object().Exported() || fn.Signature.Recv() == nil {
						continue
					}
					takes := false
					for i, prm := range fn.Params {
						if i == 0 {
							continue
						}
						if pt, ok := prm.Type().Underlying().(*types.Pointer); ok && types.Identical(pt.Elem(), k.t) {
							takes = true
						}
					}
					if takes {
						entries = append(entries, fn)
					}
				}
				sort.Slice(entries, func(i, j int) bool { return core.FuncName(entries[i]) < core.FuncName(entries[j]) })
				for _, e := range entries {
					r := reachMemo[e]
					if r == nil {
						r = reachSet(e)
						reachMemo[e] = r
					}
					readsIt, storesIt := false, false
					for f := range reads[k] {
						if r[f] {
							readsIt = true
						}
					}
					if !readsIt {
						continue
					}
					for f := range stores[k] {
						if r[f] {
							storesIt = true
						}
					}
					o := core.Obligation{Key: "R-CALLCONFIG|" + core.FuncName(e) + "|establishes " + core.TypeName(k.t) + "." + k.f.Name(), Pos: p.Pos(e.Pos()), Nontrivial: true}
					if storesIt {
						o.Status = core.Discharged
						o.Detail = "the entry reaches a store to the field before it can rely on it (set per call in " + config[k] + ")"
					} else {
						o.Status = core.Violated
						o.Detail = fmt.Sprintf("%s receives a recycled %s and reaches code that reads %s, which %s sets per call, but nothing it reaches stores the field: it runs with the value of the previous call on the same state", e.Name(), core.TypeName(k.t), k.f.Name(), config[k])
					}
					res.Obligations = append(res.Obligations, o)
				}
			}
			return res
		},
	})
}
