package rules

import (
	"fmt"
	"go/token"
	"strings"
	"go/types"

	"golang.org/x/tools/go/ssa"

	"verif/internal/core"
)

// R-POOL: typestate of per-search state objects handed out by sync.Pool / the atomic single-slot cache.

type poolFacts struct {
	getters map[*ssa.Function]bool       // return a value obtained from a primitive get
	putters map[*ssa.Function]map[int]bool // param index -> put on it
}

func isSyncPoolMethod(fn *ssa.Function, name string) bool {
	if fn == nil || fn.Name() != name || fn.Signature.Recv() == nil {
		return false
	}
	n := namedOfType(fn.Signature.Recv().Type())
	return n != nil && n.Obj().Pkg() != nil && n.Obj().Pkg().Path() == "sync" && n.Obj().Name() == "Pool"
}

func isAtomicPointerMethod(fn *ssa.Function, name string) bool {
	if fn == nil || fn.Name() != name || fn.Signature.Recv() == nil {
		return false
	}
	n := namedOfType(fn.Signature.Recv().Type())
	return n != nil && n.Obj().Pkg() != nil && n.Obj().Pkg().Path() == "sync/atomic" && n.Obj().Name() == "Pointer"
}

func namedOfType(t types.Type) *types.Named {
	for {
		switch u := t.(type) {
		case *types.Pointer:
			t = u.Elem()
		case *types.Alias:
			t = types.Unalias(u)
		case *types.Named:
			return u
		default:
			return nil
		}
	}
}

func isNilConst(v ssa.Value) bool {
	c, ok := v.(*ssa.Const)
	return ok && c.IsNil()
}

// primitiveGet: pool.Get() or atomicPointer.Swap(nil).
func primitiveGet(c *ssa.CallCommon) bool {
	f := c.StaticCallee()
	if isSyncPoolMethod(f, "Get") {
		return true
	}
	if isAtomicPointerMethod(f, "Swap") && len(c.Args) == 2 && isNilConst(c.Args[1]) {
		return true
	}
	return false
}

// primitivePut returns the value handed back, or nil. cas reports a conditional put (effective on the true result).
func primitivePut(c *ssa.CallCommon) (v ssa.Value, cas bool) {
	f := c.StaticCallee()
	switch {
	case isSyncPoolMethod(f, "Put") && len(c.Args) == 2:
		return c.Args[1], false
	case isAtomicPointerMethod(f, "CompareAndSwap") && len(c.Args) == 3 && isNilConst(c.Args[1]):
		return c.Args[2], true
	case isAtomicPointerMethod(f, "Store") && len(c.Args) == 2:
		return c.Args[1], false
	}
	return nil, false
}

// stripAlias walks back through value-preserving conversions.
func stripAlias(v ssa.Value) ssa.Value {
	for {
		switch x := v.(type) {
		case *ssa.TypeAssert:
			v = x.X
		case *ssa.ChangeType:
			v = x.X
		case *ssa.MakeInterface:
			v = x.X
		case *ssa.ChangeInterface:
			v = x.X
		default:
			return v
		}
	}
}

func computePoolFacts(p *core.Prog) *poolFacts {
	pf := &poolFacts{getters: map[*ssa.Function]bool{}, putters: map[*ssa.Function]map[int]bool{}}
	isGetCall := func(v ssa.Value) bool {
		c, ok := stripAlias(v).(*ssa.Call)
		if !ok {
			return false
		}
		if primitiveGet(&c.Call) {
			return true
		}
		if f := c.Call.StaticCallee(); f != nil && pf.getters[f] {
			return true
		}
		return false
	}
	for changed := true; changed; {
		changed = false
		for _, fn := range p.SrcFuncs() {
			for _, b := range fn.Blocks {
				for _, in := range b.Instrs {
					switch x := in.(type) {
					case *ssa.Return:
						if pf.getters[fn] {
							continue
						}
						for _, r := range x.Results {
							if returnsGet(r, isGetCall, map[ssa.Value]bool{}) {
								pf.getters[fn] = true
								changed = true
							}
						}
					case ssa.CallInstruction:
						cc := x.Common()
						var putVal ssa.Value
						if v, _ := primitivePut(cc); v != nil {
							putVal = v
						} else if f := cc.StaticCallee(); f != nil && pf.putters[f] != nil {
							for i := range pf.putters[f] {
								if i < len(cc.Args) {
									putVal = cc.Args[i]
								}
							}
						}
						if putVal == nil {
							continue
						}
						if prm, ok := stripAlias(putVal).(*ssa.Parameter); ok && prm.Parent() == fn {
							for i, q := range fn.Params {
								if q == prm {
									if pf.putters[fn] == nil {
										pf.putters[fn] = map[int]bool{}
									}
									if !pf.putters[fn][i] {
										pf.putters[fn][i] = true
										changed = true
									}
								}
							}
						}
					}
				}
			}
		}
	}
	return pf
}

func returnsGet(v ssa.Value, isGet func(ssa.Value) bool, seen map[ssa.Value]bool) bool {
	v = stripAlias(v)
	if seen[v] {
		return false
	}
	seen[v] = true
	if isGet(v) {
		return true
	}
	if ph, ok := v.(*ssa.Phi); ok {
		for _, e := range ph.Edges {
			if returnsGet(e, isGet, seen) {
				return true
			}
		}
	}
	return false
}

type poolSite struct {
	fn    *ssa.Function
	get   *ssa.Call
	alias map[ssa.Value]bool // values that are the state object itself
	deriv map[ssa.Value]bool // alias + values derived from it (fields, loads)
}

func buildAlias(get *ssa.Call) *poolSite {
	s := buildAliasFrom(get.Parent(), get)
	s.get = get
	return s
}

func buildAliasFrom(fn *ssa.Function, root ssa.Value) *poolSite {
	s := &poolSite{fn: fn, alias: map[ssa.Value]bool{root: true}, deriv: map[ssa.Value]bool{}}
	work := []ssa.Value{root}
	for len(work) > 0 {
		v := work[len(work)-1]
		work = work[:len(work)-1]
		if v.Referrers() == nil {
			continue
		}
		for _, r := range *v.Referrers() {
			switch x := r.(type) {
			case *ssa.TypeAssert, *ssa.ChangeType, *ssa.MakeInterface, *ssa.ChangeInterface:
				xv := x.(ssa.Value)
				if !s.alias[xv] {
					s.alias[xv] = true
					work = append(work, xv)
				}
			case *ssa.Extract:
				if _, ok := x.Tuple.(*ssa.TypeAssert); ok && x.Index == 0 && !s.alias[x] {
					s.alias[x] = true
					work = append(work, x)
				}
			case *ssa.Phi:
				if !s.alias[x] {
					s.alias[x] = true
					work = append(work, x)
				}
			}
		}
	}
	for v := range s.alias {
		s.deriv[v] = true
	}
	work = work[:0]
	for v := range s.alias {
		work = append(work, v)
	}
	for len(work) > 0 {
		v := work[len(work)-1]
		work = work[:len(work)-1]
		if v.Referrers() == nil {
			continue
		}
		for _, r := range *v.Referrers() {
			switch x := r.(type) {
			case *ssa.FieldAddr, *ssa.Field, *ssa.IndexAddr, *ssa.Index, *ssa.Slice:
				xv := x.(ssa.Value)
				if !s.deriv[xv] {
					s.deriv[xv] = true
					work = append(work, xv)
				}
			case *ssa.UnOp:
				if x.Op == token.MUL && !s.deriv[x] {
					s.deriv[x] = true
					work = append(work, x)
				}
			}
		}
	}
	return s
}

// putOf: if the call instruction hands back a value of the site's alias set returns (true, cas).
func (s *poolSite) putOf(pf *poolFacts, ci ssa.CallInstruction) (bool, bool) {
	cc := ci.Common()
	if v, cas := primitivePut(cc); v != nil {
		if s.alias[v] || s.alias[stripAlias(v)] {
			return true, cas
		}
		return false, false
	}
	if f := cc.StaticCallee(); f != nil && pf.putters[f] != nil {
		for i := range pf.putters[f] {
			if i < len(cc.Args) && (s.alias[cc.Args[i]] || s.alias[stripAlias(cc.Args[i])]) {
				return true, false
			}
		}
	}
	return false, false
}

func usesAny(in ssa.Instruction, set map[ssa.Value]bool) bool {
	var buf [8]*ssa.Value
	for _, op := range in.Operands(buf[:0]) {
		if op != nil && *op != nil && set[*op] {
			return true
		}
	}
	return false
}

type poolPoint struct {
	b    *ssa.BasicBlock
	i    int
	held bool
	put  bool // an (undeferred) put already happened on this path
}

func init() {
	core.Register(&core.Rule{
		Name: "R-POOL",
		Doc: "Typestate of per-search state: a value obtained from sync.Pool.Get / atomic.Pointer.Swap(nil) (directly or through a getter wrapper such as getSearchState) is (a) handed back (Pool.Put, CompareAndSwap(nil,x), or a putter wrapper; directly or by defer) on every path to return unless the function itself returns it, (b) never used after it was handed back, (c) never handed back twice, (d) handed back only by the function that obtained it: a put of a received value (a parameter, an element of a variadic parameter, on any incoming edge of a phi) is a violation outside the putter wrappers. (e) a putter wrapper never writes the state it hands back into an atomic.Pointer slot with an unconditional Store (a state parked there by another holder would be overwritten and lost; the slot is filled by CompareAndSwap(nil, x), overflow goes to the pool). (b),(c),(d) are necessary for C06 (the next Get in another goroutine receives the same object); (a) and (e) are necessary for C20 (a leaked state is re-allocated by Pool.New on every call, so steady-state calls allocate) and C13.",
		Min: 50, NeedSSA: true,
		ThoroughArchs: []string{"arm64"},
		Run: func(p *core.Prog) *core.RuleResult {
			pf := computePoolFacts(p)
			res := &core.RuleResult{}
			kc := core.NewKeyCounter()
			var gnames, pnames []string
			for f := range pf.getters {
				gnames = append(gnames, core.FuncName(f))
			}
			for f := range pf.putters {
				pnames = append(pnames, core.FuncName(f))
			}
			res.Notes = append(res.Notes, fmt.Sprintf("getter wrappers (computed): %v; putter wrappers (computed): %v", sortedStrs(gnames), sortedStrs(pnames)))
			// putter wrappers: the parameter being handed back must not be touched after the primitive hand-back
			// (the other goroutine may already own it), and must not be handed back twice
			for fn, idxs := range pf.putters {
				if fn.Blocks == nil {
					continue
				}
				for pi := range idxs {
					if pi >= len(fn.Params) {
						continue
					}
					site := buildAliasFrom(fn, fn.Params[pi])
					o := core.Obligation{Key: kc.Key("R-POOL", core.FuncName(fn), "hand-back of parameter "+fn.Params[pi].Name()), Pos: p.Pos(fn.Pos()), Nontrivial: true}
					viol := checkPoolWalk(p, pf, site, fn.Blocks[0], 0, true)
					if len(viol) == 0 {
						o.Status = core.Discharged
						o.Detail = "the state is not used after it was handed back and is handed back at most once"
					} else {
						o.Status = core.Violated
						o.Detail = viol[0]
						o.Path = viol
					}
					res.Obligations = append(res.Obligations, o)
					// (e) a wrapper parks the handed-back state in a single-slot cache only if the slot is free
					for _, b := range fn.Blocks {
						for _, in := range b.Instrs {
							c, ok := in.(ssa.CallInstruction)
							if !ok || !isAtomicPointerMethod(c.Common().StaticCallee(), "Store") || len(c.Common().Args) != 2 {
								continue
							}
							if stripAlias(c.Common().Args[1]) != ssa.Value(fn.Params[pi]) {
								continue
							}
							res.Obligations = append(res.Obligations, core.Obligation{Key: kc.Key("R-POOL", core.FuncName(fn), "slot filled only when free"), Pos: p.Pos(in.Pos()), Nontrivial: true, Status: core.Violated,
								Detail: "the handed-back state is written into the single-slot cache with an unconditional Store: a state that another holder parked there in the meantime is overwritten and lost, and nothing reaches the pool any more, so the next nested or concurrent acquisition builds a whole new state (steady-state calls allocate). The slot is filled with CompareAndSwap(nil, x); overflow goes to the pool"})
						}
					}
				}
			}
			// (d) only the owner hands back: outside the putter wrappers, a handed-back value comes from a get of
			// the same function on every path; a value the function received (a parameter, an element of a
			// variadic parameter) still belongs to the caller, which goes on using it and hands it back itself
			for _, fn := range p.SrcFuncs() {
				if pf.putters[fn] != nil || strings.HasSuffix(p.File(fn.Pos()), "_test.go") {
					continue
				}
				for _, b := range fn.Blocks {
					for _, in := range b.Instrs {
						ci, ok := in.(ssa.CallInstruction)
						if !ok {
							continue
						}
						cc := ci.Common()
						var handed []ssa.Value
						if v, _ := primitivePut(cc); v != nil {
							handed = append(handed, v)
						} else if f := cc.StaticCallee(); f != nil && pf.putters[f] != nil {
							for i := range pf.putters[f] {
								if i < len(cc.Args) {
									handed = append(handed, cc.Args[i])
								}
							}
						}
						for _, hv := range handed {
							borrowed := ""
							seen := map[ssa.Value]bool{}
							var walk func(v ssa.Value, d int)
							walk = func(v ssa.Value, d int) {
								if d > 8 || seen[v] || borrowed != "" {
									return
								}
								seen[v] = true
								switch x := v.(type) {
								case *ssa.Phi:
									for _, e := range x.Edges {
										walk(e, d+1)
									}
								case *ssa.Parameter:
									borrowed = "parameter " + x.Name()
								case *ssa.UnOp:
									if x.Op == token.MUL {
										if ia, ok := x.X.(*ssa.IndexAddr); ok {
											if prm, ok := ia.X.(*ssa.Parameter); ok {
												borrowed = "an element of parameter " + prm.Name()
											}
										}
										if a, ok := x.X.(*ssa.Alloc); ok && a.Referrers() != nil {
											for _, r := range *a.Referrers() {
												if st, ok := r.(*ssa.Store); ok && st.Addr == ssa.Value(a) {
													walk(st.Val, d+1)
												}
											}
										}
									}
								case *ssa.ChangeType:
									walk(x.X, d+1)
								case *ssa.MakeInterface:
									walk(x.X, d+1)
								}
							}
							walk(hv, 0)
							if borrowed == "" {
								continue
							}
							o := core.Obligation{Key: kc.Key("R-POOL", core.FuncName(fn), "hand-back of a borrowed state"), Pos: p.Pos(in.Pos()), Nontrivial: true, Status: core.Violated}
							o.Detail = "the value handed back may be " + borrowed + ": the caller that owns it keeps using it and hands it back again, so two goroutines can receive the same state"
							res.Obligations = append(res.Obligations, o)
						}
					}
				}
			}
			for _, fn := range p.SrcFuncs() {
				for _, b := range fn.Blocks {
					for idx, in := range b.Instrs {
						call, ok := in.(*ssa.Call)
						if !ok {
							continue
						}
						isGet := primitiveGet(&call.Call)
						if f := call.Call.StaticCallee(); f != nil && pf.getters[f] {
							isGet = true
						}
						if !isGet {
							continue
						}
						site := buildAlias(call)
						callee := "get"
						if f := call.Call.StaticCallee(); f != nil {
							callee = core.FuncName(f)
						}
						o := core.Obligation{Key: kc.Key("R-POOL", core.FuncName(fn), "get "+callee), Pos: p.Pos(call.Pos()), Nontrivial: true}
						viol := checkPoolSite(p, pf, site, b, idx)
						if len(viol) == 0 {
							o.Status = core.Discharged
							if pf.getters[fn] {
								o.Detail = "state is returned to the caller (getter wrapper) or handed back on every other path"
							} else {
								o.Detail = "handed back on every path to return; no use after hand-back; no double hand-back"
							}
						} else {
							o.Status = core.Violated
							o.Detail = viol[0]
							o.Path = viol
						}
						res.Obligations = append(res.Obligations, o)
					}
				}
			}
			return res
		},
	})
}

func sortedStrs(s []string) []string {
	out := append([]string(nil), s...)
	for i := range out {
		for j := i + 1; j < len(out); j++ {
			if out[j] < out[i] {
				out[i], out[j] = out[j], out[i]
			}
		}
	}
	return out
}

// checkPoolSite walks all paths from the get instruction.
func checkPoolSite(p *core.Prog, pf *poolFacts, s *poolSite, gb *ssa.BasicBlock, gi int) []string {
	return checkPoolWalk(p, pf, s, gb, gi+1, false)
}

// checkPoolWalk: putterMode = the value is a parameter being handed back by a putter wrapper: reaching return while
// still holding it is not a leak here (the nil early-return), only use-after-hand-back and double hand-back are checked.
func checkPoolWalk(p *core.Prog, pf *poolFacts, s *poolSite, gb *ssa.BasicBlock, gi int, putterMode bool) []string {
	var viol []string
	seenViol := map[string]bool{}
	add := func(msg string) {
		if !seenViol[msg] {
			seenViol[msg] = true
			viol = append(viol, msg)
		}
	}
	// deferred put anywhere in the function on this value
	deferredPut := false
	for _, b := range s.fn.Blocks {
		for _, in := range b.Instrs {
			if d, ok := in.(*ssa.Defer); ok {
				if is, _ := s.putOf(pf, d); is {
					deferredPut = true
				}
			}
		}
	}
	type key struct {
		b         *ssa.BasicBlock
		i         int
		held, put bool
	}
	visited := map[key]bool{}
	var walk func(b *ssa.BasicBlock, i int, held, put bool)
	walk = func(b *ssa.BasicBlock, i int, held, put bool) {
		for ; i < len(b.Instrs); i++ {
			k := key{b, i, held, put}
			if i == 0 || true {
				if visited[k] {
					return
				}
				visited[k] = true
			}
			in := b.Instrs[i]
			if s.get != nil && in == ssa.Instruction(s.get) {
				// came around a loop to the same get: the previous object must have been handed back
				if held {
					add(fmt.Sprintf("state obtained at %s is still held when the same get executes again (leak per iteration)", p.Pos(s.get.Pos())))
				}
				return
			}
			switch x := in.(type) {
			case *ssa.Defer:
				if is, _ := s.putOf(pf, x); is {
					held = false
					continue
				}
			case *ssa.Call:
				if is, cas := s.putOf(pf, x); is {
					if put && !cas {
						add(fmt.Sprintf("state handed back twice: second hand-back at %s", p.Pos(x.Pos())))
					}
					if deferredPut {
						add(fmt.Sprintf("state handed back at %s and again by a deferred hand-back", p.Pos(x.Pos())))
					}
					if cas {
						// effective only where the result is true: handled at the If on this value
						if !casBranches(x, b, i) {
							// result ignored or used otherwise: cannot tell; treat as put
							held = false
							put = true
						}
						continue
					}
					held = false
					put = true
					continue
				}
			case *ssa.Return:
				if held && !putterMode {
					returned := false
					for _, r := range x.Results {
						if s.alias[r] || s.alias[stripAlias(r)] {
							returned = true
						}
					}
					if !returned {
						add(fmt.Sprintf("path reaches return at %s with the state obtained at %s still held (not handed back)", p.Pos(x.Pos()), p.Pos(s.get.Pos())))
					}
				}
				return
			case *ssa.Panic:
				return
			case *ssa.If:
				// nil test on the state: nothing to hand back on the nil edge
				tHeld, fHeld := held, held
				tPut, fPut := put, put
				if bo, ok := x.Cond.(*ssa.BinOp); ok {
					if (s.alias[bo.X] && isNilConst(bo.Y)) || (s.alias[bo.Y] && isNilConst(bo.X)) {
						switch bo.Op {
						case token.EQL:
							tHeld = false
						case token.NEQ:
							fHeld = false
						}
					}
				}
				if c, ok := x.Cond.(*ssa.Call); ok {
					if is, cas := s.putOf(pf, c); is && cas {
						tHeld, tPut = false, true
					}
				}
				walk(b.Succs[0], 0, tHeld, tPut)
				walk(b.Succs[1], 0, fHeld, fPut)
				return
			}
			if put && !held && usesAny(in, s.deriv) {
				switch in.(type) {
				case *ssa.DebugRef, *ssa.MakeInterface, *ssa.ChangeInterface, *ssa.ChangeType, *ssa.TypeAssert, *ssa.Phi:
				default:
					add(fmt.Sprintf("use of the state (or memory reached through it) at %s after it was handed back", p.Pos(in.Pos())))
				}
			}
		}
		for _, sc := range b.Succs {
			walk(sc, 0, held, put)
		}
	}
	walk(gb, gi, true, false)
	return viol
}

// casBranches reports whether the CAS call's result directly controls the If ending its block.
func casBranches(c *ssa.Call, b *ssa.BasicBlock, i int) bool {
	if len(b.Instrs) == 0 {
		return false
	}
	if iff, ok := b.Instrs[len(b.Instrs)-1].(*ssa.If); ok {
		return iff.Cond == ssa.Value(c)
	}
	return false
}
