package rules

import (
	"fmt"
	"go/token"
	"strings"

	"golang.org/x/tools/go/ssa"

	"verif/internal/core"
)

func init() {
	core.Register(&core.Rule{
		Name: "R-DFAFAIL",
		Doc: "A lazy DFA that gives up hands the search over, it does not answer from what it has seen: in package dfa/lazy, on the branch taken when determinize returns an error (determinisation limit, state limit, cache full beyond the clear limit), every path ends in a return that goes through a call of the NFA fallback (nfaFallback*, a PikeVM search) or hands the error on; no path leaves the branch back into the scan loop. Returning the match end recorded so far, or 'no match', turns 'I cannot go on' into an answer: the greedy continuation of the match is lost; restarting from a start state at the current position after the cache was cleared (the former isCacheCleared recovery of six scans) drops the threads of the match in flight: c[ab]{20}a[ab]*$ on 'c' + 16k random a/b had Match false under the default 2 MB cache => fixed (C12: limits change speed only; C14: exact or declined).",
		Min: 8, NeedSSA: true,
		Run: func(p *core.Prog) *core.RuleResult {
			res := &core.RuleResult{}
			pk := p.SSAPkg("dfa/lazy")
			if pk == nil {
				res.Fatal = append(res.Fatal, "package dfa/lazy not found")
				return res
			}
			isFallback := func(cal *ssa.Function) bool {
				if cal == nil {
					return false
				}
				if strings.HasPrefix(cal.Name(), "nfaFallback") {
					return true
				}
				if cal.Signature.Recv() != nil && nfaEngineMethod(cal) {
					return true
				}
				return false
			}
			kc := core.NewKeyCounter()
			for _, fn := range p.SrcFuncs() {
				if fn.Pkg != pk || strings.HasSuffix(p.File(fn.Pos()), "_test.go") {
					continue
				}
				for _, b := range fn.Blocks {
					for _, in := range b.Instrs {
						c, ok := in.(*ssa.Call)
						if !ok {
							continue
						}
						cal := c.Call.StaticCallee()
						if cal == nil || cal.Name() != "determinize" || cal.Pkg != pk {
							continue
						}
						// err result: Extract #1, compared with nil
						for _, ref := range *c.Referrers() {
							ex, ok := ref.(*ssa.Extract)
							if !ok || ex.Index != 1 {
								continue
							}
							for _, r2 := range *ex.Referrers() {
								bo, ok := r2.(*ssa.BinOp)
								if !ok || (bo.Op != token.NEQ && bo.Op != token.EQL) {
									continue
								}
								for _, r3 := range *bo.Referrers() {
									iff, ok := r3.(*ssa.If)
									if !ok {
										continue
									}
									errB := iff.Block().Succs[0]
									if bo.Op == token.EQL {
										errB = iff.Block().Succs[1]
									}
									o := core.Obligation{Key: kc.Key("R-DFAFAIL", core.FuncName(fn), "determinize error leads to the NFA fallback"), Pos: p.Pos(c.Pos()), Nontrivial: true}
									bad := ""
									seen := map[*ssa.BasicBlock]bool{}
									var dfs func(x *ssa.BasicBlock, cleared bool)
									dfs = func(x *ssa.BasicBlock, cleared bool) {
										if seen[x] || bad != "" {
											return
										}
										seen[x] = true
										for _, in2 := range x.Instrs {
											if c2, ok := in2.(ssa.CallInstruction); ok {
												cc := c2.Common().StaticCallee()
												if isFallback(cc) {
													// the NFA must redo the whole search: its position arguments are the function's
													// own parameters, not the position the scan had reached when the DFA gave up
													// (a match in flight started before that position)
													for _, a := range c2.Common().Args {
														if isIntType(a.Type()) && dependsOnPhi(a, map[ssa.Value]bool{}) {
															bad = p.Pos(c2.Pos()) + " (the fallback is started at a position computed in the scan loop, not at the search's own start: a match in flight when the DFA gave up is lost)"
														}
													}
													return
												}
											}
											if r, ok := in2.(*ssa.Return); ok {
												// returning the error itself is declining
												for _, rv := range r.Results {
													if dependsOnNoCalls(rv, ex, map[ssa.Value]bool{}) || rv == ssa.Value(ex) {
														return
													}
												}
												bad = p.Pos(r.Pos())
												return
											}
										}
										for _, s := range x.Succs {
											if errB.Dominates(s) || s == errB {
												dfs(s, cleared)
											} else if bad == "" {
												// the branch is left without a return: the scan goes on (a restart from a start state after the
												// cache was cleared: the threads of the match in flight are gone)
												bad = "(the error branch is left and the scan goes on: whatever state it resumes from, the threads of the match in flight when determinize failed are lost)"
											}
										}
									}
									if len(errB.Preds) == 1 {
										dfs(errB, false)
									}
									if bad == "" {
										o.Status = core.Discharged
										o.Detail = "every path of the error branch ends in a return through the NFA fallback or hands the error on; none goes back into the scan"
									} else {
										o.Status = core.Violated
										if strings.Contains(bad, "(the fallback") || strings.Contains(bad, "(the error branch") {
											o.Detail = "on the branch taken when determinize fails: " + bad
										} else {
											o.Detail = fmt.Sprintf("on the branch taken when determinize fails, the return at %s is reached without the NFA fallback: the DFA answers from the progress it had made (e.g. the first match end) although it could not go on", bad)
										}
									}
									res.Obligations = append(res.Obligations, o)
								}
							}
						}
					}
				}
			}
			return res
		},
	})
}

// dependsOnPhi: the value is computed from a loop-carried or merged value.
func dependsOnPhi(v ssa.Value, seen map[ssa.Value]bool) bool {
	if seen[v] {
		return false
	}
	seen[v] = true
	switch x := v.(type) {
	case *ssa.Phi:
		return true
	case *ssa.BinOp:
		return dependsOnPhi(x.X, seen) || dependsOnPhi(x.Y, seen)
	case *ssa.Convert:
		return dependsOnPhi(x.X, seen)
	case *ssa.UnOp:
		return dependsOnPhi(x.X, seen)
	}
	return false
}
