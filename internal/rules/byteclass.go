package rules

import (
	"fmt"
	"go/constant"
	"go/types"
	"sort"
	"strings"

	"golang.org/x/tools/go/ssa"

	"verif/internal/core"
)

func init() {
	core.Register(&core.Rule{
		Name: "R-BYTECLASS",
		Doc: "Every NFA state whose evaluation looks at input bytes is announced to the byte-class set: a function of package nfa that gives a state one of the byte-dependent kinds (ByteRange, Sparse, Look, RuneAny, RuneAnyNotNL: a store of that constant into State.kind, in a composite literal or an assignment) and is reachable from a compile root must call ByteClassSet.SetRange/SetByte (directly or through a callee of the package). The lazy DFA stores transitions per byte class, so a transition computed for one byte of a class is reused for every byte of it; bytes an assertion or a range tells apart but the class table does not make the DFA answer for the wrong byte (\\b: digits and punctuation in one class). Sibling agreement: AddByteRange and AddSparse register their ranges, so must every other constructor of a byte-inspecting state. (b) The constructor of assertion states separates exactly what the assertions tell apart: its constant SetRange calls put a class boundary at every edge of the word class [0-9A-Za-z_] and around the newline ('forgot that underscore is a word character': '_' shares a class with [ \\ ] ^ and the backtick, and [d-f]\\b[^a-c] answers for 'd_' what it cached for 'd['). Necessary for C14 (the lazy DFA is exact), C13 (no history) and C01/C02.",
		Min: 6, NeedSSA: true,
		Run: func(p *core.Prog) *core.RuleResult {
			res := &core.RuleResult{}
			pk := p.SSAPkg("nfa")
			if pk == nil {
				res.Fatal = append(res.Fatal, "package nfa not found")
				return res
			}
			kindT, _ := pk.Pkg.Scope().Lookup("StateKind").(*types.TypeName)
			if kindT == nil {
				res.Fatal = append(res.Fatal, "nfa.StateKind not found")
				return res
			}
			named := kindT.Type().(*types.Named)
			byteKinds := map[int64]string{}
			for name, c := range enumConsts(named) {
				switch name {
				case "StateByteRange", "StateSparse", "StateLook", "StateRuneAny", "StateRuneAnyNotNL":
					if v, ok := constant.Int64Val(c.Val()); ok {
						byteKinds[v] = name
					}
				}
			}
			if len(byteKinds) < 3 {
				res.Fatal = append(res.Fatal, "byte-dependent state kinds not found by name")
				return res
			}
			reach := compileReach(p)
			// functions of the package that reach SetRange/SetByte
			registers := map[*ssa.Function]bool{}
			for _, fn := range p.SrcFuncs() {
				if fn.Pkg != pk {
					continue
				}
				if fn.Signature.Recv() != nil && (fn.Name() == "SetRange" || fn.Name() == "SetByte") && strings.Contains(fn.Signature.Recv().Type().String(), "ByteClassSet") {
					registers[fn] = true
				}
			}
			for changed := true; changed; {
				changed = false
				for _, fn := range p.SrcFuncs() {
					if fn.Pkg != pk || registers[fn] {
						continue
					}
					for _, b := range fn.Blocks {
						for _, in := range b.Instrs {
							if c, ok := in.(ssa.CallInstruction); ok {
								if cal := c.Common().StaticCallee(); cal != nil && registers[cal] {
									registers[fn] = true
									changed = true
								}
							}
						}
					}
				}
			}
			var fns []*ssa.Function
			kinds := map[*ssa.Function][]string{}
			for _, fn := range p.SrcFuncs() {
				if fn.Pkg != pk || strings.HasSuffix(p.File(fn.Pos()), "_test.go") {
					continue
				}
				seen := map[string]bool{}
				for _, b := range fn.Blocks {
					for _, in := range b.Instrs {
						st, ok := in.(*ssa.Store)
						if !ok {
							continue
						}
						fa, ok := st.Addr.(*ssa.FieldAddr)
						if !ok || fieldNameOf(fa) != "kind" {
							continue
						}
						c, ok := st.Val.(*ssa.Const)
						if !ok || !types.Identical(c.Type(), named) {
							continue
						}
						if name := byteKinds[c.Int64()]; name != "" && !seen[name] {
							seen[name] = true
							kinds[fn] = append(kinds[fn], name)
						}
					}
				}
				if len(kinds[fn]) > 0 {
					fns = append(fns, fn)
				}
			}
			sort.Slice(fns, func(i, j int) bool { return core.FuncName(fns[i]) < core.FuncName(fns[j]) })
			for _, fn := range fns {
				sort.Strings(kinds[fn])
				o := core.Obligation{Key: "R-BYTECLASS|" + core.FuncName(fn) + "|registers byte classes for " + strings.Join(kinds[fn], ","), Pos: p.Pos(fn.Pos()), Nontrivial: true}
				switch {
				case registers[fn]:
					o.Status = core.Discharged
					o.Detail = "reaches ByteClassSet.SetRange/SetByte"
				case !reach[fn]:
					o.Status = core.Discharged
					o.Nontrivial = false
					o.Detail = "creates byte-inspecting states without registering byte classes, but is not reachable from a compile root (unused constructor)"
				default:
					o.Status = core.Violated
					o.Detail = fmt.Sprintf("creates states of kind %s, whose evaluation depends on input bytes, without announcing the bytes they distinguish to the byte-class set: the lazy DFA then reuses a transition computed for one byte for other bytes the state treats differently", strings.Join(kinds[fn], ","))
				}
				res.Obligations = append(res.Obligations, o)
				// (b) a constructor of assertion states separates exactly the bytes the assertions tell apart:
				// its constant SetRange(lo, hi) calls put a class boundary below lo and above hi; every place
				// where the word class [0-9A-Za-z_] or the newline changes membership must be such a boundary.
				isLook := false
				for _, k := range kinds[fn] {
					if k == "StateLook" {
						isLook = true
					}
				}
				if !isLook {
					continue
				}
				boundary := map[int]bool{} // boundary[b]: bytes b and b+1 are in different classes
				nconst := 0
				for _, b := range fn.Blocks {
					for _, in := range b.Instrs {
						c, ok := in.(*ssa.Call)
						if !ok || c.Call.StaticCallee() == nil || c.Call.StaticCallee().Name() != "SetRange" || !registers[c.Call.StaticCallee()] || len(c.Call.Args) != 3 {
							continue
						}
						lo, ok1 := constInt(c.Call.Args[1])
						hi, ok2 := constInt(c.Call.Args[2])
						if !ok1 || !ok2 {
							continue
						}
						nconst++
						boundary[int(lo)-1] = true
						boundary[int(hi)] = true
					}
				}
				word := func(b int) bool {
					return b >= '0' && b <= '9' || b >= 'A' && b <= 'Z' || b >= 'a' && b <= 'z' || b == '_'
				}
				var missing []string
				for b := 0; b < 255; b++ {
					if (word(b) != word(b+1) || (b == '\n') != (b+1 == '\n')) && !boundary[b] {
						missing = append(missing, fmt.Sprintf("0x%02X|0x%02X", b, b+1))
					}
				}
				o2 := core.Obligation{Key: "R-BYTECLASS|" + core.FuncName(fn) + "|assertion bytes separated", Pos: p.Pos(fn.Pos()), Nontrivial: true}
				if len(missing) == 0 {
					o2.Status = core.Discharged
					o2.Detail = fmt.Sprintf("%d constant SetRange calls put a class boundary at every edge of the word class [0-9A-Za-z_] and around the newline", nconst)
				} else {
					o2.Status = core.Violated
					o2.Detail = "no class boundary between " + strings.Join(missing, ", ") + ": the bytes on the two sides differ for \\b/\\B (or a line anchor) but can share a byte class, so the lazy DFA reuses the transition cached for whichever of them it saw first (the answer depends on earlier inputs)"
				}
				res.Obligations = append(res.Obligations, o2)
			}
			return res
		},
	})
}
