package rules

import (
	"fmt"
	"go/constant"
	"go/types"
	"sort"
	"strings"

	"golang.org/x/tools/go/ssa"

	"verif/internal/core"
)

func init() {
	core.Register(&core.Rule{
		Name: "R-BYTECLASS",
		Doc: "Every NFA state whose evaluation looks at input bytes is announced to the byte-class set: a function of package nfa that gives a state one of the byte-dependent kinds (ByteRange, Sparse, Look, RuneAny, RuneAnyNotNL: a store of that constant into State.kind, in a composite literal or an assignment) and is reachable from a compile root must call ByteClassSet.SetRange/SetByte (directly or through a callee of the package). The lazy DFA stores transitions per byte class, so a transition computed for one byte of a class is reused for every byte of it; bytes an assertion or a range tells apart but the class table does not make the DFA answer for the wrong byte (\\b: digits and punctuation in one class). Sibling agreement: AddByteRange and AddSparse register their ranges, so must every other constructor of a byte-inspecting state. Necessary for C14 (the lazy DFA is exact) and C01/C02.",
		Min: 4, NeedSSA: true,
		Run: func(p *core.Prog) *core.RuleResult {
			res := &core.RuleResult{}
			pk := p.SSAPkg("nfa")
			if pk == nil {
				res.Fatal = append(res.Fatal, "package nfa not found")
				return res
			}
			kindT, _ := pk.Pkg.Scope().Lookup("StateKind").(*types.TypeName)
			if kindT == nil {
				res.Fatal = append(res.Fatal, "nfa.StateKind not found")
				return res
			}
			named := kindT.Type().(*types.Named)
			byteKinds := map[int64]string{}
			for name, c := range enumConsts(named) {
				switch name {
				case "StateByteRange", "StateSparse", "StateLook", "StateRuneAny", "StateRuneAnyNotNL":
					if v, ok := constant.Int64Val(c.Val()); ok {
						byteKinds[v] = name
					}
				}
			}
			if len(byteKinds) < 3 {
				res.Fatal = append(res.Fatal, "byte-dependent state kinds not found by name")
				return res
			}
			reach := compileReach(p)
			// functions of the package that reach SetRange/SetByte
			registers := map[*ssa.Function]bool{}
			for _, fn := range p.SrcFuncs() {
				if fn.Pkg != pk {
					continue
				}
				if fn.Signature.Recv() != nil && (fn.Name() == "SetRange" || fn.Name() == "SetByte") && strings.Contains(fn.Signature.Recv().Type().String(), "ByteClassSet") {
					registers[fn] = true
				}
			}
			for changed := true; changed; {
				changed = false
				for _, fn := range p.SrcFuncs() {
					if fn.Pkg != pk || registers[fn] {
						continue
					}
					for _, b := range fn.Blocks {
						for _, in := range b.Instrs {
							if c, ok := in.(ssa.CallInstruction); ok {
								if cal := c.Common().StaticCallee(); cal != nil && registers[cal] {
									registers[fn] = true
									changed = true
								}
							}
						}
					}
				}
			}
			var fns []*ssa.Function
			kinds := map[*ssa.Function][]string{}
			for _, fn := range p.SrcFuncs() {
				if fn.Pkg != pk || strings.HasSuffix(p.File(fn.Pos()), "_test.go") {
					continue
				}
				seen := map[string]bool{}
				for _, b := range fn.Blocks {
					for _, in := range b.Instrs {
						st, ok := in.(*ssa.Store)
						if !ok {
							continue
						}
						fa, ok := st.Addr.(*ssa.FieldAddr)
						if !ok || fieldNameOf(fa) != "kind" {
							continue
						}
						c, ok := st.Val.(*ssa.Const)
						if !ok || !types.Identical(c.Type(), named) {
							continue
						}
						if name := byteKinds[c.Int64()]; name != "" && !seen[name] {
							seen[name] = true
							kinds[fn] = append(kinds[fn], name)
						}
					}
				}
				if len(kinds[fn]) > 0 {
					fns = append(fns, fn)
				}
			}
			sort.Slice(fns, func(i, j int) bool { return core.FuncName(fns[i]) < core.FuncName(fns[j]) })
			for _, fn := range fns {
				sort.Strings(kinds[fn])
				o := core.Obligation{Key: "R-BYTECLASS|" + core.FuncName(fn) + "|registers byte classes for " + strings.Join(kinds[fn], ","), Pos: p.Pos(fn.Pos()), Nontrivial: true}
				switch {
				case registers[fn]:
					o.Status = core.Discharged
					o.Detail = "reaches ByteClassSet.SetRange/SetByte"
				case !reach[fn]:
					o.Status = core.Discharged
					o.Nontrivial = false
					o.Detail = "creates byte-inspecting states without registering byte classes, but is not reachable from a compile root (unused constructor)"
				default:
					o.Status = core.Violated
					o.Detail = fmt.Sprintf("creates states of kind %s, whose evaluation depends on input bytes, without announcing the bytes they distinguish to the byte-class set: the lazy DFA then reuses a transition computed for one byte for other bytes the state treats differently", strings.Join(kinds[fn], ","))
				}
				res.Obligations = append(res.Obligations, o)
			}
			return res
		},
	})
}
