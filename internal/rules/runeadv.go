package rules

import (
	"fmt"
	"go/token"
	"go/types"
	"strings"

	"golang.org/x/tools/go/ssa"

	"verif/internal/core"
)

func isIntType(t types.Type) bool {
	bt, ok := t.Underlying().(*types.Basic)
	return ok && bt.Kind() == types.Int
}

func isByteSeq(t types.Type) bool {
	if isByteSlice(t) {
		return true
	}
	bt, ok := t.Underlying().(*types.Basic)
	return ok && bt.Info()&types.IsString != 0
}

// readsContent: v is computed (through arithmetic, phis, conversions, tuple extracts) from a byte read out of a byte
// slice or string, from a unicode/utf8 decoding call, or from a call of a width helper.
func readsContent(p *core.Prog, v ssa.Value, seen map[ssa.Value]bool, depth int) bool {
	if v == nil || seen[v] || depth > 12 {
		return false
	}
	seen[v] = true
	switch x := v.(type) {
	case *ssa.BinOp:
		return readsContent(p, x.X, seen, depth+1) || readsContent(p, x.Y, seen, depth+1)
	case *ssa.Phi:
		for _, e := range x.Edges {
			if readsContent(p, e, seen, depth+1) {
				return true
			}
		}
	case *ssa.Convert:
		return readsContent(p, x.X, seen, depth+1)
	case *ssa.ChangeType:
		return readsContent(p, x.X, seen, depth+1)
	case *ssa.Extract:
		return readsContent(p, x.Tuple, seen, depth+1)
	case *ssa.UnOp:
		if x.Op == token.MUL {
			if ia, ok := x.X.(*ssa.IndexAddr); ok && isByteSeq(ia.X.Type()) {
				return true
			}
			return false
		}
		return readsContent(p, x.X, seen, depth+1)
	case *ssa.Index:
		return isByteSeq(x.X.Type())
	case *ssa.Lookup:
		return isByteSeq(x.X.Type())
	case *ssa.Call:
		cal := x.Call.StaticCallee()
		if cal == nil {
			return false
		}
		if cal.Pkg != nil && cal.Pkg.Pkg.Path() == "unicode/utf8" {
			return true
		}
		return isWidthHelper(p, cal, depth+1)
	}
	return false
}

var widthHelperMemo = map[*ssa.Function]bool{}

// isWidthHelper: a small module function with a byte-sequence parameter whose int result is computed from bytes it
// reads, and which calls nothing in the module except other width helpers (so it is not a search).
func isWidthHelper(p *core.Prog, fn *ssa.Function, depth int) bool {
	if v, ok := widthHelperMemo[fn]; ok {
		return v
	}
	widthHelperMemo[fn] = false
	if fn.Blocks == nil || depth > 3 || ownPkg(fn) == nil || !p.InModule(ownPkg(fn)) {
		return false
	}
	hasSeq := false
	for _, prm := range fn.Params {
		if isByteSeq(prm.Type()) {
			hasSeq = true
		}
	}
	if !hasSeq {
		return false
	}
	for _, b := range fn.Blocks {
		for _, in := range b.Instrs {
			if c, ok := in.(ssa.CallInstruction); ok {
				cc := c.Common()
				if _, isB := cc.Value.(*ssa.Builtin); isB {
					continue
				}
				cal := cc.StaticCallee()
				if cal == nil {
					return false
				}
				if cpk := ownPkg(cal); cpk != nil && p.InModule(cpk) && !isWidthHelper(p, cal, depth+1) {
					return false
				}
			}
		}
	}
	for _, b := range fn.Blocks {
		for _, in := range b.Instrs {
			if r, ok := in.(*ssa.Return); ok {
				for _, rv := range r.Results {
					if isIntType(rv.Type()) && readsContent(p, rv, map[ssa.Value]bool{}, depth+1) {
						widthHelperMemo[fn] = true
						return true
					}
				}
			}
		}
	}
	return false
}

func isLenCall(v ssa.Value) bool {
	c, ok := v.(*ssa.Call)
	if !ok {
		return false
	}
	bi, ok := c.Call.Value.(*ssa.Builtin)
	return ok && (bi.Name() == "len" || bi.Name() == "cap")
}

// sameSpanEnds: x and y are the two ends of one match: components 0 and 1 of the same result tuple, or the
// results of two methods called on the same match value.
func sameSpanEnds(x, y ssa.Value) bool {
	x, y = stripConv(x), stripConv(y)
	if ex, ok := x.(*ssa.Extract); ok {
		if ey, ok := y.(*ssa.Extract); ok {
			return ex.Tuple == ey.Tuple && ex.Index != ey.Index
		}
	}
	if cx, ok := x.(*ssa.Call); ok {
		if cy, ok := y.(*ssa.Call); ok && len(cx.Call.Args) == 1 && len(cy.Call.Args) == 1 {
			return cx.Call.Args[0] == cy.Call.Args[0] && cx.Call.StaticCallee() != cy.Call.StaticCallee()
		}
	}
	return false
}

func init() {
	core.Register(&core.Rule{
		Name: "R-RUNEADV",
		Doc: "Match-iteration loops resume one rune, not one byte, after an empty match: in the root and meta packages, a loop that calls a search with a loop-carried resume position (an int phi passed next to a byte slice) and tests the match for emptiness (an equality of two match-derived ints whose true edge dominates an update of the position) must compute that update from the haystack's content (a byte read, a unicode/utf8 decoding call, or a width helper). regexp steps by the width of the rune at the position; an update that is a function of the match span alone cannot tell `é` (next position 2) from `ab` (next position 1) - the spans found so far are equal - so it is wrong for one of them: the empty pattern then matches inside a UTF-8 sequence and Replace* splits the rune. (b) In such a loop a one-byte step (position + 1, match end + 1) is confined to the branch that excludes emptiness; folding the empty case into an else-branch that steps by one byte is the same defect without the tell-tale 'empty' branch. Necessary for C04 (same sequence of matches as regexp) and C08 (replace loops, Split).",
		Min: 10, NeedSSA: true,
		Run: func(p *core.Prog) *core.RuleResult {
			res := &core.RuleResult{}
			kc := core.NewKeyCounter()
			loops := 0
			for _, fn := range p.SrcFuncs() {
				if strings.HasSuffix(p.File(fn.Pos()), "_test.go") {
					continue
				}
				pk := ownPkg(fn)
				if pk == nil || !(strings.HasSuffix(pk.Path(), "/meta") || pk.Path() == core.ModPath) {
					continue
				}
				comp, cyclic := blockSCCs(fn)
				inLoop := func(b *ssa.BasicBlock) bool { return cyclic[comp[b.Index]] }
				// loop-carried resume positions
				type posInfo struct {
					phi    *ssa.Phi
					callee string
				}
				var poss []posInfo
				seenPhi := map[*ssa.Phi]bool{}
				for _, b := range fn.Blocks {
					if !inLoop(b) {
						continue
					}
					for _, in := range b.Instrs {
						c, ok := in.(*ssa.Call)
						if !ok {
							continue
						}
						cal := c.Call.StaticCallee()
						if cal == nil {
							continue
						}
						cpk := ownPkg(cal)
						if cpk == nil || !p.InModule(cpk) || strings.HasSuffix(cpk.Path(), "/simd") || isWidthHelper(p, cal, 0) {
							continue
						}
						hasSeq := false
						for _, a := range c.Call.Args {
							if isByteSeq(a.Type()) {
								hasSeq = true
							}
						}
						if !hasSeq {
							continue
						}
						for _, a := range c.Call.Args {
							phi, ok := a.(*ssa.Phi)
							if !ok || !isIntType(phi.Type()) || seenPhi[phi] || comp[phi.Block().Index] != comp[b.Index] {
								continue
							}
							seenPhi[phi] = true
							poss = append(poss, posInfo{phi, cal.Name()})
						}
					}
				}
				if len(poss) == 0 {
					continue
				}
				// emptiness tests: true-edge targets of int equalities inside the loop
				var trueTargets, nonEmptyTargets []*ssa.BasicBlock
				spanTests := 0
				for _, b := range fn.Blocks {
					if !inLoop(b) || len(b.Instrs) == 0 {
						continue
					}
					iff, ok := b.Instrs[len(b.Instrs)-1].(*ssa.If)
					if !ok {
						continue
					}
					bo, ok := iff.Cond.(*ssa.BinOp)
					if ok && bo.Op == token.NEQ && isIntType(bo.X.Type()) && sameSpanEnds(bo.X, bo.Y) {
						// start != end: the true edge excludes emptiness
						if t := b.Succs[0]; len(t.Preds) == 1 {
							nonEmptyTargets = append(nonEmptyTargets, t)
						}
						spanTests++
						continue
					}
					if !ok || bo.Op != token.EQL || !isIntType(bo.X.Type()) || !isIntType(bo.Y.Type()) {
						continue
					}
					if _, c := bo.X.(*ssa.Const); c {
						continue
					}
					if _, c := bo.Y.(*ssa.Const); c {
						continue
					}
					if isLenCall(bo.X) || isLenCall(bo.Y) {
						continue
					}
					t := b.Succs[0]
					if len(t.Preds) == 1 {
						trueTargets = append(trueTargets, t)
					}
					if f := b.Succs[1]; len(f.Preds) == 1 && sameSpanEnds(bo.X, bo.Y) {
						nonEmptyTargets = append(nonEmptyTargets, f)
						spanTests++
					}
				}
				for _, pi := range poss {
					type leaf struct {
						pred *ssa.BasicBlock
						val  ssa.Value
					}
					var leaves []leaf
					seen := map[*ssa.Phi]bool{}
					var walk func(phi *ssa.Phi)
					walk = func(phi *ssa.Phi) {
						if seen[phi] {
							return
						}
						seen[phi] = true
						for i, e := range phi.Edges {
							pred := phi.Block().Preds[i]
							if comp[pred.Index] != comp[pi.phi.Block().Index] {
								continue
							}
							if ph, ok := e.(*ssa.Phi); ok && comp[ph.Block().Index] == comp[pi.phi.Block().Index] {
								walk(ph)
								continue
							}
							leaves = append(leaves, leaf{pred, e})
						}
					}
					walk(pi.phi)
					counted := false
					for _, lf := range leaves {
						// the update itself may be computed in a block before pred; use the defining block of the value
						defB := lf.pred
						if in, ok := lf.val.(ssa.Instruction); ok && in.Block() != nil {
							defB = in.Block()
						}
						dominated := false
						for _, t := range trueTargets {
							if t == defB || t.Dominates(defB) {
								dominated = true
							}
						}
						if !dominated {
							// (b) a one-byte step that is not confined to non-empty matches: position + 1 (or match
							// end + 1) on a path that the emptiness test does not exclude
							if bo, ok := lf.val.(*ssa.BinOp); ok && bo.Op == token.ADD && spanTests > 0 {
								if c, isC := constInt(bo.Y); isC && c == 1 && !readsContent(p, lf.val, map[ssa.Value]bool{}, 0) {
									excluded := false
									for _, t := range nonEmptyTargets {
										if t == defB || t.Dominates(defB) {
											excluded = true
										}
									}
									if !excluded {
										o := core.Obligation{Key: kc.Key("R-RUNEADV", core.FuncName(fn), "one-byte step of "+pi.callee+" only after a non-empty match"), Pos: p.Pos(lf.val.Pos()), Nontrivial: true, Status: core.Violated}
										o.Detail = fmt.Sprintf("the loop tests matches for emptiness, yet the update %s of the resume position is reachable for an empty match (it is neither on the empty branch, where the rune width must be used, nor behind the branch that excludes emptiness): after an empty match in front of a multi-byte rune the next search starts inside it", lf.val.String())
										res.Obligations = append(res.Obligations, o)
									}
								}
							}
							continue
						}
						if !counted {
							loops++
							counted = true
						}
						o := core.Obligation{Key: kc.Key("R-RUNEADV", core.FuncName(fn), "resume position of "+pi.callee+" after an empty match"), Pos: p.Pos(lf.val.Pos()), Nontrivial: true}
						if o.Pos == "-" || o.Pos == "" {
							o.Pos = p.Pos(pi.phi.Pos())
						}
						if readsContent(p, lf.val, map[ssa.Value]bool{}, 0) {
							o.Status = core.Discharged
							o.Detail = "the position after an empty match is computed from the bytes at the position (rune width)"
						} else {
							o.Status = core.Violated
							o.Detail = fmt.Sprintf("after an empty match the loop resumes at %s, which depends on the match span only: it advances one byte where regexp advances one rune, so the next search starts inside a multi-byte UTF-8 sequence (the empty pattern matches between the bytes of `é`; Replace* then splits the rune)", lf.val.String())
						}
						res.Obligations = append(res.Obligations, o)
					}
				}
			}
			res.Notes = append(res.Notes, fmt.Sprintf("match-iteration loops with an emptiness test: %d", loops))
			return res
		},
	})
}
