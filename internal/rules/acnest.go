package rules

import (
	"fmt"
	"go/types"
	"sort"
	"strings"

	"golang.org/x/tools/go/ssa"

	"verif/internal/core"
)

// containmentPredicates: module bool functions that compare the literals of a set pairwise for containment
// (call bytes.Contains / bytes.Index / strings.Contains inside a loop nested in another loop).
func containmentPredicates(p *core.Prog) map[*ssa.Function]bool {
	out := map[*ssa.Function]bool{}
	for _, fn := range p.SrcFuncs() {
		if strings.HasSuffix(p.File(fn.Pos()), "_test.go") || !p.InModule(ownPkg(fn)) {
			continue
		}
		rs := fn.Signature.Results()
		if rs.Len() != 1 || !isBoolType(rs.At(0).Type()) {
			continue
		}
		for _, b := range fn.Blocks {
			for _, in := range b.Instrs {
				c, ok := in.(ssa.CallInstruction)
				if !ok {
					continue
				}
				g := c.Common().StaticCallee()
				if g == nil || g.Pkg == nil {
					continue
				}
				pp := g.Pkg.Pkg.Path()
				if (pp == "bytes" || pp == "strings") && (g.Name() == "Contains" || g.Name() == "Index") {
					// inside a loop?
					if blockReaches(b, b) {
						out[fn] = true
					}
				}
			}
		}
	}
	return out
}

// guardedBy: the block b is dominated by a branch whose condition derives from a call of one of preds.
func guardedByCall(b *ssa.BasicBlock, preds map[*ssa.Function]bool) string {
	for d := b; d != nil; d = d.Idom() {
		if len(d.Instrs) == 0 {
			continue
		}
		iff, ok := d.Instrs[len(d.Instrs)-1].(*ssa.If)
		if !ok || d == b {
			continue
		}
		found := ""
		seen := map[ssa.Value]bool{}
		var walk func(v ssa.Value, dd int)
		walk = func(v ssa.Value, dd int) {
			if v == nil || seen[v] || dd > 6 || found != "" {
				return
			}
			seen[v] = true
			switch x := v.(type) {
			case *ssa.Call:
				if g := x.Call.StaticCallee(); g != nil && preds[g] {
					found = core.FuncName(g)
				}
			case *ssa.UnOp:
				walk(x.X, dd+1)
			case *ssa.BinOp:
				walk(x.X, dd+1)
				walk(x.Y, dd+1)
			case *ssa.Phi:
				for _, e := range x.Edges {
					walk(e, dd+1)
				}
			}
		}
		walk(iff.Cond, 0)
		if found != "" {
			return found
		}
	}
	return ""
}

func init() {
	core.Register(&core.Rule{
		Name: "R-ACNEST",
		Doc: "The Aho-Corasick automaton reports the occurrence that ends first; when one literal of the set lies inside another at an offset > 0 (bcd in abcde) that is not the occurrence that begins first, so the position it hands back is not the smallest position at which a literal occurs: as a prefilter it steps over the start of a real match, as a complete prefilter or strategy it reports the wrong span. Every construction of an automaton (a call of (*ahocorasick.Builder).Build) in the module is therefore reached only behind a pairwise containment test of the literal set: the call - or, one level up, every call site of the function that makes it, or the strategy constant that leads to it (every `return UseAhoCorasick`) - is dominated by a branch on a containment predicate (a module bool function that calls bytes.Contains / bytes.Index in a loop). Sibling agreement: the strategy selection has had this guard since fix 8e13d70, the prefilter construction for more than 64 literals did not. Necessary for C16 (Find returns the smallest position), C02 and C01 through the candidate loops.",
		Min: 2, NeedSSA: true, ThoroughArchs: []string{},
		Run: func(p *core.Prog) *core.RuleResult {
			res := &core.RuleResult{}
			kc := core.NewKeyCounter()
			preds := containmentPredicates(p)
			var pn []string
			for f := range preds {
				pn = append(pn, core.FuncName(f))
			}
			sort.Strings(pn)
			res.Notes = append(res.Notes, fmt.Sprintf("containment predicates (%d): %v", len(pn), pn))
			isBuild := func(g *ssa.Function) bool {
				if g == nil || g.Name() != "Build" || g.Signature.Recv() == nil {
					return false
				}
				return strings.HasSuffix(g.Signature.Recv().Type().String(), "ahocorasick.Builder")
			}
			cg := p.CHAGraph()
			for _, fn := range p.SrcFuncs() {
				if strings.HasSuffix(p.File(fn.Pos()), "_test.go") || !p.InModule(ownPkg(fn)) {
					continue
				}
				for _, b := range fn.Blocks {
					for _, in := range b.Instrs {
						c, ok := in.(ssa.CallInstruction)
						if !ok || !isBuild(c.Common().StaticCallee()) {
							continue
						}
						o := core.Obligation{Key: kc.Key("R-ACNEST", core.FuncName(fn), "automaton built behind a containment test of the literals"), Pos: p.Pos(in.Pos()), Nontrivial: true}
						if g := guardedByCall(b, preds); g != "" {
							o.Status = core.Discharged
							o.Detail = "dominated by a branch on " + g
							res.Obligations = append(res.Obligations, o)
							continue
						}
						// one level up: every static call site of fn
						node := cg.Nodes[fn]
						okAll, n, why := true, 0, ""
						if node != nil {
							for _, e := range node.In {
								if e.Site == nil || e.Caller.Func == nil || strings.HasSuffix(p.File(e.Caller.Func.Pos()), "_test.go") {
									continue
								}
								n++
								if g := guardedByCall(e.Site.Block(), preds); g == "" {
									okAll = false
									why = core.FuncName(e.Caller.Func) + " (" + p.Pos(e.Site.Pos()) + ")"
								}
							}
						}
						// strategy route: the enclosing function is reached for the strategy constant UseAhoCorasick only
						if n > 0 && okAll {
							o.Status = core.Discharged
							o.Detail = fmt.Sprintf("all %d call sites of %s are dominated by a branch on a containment predicate", n, core.FuncName(fn))
						} else if routeGuarded(p, fn, preds) {
							o.Status = core.Discharged
							o.Detail = "built for strategy UseAhoCorasick only, and every return of that constant in the strategy selection is dominated by a branch on a containment predicate"
						} else {
							o.Status = core.Violated
							if why == "" {
								why = "no guarded call site"
							}
							o.Detail = "the automaton is built from a literal set nobody tested for nesting (" + why + "): with bcd inside abcde the automaton reports the occurrence that ends first, Find(\"xabcde\") answers 2 for 1 and the 72-word alternation of the probe finds [2 5] for [1 6]"
						}
						res.Obligations = append(res.Obligations, o)
					}
				}
			}
			return res
		},
	})
}

// routeGuarded: fn tests a value against the constant UseAhoCorasick before building, and every return of that
// constant from a function of package meta is dominated by a branch on a containment predicate.
func routeGuarded(p *core.Prog, fn *ssa.Function, preds map[*ssa.Function]bool) bool {
	mp := p.Pkg("meta")
	if mp == nil || fn.Pkg == nil || fn.Pkg.Pkg != mp.Types {
		return false
	}
	c, _ := mp.Types.Scope().Lookup("UseAhoCorasick").(*types.Const)
	if c == nil {
		return false
	}
	want := c.Val().ExactString()
	isK := func(v ssa.Value) bool {
		k, ok := v.(*ssa.Const)
		return ok && k.Value != nil && k.Value.ExactString() == want && types.Identical(k.Type(), c.Type())
	}
	mentions := false
	for _, b := range fn.Blocks {
		for _, in := range b.Instrs {
			for _, op := range in.Operands(nil) {
				if *op != nil && isK(*op) {
					mentions = true
				}
			}
		}
	}
	if !mentions {
		return false
	}
	nret := 0
	for _, f := range p.SrcFuncs() {
		if f.Pkg == nil || f.Pkg.Pkg != mp.Types || strings.HasSuffix(p.File(f.Pos()), "_test.go") {
			continue
		}
		for _, b := range f.Blocks {
			for _, in := range b.Instrs {
				r, ok := in.(*ssa.Return)
				if !ok {
					continue
				}
				for _, v := range r.Results {
					if isK(v) {
						nret++
						if guardedByCall(b, preds) == "" {
							return false
						}
					}
				}
			}
		}
	}
	return nret > 0
}
