package rules

import (
	"fmt"
	"go/constant"
	"go/token"
	"strings"

	"golang.org/x/tools/go/ssa"

	"verif/internal/core"
)

func init() {
	core.Register(&core.Rule{
		Name: "R-SKIPEXHAUST",
		Doc: "A candidate finder that found nothing up to the end is not asked again by the same loop. In packages nfa, meta and dfa/lazy, where a loop calls a position finder through an interface (a method Find(haystack, pos) int of a prefilter or skip-ahead value) the result is compared with -1 and the edge taken for -1 leaves the loop (its target lies outside the loop, i.e. cannot reach the call again). The finder scans from pos to the end of the haystack; a loop that merely declines to jump when nothing lies ahead calls it again at the next position and rescans the same tail: n^2/2 bytes for a haystack with one failed candidate and a long candidate-free rest (FindIndex on 1 MB: 7.9 s for 26 us). Results are unchanged, so no test notices. Necessary for C05.",
		Min: 10, NeedSSA: true,
		Run: func(p *core.Prog) *core.RuleResult {
			res := &core.RuleResult{}
			kc := core.NewKeyCounter()
			for _, fn := range p.SrcFuncs() {
				if strings.HasSuffix(p.File(fn.Pos()), "_test.go") {
					continue
				}
				pk := ownPkg(fn)
				if pk == nil || !p.InModule(pk) {
					continue
				}
				rel := strings.TrimPrefix(pk.Path(), core.ModPath)
				if rel != "/nfa" && rel != "/meta" && rel != "/dfa/lazy" {
					continue
				}
				comp, cyclic := blockSCCs(fn)
				for _, b := range fn.Blocks {
					if !cyclic[comp[b.Index]] {
						continue
					}
					for _, in := range b.Instrs {
						c, ok := in.(*ssa.Call)
						if !ok || !c.Call.IsInvoke() || c.Call.Method.Name() != "Find" || len(c.Call.Args) != 2 {
							continue
						}
						if !isByteSlice(c.Call.Args[0].Type()) || !isIntType(c.Call.Args[1].Type()) || !isIntType(c.Type()) {
							continue
						}
						o := core.Obligation{Key: kc.Key("R-SKIPEXHAUST", core.FuncName(fn), "'no candidate' ends the loop"), Pos: p.Pos(c.Pos()), Nontrivial: true}
						// comparisons of the result (through phis / conversions) with -1
						found, bad := false, ""
						seen := map[ssa.Value]bool{}
						checkCmp := func(x *ssa.BinOp) {
							var k *ssa.Const
							if kk, ok := x.Y.(*ssa.Const); ok {
								k = kk
							} else if kk, ok := x.X.(*ssa.Const); ok {
								k = kk
							}
							if k == nil || k.Value == nil || !constant.Compare(k.Value, token.EQL, constant.MakeInt64(-1)) && !(constant.Sign(k.Value) == 0 && (x.Op == token.LSS || x.Op == token.GEQ)) {
								return
							}
							if x.Referrers() == nil {
								return
							}
							for _, rr := range *x.Referrers() {
								iff, ok := rr.(*ssa.If)
								if !ok {
									continue
								}
								var none *ssa.BasicBlock
								switch x.Op {
								case token.EQL, token.LSS:
									none = iff.Block().Succs[0]
								case token.NEQ, token.GEQ:
									none = iff.Block().Succs[1]
								default:
									continue
								}
								found = true
								if comp[none.Index] == comp[b.Index] {
									bad = p.Pos(x.Pos())
								}
							}
						}
						var follow func(v ssa.Value, d int)
						follow = func(v ssa.Value, d int) {
							if seen[v] || d > 3 || v.Referrers() == nil {
								return
							}
							seen[v] = true
							for _, r := range *v.Referrers() {
								switch x := r.(type) {
								case *ssa.Phi:
									follow(x, d+1)
								case *ssa.BinOp:
									checkCmp(x)
								}
							}
						}
						// the test written right behind the call decides; merged variables are followed only if there is none
						direct := false
						if c.Referrers() != nil {
							for _, r := range *c.Referrers() {
								if _, ok := r.(*ssa.BinOp); ok {
									direct = true
								}
							}
						}
						if direct {
							seen[c] = true
							for _, r := range *c.Referrers() {
								if x, ok := r.(*ssa.BinOp); ok {
									checkCmp(x)
								}
							}
						} else {
							follow(c, 0)
						}
						switch {
						case !found:
							o.Status = core.Undecided
							o.Detail = "the finder's result is not compared with -1 in a branch condition"
						case bad != "":
							o.Status = core.Violated
							o.Detail = fmt.Sprintf("the branch taken for 'no candidate' (test at %s) stays inside the loop: the finder, which scans to the end of the haystack, is called again at the next position", bad)
						default:
							o.Status = core.Discharged
							o.Detail = "the edge taken for -1 leaves the loop"
						}
						res.Obligations = append(res.Obligations, o)
					}
				}
			}
			return res
		},
	})
}
