package rules

import (
	"fmt"
	"strings"

	"golang.org/x/tools/go/ssa"

	"verif/internal/core"
)

// decliningMethods: methods of the predicate's receiver type that call the capacity predicate themselves and return
// early when it is false (they answer "not found" both for "no match" and for "input too large").
func decliningMethods(p *core.Prog, preds map[*ssa.Function]bool) map[*ssa.Function]*ssa.Function {
	out := map[*ssa.Function]*ssa.Function{}
	direct := map[*ssa.Function]*ssa.Function{}
	for _, fn := range p.SrcFuncs() {
		if fn.Signature.Recv() == nil || strings.HasSuffix(p.File(fn.Pos()), "_test.go") {
			continue
		}
		for _, b := range fn.Blocks {
			for _, in := range b.Instrs {
				if c, ok := in.(*ssa.Call); ok {
					if cal := c.Call.StaticCallee(); cal != nil && preds[cal] && len(c.Call.Args) > 0 && len(fn.Params) > 0 && c.Call.Args[0] == ssa.Value(fn.Params[0]) {
						direct[fn] = cal
					}
				}
			}
		}
	}
	// wrappers on the same receiver that delegate to a declining method
	for f, pr := range direct {
		out[f] = pr
	}
	for changed := true; changed; {
		changed = false
		for _, fn := range p.SrcFuncs() {
			if out[fn] != nil || fn.Signature.Recv() == nil || len(fn.Params) == 0 {
				continue
			}
			for _, b := range fn.Blocks {
				for _, in := range b.Instrs {
					if c, ok := in.(*ssa.Call); ok {
						if cal := c.Call.StaticCallee(); cal != nil && out[cal] != nil && len(c.Call.Args) > 0 && c.Call.Args[0] == ssa.Value(fn.Params[0]) {
							out[fn] = out[cal]
							changed = true
						}
					}
				}
			}
		}
	}
	return out
}

func init() {
	core.Register(&core.Rule{
		Name: "R-CANHANDLE",
		Doc: "Decline discipline of capacity-limited engines: a search method that itself tests the capacity predicate (BoundedBacktracker.CanHandle) and answers 'not found' when the input is too large is ambiguous for its caller, so every call of such a method from outside the engine's own package must be dominated by the true edge of the capacity predicate called on the structurally same receiver (e.boundedBacktracker vs e.asciiBoundedBacktracker are different engines with different capacities) with a length computed from the same haystack. Otherwise a declined search is taken for 'no match' and Match/IsMatch disagrees with Find (C11, C01, C14: returns the reference answer or explicitly declines).",
		Min: 15, NeedSSA: true,
		Run: func(p *core.Prog) *core.RuleResult {
			res := &core.RuleResult{}
			preds := map[*ssa.Function]bool{}
			for _, fn := range p.SrcFuncs() {
				if !strings.HasSuffix(p.File(fn.Pos()), "_test.go") && capacityPredicate(fn) {
					// only predicates that gate a table allocator of the same type (the backtracker), not e.g. Match.Contains
					recvT := namedOfType(fn.Signature.Recv().Type())
					for _, g := range p.SrcFuncs() {
						if _, _, ok := tableAllocator(g); ok && g.Signature.Recv() != nil && namedOfType(g.Signature.Recv().Type()) == recvT {
							preds[fn] = true
						}
					}
				}
			}
			dm := decliningMethods(p, preds)
			var names []string
			for f := range dm {
				names = append(names, core.FuncName(f))
			}
			res.Notes = append(res.Notes, fmt.Sprintf("declining methods: %v", sortedStrs(names)))
			kc := core.NewKeyCounter()
			for _, fn := range p.SrcFuncs() {
				if strings.HasSuffix(p.File(fn.Pos()), "_test.go") {
					continue
				}
				for _, b := range fn.Blocks {
					for _, in := range b.Instrs {
						c, ok := in.(*ssa.Call)
						if !ok {
							continue
						}
						cal := c.Call.StaticCallee()
						if cal == nil || dm[cal] == nil || len(c.Call.Args) < 2 {
							continue
						}
						// calls from inside the engine's own package are the engine's own wrappers
						if ownPkg(fn) == ownPkg(cal) {
							continue
						}
						recv := c.Call.Args[0]
						var hay ssa.Value
						for _, a := range c.Call.Args[1:] {
							if isByteSlice(a.Type()) {
								hay = a
								break
							}
						}
						o := core.Obligation{Key: kc.Key("R-CANHANDLE", core.FuncName(fn), "call "+cal.Name()+" on "+exprName(recv)), Pos: p.Pos(c.Pos()), Nontrivial: true}
						guards := guardingCalls(fn, b, func(f *ssa.Function) bool { return preds[f] })
						// short-circuit (useBT && CanHandle(...)) conditions: the guard call sits in a block whose true edge leads here via a chain
						switch {
						case windowSizedByEngine(hay, recv):
							o.Status = core.Discharged
							o.Detail = "windowed search: the slice is cut to a length the same engine reports as its maximum input size"
						case len(guards) == 0:
							o.Status = core.Violated
							o.Detail = "the engine is searched without a dominating capacity test: when the input is too large it answers 'not found', which the caller takes for 'no match'"
						default:
							o.Status = core.Violated
							o.Detail = "the dominating capacity test is made on a different engine or for a different haystack than the one searched"
							for _, g := range guards {
								sameRecv := sameExpr(g.Call.Args[0], recv, 0)
								sameHay := hay == nil || len(g.Call.Args) < 2 || lenOfSame(g.Call.Args[1], hay)
								if sameRecv && sameHay {
									o.Status = core.Discharged
									o.Detail = "dominated by the capacity predicate on the same engine and haystack"
								} else if sameRecv && !sameHay && o.Status != core.Discharged {
									o.Detail = "the dominating capacity test measures a different slice than the one searched"
								}
							}
						}
						res.Obligations = append(res.Obligations, o)
					}
				}
			}
			return res
		},
	})
}

func exprName(v ssa.Value) string {
	if f := innerField(v); f != nil {
		return f.Name()
	}
	return v.Name()
}

// lenOfSame: v is computed from len(hay) (possibly minus an offset).
func lenOfSame(v, hay ssa.Value) bool {
	seen := map[ssa.Value]bool{}
	var walk func(v ssa.Value) bool
	walk = func(v ssa.Value) bool {
		if seen[v] {
			return false
		}
		seen[v] = true
		switch x := v.(type) {
		case *ssa.Call:
			if bi, ok := x.Call.Value.(*ssa.Builtin); ok && bi.Name() == "len" {
				return sameExpr(x.Call.Args[0], hay, 0) || sliceOfSame(hay, x.Call.Args[0])
			}
		case *ssa.BinOp:
			return walk(x.X) || walk(x.Y)
		case *ssa.Phi:
			for _, e := range x.Edges {
				if walk(e) {
					return true
				}
			}
		case *ssa.Convert:
			return walk(x.X)
		}
		return false
	}
	return walk(v)
}

func sliceOfSame(a, b ssa.Value) bool {
	return subSliceOf(a, b) || subSliceOf(b, a)
}

// windowSizedByEngine: hay is X[:k] where k derives from a call of a method on the same engine (its maximum input size).
func windowSizedByEngine(hay, recv ssa.Value) bool {
	sl, ok := hay.(*ssa.Slice)
	if !ok || sl.High == nil {
		return false
	}
	seen := map[ssa.Value]bool{}
	var walk func(v ssa.Value) bool
	walk = func(v ssa.Value) bool {
		if seen[v] {
			return false
		}
		seen[v] = true
		switch x := v.(type) {
		case *ssa.Call:
			if cal := x.Call.StaticCallee(); cal != nil && cal.Signature.Recv() != nil && len(x.Call.Args) > 0 && sameExpr(x.Call.Args[0], recv, 0) {
				return true
			}
		case *ssa.BinOp:
			return walk(x.X) || walk(x.Y)
		case *ssa.Phi:
			for _, e := range x.Edges {
				if walk(e) {
					return true
				}
			}
		}
		return false
	}
	return walk(sl.High)
}
