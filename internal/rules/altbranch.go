package rules

import (
	"fmt"
	"go/constant"
	"go/types"
	"sort"
	"strings"

	"golang.org/x/tools/go/ssa"

	"verif/internal/core"
)

// syntaxOpValue reads the value of a regexp/syntax operator constant from the type-checked package.
func syntaxOpValue(p *core.Prog, name string) (int64, bool) {
	for _, fn := range p.SrcFuncs() {
		for _, prm := range fn.Params {
			if !isSyntaxRegexpPtr(prm.Type()) {
				continue
			}
			nt, _ := prm.Type().(*types.Pointer).Elem().(*types.Named)
			if nt == nil || nt.Obj().Pkg() == nil {
				continue
			}
			if k, ok := nt.Obj().Pkg().Scope().Lookup(name).(*types.Const); ok {
				if v, ok := constant.Int64Val(k.Val()); ok {
					return v, true
				}
			}
		}
	}
	return 0, false
}

func init() {
	core.Register(&core.Rule{
		Name: "R-ALTBRANCH",
		Doc: "The branches of an alternation are alternatives, not a sequence: whatever a function over the syntax tree decides about an OpAlternate node by asking about its children, it has to ask every child. In every module function with a *syntax.Regexp parameter, in the code that is reached when the node's operator is OpAlternate because a comparison with that operator says so (blocks reachable under Op == OpAlternate and not under an operator the function never mentions), the calls that hand a child of the node (an element of its Sub) to a module function cover all children: there is a loop over Sub (or the child list itself, Sub or Sub[k:], is handed to a helper), and every index below the loop's start is covered by a call on that constant index. A call on Sub[0] alone - the alternation listed in the same case as OpConcat or OpCapture, for which the first child is the right one to ask - judges the whole alternation by its first branch: isDigitRunSkipSafe then calls `\\d+px|\\d{1,3}em` safe for digit-run skipping and the match 234em in 1234em is lost (seed C19-17). Necessary for C19 (a fast path is exact on every pattern it accepts) and C02.",
		Min: 15, NeedSSA: true,
		Run: func(p *core.Prog) *core.RuleResult {
			res := &core.RuleResult{}
			kc := core.NewKeyCounter()
			alt, ok := syntaxOpValue(p, "OpAlternate")
			if !ok {
				res.Fatal = append(res.Fatal, "regexp/syntax.OpAlternate not found")
				return res
			}
			res.Notes = append(res.Notes, fmt.Sprintf("regexp/syntax.OpAlternate = %d (read from the package)", alt))
			var fns []*ssa.Function
			for _, f := range p.SrcFuncs() {
				if strings.HasSuffix(p.File(f.Pos()), "_test.go") || !p.InModule(ownPkg(f)) {
					continue
				}
				for _, prm := range f.Params {
					if isSyntaxRegexpPtr(prm.Type()) {
						fns = append(fns, f)
						break
					}
				}
			}
			sort.Slice(fns, func(i, j int) bool { return core.FuncName(fns[i]) < core.FuncName(fns[j]) })
			for _, f := range fns {
				for _, node := range f.Params {
					if !isSyntaxRegexpPtr(node.Type()) {
						continue
					}
					under := blocksUnderOp(f, node, alt)
					generic := blocksUnderOp(f, node, -12345) // an operator the function cannot mention
					var consts []int64
					loopStart := int64(-1)
					n := 0
					var first ssa.CallInstruction
					for _, b := range f.Blocks {
						if !under[b] || generic[b] {
							continue
						}
						for _, in := range b.Instrs {
							c, ok := in.(ssa.CallInstruction)
							if !ok {
								continue
							}
							g := c.Common().StaticCallee()
							if g == nil || !p.InModule(ownPkg(g)) {
								continue
							}
							for _, a := range c.Common().Args {
								// the whole child list (or a tail of it) handed to a helper: every child from that index on
								if lo, ok := wholeSubOf(a, node); ok {
									n++
									if first == nil {
										first = c
									}
									if loopStart < 0 || lo < loopStart {
										loopStart = lo
									}
									continue
								}
								if !isSyntaxRegexpPtr(a.Type()) {
									continue
								}
								idx, konst, ok := childIndex(a)
								if !ok || !isChildOf(a, node) {
									continue
								}
								n++
								if first == nil {
									first = c
								}
								if konst {
									consts = append(consts, idx)
								} else if loopStart < 0 || idx < loopStart {
									loopStart = idx
								}
							}
						}
					}
					if n == 0 {
						continue
					}
					o := core.Obligation{Key: kc.Key("R-ALTBRANCH", core.FuncName(f), "every branch of an alternation is asked"), Pos: p.Pos(first.Pos()), Nontrivial: true}
					covered := func(k int64) bool {
						for _, c := range consts {
							if c == k {
								return true
							}
						}
						return false
					}
					switch {
					case loopStart < 0:
						o.Status = core.Violated
						o.Detail = fmt.Sprintf("in the code reached for OpAlternate only the children at constant indices %v are handed on (no loop over Sub): the alternation is judged by some of its branches", consts)
					default:
						o.Status = core.Discharged
						o.Detail = fmt.Sprintf("loop over Sub from index %d, constant indices %v", loopStart, consts)
						for k := int64(0); k < loopStart; k++ {
							if !covered(k) {
								o.Status = core.Violated
								o.Detail = fmt.Sprintf("the loop over Sub starts at index %d and child %d is not handed on by a call of its own", loopStart, k)
							}
						}
					}
					res.Obligations = append(res.Obligations, o)
				}
			}
			return res
		},
	})
}

// isChildOf: the child value a is loaded from the Sub field of this very node (not of a grandchild or another node).
func isChildOf(a ssa.Value, node ssa.Value) bool {
	ld, ok := a.(*ssa.UnOp)
	if !ok {
		return false
	}
	ia, ok := ld.X.(*ssa.IndexAddr)
	if !ok {
		return false
	}
	base := ia.X
	for d := 0; d < 3; d++ {
		sl, isSl := base.(*ssa.Slice)
		if !isSl {
			break
		}
		base = sl.X
	}
	bl, ok := base.(*ssa.UnOp)
	if !ok {
		return false
	}
	fa, ok := bl.X.(*ssa.FieldAddr)
	return ok && fa.X == node
}

// wholeSubOf: a is node.Sub or node.Sub[k:] with a constant k (no upper bound): returns k.
func wholeSubOf(a ssa.Value, node ssa.Value) (int64, bool) {
	lo := int64(0)
	for d := 0; d < 3; d++ {
		sl, ok := a.(*ssa.Slice)
		if !ok {
			break
		}
		if sl.High != nil {
			return 0, false
		}
		if sl.Low != nil {
			k, isK := constInt(sl.Low)
			if !isK {
				return 0, false
			}
			lo += k
		}
		a = sl.X
	}
	ld, ok := a.(*ssa.UnOp)
	if !ok {
		return 0, false
	}
	fa, ok := ld.X.(*ssa.FieldAddr)
	if !ok || fa.X != node || fieldNameOf(fa) != "Sub" {
		return 0, false
	}
	return lo, true
}
