package rules

import (
	"fmt"
	"sort"
	"strings"

	"golang.org/x/tools/go/ssa"

	"verif/internal/core"
)

// dependsOnField: v is computed (through phis, arithmetic, conversions, min/max calls) from a load of a struct field
// with the given name.
func dependsOnField(v ssa.Value, name string, seen map[ssa.Value]bool, d int) bool {
	if v == nil || d > 8 || seen[v] {
		return false
	}
	seen[v] = true
	switch x := v.(type) {
	case *ssa.UnOp:
		if fa, ok := x.X.(*ssa.FieldAddr); ok && fieldNameOf(fa) == name {
			return true
		}
		return dependsOnField(x.X, name, seen, d+1)
	case *ssa.Field:
		return false
	case *ssa.BinOp:
		return dependsOnField(x.X, name, seen, d+1) || dependsOnField(x.Y, name, seen, d+1)
	case *ssa.Phi:
		for _, e := range x.Edges {
			if dependsOnField(e, name, seen, d+1) {
				return true
			}
		}
	case *ssa.Convert:
		return dependsOnField(x.X, name, seen, d+1)
	case *ssa.Call:
		for _, a := range x.Call.Args {
			if dependsOnField(a, name, seen, d+1) {
				return true
			}
		}
	}
	return false
}

func init() {
	core.Register(&core.Rule{
		Name: "R-SUFFIXEND",
		Doc: "A suffix literal that is cut to the length limit keeps its end. Package literal: the suffix family is every function reachable through static calls from (*Extractor).extractSuffixes. In that family a slice of bytes whose upper bound is computed from the MaxLiteralLen limit and whose lower bound is absent (b[:MaxLiteralLen]: the head is kept) is a violation: the first bytes of a literal are no suffix of what the pattern matches, so the reverse-suffix strategies look for a string that never ends a match and report 'no match'. A cut that keeps the tail (b[len(b)-MaxLiteralLen:]) is the discharged form; the rule counts both. Helpers shared with prefix extraction are part of the family when the suffix walk can reach them - a head cut that is right for prefixes is wrong when reached from here. Pinned tree: expandCaseFoldLiteralTail went through the prefix expansion, which cuts heads (.*(?i:abc<70 digits>) found nothing; regexp [0 77]), and expandCharClass kept the first bytes of a rune longer than the limit ⇒ fixed. Necessary for C17 (a suffix literal is a suffix of every match it stands for), C16 and C12 (limits change speed only).",
		Min: 1, NeedSSA: true,
		Run: func(p *core.Prog) *core.RuleResult {
			res := &core.RuleResult{}
			kc := core.NewKeyCounter()
			pk := p.SSAPkg("literal")
			if pk == nil {
				res.Fatal = append(res.Fatal, "package literal not found")
				return res
			}
			var root *ssa.Function
			for _, fn := range p.SrcFuncs() {
				if fn.Pkg == pk && fn.Name() == "extractSuffixes" && fn.Signature.Recv() != nil {
					root = fn
				}
			}
			if root == nil {
				res.Notes = append(res.Notes, "(*Extractor).extractSuffixes not found under that name: no suffix family to examine")
				return res
			}
			fam := map[*ssa.Function]bool{}
			var walk func(f *ssa.Function)
			walk = func(f *ssa.Function) {
				if fam[f] || f.Pkg != pk {
					return
				}
				fam[f] = true
				for _, b := range f.Blocks {
					for _, in := range b.Instrs {
						if c, ok := in.(ssa.CallInstruction); ok {
							if g := c.Common().StaticCallee(); g != nil && len(g.Blocks) > 0 {
								walk(g)
							}
						}
					}
				}
				for _, an := range f.AnonFuncs {
					walk(an)
				}
			}
			walk(root)
			var names []string
			for f := range fam {
				names = append(names, core.FuncName(f))
			}
			sort.Strings(names)
			res.Notes = append(res.Notes, fmt.Sprintf("suffix family (%d functions reachable from extractSuffixes): %s", len(names), strings.Join(names, ", ")))
			var fns []*ssa.Function
			for f := range fam {
				fns = append(fns, f)
			}
			sort.Slice(fns, func(i, j int) bool { return core.FuncName(fns[i]) < core.FuncName(fns[j]) })
			for _, f := range fns {
				for _, b := range f.Blocks {
					for _, in := range b.Instrs {
						sl, ok := in.(*ssa.Slice)
						if !ok || !isByteSlice(sl.X.Type()) {
							continue
						}
						lowLim := sl.Low != nil && dependsOnField(sl.Low, "MaxLiteralLen", map[ssa.Value]bool{}, 0)
						highLim := sl.High != nil && dependsOnField(sl.High, "MaxLiteralLen", map[ssa.Value]bool{}, 0)
						if !lowLim && !highLim {
							continue
						}
						o := core.Obligation{Key: kc.Key("R-SUFFIXEND", core.FuncName(f), "a cut to MaxLiteralLen keeps the end"), Pos: p.Pos(sl.Pos()), Nontrivial: true}
						if highLim && sl.Low == nil {
							o.Status = core.Violated
							o.Detail = "bytes[:MaxLiteralLen] keeps the beginning of the literal, and the suffix extraction reaches this function: the first bytes of a literal are no suffix of the match"
						} else {
							o.Status = core.Discharged
							o.Detail = "the cut has a lower bound computed from the limit (the tail is kept)"
						}
						res.Obligations = append(res.Obligations, o)
					}
				}
			}
			return res
		},
	})
}
