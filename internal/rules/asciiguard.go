package rules

import (
	"fmt"
	"go/token"
	"go/types"
	"strings"

	"golang.org/x/tools/go/ssa"

	"verif/internal/core"
)

// asciiOnlyFields finds struct fields that hold an engine built from an NFA compiled with CompilerConfig.ASCIIOnly = true,
// by value flow: config literal -> NewCompiler -> CompileRegexp -> (wrapping constructor) -> function result -> field store.
func asciiOnlyFields(p *core.Prog) (fields map[*types.Var]string, notes []string) {
	fields = map[*types.Var]string{}
	tainted := map[ssa.Value]bool{}
	var producers []*ssa.Function
	for _, fn := range p.SrcFuncs() {
		if strings.HasSuffix(p.File(fn.Pos()), "_test.go") {
			continue
		}
		found := false
		for _, b := range fn.Blocks {
			for _, in := range b.Instrs {
				st, ok := in.(*ssa.Store)
				if !ok {
					continue
				}
				fa, ok := st.Addr.(*ssa.FieldAddr)
				if !ok || fieldNameOf(fa) != "ASCIIOnly" {
					continue
				}
				if n := namedOfType(fa.X.Type()); n == nil || n.Obj().Name() != "CompilerConfig" {
					continue
				}
				// may be true: the constant true, or any value that is not the constant false (a configuration flag)
				if v, known := evalBool(st.Val, nil); !known || v {
					tainted[fa.X] = true // the config literal
					found = true
				}
			}
		}
		if found {
			producers = append(producers, fn)
		}
	}
	// propagate inside producers: loads of the config, calls taking tainted args, cells holding tainted values
	for _, fn := range producers {
		for changed := true; changed; {
			changed = false
			mark := func(v ssa.Value) {
				if !tainted[v] {
					tainted[v] = true
					changed = true
				}
			}
			for _, b := range fn.Blocks {
				for _, in := range b.Instrs {
					switch x := in.(type) {
					case *ssa.UnOp:
						if x.Op == token.MUL && tainted[x.X] {
							mark(x)
						}
					case *ssa.Call:
						for _, a := range x.Call.Args {
							if tainted[a] {
								mark(x)
							}
						}
					case *ssa.Extract:
						if tainted[x.Tuple] && x.Index == 0 {
							mark(x)
						}
					case *ssa.Phi:
						for _, e := range x.Edges {
							if tainted[e] {
								mark(x)
							}
						}
					case *ssa.Store:
						if tainted[x.Val] {
							if _, isAlloc := x.Addr.(*ssa.Alloc); isAlloc {
								mark(x.Addr)
							}
						}
					}
				}
			}
		}
		// tainted results
		for _, b := range fn.Blocks {
			for _, in := range b.Instrs {
				r, ok := in.(*ssa.Return)
				if !ok {
					continue
				}
				for k, rv := range r.Results {
					if !tainted[rv] {
						continue
					}
					// callers: Extract k -> stored into a struct field
					n := p.CallGraph().Nodes[fn]
					if n == nil {
						continue
					}
					for _, e := range n.In {
						call, ok := e.Site.(*ssa.Call)
						if !ok || call.Referrers() == nil {
							continue
						}
						for _, ref := range *call.Referrers() {
							// single result: the call's value itself is stored
							if st, ok := ref.(*ssa.Store); ok && k == 0 && st.Val == ssa.Value(call) {
								if fa, ok := st.Addr.(*ssa.FieldAddr); ok {
									fields[innerField(fa)] = core.FuncName(fn)
								}
							}
							ex, ok := ref.(*ssa.Extract)
							if !ok || ex.Index != k || ex.Referrers() == nil {
								continue
							}
							for _, r2 := range *ex.Referrers() {
								if st, ok := r2.(*ssa.Store); ok && st.Val == ssa.Value(ex) {
									if fa, ok := st.Addr.(*ssa.FieldAddr); ok {
										fields[innerField(fa)] = core.FuncName(fn)
									}
								}
							}
						}
					}
				}
			}
		}
	}
	for f, from := range fields {
		notes = append(notes, fmt.Sprintf("%s holds an ASCII-only engine (from %s)", f.Name(), from))
	}
	return
}

func isASCIICall(v ssa.Value) (*ssa.Call, bool) {
	c, ok := v.(*ssa.Call)
	if !ok {
		return nil, false
	}
	cal := c.Call.StaticCallee()
	if cal == nil || cal.Name() != "IsASCII" || cal.Pkg == nil || !strings.HasSuffix(cal.Pkg.Pkg.Path(), "/simd") {
		return nil, false
	}
	return c, true
}

// subSliceOf: x is y, or a slice of (a slice of ...) y.
func subSliceOf(x, y ssa.Value) bool {
	for i := 0; i < 6; i++ {
		if x == y {
			return true
		}
		sl, ok := x.(*ssa.Slice)
		if !ok {
			return false
		}
		x = sl.X
	}
	return false
}

func init() {
	core.Register(&core.Rule{
		Name: "R-ASCIIGUARD",
		Doc: "Every search call on an ASCII-only engine (a struct field that, by value flow from a CompilerConfig literal whose ASCIIOnly is the constant true or any value that is not the constant false (a configuration flag), through the NFA compiler and an engine constructor, holds such an engine) with a byte-slice argument X must be dominated by the true edge of simd.IsASCII(Y) where X is Y itself or a sub-slice of Y, never a super-slice of it: in the ASCII automaton '.' is [\\x00-\\x7F], so one non-ASCII byte anywhere in the searched slice makes it reject what the UTF-8 automaton accepts. Necessary for C15 (ASCII-only mode only when the haystack is ASCII) and C12 (EnableASCIIOptimization may not change answers).",
		Min: 4, NeedSSA: true,
		Run: func(p *core.Prog) *core.RuleResult {
			res := &core.RuleResult{}
			fields, notes := asciiOnlyFields(p)
			res.Notes = append(res.Notes, notes...)
			if len(fields) == 0 {
				res.Fatal = append(res.Fatal, "no ASCII-only engine field found by value flow from CompilerConfig{ASCIIOnly: true} (anchor lost)")
				return res
			}
			kc := core.NewKeyCounter()
			for _, fn := range p.SrcFuncs() {
				if strings.HasSuffix(p.File(fn.Pos()), "_test.go") {
					continue
				}
				for _, b := range fn.Blocks {
					for _, in := range b.Instrs {
						c, ok := in.(*ssa.Call)
						if !ok || len(c.Call.Args) < 2 {
							continue
						}
						cal := c.Call.StaticCallee()
						if cal == nil || cal.Signature.Recv() == nil {
							continue
						}
						fld := innerField(c.Call.Args[0])
						if fld == nil || fields[fld] == "" {
							continue
						}
						// byte-slice arguments
						for _, a := range c.Call.Args[1:] {
							if !isByteSlice(a.Type()) {
								continue
							}
							o := core.Obligation{Key: kc.Key("R-ASCIIGUARD", core.FuncName(fn), "call "+cal.Name()+" on "+fld.Name()), Pos: p.Pos(c.Pos()), Nontrivial: true, Status: core.Violated}
							o.Detail = "the ASCII-only engine searches a slice that no dominating simd.IsASCII test covers entirely"
							for _, blk := range fn.Blocks {
								if len(blk.Instrs) == 0 {
									continue
								}
								iff, ok := blk.Instrs[len(blk.Instrs)-1].(*ssa.If)
								if !ok {
									continue
								}
								ic, ok := isASCIICall(iff.Cond)
								if !ok {
									continue
								}
								pass := blk.Succs[0]
								if !(len(pass.Preds) == 1 && (pass == b || pass.Dominates(b))) {
									continue
								}
								y := ic.Call.Args[0]
								if subSliceOf(a, y) {
									o.Status = core.Discharged
									o.Detail = "dominated by simd.IsASCII on the searched slice (or a slice containing it)"
								} else if subSliceOf(y, a) && o.Status != core.Discharged {
									o.Detail = "the dominating simd.IsASCII test covers only a part (prefix/window) of the slice the ASCII-only engine then searches"
								}
							}
							res.Obligations = append(res.Obligations, o)
						}
					}
				}
			}
			return res
		},
	})
}
