package rules

import (
	"fmt"
	"go/token"
	"sort"
	"strings"

	"golang.org/x/tools/go/ssa"

	"verif/internal/core"
)

// posLin: v = base + k through additions/subtractions of constants and integer conversions.
func posLin(v ssa.Value) (base ssa.Value, k int64) {
	for d := 0; d < 12; d++ {
		switch x := v.(type) {
		case *ssa.BinOp:
			if c, ok := constInt(x.Y); ok && (x.Op == token.ADD || x.Op == token.SUB) {
				if x.Op == token.ADD {
					k += c
				} else {
					k -= c
				}
				v = x.X
				continue
			}
			if c, ok := constInt(x.X); ok && x.Op == token.ADD {
				k += c
				v = x.Y
				continue
			}
		case *ssa.Convert:
			if isIntType(x.X.Type()) {
				v = x.X
				continue
			}
		}
		break
	}
	return v, k
}

type transLoad struct {
	ld    *ssa.UnOp
	prev  *transLoad
	bbase ssa.Value // base of the consumed byte's index
	boff  int64
	multi bool // more than one byte load or predecessor in the index: not a plain table step
}

func stripConvCT(v ssa.Value) ssa.Value {
	for d := 0; d < 4; d++ {
		switch x := v.(type) {
		case *ssa.Convert:
			v = x.X
		case *ssa.ChangeType:
			v = x.X
		default:
			return v
		}
	}
	return v
}

func init() {
	core.Register(&core.Rule{
		Name: "R-UNROLLSYNC",
		Doc: "The slots of an unrolled table-driven scan are translations of one another. In packages dfa/lazy and nfa a transition is found structurally: a load from a table whose index is computed from a haystack byte h[p] and from a state that is a loop-carried value or the previous transition; chains of transitions are the unrolled slots. (1) Consecutive transitions of a chain consume consecutive bytes (p differs by exactly one, always in the same direction). (2) Hand-over: wherever a state variable and the position variable the bytes are read at are merged together (the slow-path label, the loop head), every edge that carries a transition's result carries a position at the same distance from the byte that transition consumed as every other such edge of the function; an edge that carries the unchanged loop state carries the unchanged position. (3) Sibling agreement: a position handed to a call together with the haystack, or returned, in the code that belongs to one slot (dominated by that slot's transition, not by the next one) stands at the same distance from the slot's byte as the corresponding use in the other slots. A copy-and-paste slip in one slot - the state of slot 2 handed over with the position of slot 3, the dead byte reported one further - leaves the automaton one byte out of step with the text: matches are missed or invented only for inputs that leave the fast path in that slot (C14: the lazy DFA's scan modes, C19: the composite sequence DFA, C02/C04 through them).",
		Min: 20, NeedSSA: true, ThoroughArchs: []string{},
		Run: func(p *core.Prog) *core.RuleResult {
			res := &core.RuleResult{}
			kc := core.NewKeyCounter()
			var fns []*ssa.Function
			for _, fn := range p.SrcFuncs() {
				if fn.Pkg == nil || strings.HasSuffix(p.File(fn.Pos()), "_test.go") {
					continue
				}
				pp := fn.Pkg.Pkg.Path()
				if !strings.HasSuffix(pp, "/dfa/lazy") && !strings.HasSuffix(pp, "/nfa") {
					continue
				}
				fns = append(fns, fn)
			}
			sort.Slice(fns, func(i, j int) bool { return core.FuncName(fns[i]) < core.FuncName(fns[j]) })
			nChains := 0
			for _, fn := range fns {
				var hay *ssa.Parameter
				for _, prm := range fn.Params {
					if isByteSlice(prm.Type()) {
						hay = prm
						break
					}
				}
				if hay == nil {
					continue
				}
				isHayLoad := func(v ssa.Value) (ssa.Value, bool) {
					ld, ok := v.(*ssa.UnOp)
					if !ok || ld.Op != token.MUL {
						return nil, false
					}
					ia, ok := ld.X.(*ssa.IndexAddr)
					if !ok || ia.X != ssa.Value(hay) {
						return nil, false
					}
					return ia.Index, true
				}
				memo := map[*ssa.UnOp]*transLoad{}
				busy := map[*ssa.UnOp]bool{}
				var asTrans func(ld *ssa.UnOp) *transLoad
				asTrans = func(ld *ssa.UnOp) *transLoad {
					if t, ok := memo[ld]; ok {
						return t
					}
					if busy[ld] {
						return nil
					}
					busy[ld] = true
					defer func() { busy[ld] = false }()
					memo[ld] = nil
					if ld.Op != token.MUL {
						return nil
					}
					ia, ok := ld.X.(*ssa.IndexAddr)
					if !ok || ia.X == ssa.Value(hay) {
						return nil
					}
					var bytes []ssa.Value
					var prevs []*transLoad
					statePhi := false
					seen := map[ssa.Value]bool{}
					var walk func(v ssa.Value, d int)
					walk = func(v ssa.Value, d int) {
						if v == nil || seen[v] || d > 10 {
							return
						}
						seen[v] = true
						if idx, ok := isHayLoad(v); ok {
							bytes = append(bytes, idx)
							return
						}
						switch x := v.(type) {
						case *ssa.Phi:
							statePhi = true
						case *ssa.UnOp:
							if x.Op == token.MUL {
								if t := asTrans(x); t != nil {
									prevs = append(prevs, t)
									return
								}
								if ia2, ok := x.X.(*ssa.IndexAddr); ok {
									walk(ia2.Index, d+1)
								}
								return
							}
							walk(x.X, d+1)
						case *ssa.BinOp:
							walk(x.X, d+1)
							walk(x.Y, d+1)
						case *ssa.Convert:
							walk(x.X, d+1)
						case *ssa.ChangeType:
							walk(x.X, d+1)
						case *ssa.Call:
							for _, a := range x.Call.Args {
								walk(a, d+1)
							}
						}
					}
					walk(ia.Index, 0)
					if len(bytes) == 0 || (len(prevs) == 0 && !statePhi) {
						return nil
					}
					t := &transLoad{ld: ld}
					t.bbase, t.boff = posLin(bytes[0])
					if len(bytes) > 1 || len(prevs) > 1 {
						t.multi = true
					}
					if len(prevs) >= 1 {
						t.prev = prevs[0]
					}
					memo[ld] = t
					return t
				}
				var ts []*transLoad
				for _, b := range fn.Blocks {
					for _, in := range b.Instrs {
						if ld, ok := in.(*ssa.UnOp); ok && ld.Op == token.MUL {
							if t := asTrans(ld); t != nil && !t.multi {
								ts = append(ts, t)
							}
						}
					}
				}
				if len(ts) < 2 {
					continue
				}
				next := map[*transLoad][]*transLoad{}
				hasChain := false
				for _, t := range ts {
					if t.prev != nil && !t.prev.multi {
						next[t.prev] = append(next[t.prev], t)
						hasChain = true
					}
				}
				if !hasChain {
					continue
				}
				nChains++
				fname := core.FuncName(fn)
				// (1) consecutive bytes
				dir := int64(0)
				for _, t := range ts {
					if t.prev == nil || t.prev.multi || t.prev.bbase != t.bbase {
						continue
					}
					d := t.boff - t.prev.boff
					o := core.Obligation{Key: kc.Key("R-UNROLLSYNC", fname, "consecutive transitions consume consecutive bytes"), Pos: p.Pos(t.ld.Pos()), Nontrivial: true}
					switch {
					case d != 1 && d != -1:
						o.Status = core.Violated
						o.Detail = fmt.Sprintf("this transition consumes the byte at offset %+d, the transition it continues the byte at offset %+d: the slots are not one byte apart", t.boff, t.prev.boff)
					case dir != 0 && d != dir:
						o.Status = core.Violated
						o.Detail = fmt.Sprintf("this slot steps %+d, an earlier slot of the function %+d", d, dir)
					default:
						dir = d
						o.Status = core.Discharged
						o.Detail = fmt.Sprintf("byte offsets %+d -> %+d", t.prev.boff, t.boff)
					}
					res.Obligations = append(res.Obligations, o)
				}
				// position phis: phis that are the base of a consumed byte's index
				posPhi := map[*ssa.Phi]bool{}
				for _, t := range ts {
					if ph, ok := t.bbase.(*ssa.Phi); ok {
						posPhi[ph] = true
					}
				}
				transOf := func(v ssa.Value) *transLoad {
					if ld, ok := stripConvCT(v).(*ssa.UnOp); ok {
						if t := memo[ld]; t != nil && !t.multi {
							return t
						}
					}
					return nil
				}
				// (2) hand-over edges
				type edge struct {
					pos   string
					delta int64
					what  string
				}
				var edges []edge
				for _, b := range fn.Blocks {
					var phis []*ssa.Phi
					for _, in := range b.Instrs {
						if ph, ok := in.(*ssa.Phi); ok {
							phis = append(phis, ph)
						}
					}
					for _, sp := range phis {
						isState := false
						for _, e := range sp.Edges {
							if transOf(e) != nil {
								isState = true
							}
						}
						if !isState {
							continue
						}
						for _, pph := range phis {
							if pph == sp || !isIntType(pph.Type()) || !posPhi[pph] {
								continue
							}
							for i, sv := range sp.Edges {
								pb, pk := posLin(pph.Edges[i])
								at := p.Pos(b.Preds[i].Instrs[len(b.Preds[i].Instrs)-1].Pos())
								if at == "" || strings.HasPrefix(at, "-") {
									at = p.Pos(sp.Pos())
								}
								if t := transOf(sv); t != nil {
									if pb == t.bbase {
										edges = append(edges, edge{at, pk - t.boff, fmt.Sprintf("state of the transition on byte %+d handed over with position %+d", t.boff, pk)})
									}
									continue
								}
								// unchanged loop state with a moved position
								if sph, ok := stripConvCT(sv).(*ssa.Phi); ok {
									if pbp, ok := pb.(*ssa.Phi); ok && pbp.Block() == sph.Block() && posPhi[pbp] && pk != 0 {
										// only when sph is itself a state phi
										st := false
										for _, e := range sph.Edges {
											if transOf(e) != nil {
												st = true
											}
										}
										if st {
											o := core.Obligation{Key: kc.Key("R-UNROLLSYNC", fname, "unchanged state is handed over with the unchanged position"), Pos: at, Nontrivial: true, Status: core.Violated,
												Detail: fmt.Sprintf("the state is handed over as it was at the loop head, the position moved by %+d: the byte(s) in between are never fed to the automaton", pk)}
											res.Obligations = append(res.Obligations, o)
										}
									}
								}
							}
						}
					}
				}
				if len(edges) > 0 {
					count := map[int64]int{}
					for _, e := range edges {
						count[e.delta]++
					}
					maj, n := int64(0), -1
					for d, c := range count {
						if c > n || (c == n && d < maj) {
							maj, n = d, c
						}
					}
					for _, e := range edges {
						o := core.Obligation{Key: kc.Key("R-UNROLLSYNC", fname, "hand-over keeps state and position in step"), Pos: e.pos, Nontrivial: true}
						if e.delta == maj || len(edges) < 3 {
							o.Status = core.Discharged
							o.Detail = fmt.Sprintf("%s (distance %+d, as on %d of %d hand-over edges)", e.what, e.delta, n, len(edges))
						} else {
							o.Status = core.Violated
							o.Detail = fmt.Sprintf("%s: distance %+d, the other hand-over edges of the function have %+d (%d of %d) - the automaton is %d byte(s) out of step with the text after this exit", e.what, e.delta, maj, n, len(edges), abs64(e.delta-maj))
						}
						res.Obligations = append(res.Obligations, o)
					}
				}
				// (3) sibling agreement of position uses per slot
				type use struct {
					sig   string
					delta int64
					pos   string
					slot  int64
				}
				chainOf := func(t *transLoad) *transLoad {
					for d := 0; t.prev != nil && !t.prev.multi && d < 16; d++ {
						t = t.prev
					}
					return t
				}
				uses := map[*transLoad]map[string][]use{}
				for _, t := range ts {
					tb := t.ld.Block()
					var nexts []*ssa.BasicBlock
					for _, n := range next[t] {
						nexts = append(nexts, n.ld.Block())
					}
					inRegion := func(b *ssa.BasicBlock) bool {
						if b == tb {
							return false // the slot's own block also holds what precedes the transition
						}
						if !tb.Dominates(b) {
							return false
						}
						for _, nb := range nexts {
							if nb == b || nb.Dominates(b) {
								return false
							}
						}
						return true
					}
					ch := chainOf(t)
					for _, b := range fn.Blocks {
						if !inRegion(b) {
							continue
						}
						for _, in := range b.Instrs {
							switch x := in.(type) {
							case *ssa.Call:
								takes := false
								for _, a := range x.Call.Args {
									if a == ssa.Value(hay) {
										takes = true
									}
								}
								if !takes {
									continue
								}
								cn := "?"
								if g := x.Call.StaticCallee(); g != nil {
									cn = g.Name()
								} else if x.Call.Method != nil {
									cn = x.Call.Method.Name()
								}
								for i, a := range x.Call.Args {
									if !isIntType(a.Type()) {
										continue
									}
									if pb, pk := posLin(a); pb == t.bbase {
										if uses[ch] == nil {
											uses[ch] = map[string][]use{}
										}
										sig := fmt.Sprintf("argument %d of %s", i, cn)
										uses[ch][sig] = append(uses[ch][sig], use{sig, pk - t.boff, p.Pos(x.Pos()), t.boff})
									}
								}
							case *ssa.Return:
								for i, r := range x.Results {
									if !isIntType(r.Type()) {
										continue
									}
									if pb, pk := posLin(r); pb == t.bbase {
										if _, isK := r.(*ssa.Const); isK {
											continue
										}
										if uses[ch] == nil {
											uses[ch] = map[string][]use{}
										}
										sig := fmt.Sprintf("result %d", i)
										uses[ch][sig] = append(uses[ch][sig], use{sig, pk - t.boff, p.Pos(x.Pos()), t.boff})
									}
								}
							}
						}
					}
				}
				var chs []*transLoad
				for ch := range uses {
					chs = append(chs, ch)
				}
				sort.Slice(chs, func(i, j int) bool { return chs[i].ld.Pos() < chs[j].ld.Pos() })
				for _, ch := range chs {
					var sigs []string
					for s := range uses[ch] {
						sigs = append(sigs, s)
					}
					sort.Strings(sigs)
					for _, s := range sigs {
						us := uses[ch][s]
						slots := map[int64]bool{}
						for _, u := range us {
							slots[u.slot] = true
						}
						if len(slots) < 3 {
							continue // fewer than three slots use a position this way: no majority to compare with
						}
						count := map[int64]int{}
						for _, u := range us {
							count[u.delta]++
						}
						maj, n := int64(0), -1
						for d, c := range count {
							if c > n || (c == n && d < maj) {
								maj, n = d, c
							}
						}
						for _, u := range us {
							o := core.Obligation{Key: kc.Key("R-UNROLLSYNC", fname, "slots agree on "+s), Pos: u.pos, Nontrivial: true}
							if u.delta == maj {
								o.Status = core.Discharged
								o.Detail = fmt.Sprintf("slot of byte %+d: position at distance %+d from the slot's byte, as in %d of %d uses", u.slot, u.delta, n, len(us))
							} else {
								o.Status = core.Violated
								o.Detail = fmt.Sprintf("slot of byte %+d passes a position at distance %+d from the byte it consumed as %s, the other slots pass distance %+d (%d of %d): a copy of the neighbouring slot's line", u.slot, u.delta, s, maj, n, len(us))
							}
							res.Obligations = append(res.Obligations, o)
						}
					}
				}
			}
			res.Notes = append(res.Notes, fmt.Sprintf("functions with chains of table transitions over the haystack: %d", nChains))
			return res
		},
	})
}

func abs64(x int64) int64 {
	if x < 0 {
		return -x
	}
	return x
}
