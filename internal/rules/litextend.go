package rules

import (
	"fmt"
	"go/token"
	"go/types"
	"strings"

	"golang.org/x/tools/go/ssa"

	"verif/internal/core"
)

// literalOfBytes: v is the Bytes of a literal.Literal value; returns that literal (the struct value, or the pointer it is
// read through) and, when the literal comes out of a sequence, the sequence (receiver of Get, base of the index).
func literalOfBytes(v ssa.Value) (lit ssa.Value, seq ssa.Value, ok bool) {
	isLit := func(t types.Type) bool {
		if pt, ok := t.Underlying().(*types.Pointer); ok {
			t = pt.Elem()
		}
		n := namedOfType(t)
		return n != nil && n.Obj().Name() == "Literal" && n.Obj().Pkg() != nil && strings.HasSuffix(n.Obj().Pkg().Path(), "/literal")
	}
	switch x := v.(type) {
	case *ssa.Field:
		if !isLit(x.X.Type()) || fieldNameOfStruct(x.X.Type(), x.Field) != "Bytes" {
			return nil, nil, false
		}
		lit = x.X
	case *ssa.UnOp:
		fa, isFA := x.X.(*ssa.FieldAddr)
		if x.Op != token.MUL || !isFA || !isLit(fa.X.Type()) || fieldNameOf(fa) != "Bytes" {
			return nil, nil, false
		}
		lit = fa.X
	default:
		return nil, nil, false
	}
	return lit, seqOfLiteral(lit), true
}

func fieldNameOfStruct(t types.Type, i int) string {
	if pt, ok := t.Underlying().(*types.Pointer); ok {
		t = pt.Elem()
	}
	st, ok := t.Underlying().(*types.Struct)
	if !ok || i >= st.NumFields() {
		return ""
	}
	return st.Field(i).Name()
}

// seqOfLiteral: where a literal value was taken from: s.Get(j) -> s; load of &xs[j] -> xs; range element -> the ranged slice.
func seqOfLiteral(lit ssa.Value) ssa.Value {
	for d := 0; d < 4; d++ {
		switch x := lit.(type) {
		case *ssa.Call:
			if cal := x.Call.StaticCallee(); cal != nil && cal.Name() == "Get" && len(x.Call.Args) > 0 {
				return x.Call.Args[0]
			}
			return nil
		case *ssa.UnOp:
			if x.Op != token.MUL {
				return nil
			}
			lit = x.X
		case *ssa.IndexAddr:
			return x.X
		case *ssa.Alloc:
			// a local copy of the literal (lit := s.Get(j)): the value stored into it
			if x.Referrers() == nil {
				return nil
			}
			var stored ssa.Value
			for _, r := range *x.Referrers() {
				if st, ok := r.(*ssa.Store); ok && st.Addr == ssa.Value(x) {
					if stored != nil {
						return nil
					}
					stored = st.Val
				}
			}
			if stored == nil {
				return nil
			}
			lit = stored
		default:
			return nil
		}
	}
	return nil
}

// completeOf: cond is (the negation of) the Complete flag of some literal; returns that literal and the polarity
// (true: cond is Complete itself).
func completeOf(cond ssa.Value) (lit ssa.Value, positive bool, ok bool) {
	positive = true
	for d := 0; d < 3; d++ {
		switch x := cond.(type) {
		case *ssa.UnOp:
			if x.Op == token.NOT {
				positive = !positive
				cond = x.X
				continue
			}
			if fa, isFA := x.X.(*ssa.FieldAddr); x.Op == token.MUL && isFA && fieldNameOf(fa) == "Complete" {
				return fa.X, positive, true
			}
			return nil, false, false
		case *ssa.Field:
			if fieldNameOfStruct(x.X.Type(), x.Field) == "Complete" {
				return x.X, positive, true
			}
			return nil, false, false
		default:
			return nil, false, false
		}
	}
	return nil, false, false
}

func init() {
	core.Register(&core.Rule{
		Name: "R-LITEXTEND",
		Doc: "A literal is extended only if it is exact. In package literal, wherever the bytes of a new literal are assembled from two parts (two copy calls into one freshly made slice, the second at an offset) and a part is the Bytes of a Literal L, some such L has its Complete flag tested on the way: the assembly is dominated by the Complete-is-true successor of a branch on L.Complete (the very literal value whose bytes are copied), or the loop it stands in is entered only behind a loop over the same sequence that leaves the function when an element (taken at a loop-variant index, not a fixed one) is not Complete. An inexact literal is a prefix (suffix) of what the pattern requires there - the rest was cut at a wildcard, a class too large to expand, a length limit - so what follows (precedes) it in a match is not the next literal: extending it invents a literal no match contains, and a prefilter built on it rejects matching haystacks (`\\w+@(\\w+\\.com)` looked for '@.com'; a test of the first literal only, hoisted out of the loop, extends the inexact ones behind it). Necessary for C17, hence C16/C01. The same obligation inside (*Seq).CrossForward and in the suffix extraction's cross_reverse step; pinned tree: the latter had no test => fixed (dedc96f).",
		Min: 2, NeedSSA: true,
		Run: func(p *core.Prog) *core.RuleResult {
			res := &core.RuleResult{}
			kc := core.NewKeyCounter()
			for _, fn := range p.SrcFuncs() {
				pk := ownPkg(fn)
				if pk == nil || !strings.HasSuffix(pk.Path(), "/literal") || strings.HasSuffix(p.File(fn.Pos()), "_test.go") {
					continue
				}
				comp, cyclic := blockSCCs(fn)
				// copy calls grouped by the made slice they fill
				type part struct {
					call   *ssa.Call
					offset bool
				}
				groups := map[*ssa.MakeSlice][]part{}
				var order []*ssa.MakeSlice
				for _, b := range fn.Blocks {
					for _, in := range b.Instrs {
						c, ok := in.(*ssa.Call)
						if !ok {
							continue
						}
						bi, ok := c.Call.Value.(*ssa.Builtin)
						if !ok || bi.Name() != "copy" || len(c.Call.Args) != 2 {
							continue
						}
						dst := c.Call.Args[0]
						off := false
						for d := 0; d < 4; d++ {
							sl, ok := dst.(*ssa.Slice)
							if !ok {
								break
							}
							if sl.Low != nil {
								off = true
							}
							dst = sl.X
						}
						ms, ok := dst.(*ssa.MakeSlice)
						if !ok || !isByteSlice(ms.Type()) {
							continue
						}
						if groups[ms] == nil {
							order = append(order, ms)
						}
						groups[ms] = append(groups[ms], part{c, off})
					}
				}
				for _, ms := range order {
					parts := groups[ms]
					hasOff := false
					for _, pt := range parts {
						if pt.offset {
							hasOff = true
						}
					}
					if len(parts) < 2 || !hasOff {
						continue
					}
					type litPart struct{ lit, seq ssa.Value }
					var lits []litPart
					for _, pt := range parts {
						if l, sq, ok := literalOfBytes(pt.call.Call.Args[1]); ok {
							lits = append(lits, litPart{l, sq})
						}
					}
					if len(lits) == 0 {
						continue
					}
					at := parts[0].call.Block()
					o := core.Obligation{Key: kc.Key("R-LITEXTEND", core.FuncName(fn), "literal bytes assembled from two parts: an extended literal is exact"), Pos: p.Pos(ms.Pos()), Nontrivial: true}
					how := ""
					for _, b := range fn.Blocks {
						if how != "" || len(b.Instrs) == 0 {
							break
						}
						iff, ok := b.Instrs[len(b.Instrs)-1].(*ssa.If)
						if !ok {
							continue
						}
						tested, positive, ok := completeOf(iff.Cond)
						if !ok {
							continue
						}
						yes, no := b.Succs[0], b.Succs[1]
						if !positive {
							yes, no = no, yes
						}
						for _, lp := range lits {
							// (a) the very literal, and the assembly lies behind 'Complete is true'
							if tested == lp.lit && len(yes.Preds) == 1 && (yes == at || yes.Dominates(at)) {
								how = "the assembly is dominated by the Complete branch of the literal whose bytes are copied (" + p.Pos(iff.Cond.Pos()) + ")"
							}
							// (b) a loop over the same sequence, ahead of the assembly, that leaves the function on an inexact element
							if how == "" && lp.seq != nil && seqOfLiteral(tested) == lp.seq && cyclic[comp[b.Index]] && variantIndex(tested) {
								if h, body := innermostLoop(fn, b, comp); h != nil && !body[at] && h.Dominates(at) && leavesFunction(no, body) {
									how = "a loop over the same sequence ahead of the assembly returns when an element is not Complete (" + p.Pos(iff.Cond.Pos()) + ")"
								}
							}
						}
					}
					if how != "" {
						o.Status = core.Discharged
						o.Detail = how
					} else {
						o.Status = core.Violated
						o.Detail = fmt.Sprintf("the bytes of a literal are joined with another part (copy at %s) and no branch on that literal's Complete flag guards the join: an inexact literal (cut at a wildcard, a large class or a length limit) is extended with bytes that do not follow (precede) it in a match", p.Pos(parts[len(parts)-1].call.Pos()))
					}
					res.Obligations = append(res.Obligations, o)
				}
			}
			return res
		},
	})
}

// variantIndex: the literal was taken at an index that is not a constant (Get(j), xs[j] with j computed).
func variantIndex(lit ssa.Value) bool {
	for d := 0; d < 4; d++ {
		switch x := lit.(type) {
		case *ssa.Call:
			if len(x.Call.Args) >= 2 {
				_, isC := x.Call.Args[1].(*ssa.Const)
				return !isC
			}
			return false
		case *ssa.UnOp:
			lit = x.X
		case *ssa.IndexAddr:
			_, isC := x.Index.(*ssa.Const)
			return !isC
		default:
			return false
		}
	}
	return false
}

// innermostLoop: the innermost natural loop around b: its header and body (blocks dominated by the header that reach it).
func innermostLoop(fn *ssa.Function, b *ssa.BasicBlock, comp []int) (*ssa.BasicBlock, map[*ssa.BasicBlock]bool) {
	for h := b; h != nil; h = h.Idom() {
		if comp[h.Index] != comp[b.Index] {
			break
		}
		back := false
		for _, pr := range h.Preds {
			if h.Dominates(pr) {
				back = true
			}
		}
		if !back {
			continue
		}
		body := map[*ssa.BasicBlock]bool{h: true}
		for _, x := range fn.Blocks {
			if h.Dominates(x) && comp[x.Index] == comp[h.Index] && reachesWithin(x, h, h) {
				body[x] = true
			}
		}
		if body[b] {
			return h, body
		}
	}
	return nil, nil
}

// leavesFunction: every path from b reaches a Return without entering the loop body.
func leavesFunction(b *ssa.BasicBlock, body map[*ssa.BasicBlock]bool) bool {
	seen := map[*ssa.BasicBlock]bool{}
	var dfs func(x *ssa.BasicBlock) bool
	dfs = func(x *ssa.BasicBlock) bool {
		if body[x] {
			return false
		}
		if seen[x] {
			return true
		}
		seen[x] = true
		if len(x.Succs) == 0 {
			_, isRet := x.Instrs[len(x.Instrs)-1].(*ssa.Return)
			return isRet
		}
		for _, s := range x.Succs {
			if !dfs(s) {
				return false
			}
		}
		return true
	}
	return dfs(b)
}
