package rules

import (
	"fmt"
	"go/token"
	"go/types"
	"sort"
	"strings"

	"golang.org/x/tools/go/ssa"

	"verif/internal/core"
)

// innerField returns the innermost struct field an address/value denotes (through loads).
func innerField(v ssa.Value) *types.Var {
	for i := 0; i < 8; i++ {
		switch x := v.(type) {
		case *ssa.FieldAddr:
			st := x.X.Type().Underlying().(*types.Pointer).Elem().Underlying().(*types.Struct)
			return st.Field(x.Field)
		case *ssa.UnOp:
			if x.Op != token.MUL {
				return nil
			}
			v = x.X
		case *ssa.Field:
			st := x.X.Type().Underlying().(*types.Struct)
			return st.Field(x.Field)
		default:
			return nil
		}
	}
	return nil
}

// isClearMethod: a method whose only effects are constant stores to fields of its receiver (e.g. size = 0).
func isClearMethod(fn *ssa.Function, recvType *types.Named) bool {
	if fn == nil || fn.Blocks == nil || fn.Signature.Recv() == nil || len(fn.Params) != 1 {
		return false
	}
	if namedOfType(fn.Signature.Recv().Type()) != recvType {
		return false
	}
	stores := 0
	for _, b := range fn.Blocks {
		for _, in := range b.Instrs {
			switch x := in.(type) {
			case *ssa.Store:
				fa, ok := x.Addr.(*ssa.FieldAddr)
				if !ok || fa.X != ssa.Value(fn.Params[0]) {
					return false
				}
				if _, ok := x.Val.(*ssa.Const); !ok {
					return false
				}
				stores++
			case *ssa.Call, *ssa.MapUpdate:
				return false
			}
		}
	}
	return stores > 0
}

type genEvent struct {
	clear  bool
	callee *ssa.Function
}

func init() {
	core.Register(&core.Rule{
		Name: "R-ENTRYCLEAR",
		Doc: "Generation discipline of the NFA simulators' scratch (history independence, C13): (A) in every driver function (one that clears a visited set held in a state field F), every backward path from each call that can reach the visited gate on F meets a Clear of F before it reaches the function entry; (B) every non-driver function that can reach the gate on F is called only from drivers or other such helpers; (C) every thread-queue slice field a driver iterates is truncated by a store that dominates the iteration. A simulator that starts a search or a closure generation with the previous one's visited marks or queued threads returns answers that depend on earlier calls.",
		Min: 40, NeedSSA: true,
		Run: func(p *core.Prog) *core.RuleResult {
			res := &core.RuleResult{}
			gateMemo := map[*ssa.Function]bool{}
			var gateFns []*ssa.Function
			for _, f := range p.SrcFuncs() {
				if isGate(f, gateMemo, 0) && f.Signature.Recv() != nil {
					gateFns = append(gateFns, f)
				}
			}
			// set types: receiver types of gates that also have a clear method (sparse sets)
			type setKind struct {
				gate  *ssa.Function
				named *types.Named
				clear map[*ssa.Function]bool
			}
			var kinds []*setKind
			for _, g := range gateFns {
				n := namedOfType(g.Signature.Recv().Type())
				if n == nil {
					continue
				}
				k := &setKind{gate: g, named: n, clear: map[*ssa.Function]bool{}}
				for _, f := range p.SrcFuncs() {
					if isClearMethod(f, n) {
						k.clear[f] = true
					}
				}
				if len(k.clear) > 0 {
					kinds = append(kinds, k)
				}
			}
			if len(kinds) == 0 {
				res.Fatal = append(res.Fatal, "no visited-set type with a test-and-set gate and a clear method found")
				return res
			}
			cg := p.CallGraph()
			for _, k := range kinds {
				// per function: fields on which the gate / clear is invoked directly
				directGate := map[*ssa.Function]map[*types.Var]bool{}
				driver := map[*ssa.Function]map[*types.Var]bool{}
				fields := map[*types.Var]bool{}
				for _, f := range p.SrcFuncs() {
					if strings.HasSuffix(p.File(f.Pos()), "_test.go") {
						continue
					}
					for _, b := range f.Blocks {
						for _, in := range b.Instrs {
							c, ok := in.(ssa.CallInstruction)
							if !ok {
								continue
							}
							cal := c.Common().StaticCallee()
							if cal == nil || len(c.Common().Args) == 0 {
								continue
							}
							fld := innerField(c.Common().Args[0])
							if fld == nil {
								continue
							}
							if cal == k.gate {
								if directGate[f] == nil {
									directGate[f] = map[*types.Var]bool{}
								}
								directGate[f][fld] = true
								fields[fld] = true
							}
							if k.clear[cal] {
								if driver[f] == nil {
									driver[f] = map[*types.Var]bool{}
								}
								driver[f][fld] = true
							}
						}
					}
				}
				var flds []*types.Var
				for f := range fields {
					flds = append(flds, f)
				}
				sort.Slice(flds, func(i, j int) bool { return flds[i].Name() < flds[j].Name() })
				for _, F := range flds {
					// reach: non-driver functions that can reach the gate on F (propagation stops at drivers)
					reach := map[*ssa.Function]bool{}
					for f, m := range directGate {
						if m[F] {
							reach[f] = true
						}
					}
					for changed := true; changed; {
						changed = false
						for _, f := range p.SrcFuncs() {
							if reach[f] || driver[f][F] {
								continue
							}
							if n := cg.Nodes[f]; n != nil {
								for _, e := range n.Out {
									if reach[e.Callee.Func] && !driver[e.Callee.Func][F] {
										reach[f] = true
										changed = true
										break
									}
								}
							}
						}
					}
					// a driver that also calls the gate directly stays a driver
					fq := F.Name()
					// (A) drivers
					var drivers []*ssa.Function
					for f, m := range driver {
						if m[F] {
							drivers = append(drivers, f)
						}
					}
					sort.Slice(drivers, func(i, j int) bool { return core.FuncName(drivers[i]) < core.FuncName(drivers[j]) })
					for _, f := range drivers {
						kc := core.NewKeyCounter()
						for _, b := range f.Blocks {
							for i, in := range b.Instrs {
								c, ok := in.(ssa.CallInstruction)
								if !ok {
									continue
								}
								cal := c.Common().StaticCallee()
								if cal == nil {
									continue
								}
								isGateCall := cal == k.gate && len(c.Common().Args) > 0 && innerField(c.Common().Args[0]) == F
								if !(reach[cal] && !driver[cal][F]) && !isGateCall {
									continue
								}
								o := core.Obligation{Key: kc.Key("R-ENTRYCLEAR", core.FuncName(f), "generation "+fq+" before "+cal.Name()), Pos: p.Pos(c.Pos()), Nontrivial: true}
								bad := firstEventBackward(f, b, i, cal, func(ci ssa.CallInstruction) (genEvent, bool) {
									cc := ci.Common().StaticCallee()
									if cc == nil {
										return genEvent{}, false
									}
									if k.clear[cc] && len(ci.Common().Args) > 0 && innerField(ci.Common().Args[0]) == F {
										return genEvent{clear: true}, true
									}
									if (reach[cc] && !driver[cc][F]) || (cc == k.gate && len(ci.Common().Args) > 0 && innerField(ci.Common().Args[0]) == F) {
										return genEvent{callee: cc}, true
									}
									return genEvent{}, false
								}, p)
								if bad == "" {
									o.Status = core.Discharged
									o.Detail = "every path from the function entry to this call passes a Clear of " + fq
								} else {
									o.Status = core.Violated
									o.Detail = bad
								}
								res.Obligations = append(res.Obligations, o)
							}
						}
						// (C) queues iterated by the driver
						res.Obligations = append(res.Obligations, queueTruncation(p, f)...)
					}
					// (B) helpers
					var helpers []*ssa.Function
					for f := range reach {
						if !driver[f][F] {
							helpers = append(helpers, f)
						}
					}
					sort.Slice(helpers, func(i, j int) bool { return core.FuncName(helpers[i]) < core.FuncName(helpers[j]) })
					for _, h := range helpers {
						o := core.Obligation{Key: "R-ENTRYCLEAR|" + core.FuncName(h) + "|helper of " + fq + " called only under a driver", Pos: p.Pos(h.Pos()), Nontrivial: true, Status: core.Discharged}
						n := cg.Nodes[h]
						ncallers := 0
						if n != nil {
							for _, e := range n.In {
								caller := e.Caller.Func
								if strings.HasSuffix(p.File(caller.Pos()), "_test.go") {
									continue
								}
								ncallers++
								if !reach[caller] && !driver[caller][F] {
									o.Status = core.Violated
									o.Detail = fmt.Sprintf("%s reaches the visited gate on %s without clearing it and is called from %s, which is neither a driver nor a helper", h.Name(), fq, core.FuncName(caller))
								}
							}
						}
						if ncallers == 0 && h.Object() != nil && h.Object().Exported() {
							o.Status = core.Violated
							o.Detail = fmt.Sprintf("exported %s reaches the visited gate on %s without clearing it first", h.Name(), fq)
						}
						if o.Status == core.Discharged {
							o.Detail = fmt.Sprintf("%d module callers, all drivers or helpers", ncallers)
						}
						res.Obligations = append(res.Obligations, o)
					}
					res.Notes = append(res.Notes, fmt.Sprintf("visited set %s.%s (gate %s): %d drivers, %d helpers", core.TypeName(k.named), fq, core.FuncName(k.gate), len(drivers), len(helpers)))
				}
			}
			return res
		},
	})
}

// firstEventBackward walks all backward CFG paths from instruction (b,i); returns "" if on every path the
// first generation event is a clear (or a call to the same callee), otherwise a description.
func firstEventBackward(f *ssa.Function, b *ssa.BasicBlock, i int, self *ssa.Function, classify func(ssa.CallInstruction) (genEvent, bool), p *core.Prog) string {
	type pt struct {
		b *ssa.BasicBlock
		i int
	}
	seen := map[*ssa.BasicBlock]bool{}
	var bad string
	var walk func(b *ssa.BasicBlock, i int)
	walk = func(b *ssa.BasicBlock, i int) {
		if bad != "" {
			return
		}
		for j := i; j >= 0; j-- {
			if ci, ok := b.Instrs[j].(ssa.CallInstruction); ok {
				if ev, is := classify(ci); is {
					if ev.clear {
						return
					}
					// other gate-reaching calls are not generation boundaries by themselves (a seed may join
					// the generation the previous step built); keep walking towards the entry
				}
			}
		}
		if len(b.Preds) == 0 {
			bad = "a path from the function entry reaches this call without any Clear of the visited set"
			return
		}
		for _, pr := range b.Preds {
			if seen[pr] {
				continue
			}
			seen[pr] = true
			walk(pr, len(pr.Instrs)-1)
		}
	}
	walk(b, i-1)
	return bad
}

// queueTruncation: every slice field of a state struct whose elements the driver reads in a loop
// (range / indexed load) and that is also appended to somewhere in the module must be truncated by a
// store that dominates the read.
func queueTruncation(p *core.Prog, f *ssa.Function) []core.Obligation {
	var out []core.Obligation
	type use struct {
		b   *ssa.BasicBlock
		pos token.Pos
	}
	reads := map[*types.Var][]use{}
	owners := map[*types.Var]*types.Named{}
	for _, b := range f.Blocks {
		for _, in := range b.Instrs {
			ld, ok := in.(*ssa.UnOp)
			if !ok || ld.Op != token.MUL {
				continue
			}
			ia, ok := ld.X.(*ssa.IndexAddr)
			if !ok {
				continue
			}
			fld := innerField(ia.X)
			if fld == nil {
				continue
			}
			if _, ok := fld.Type().Underlying().(*types.Slice); !ok {
				continue
			}
			_, owner, _, _ := baseField(ia.X)
			if !isThreadQueue(fld) {
				continue
			}
			reads[fld] = append(reads[fld], use{b, ld.Pos()})
			owners[fld] = owner
		}
	}
	var flds []*types.Var
	for fl := range reads {
		flds = append(flds, fl)
	}
	sort.Slice(flds, func(i, j int) bool { return flds[i].Name() < flds[j].Name() })
	for _, fl := range flds {
		// truncating stores of this field in f
		var truncs []*ssa.BasicBlock
		for _, b := range f.Blocks {
			for _, in := range b.Instrs {
				st, ok := in.(*ssa.Store)
				if !ok {
					continue
				}
				if fa, ok := st.Addr.(*ssa.FieldAddr); ok && innerField(fa) == fl {
					if sl, ok := st.Val.(*ssa.Slice); ok && sl.Low == nil && isZeroConst(sl.High) && innerField(sl.X) == fl {
						truncs = append(truncs, b)
					}
				}
			}
		}
		rp := reads[fl][0].pos
		if !rp.IsValid() {
			rp = f.Pos()
		}
		o := core.Obligation{Key: "R-ENTRYCLEAR|" + core.FuncName(f) + "|queue " + fl.Name() + " truncated before iteration", Pos: p.Pos(rp), Nontrivial: true, Status: core.Discharged, Detail: "a truncation " + fl.Name() + " = " + fl.Name() + "[:0] dominates every read of its elements"}
		for _, u := range reads[fl] {
			dom := false
			for _, tb := range truncs {
				if tb == u.b || tb.Dominates(u.b) {
					dom = true
				}
			}
			if !dom {
				o.Status = core.Violated
				o.Detail = fmt.Sprintf("elements of thread queue %s are read in %s with no dominating truncation %s = %s[:0]: threads queued by an earlier search are simulated again", fl.Name(), f.Name(), fl.Name(), fl.Name())
				break
			}
		}
		out = append(out, o)
	}
	return out
}

// isThreadQueue: slice field whose element type is a struct (thread records), as opposed to scalar scratch.
func isThreadQueue(f *types.Var) bool {
	sl, ok := f.Type().Underlying().(*types.Slice)
	if !ok {
		return false
	}
	_, isStruct := sl.Elem().Underlying().(*types.Struct)
	return isStruct
}
