package rules

import (
	"fmt"
	"go/token"
	"go/types"
	"sort"
	"strings"

	"golang.org/x/tools/go/ssa"

	"verif/internal/core"
)

// R-RESET: reset completeness of memo fields across clearing siblings.

type fieldWrite struct {
	field    *types.Var
	owner    *types.Named
	populate bool
	how      string
	pos      token.Pos
}

// baseField resolves an address/value to (struct named type, outermost field) when it is
// (derived from) a field of a value of a module struct type; returns the base pointer value.
func baseField(v ssa.Value) (base ssa.Value, owner *types.Named, field *types.Var, elem bool) {
	depthElem := false
	for i := 0; i < 12; i++ {
		switch x := v.(type) {
		case *ssa.FieldAddr:
			pt, ok := x.X.Type().Underlying().(*types.Pointer)
			if !ok {
				return nil, nil, nil, false
			}
			st, ok := pt.Elem().Underlying().(*types.Struct)
			if !ok {
				return nil, nil, nil, false
			}
			n := namedOfType(pt.Elem())
			// nested by-value struct: continue outward if x.X is itself a FieldAddr
			if inner, ok := x.X.(*ssa.FieldAddr); ok {
				_ = inner
				b, o, f, _ := baseField(x.X)
				if f != nil {
					return b, o, f, true
				}
			}
			if n == nil {
				return nil, nil, nil, false
			}
			return x.X, n, st.Field(x.Field), depthElem
		case *ssa.IndexAddr:
			depthElem = true
			v = x.X
		case *ssa.UnOp:
			if x.Op != token.MUL {
				return nil, nil, nil, false
			}
			depthElem = true
			v = x.X
		case *ssa.Slice:
			v = x.X
		default:
			return nil, nil, nil, false
		}
	}
	return nil, nil, nil, false
}

func derivesFromLoadOf(v ssa.Value, owner *types.Named, field *types.Var, depth int) bool {
	if depth > 6 {
		return false
	}
	switch x := v.(type) {
	case *ssa.UnOp:
		if x.Op == token.MUL {
			if _, o, f, _ := baseField(x.X); f == field && o == owner {
				return true
			}
			return false
		}
		return derivesFromLoadOf(x.X, owner, field, depth+1)
	case *ssa.BinOp:
		return derivesFromLoadOf(x.X, owner, field, depth+1) || derivesFromLoadOf(x.Y, owner, field, depth+1)
	case *ssa.Convert:
		return derivesFromLoadOf(x.X, owner, field, depth+1)
	case *ssa.ChangeType:
		return derivesFromLoadOf(x.X, owner, field, depth+1)
	case *ssa.Phi:
		for _, e := range x.Edges {
			if derivesFromLoadOf(e, owner, field, depth+1) {
				return true
			}
		}
	case *ssa.Slice:
		return derivesFromLoadOf(x.X, owner, field, depth+1)
	}
	return false
}

func isParamDerived(v ssa.Value, depth int) bool {
	if depth > 6 {
		return false
	}
	switch x := v.(type) {
	case *ssa.Parameter:
		// receiver excluded by caller
		return true
	case *ssa.Convert:
		return isParamDerived(x.X, depth+1)
	case *ssa.ChangeType:
		return isParamDerived(x.X, depth+1)
	case *ssa.BinOp:
		return isParamDerived(x.X, depth+1) || isParamDerived(x.Y, depth+1)
	case *ssa.Phi:
		for _, e := range x.Edges {
			if isParamDerived(e, depth+1) {
				return true
			}
		}
	case *ssa.Slice:
		return isParamDerived(x.X, depth+1)
	case *ssa.MakeInterface:
		return isParamDerived(x.X, depth+1)
	}
	return false
}

func isAppendCall(v ssa.Value) bool {
	c, ok := v.(*ssa.Call)
	if !ok {
		return false
	}
	b, ok := c.Call.Value.(*ssa.Builtin)
	return ok && b.Name() == "append"
}

// fieldWritesIn lists writes to fields of module struct types in fn (direct only).
func fieldWritesIn(p *core.Prog, fn *ssa.Function) []fieldWrite {
	var out []fieldWrite
	recv := ssa.Value(nil)
	if fn.Signature.Recv() != nil && len(fn.Params) > 0 {
		recv = fn.Params[0]
	}
	add := func(owner *types.Named, f *types.Var, populate bool, how string, pos token.Pos) {
		if owner == nil || f == nil || owner.Obj().Pkg() == nil || !p.InModule(owner.Obj().Pkg()) {
			return
		}
		out = append(out, fieldWrite{field: f, owner: owner, populate: populate, how: how, pos: pos})
	}
	for _, b := range fn.Blocks {
		for _, in := range b.Instrs {
			switch x := in.(type) {
			case *ssa.Store:
				_, owner, f, elem := baseField(x.Addr)
				if f == nil {
					continue
				}
				if elem {
					// element store: populating unless a constant fill
					_, isConst := x.Val.(*ssa.Const)
					add(owner, f, !isConst, "element store", x.Pos())
					continue
				}
				v := x.Val
				switch {
				case isAppendCall(v):
					add(owner, f, true, "append", x.Pos())
				case derivesFromLoadOf(v, owner, f, 0):
					if sl, ok := v.(*ssa.Slice); ok && sl.Low == nil && isZeroConst(sl.High) {
						add(owner, f, false, "truncate [:0]", x.Pos())
					} else if sl, ok := v.(*ssa.Slice); ok && sl.High == nil && sl.Low == nil {
						add(owner, f, false, "reslice", x.Pos())
					} else {
						add(owner, f, true, "update from own value", x.Pos())
					}
				case isParamDerived(v, 0) && v != recv:
					add(owner, f, true, "assigned from parameter", x.Pos())
				default:
					add(owner, f, false, "assigned fresh/constant/recomputed value", x.Pos())
				}
			case *ssa.MapUpdate:
				if _, owner, f, _ := baseField(x.Map); f != nil {
					add(owner, f, true, "map insert", x.Pos())
				}
			case *ssa.Call:
				if bi, ok := x.Call.Value.(*ssa.Builtin); ok {
					switch bi.Name() {
					case "delete", "clear":
						if _, owner, f, _ := baseField(x.Call.Args[0]); f != nil {
							add(owner, f, false, bi.Name(), x.Pos())
						}
					case "copy":
						if _, owner, f, _ := baseField(x.Call.Args[0]); f != nil {
							add(owner, f, true, "copy into", x.Pos())
						}
					}
				}
			}
		}
	}
	return out
}

func isZeroConst(v ssa.Value) bool {
	c, ok := v.(*ssa.Const)
	if !ok || c.Value == nil {
		return false
	}
	return c.Value.String() == "0"
}

// resetExempt: memo fields that a clearing method legitimately leaves untouched, one symbol per line with the reason.
var resetExempt = map[string]string{
	"internal/sparse.SparseSet.dense":  "Briggs-Torczon sparse set: stale entries are rejected by the dense[sparse[v]]==v && sparse[v]<size cross-check, so Clear only resets size",
	"internal/sparse.SparseSet.sparse": "Briggs-Torczon sparse set: see dense",
}

// resetSiblingExempt: (clearing method|field) pairs where a sibling deliberately does not re-initialise a scalar its siblings reset.
var resetSiblingExempt = map[string]string{
	"(*dfa/lazy.DFACache).ClearKeepMemory|clearCount": "the mid-search clear increments the clear budget counter instead of zeroing it (that is its purpose)",
	"(*dfa/lazy.DFACache).ClearKeepMemory|hits":       "documented: hit/miss statistics accumulate across mid-search clears",
	"(*dfa/lazy.DFACache).ClearKeepMemory|misses":     "documented: hit/miss statistics accumulate across mid-search clears",
}

func init() {
	core.Register(&core.Rule{
		Name: "R-RESET",
		Doc: "For every module struct type T, memo fields MF(T) are the slice/map fields that receive populating writes (append, map insert, element store of a non-constant, copy) anywhere in the module. A clearing method of T is a method (with callees on the same receiver folded in) that resets at least one memo field (truncate [:0], fresh make, delete/clear, constant fill) and performs no populating write; an unexported method whose every caller in the module is such a clearing method of the same type calling it on its own receiver is a building block of those methods (folded into them), not a clearing method of its own. Every clearing method must reset every memo field of T: a memo that survives a clear is consulted by the next search with keys (state ids, offsets) that now mean something else. Necessary for C13 (history independence) and C14 (engines exact under every cache capacity). (b) Sibling agreement: a non-memo field that at least two clearing siblings of a type re-initialise as a whole (start-state table, next id; directly or through a same-receiver callee) must be re-initialised as a whole by every clearing sibling. Exemptions are per (method, field) with a reason (statistics that deliberately accumulate, the clear counter, sparse-set arrays validated by cross-check).",
		Min: 18, NeedSSA: true,
		Run: func(p *core.Prog) *core.RuleResult {
			res := &core.RuleResult{}
			// collect writes per function
			type tinfo struct {
				memo    map[*types.Var]string // field -> example populating site
				methods map[*ssa.Function]bool
			}
			infos := map[*types.Named]*tinfo{}
			get := func(n *types.Named) *tinfo {
				if infos[n] == nil {
					infos[n] = &tinfo{memo: map[*types.Var]string{}, methods: map[*ssa.Function]bool{}}
				}
				return infos[n]
			}
			writes := map[*ssa.Function][]fieldWrite{}
			for _, fn := range p.SrcFuncs() {
				if strings.HasSuffix(p.File(fn.Pos()), "_test.go") {
					continue
				}
				ws := fieldWritesIn(p, fn)
				writes[fn] = ws
				for _, w := range ws {
					if !w.populate {
						continue
					}
					switch w.field.Type().Underlying().(type) {
					case *types.Slice, *types.Map:
						ti := get(w.owner)
						if ti.memo[w.field] == "" {
							ti.memo[w.field] = fmt.Sprintf("%s (%s at %s)", core.FuncName(fn), w.how, p.Pos(w.pos))
						}
					}
				}
				if fn.Signature.Recv() != nil {
					if n := namedOfType(fn.Signature.Recv().Type()); n != nil {
						get(n).methods[fn] = true
					}
				}
			}
			// effective writes of a method on its own receiver type, folding same-receiver callees
			var eff func(fn *ssa.Function, owner *types.Named, seen map[*ssa.Function]bool) (reset map[*types.Var]bool, pop map[*types.Var]bool)
			eff = func(fn *ssa.Function, owner *types.Named, seen map[*ssa.Function]bool) (map[*types.Var]bool, map[*types.Var]bool) {
				reset, pop := map[*types.Var]bool{}, map[*types.Var]bool{}
				if seen[fn] {
					return reset, pop
				}
				seen[fn] = true
				for _, w := range writes[fn] {
					if w.owner != owner {
						continue
					}
					if w.populate {
						pop[w.field] = true
					} else {
						reset[w.field] = true
					}
				}
				if len(fn.Params) == 0 {
					return reset, pop
				}
				for _, b := range fn.Blocks {
					for _, in := range b.Instrs {
						c, ok := in.(*ssa.Call)
						if !ok {
							continue
						}
						callee := c.Call.StaticCallee()
						if callee == nil || callee.Signature.Recv() == nil || len(c.Call.Args) == 0 || c.Call.Args[0] != ssa.Value(fn.Params[0]) {
							continue
						}
						r2, p2 := eff(callee, owner, seen)
						for f := range r2 {
							reset[f] = true
						}
						for f := range p2 {
							pop[f] = true
						}
					}
				}
				return reset, pop
			}
			// building blocks: an unexported method whose every caller in the module is a clearing method of the same type
			// calling it on its own receiver is part of those methods (its writes are folded into them), not a clearing
			// method of its own: deleteAllStates() + resetTables() behind Clear, ClearKeepMemory and Reset
			type callerOf struct {
				fn      *ssa.Function
				ownRecv bool
			}
			callers := map[*ssa.Function][]callerOf{}
			for _, fn := range p.SrcFuncs() {
				if strings.HasSuffix(p.File(fn.Pos()), "_test.go") {
					continue
				}
				for _, b := range fn.Blocks {
					for _, in := range b.Instrs {
						ci, ok := in.(ssa.CallInstruction)
						if !ok {
							continue
						}
						callee := ci.Common().StaticCallee()
						if callee == nil || callee.Signature.Recv() == nil {
							continue
						}
						own := fn.Signature.Recv() != nil && len(fn.Params) > 0 && len(ci.Common().Args) > 0 && ci.Common().Args[0] == ssa.Value(fn.Params[0])
						callers[callee] = append(callers[callee], callerOf{fn, own})
					}
				}
			}
			isClearing := func(m *ssa.Function, n *types.Named) bool {
				reset, pop := eff(m, n, map[*ssa.Function]bool{})
				clears := false
				for f := range infos[n].memo {
					if pop[f] {
						return false
					}
					if reset[f] {
						clears = true
					}
				}
				return clears
			}
			var isBlock func(m *ssa.Function, n *types.Named, seen map[*ssa.Function]bool) bool
			isBlock = func(m *ssa.Function, n *types.Named, seen map[*ssa.Function]bool) bool {
				if token.IsExported(m.Name()) || len(callers[m]) == 0 || seen[m] {
					return false
				}
				seen[m] = true
				for _, c := range callers[m] {
					if !c.ownRecv || namedOfType(c.fn.Signature.Recv().Type()) != n {
						return false
					}
					if !isClearing(c.fn, n) {
						return false
					}
				}
				return true
			}
			// whole-field re-initialisations of a method, same-receiver callees folded in
			var wholeOf func(fn *ssa.Function, owner *types.Named, seen map[*ssa.Function]bool) map[*types.Var]bool
			wholeOf = func(fn *ssa.Function, owner *types.Named, seen map[*ssa.Function]bool) map[*types.Var]bool {
				whole := map[*types.Var]bool{}
				if seen[fn] {
					return whole
				}
				seen[fn] = true
				for _, w := range writes[fn] {
					if w.owner == owner && !w.populate && w.how != "element store" && w.how != "delete" && w.how != "clear" {
						whole[w.field] = true
					}
				}
				if len(fn.Params) == 0 {
					return whole
				}
				for _, b := range fn.Blocks {
					for _, in := range b.Instrs {
						c, ok := in.(*ssa.Call)
						if !ok {
							continue
						}
						callee := c.Call.StaticCallee()
						if callee == nil || callee.Signature.Recv() == nil || len(c.Call.Args) == 0 || c.Call.Args[0] != ssa.Value(fn.Params[0]) {
							continue
						}
						for f := range wholeOf(callee, owner, seen) {
							whole[f] = true
						}
					}
				}
				return whole
			}
			var names []*types.Named
			for n := range infos {
				names = append(names, n)
			}
			sort.Slice(names, func(i, j int) bool { return core.TypeName(names[i]) < core.TypeName(names[j]) })
			nTypes := 0
			for _, n := range names {
				ti := infos[n]
				if len(ti.memo) == 0 {
					continue
				}
				var ms []*ssa.Function
				for m := range ti.methods {
					ms = append(ms, m)
				}
				sort.Slice(ms, func(i, j int) bool { return ms[i].Name() < ms[j].Name() })
				for _, m := range ms {
					reset, pop := eff(m, n, map[*ssa.Function]bool{})
					clearsMemo := false
					popsMemo := false
					for f := range ti.memo {
						if reset[f] {
							clearsMemo = true
						}
						if pop[f] {
							popsMemo = true
						}
					}
					if !clearsMemo || popsMemo || isBlock(m, n, map[*ssa.Function]bool{}) {
						continue
					}
					nTypes++
					var fields []*types.Var
					for f := range ti.memo {
						fields = append(fields, f)
					}
					sort.Slice(fields, func(i, j int) bool { return fields[i].Name() < fields[j].Name() })
					for _, f := range fields {
						fq := core.TypeName(n) + "." + f.Name()
						o := core.Obligation{Key: "R-RESET|" + core.FuncName(m) + "|resets " + fq, Pos: p.Pos(m.Pos()), Nontrivial: true}
						switch {
						case reset[f]:
							o.Status = core.Discharged
							o.Detail = "clearing method resets memo field " + f.Name()
						case resetExempt[fq] != "":
							o.Status = core.Discharged
							o.Detail = "exempt: " + resetExempt[fq]
						default:
							o.Status = core.Violated
							o.Detail = fmt.Sprintf("clearing method %s resets other memo fields of %s but not %s, which is populated by %s: entries survive the clear and are reused with recycled ids", m.Name(), core.TypeName(n), f.Name(), ti.memo[f])
						}
						res.Obligations = append(res.Obligations, o)
					}
				}
			}
			// (b) sibling agreement on whole-field resets: a field that two clearing siblings re-initialise as a whole must be
			// re-initialised as a whole by every clearing sibling of that type (a partial, element-wise reset leaves stale parts)
			for _, n := range names {
				ti := infos[n]
				if len(ti.memo) == 0 {
					continue
				}
				type cm struct {
					m     *ssa.Function
					whole map[*types.Var]bool
				}
				var cms []cm
				var ms []*ssa.Function
				for m := range ti.methods {
					ms = append(ms, m)
				}
				sort.Slice(ms, func(i, j int) bool { return ms[i].Name() < ms[j].Name() })
				for _, m := range ms {
					reset, pop := eff(m, n, map[*ssa.Function]bool{})
					clearsMemo, popsMemo := false, false
					for f := range ti.memo {
						if reset[f] {
							clearsMemo = true
						}
						if pop[f] {
							popsMemo = true
						}
					}
					if !clearsMemo || popsMemo || isBlock(m, n, map[*ssa.Function]bool{}) {
						continue
					}
					whole := wholeOf(m, n, map[*ssa.Function]bool{})
					cms = append(cms, cm{m, whole})
				}
				if len(cms) < 2 {
					continue
				}
				count := map[*types.Var]int{}
				for _, c := range cms {
					for f := range c.whole {
						count[f]++
					}
				}
				var fs []*types.Var
				for f, k := range count {
					if k >= 2 && ti.memo[f] == "" {
						fs = append(fs, f)
					}
				}
				sort.Slice(fs, func(i, j int) bool { return fs[i].Name() < fs[j].Name() })
				for _, f := range fs {
					for _, c := range cms {
						fq := core.TypeName(n) + "." + f.Name()
						o := core.Obligation{Key: "R-RESET|" + core.FuncName(c.m) + "|re-initialises " + fq + " like its siblings", Pos: p.Pos(c.m.Pos()), Nontrivial: true}
						switch {
						case c.whole[f]:
							o.Status = core.Discharged
							o.Detail = "field is re-initialised as a whole"
						case resetSiblingExempt[core.FuncName(c.m)+"|"+f.Name()] != "":
							o.Status = core.Discharged
							o.Detail = "exempt: " + resetSiblingExempt[core.FuncName(c.m)+"|"+f.Name()]
						default:
							o.Status = core.Violated
							o.Detail = fmt.Sprintf("%d clearing siblings of %s re-initialise %s as a whole, %s does not (it resets it partially or not at all): the parts it leaves keep ids of states that no longer exist", count[f], core.TypeName(n), f.Name(), c.m.Name())
						}
						res.Obligations = append(res.Obligations, o)
					}
				}
			}
			res.Notes = append(res.Notes, fmt.Sprintf("struct types with memo fields: %d; clearing methods checked: %d", len(names), nTypes))
			return res
		},
	})
}
