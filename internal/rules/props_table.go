package rules

import "verif/internal/core"

func prop(id string, rules []string, decided, notDecided string) {
	Properties[id] = &core.PropertySpec{ID: id, Rules: rules, Decided: decided, NotDecided: notDecided, DesignRef: "DESIGN.md §4 (rules), §5 " + id}
}

func init() {
	prop("C06", []string{"R-SHARED", "R-POOL", "R-NOGO"},
		"no unsynchronised write to memory reachable from the shared compiled Regex/Engine (or a package variable) on any path from any search, enumeration or replace method, over all strategies (R-SHARED); no goroutine is started on a search path (R-NOGO); pooled per-search state is never used after it was handed back (another goroutine may own it) and never handed back twice, including inside the hand-back wrappers (R-POOL).",
		"that every call returns its sequential result beyond the absence of shared writes; races inside the Go runtime/stdlib; Stats()/ResetStats() (documented unsafe, not search methods).")
	prop("C16", []string{"R-GATE", "R-LITTRUNC", "R-PFOFFSET", "R-ASMSTORE"},
		"no literal sequence that may have dropped alternatives reaches the prefilter builder or a stored verification literal without a dominating coverage test (R-GATE); literal-list and literal-byte truncation always clears the covering/complete promise (R-LITTRUNC), so a 'complete' prefilter is built from untruncated literals; every Find/FindMatch implementation guards its re-slice, returns positions that depend on the start offset and reads look-behind bytes from the full haystack (R-PFOFFSET); the Teddy assembly kernels store only to their frame, results and the candidate buffer (R-ASMSTORE).",
		"fingerprint/bucket correctness of Teddy, Aho-Corasick and memmem results, 'smallest position at or after the offset' (value-level), SIMD = scalar equality.")
	prop("C17", []string{"R-LITTRUNC", "R-GATE", "R-CLONE", "R-FOLD"},
		"every shortening of a literal list marks partial coverage on every path, no collection loop returns a partial collection, every shortening of literal bytes clears Complete (R-LITTRUNC); partial sets are not consumed as covering sets (R-GATE); clones of a literal sequence carry every field, in particular the partial-coverage flag (R-CLONE); case-fold variants come from unicode.SimpleFold on every path (R-FOLD).",
		"that the extracted bytes are the right bytes (prefix/suffix/inner necessity is a language-level fact), LCP/LCS/minimisation arithmetic.")
	prop("C12", []string{"R-LITTRUNC", "R-GATE", "R-CLONE", "R-SIBLING", "R-ASCIIGUARD", "R-PFOFFSET"},
		"the literal-count and literal-length limits (MaxLiterals, MaxLiteralLen, cross-product limit) can only shrink what a prefilter promises, never make a non-covering set look covering or a truncated literal look complete, and a partial set never gates a search (R-LITTRUNC, R-GATE, R-CLONE); the offset/state variants of each strategy helper consult the same engine flags as the base variant (R-SIBLING); the ASCII-only automaton (EnableASCIIOptimization) runs only on slices proven ASCII in full (R-ASCIIGUARD).",
		"equality of results under DFA on/off, state limits, ASCII optimisation, CPU feature masking: value-level and declined.")
	prop("C19", []string{"R-DISTINGUISH", "R-ASTWALK", "R-RUNEBYTE"},
		"every fast-path family reads the pattern datum its answer depends on (lazy flag, case folding, repeat bounds) per the frozen table of fast paths (R-DISTINGUISH); every contains-detector that routes patterns away from engines that cannot express them descends into every operator with children (R-ASTWALK); byte tables of the fast paths only receive runes bounded by 0x7F (R-RUNEBYTE).",
		"that the accepted fragment equals the implemented fragment beyond the data read (e.g. what may follow or sit between recognised parts), span arithmetic of each searcher.")
	prop("C09", []string{"R-EXHAUST", "R-PAIR", "R-COPYFRESH"},
		"the NFA compiler's operator switch covers every operator regexp/syntax can emit and rejects unknown ones with an error (R-EXHAUST a); the compiler's recursion-depth counter is decremented on every non-error path, so the depth limit counts nesting, not node count (R-PAIR); Copy returns a value that does not share the engine Longest() mutates (R-COPYFRESH).",
		"error text equality, CompilePOSIX flags, nesting-depth parity, LiteralPrefix/SubexpNames values: not yet decided by a rule here.")
	prop("C11", []string{"R-EXHAUST", "R-SIBLING", "R-CANHANDLE", "R-MODEPROP"},
		"every per-strategy dispatcher (IsMatch, Find at zero/non-zero, FindIndices, FindIndicesAt, with-state) either handles every strategy or falls to the universal NFA helper (R-EXHAUST b); the X / XAt / XAtWithState variants behind Find vs FindAll/Count consult the same guard flags (R-SIBLING); capacity-limited engines are only searched under their own capacity test, so a declined search is never read as no-match by Match while Find falls back (R-CANHANDLE); the match mode is copied into every handed-out per-search state, so the engine-level and pooled simulators agree (R-MODEPROP).",
		"the relational equalities themselves (Match <=> FindIndex != nil, prefix property of FindAll, Count = len(FindAll)).")
	prop("C15", []string{"R-FOLD", "R-ASCIIGUARD", "R-RUNEBYTE"},
		"case-insensitive literals are compiled/extracted through unicode.SimpleFold on every path (R-FOLD); the ASCII-only automaton runs only on slices proven ASCII (R-ASCIIGUARD); a rune is narrowed to a byte / byte-table index only under a bound of 0x7F (R-RUNEBYTE).",
		"the UTF-8 range-splitting tables of compileUTF8Range* (a finite numerical fact over 1.1M code points), invalid-byte-as-U+FFFD behaviour: the core of C15 is declined.")
	prop("C03", []string{"R-SCRATCHINIT", "R-ENTRYCONFIG"},
		"the capture working buffers (PikeVM currSlots, one-pass cache slots, pooled onepassSlots) start every search and every new seed from the not-participating sentinel on every path, per iteration where the loop overwrites them (R-SCRATCHINIT); every capture entry point re-establishes the slot-table width it reads (R-ENTRYCONFIG). Both are necessary for 'non-participating groups are -1' and 'NumSubexp()+1 groups reported' independent of earlier calls.",
		"capture positions themselves, last-iteration semantics, compileStarViaPlus closure order, one-pass slot masks: value-level and declined.")
	prop("C01", []string{"R-GATE", "R-LITTRUNC", "R-CANHANDLE", "R-RUNEBYTE", "R-EXHAUST", "R-FOLD"},
		"a prefilter miss is only used as 'no match' when the literal set covers every branch (R-GATE, R-LITTRUNC); a capacity-limited engine's 'not found' is never taken for 'no match' (R-CANHANDLE); byte tables of rejection filters and fast paths only hold ASCII runes and case-fold through unicode.SimpleFold (R-RUNEBYTE, R-FOLD); IsMatch's dispatcher answers every strategy (R-EXHAUST).",
		"that each engine's boolean equals regexp's: NFA compilation semantics, DFA determinisation, reverse search arithmetic are value-level and declined.")
	prop("C10", []string{"R-COPYFRESH", "R-MODEPROP"},
		"the mode belongs to one Regex value: Copy never shares the engine that Longest() mutates (R-COPYFRESH); every per-search state handed out carries the engine's current mode on every path (R-MODEPROP).",
		"that each engine honours the mode (DFA-direct and digit-prefilter paths are known to ignore it on the pinned tree - see DESIGN.md findings not armed), sub-match choice in longest mode.")
	prop("C02", []string{"R-DISTINGUISH", "R-ASTWALK", "R-GATE", "R-LITTRUNC", "R-CANHANDLE", "R-FOLD", "R-RUNEBYTE", "R-PFOFFSET"},
		"the span-selecting fast paths read the datum that separates patterns needing different spans (greedy vs lazy, case folding, repeat bounds: R-DISTINGUISH) and the guards that route lazy quantifiers, anchors and look-around away from engines that cannot express them traverse the whole syntax tree (R-ASTWALK); a candidate finder can skip a real (hence the leftmost) match only if its literal set does not cover every branch, which is excluded (R-GATE, R-LITTRUNC), and its positions depend on the start offset (R-PFOFFSET); a capacity-declined search is not taken for 'no match' (R-CANHANDLE); byte tables and fold variants used to locate candidates are complete (R-FOLD, R-RUNEBYTE).",
		"priority encoding in determinisation and thread order, reverse-DFA start computation, the window estimates of the DFA+NFA strategies, Teddy bucket order - every span value itself.")
	prop("C04", []string{"R-ITERSTATE", "R-LOOPARG", "R-RUNEADV"},
		"the iterator closures keep their cursor local to one traversal (R-ITERSTATE); searches resumed at an offset hand the full haystack to the engines (never haystack[at:], and no context-dropping callee with a non-zero start), so look-behind assertions see the bytes before the resume position (R-LOOPARG); every match-iteration loop computes the resume position after an empty match from the bytes at that position (one rune, not one byte: R-RUNEADV).",
		"the adjacency arithmetic of the enumeration loops (which empty matches are suppressed), limit handling, and that each search in the loop returns regexp's span.")
	prop("C08", []string{"R-RUNEADV", "R-EXPAND", "R-FRESHRET", "R-LOOPARG", "R-RO"},
		"the replace loops resume one rune after an empty match and search the full source (R-RUNEADV, R-LOOPARG); the template expander reads the capture-name table, parses both braces and accumulates multi-digit group numbers (R-EXPAND: what distinguishes $a/$b, ${1}0/${10}, $1/$10); the []byte Replace* results are memory allocated by the call on every path, never src, repl or memory of the compiled object (R-FRESHRET: a fresh copy when nothing matches); source, template and replacement bytes are never written (R-RO).",
		"the template grammar's remaining cases (name character classes, leading zeros, malformed templates), which empty matches are replaced, Split's piece bookkeeping and its n cases (value-level; the n == 1 and empty-pattern defects found by probing were repaired, see known_findings.txt), and that each search returns regexp's span.")
	prop("C05", []string{"R-RECURSION", "R-EPOCH"},
		"every search-time recursion (call-graph cycle reachable from a search root) is guarded by a visited test-and-set gate on every path to the recursive call (R-RECURSION); the visited epoch of the backtracker is never advanced inside a start-position loop that calls the gated recursion, and every advance handles wrap-around (R-EPOCH).",
		"the constant K and every value-dependent loop count (candidate loops of the reverse strategies, prefilter rescans); polynomial compile time. This is the weakest claim relative to the property: it decides two necessary conditions of the visited-table bound only.")
	prop("C13", []string{"R-RESET", "R-EPOCH", "R-ENTRYCLEAR", "R-SCRATCHINIT", "R-ENTRYCONFIG", "R-POOL", "R-SHARED"},
		"every clearing method of a per-search cache resets every memo field its siblings populate (R-RESET); visited-epoch wrap handling (R-EPOCH a); every NFA-simulation driver clears its visited set and truncates its thread queues before first use on every path (R-ENTRYCLEAR); recycled scratch slices (capture slot buffers) are constant-filled before every use, per iteration where a loop overwrites them (R-SCRATCHINIT); per-search mode fields (active slot width) are re-established by every entry that reads them (R-ENTRYCONFIG); pooled state is handed back exactly once and not used afterwards (R-POOL); no shared scratch carries history between calls (R-SHARED).",
		"that stale values in reused-but-not-cleared buffers are never read (value-level); GC interaction with sync.Pool; adaptive prefilter trackers.")
	prop("C14", []string{"R-RESET", "R-CANHANDLE", "R-BOUND"},
		"cache clearing is complete: no transition/state memo of the lazy DFA cache survives Clear/ClearKeepMemory/Reset with recycled state ids (R-RESET), a necessary condition of 'exact under every cache capacity'; the bounded backtracker is searched only under its capacity predicate on the same engine and haystack, i.e. it explicitly declines (R-CANHANDLE, R-BOUND).",
		"correctness of determinisation, reverse NFA construction, one-pass ambiguity test, look-around handling: the engines' agreement with the reference is value-level and declined.")
	prop("C20", []string{"R-POOL", "R-BOUND"},
		"per-search state obtained from the pools is handed back on every path to return (R-POOL a): a leaked state is re-created by Pool.New on every call, so the documented zero-allocation calls would allocate in steady state; the visited table is allocated only for a length that passed the capacity predicate, and every growth of the DFA cache is dominated by the within-capacity edge of its byte-budget test (R-BOUND).",
		"the numeric bounds (cache capacity + one state, visited cap), heap held per Regex, allocation under cache churn.")
	prop("C07", []string{"R-RO", "R-ASMSTORE", "R-PFOFFSET", "R-SCRATCHINIT"},
		"no write reachable from a search root targets the caller's haystack/pattern/template bytes, including strings viewed as []byte (R-RO); every memory-destination instruction of the assembly kernels writes only its own frame, a result slot or a designated non-byte output buffer (R-ASMSTORE); candidate finders compare the start offset with len(haystack) before re-slicing (R-PFOFFSET a); capture scratch is reset before use so reported capture spans cannot come from an earlier, longer haystack (R-SCRATCHINIT).",
		"over-reads of the vector kernels, implicit panics (index/nil), stack exhaustion, well-formedness of returned spans (value-level).")
	prop("C18", []string{"R-ASMSTORE"},
		"the write half of 'touches no memory outside the slice': no assembly routine stores through an address derived from its []byte or mask parameters or of unknown provenance (R-ASMSTORE).",
		"equality of vector and scalar results; over-reads; the SWAR fallbacks' arithmetic.")
}
