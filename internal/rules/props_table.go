package rules

import "verif/internal/core"

func prop(id string, rules []string, decided, notDecided string) {
	Properties[id] = &core.PropertySpec{ID: id, Rules: rules, Decided: decided, NotDecided: notDecided, DesignRef: "DESIGN.md §4 (rules), §5 " + id}
}

func init() {
	prop("C06", []string{"R-SHARED", "R-NOGO"},
		"no unsynchronised write to memory reachable from the shared compiled Regex/Engine (or a package variable) on any path from any search, enumeration or replace method, over all strategies (R-SHARED); no goroutine is started on a search path (R-NOGO).",
		"that every call returns its sequential result beyond the absence of shared writes; races inside the Go runtime/stdlib; Stats()/ResetStats() (documented unsafe, not search methods).")
	prop("C07", []string{"R-RO", "R-ASMSTORE"},
		"no write reachable from a search root targets the caller's haystack/pattern/template bytes, including strings viewed as []byte (R-RO); every memory-destination instruction of the assembly kernels writes only its own frame, a result slot or a designated non-byte output buffer (R-ASMSTORE).",
		"over-reads of the vector kernels, implicit panics (index/nil), stack exhaustion, well-formedness of returned spans (value-level).")
	prop("C18", []string{"R-ASMSTORE"},
		"the write half of 'touches no memory outside the slice': no assembly routine stores through an address derived from its []byte or mask parameters or of unknown provenance (R-ASMSTORE).",
		"equality of vector and scalar results; over-reads; the SWAR fallbacks' arithmetic.")
}
