package rules

import (
	"fmt"
	"strings"

	"golang.org/x/tools/go/ssa"

	"verif/internal/core"
)

func isSeqPtrValue(p *core.Prog, v ssa.Value) bool {
	return strings.HasSuffix(v.Type().String(), "literal.Seq") && strings.HasPrefix(v.Type().String(), "*")
}

func init() {
	core.Register(&core.Rule{
		Name: "R-COVERFLOW",
		Doc: "A literal sequence that absorbs another one inherits its 'does not cover every branch' flag on every way out. In package literal, when the *Seq returned by an extraction call that can hand out a partial-coverage sequence (computed transitively from the stores of the flag, as in R-GATE) is consumed by the caller - handed to a combining method that reads its literals (CrossForward) or read element-wise (Get) - then either the consumption is dominated by a test of that value's IsPartialCoverage(), or every path from the consumption to a return of the function passes one. A path that leaves through an overflow `break` before the flag is copied returns a non-empty, non-partial sequence that misses the dropped branches, and the prefilter built from it is trusted on a miss (a 300-way alternation followed by a literal, with the production limits: FindIndex nil where regexp matches). Necessary for C17 (truncation never turns into a false covering promise), C16 and C01.",
		Min: 4, NeedSSA: true,
		Run: func(p *core.Prog) *core.RuleResult {
			res := &core.RuleResult{}
			kc := core.NewKeyCounter()
			pk := p.SSAPkg("literal")
			if pk == nil {
				res.Fatal = append(res.Fatal, "package literal not found")
				return res
			}
			gc := &gateCtx{p: p, litPkg: pk}
			gc.computeMayPartial()
			for _, fn := range p.SrcFuncs() {
				if fn.Pkg != pk || strings.HasSuffix(p.File(fn.Pos()), "_test.go") {
					continue
				}
				// only functions that return a *Seq (they build a sequence out of others)
				if rs := fn.Signature.Results(); rs.Len() != 1 || !strings.HasSuffix(rs.At(0).Type().String(), "literal.Seq") {
					continue
				}
				for _, b := range fn.Blocks {
					for _, in := range b.Instrs {
						src, ok := in.(*ssa.Call)
						if !ok || !isSeqPtrValue(p, src) {
							continue
						}
						g := src.Call.StaticCallee()
						if g == nil || g.Pkg != pk || g.Signature.Recv() == nil || !strings.Contains(g.Signature.Recv().Type().String(), "Extractor") {
							continue // only results of the (recursive) extraction methods
						}
						if !gc.mayPartial[g] {
							continue // this extraction can never hand out a partial-coverage sequence (computed as in R-GATE)
						}
						if src.Referrers() == nil {
							continue
						}
						// checks and consumptions of this value
						var checks []*ssa.BasicBlock
						type cons struct {
							in   ssa.Instruction
							what string
						}
						var uses []cons
						for _, r := range *src.Referrers() {
							c, ok := r.(*ssa.Call)
							if !ok {
								continue
							}
							cal := c.Call.StaticCallee()
							if cal == nil {
								continue
							}
							switch {
							case cal.Name() == "IsPartialCoverage" && len(c.Call.Args) > 0 && c.Call.Args[0] == ssa.Value(src):
								checks = append(checks, c.Block())
							case cal.Name() == "Get" && len(c.Call.Args) > 0 && c.Call.Args[0] == ssa.Value(src):
								uses = append(uses, cons{c, "read element-wise (Get)"})
							default:
								// passed as a non-receiver *Seq argument to a module method: a combining call
								for i, a := range c.Call.Args {
									if i > 0 && a == ssa.Value(src) && cal.Pkg == pk {
										uses = append(uses, cons{c, "handed to " + core.FuncName(cal)})
									}
								}
							}
						}
						for _, u := range uses {
							o := core.Obligation{Key: kc.Key("R-COVERFLOW", core.FuncName(fn), "partial-coverage flag of an absorbed sequence reaches every exit"), Pos: p.Pos(u.in.Pos()), Nontrivial: true}
							dominated := false
							for _, cb := range checks {
								if cb == u.in.Block() || cb.Dominates(u.in.Block()) {
									// in the same block the check must come first
									if cb == u.in.Block() {
										for _, x := range cb.Instrs {
											if x == u.in {
												break
											}
											if c, ok := x.(*ssa.Call); ok && c.Call.StaticCallee() != nil && c.Call.StaticCallee().Name() == "IsPartialCoverage" && len(c.Call.Args) > 0 && c.Call.Args[0] == ssa.Value(src) {
												dominated = true
											}
										}
									} else {
										dominated = true
									}
								}
							}
							if dominated {
								o.Status = core.Discharged
								o.Detail = "the sequence is " + u.what + " only after its IsPartialCoverage() was tested"
								res.Obligations = append(res.Obligations, o)
								continue
							}
							// every path from the consumption to a return passes a check block
							isCheck := map[*ssa.BasicBlock]bool{}
							for _, cb := range checks {
								isCheck[cb] = true
							}
							bad := ""
							seen := map[*ssa.BasicBlock]bool{}
							var walk func(x *ssa.BasicBlock, first bool)
							walk = func(x *ssa.BasicBlock, first bool) {
								if bad != "" {
									return
								}
								if !first {
									if seen[x] {
										return
									}
									seen[x] = true
									if isCheck[x] {
										return
									}
								} else if isCheck[x] {
									// check in the same block after the consumption
									after := false
									for _, y := range x.Instrs {
										if y == u.in {
											after = true
											continue
										}
										if after {
											if c, ok := y.(*ssa.Call); ok && c.Call.StaticCallee() != nil && c.Call.StaticCallee().Name() == "IsPartialCoverage" && len(c.Call.Args) > 0 && c.Call.Args[0] == ssa.Value(src) {
												return
											}
										}
									}
								}
								for _, y := range x.Instrs {
									if r, ok := y.(*ssa.Return); ok {
										// returning a fresh empty sequence ("no information") promises nothing
										if len(r.Results) == 1 {
											if c, ok := r.Results[0].(*ssa.Call); ok && c.Call.StaticCallee() != nil && c.Call.StaticCallee().Name() == "NewSeq" && len(c.Call.Args) == 1 {
												if k, ok := c.Call.Args[0].(*ssa.Const); ok && k.Value == nil {
													return
												}
											}
										}
										bad = p.Pos(r.Pos())
										return
									}
								}
								for _, s := range x.Succs {
									walk(s, false)
								}
							}
							walk(u.in.Block(), true)
							if bad == "" {
								o.Status = core.Discharged
								o.Detail = "after the sequence is " + u.what + ", every path to a return tests its IsPartialCoverage()"
							} else {
								o.Status = core.Violated
								o.Detail = fmt.Sprintf("the sequence is %s, and the return at %s is reachable from there without a test of its IsPartialCoverage(): the result can claim full coverage although an absorbed part dropped branches", u.what, bad)
							}
							res.Obligations = append(res.Obligations, o)
						}
					}
				}
			}
			return res
		},
	})
}
