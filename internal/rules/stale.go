package rules

import (
	"fmt"
	"go/types"
	"strings"

	"golang.org/x/tools/go/ssa"

	"verif/internal/core"
)

func init() {
	core.Register(&core.Rule{
		Name: "R-STALE",
		Doc: "Nothing obtained from a cache survives its clearing: in a function that calls a clearing method of the lazy DFA cache (Clear, ClearKeepMemory, Reset - the clearing methods R-RESET checks - directly or through a wrapper of the package that reaches one, such as tryClearCache), no *State parameter and no *State or StateID that was read out of the cache before the call (cache.Get, getState, a field of such a state) is used on any path after the call, other than being overwritten. Clearing reassigns state ids from 0, so an id from before the clear names a different row: writing a transition through it corrupts the new table, reading through it follows another state's transitions. Necessary for C14 (engines exact under every cache capacity).",
		Min: 2, NeedSSA: true,
		Run: func(p *core.Prog) *core.RuleResult {
			res := &core.RuleResult{}
			pk := p.SSAPkg("dfa/lazy")
			if pk == nil {
				res.Fatal = append(res.Fatal, "package dfa/lazy not found")
				return res
			}
			isCacheClear := func(fn *ssa.Function) bool {
				if fn == nil || fn.Signature.Recv() == nil {
					return false
				}
				n := namedOfType(fn.Signature.Recv().Type())
				return n != nil && n.Obj().Name() == "DFACache" && (fn.Name() == "Clear" || fn.Name() == "ClearKeepMemory" || fn.Name() == "Reset")
			}
			// wrappers of the package that reach a clearing method
			clears := map[*ssa.Function]bool{}
			for _, fn := range p.SrcFuncs() {
				if fn.Pkg == pk && isCacheClear(fn) {
					clears[fn] = true
				}
			}
			for changed := true; changed; {
				changed = false
				for _, fn := range p.SrcFuncs() {
					if fn.Pkg != pk || clears[fn] || strings.HasSuffix(p.File(fn.Pos()), "_test.go") {
						continue
					}
					// only small wrappers: functions whose name says so are not assumed; we take direct callers of a clearing function
					for _, b := range fn.Blocks {
						for _, in := range b.Instrs {
							if c, ok := in.(ssa.CallInstruction); ok {
								if cal := c.Common().StaticCallee(); cal != nil && isCacheClear(cal) {
									clears[fn] = true
									changed = true
								}
							}
						}
					}
				}
			}
			isStateish := func(t types.Type) bool {
				s := t.String()
				return strings.HasSuffix(s, "dfa/lazy.State") || strings.HasSuffix(s, "dfa/lazy.StateID")
			}
			kc := core.NewKeyCounter()
			for _, fn := range p.SrcFuncs() {
				if fn.Pkg != pk || strings.HasSuffix(p.File(fn.Pos()), "_test.go") || isCacheClear(fn) {
					continue
				}
				for _, b := range fn.Blocks {
					for i, in := range b.Instrs {
						c, ok := in.(*ssa.Call)
						if !ok {
							continue
						}
						cal := c.Call.StaticCallee()
						if cal == nil || !clears[cal] || cal == fn {
							continue
						}
						// tainted: *State parameters, and state-ish values read from the cache before the call
						tainted := map[ssa.Value]bool{}
						for _, prm := range fn.Params {
							if isStateish(prm.Type()) {
								tainted[prm] = true
							}
						}
						for _, b2 := range fn.Blocks {
							for j, in2 := range b2.Instrs {
								v, ok := in2.(ssa.Value)
								if !ok || !isStateish(v.Type()) {
									continue
								}
								before := (b2 == b && j < i) || (b2 != b && b2.Dominates(b))
								if !before {
									continue
								}
								switch x := in2.(type) {
								case *ssa.Call:
									if cc := x.Call.StaticCallee(); cc != nil && cc.Signature.Recv() != nil {
										if n := namedOfType(cc.Signature.Recv().Type()); n != nil && n.Obj().Name() == "DFACache" {
											tainted[v] = true
										}
									}
								case *ssa.Extract:
									if tc, ok := x.Tuple.(*ssa.Call); ok {
										if cc := tc.Call.StaticCallee(); cc != nil && cc.Signature.Recv() != nil {
											if n := namedOfType(cc.Signature.Recv().Type()); n != nil && n.Obj().Name() == "DFACache" {
												tainted[v] = true
											}
										}
									}
								case *ssa.UnOp:
									// a field of a tainted state (current.id)
									if fa, ok := x.X.(*ssa.FieldAddr); ok && tainted[fa.X] {
										tainted[v] = true
									}
								}
							}
						}
						o := core.Obligation{Key: kc.Key("R-STALE", core.FuncName(fn), "no state from before "+cal.Name()+" is used after it"), Pos: p.Pos(c.Pos()), Nontrivial: true, Status: core.Discharged, Detail: fmt.Sprintf("%d values from before the clear; none is used on a path after it", len(tainted))}
						// uses after the call
						after := func(b2 *ssa.BasicBlock, j int) bool {
							return (b2 == b && j > i) || (b2 != b && blockReaches(b, b2))
						}
						for _, b2 := range fn.Blocks {
							for j, in2 := range b2.Instrs {
								if !after(b2, j) {
									continue
								}
								for _, op := range in2.Operands(nil) {
									if op == nil || *op == nil || !tainted[*op] {
										continue
									}
									if _, isPhi := in2.(*ssa.Phi); isPhi {
										continue // merging the old value with a new one is not a use
									}
									if _, isDbg := in2.(*ssa.DebugRef); isDbg {
										continue
									}
									o.Status = core.Violated
									o.Detail = fmt.Sprintf("%s (from before the cache was cleared) is used at %s after the clear: state ids were reassigned, so it names another row of the new table", (*op).Name(), p.Pos(in2.Pos()))
								}
							}
						}
						res.Obligations = append(res.Obligations, o)
					}
				}
			}
			return res
		},
	})
}
