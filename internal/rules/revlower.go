package rules

import (
	"fmt"
	"go/constant"
	"go/types"
	"strings"

	"golang.org/x/tools/go/ssa"

	"verif/internal/core"
)

func init() {
	core.Register(&core.Rule{
		Name: "R-REVLOWER",
		Doc: "A backward scan that recovers where a match begins does not go below the position the search was resumed at. In packages meta and the root package, for every call of a reverse scan of the lazy DFA (SearchReverse, SearchReverseLimited, IsMatchReverse: cache, haystack, start, end, ...): if the calling function has a resume offset (the first int parameter behind its haystack parameter, provided some call receives it together with the haystack - a count limit does not qualify), the start argument is that very parameter; for SearchReverseLimited in a function without one (the whole haystack is searched) it is the constant 0 - the anti-quadratic bound travels in the separate minStart argument. A start of 0 in a resumed search lets the recovered match start fall inside the previous match: the iterators yield overlapping matches (ab|[ab]+c on 'abbc': [0 2] [0 4]) and ReplaceAllLiteral panics on src[lastEnd:start] with lastEnd > start; a start of minStart without the declined-scan fallback loses matches (C11). Chosen independently by three seeding agents of one round. Necessary for C04 (ordered, non-overlapping matches), C07 (no panic), C08, C11.",
		Min: 10, NeedSSA: true,
		Run: func(p *core.Prog) *core.RuleResult {
			res := &core.RuleResult{}
			kc := core.NewKeyCounter()
			for _, fn := range p.SrcFuncs() {
				if strings.HasSuffix(p.File(fn.Pos()), "_test.go") {
					continue
				}
				pk := ownPkg(fn)
				if pk == nil || !(strings.HasSuffix(pk.Path(), "/meta") || pk.Path() == core.ModPath) {
					continue
				}
				var hay, at *ssa.Parameter
				for _, prm := range fn.Params {
					if isByteSlice(prm.Type()) && hay == nil {
						hay = prm
						continue
					}
					if bt, ok := prm.Type().Underlying().(*types.Basic); ok && bt.Kind() == types.Int && hay != nil && at == nil {
						at = prm
					}
				}
				if hay == nil {
					continue
				}
				// a resume offset travels with the haystack: some call receives both (a count limit does not)
				if at != nil {
					together := false
					for _, b := range fn.Blocks {
						for _, in := range b.Instrs {
							if c, ok := in.(ssa.CallInstruction); ok {
								h, a := false, false
								for _, arg := range c.Common().Args {
									if arg == ssa.Value(hay) {
										h = true
									}
									if arg == ssa.Value(at) {
										a = true
									}
								}
								if h && a {
									together = true
								}
							}
						}
					}
					if !together {
						at = nil
					}
				}
				for _, b := range fn.Blocks {
					for _, in := range b.Instrs {
						c, ok := in.(*ssa.Call)
						if !ok {
							continue
						}
						cal := c.Call.StaticCallee()
						if cal == nil || cal.Signature.Recv() == nil || !strings.HasSuffix(cal.Signature.Recv().Type().String(), "lazy.DFA") || len(c.Call.Args) < 5 {
							continue
						}
						switch cal.Name() {
						case "SearchReverse", "SearchReverseLimited", "IsMatchReverse":
						default:
							continue
						}
						start := c.Call.Args[3]
						o := core.Obligation{Key: kc.Key("R-REVLOWER", core.FuncName(fn), "lower bound of "+cal.Name()), Pos: p.Pos(c.Pos()), Nontrivial: true}
						isZero := false
						if k, ok := start.(*ssa.Const); ok && k.Value != nil && constant.Sign(k.Value) == 0 {
							isZero = true
						}
						switch {
						case at != nil && start == ssa.Value(at):
							o.Status = core.Discharged
							o.Detail = "the scan is bounded below by the function's resume offset " + at.Name()
						case at != nil:
							o.Status = core.Violated
							o.Detail = fmt.Sprintf("the function is resumed at %s but the backward scan may go down to %s: the match start it recovers can lie before the resume position, inside the previous match", at.Name(), start.Name())
						case cal.Name() == "SearchReverseLimited" && !isZero:
							o.Status = core.Violated
							o.Detail = fmt.Sprintf("the whole haystack is searched (no resume offset) but the bounded scan starts at %s instead of 0; the anti-quadratic bound belongs in the minStart argument, where the scan reports that it was cut short", start.Name())
						default:
							o.Status = core.Discharged
							o.Detail = "no resume offset in this function; the scan's lower bound is the constant 0 or the loop's own cursor"
						}
						res.Obligations = append(res.Obligations, o)
					}
				}
			}
			return res
		},
	})
}
