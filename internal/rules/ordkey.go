package rules

import (
	"fmt"
	"go/token"
	"go/types"
	"strings"

	"golang.org/x/tools/go/ssa"

	"verif/internal/core"
)

// permutes: fn moves elements within a slice parameter (stores into s[i] a value loaded from s[j], directly or
// through a local) - a sorting or rotating routine.
func permutes(fn *ssa.Function) bool {
	if fn == nil || fn.Blocks == nil {
		return false
	}
	sliceParams := map[ssa.Value]bool{}
	for _, prm := range fn.Params {
		if _, ok := prm.Type().Underlying().(*types.Slice); ok {
			sliceParams[prm] = true
		}
	}
	if len(sliceParams) == 0 {
		return false
	}
	var fromElem func(v ssa.Value, s ssa.Value, d int) bool
	fromElem = func(v ssa.Value, s ssa.Value, d int) bool {
		if d > 4 {
			return false
		}
		switch x := v.(type) {
		case *ssa.UnOp:
			if x.Op == token.MUL {
				if ia, ok := x.X.(*ssa.IndexAddr); ok && ia.X == s {
					return true
				}
			}
		case *ssa.Phi:
			for _, e := range x.Edges {
				if fromElem(e, s, d+1) {
					return true
				}
			}
		}
		return false
	}
	for _, b := range fn.Blocks {
		for _, in := range b.Instrs {
			st, ok := in.(*ssa.Store)
			if !ok {
				continue
			}
			ia, ok := st.Addr.(*ssa.IndexAddr)
			if !ok || !sliceParams[ia.X] {
				continue
			}
			if fromElem(st.Val, ia.X, 0) {
				return true
			}
		}
	}
	return false
}

// returnsPermuted: a slice fn returns was handed to a permuting routine inside fn (or comes from a callee for
// which that holds). Returns the routine's name.
func returnsPermuted(fn *ssa.Function, depth int, seen map[*ssa.Function]bool) string {
	if fn == nil || fn.Blocks == nil || seen[fn] || depth > 3 {
		return ""
	}
	seen[fn] = true
	var rets []ssa.Value
	for _, b := range fn.Blocks {
		for _, in := range b.Instrs {
			if r, ok := in.(*ssa.Return); ok {
				for _, v := range r.Results {
					if _, isSl := v.Type().Underlying().(*types.Slice); isSl {
						rets = append(rets, v)
					}
				}
			}
		}
	}
	expand := map[ssa.Value]bool{}
	var add func(v ssa.Value, d int)
	add = func(v ssa.Value, d int) {
		if expand[v] || d > 4 {
			return
		}
		expand[v] = true
		switch x := v.(type) {
		case *ssa.Phi:
			for _, e := range x.Edges {
				add(e, d+1)
			}
		case *ssa.Slice:
			add(x.X, d+1)
		}
	}
	for _, v := range rets {
		add(v, 0)
	}
	for v := range expand {
		if c, ok := v.(*ssa.Call); ok && c.Call.StaticCallee() != nil {
			if w := returnsPermuted(c.Call.StaticCallee(), depth+1, seen); w != "" {
				return w
			}
		}
		if v.Referrers() == nil {
			continue
		}
		for _, r := range *v.Referrers() {
			if c, ok := r.(ssa.CallInstruction); ok {
				if cal := c.Common().StaticCallee(); cal != nil && (isStdSort(cal) || permutes(cal)) {
					return core.FuncName(cal)
				}
			}
		}
	}
	return ""
}

func isStdSort(fn *ssa.Function) bool {
	if fn == nil || fn.Pkg == nil {
		return false
	}
	switch fn.Pkg.Pkg.Path() {
	case "sort":
		return true
	case "slices":
		return strings.HasPrefix(fn.Name(), "Sort") || fn.Name() == "Reverse"
	}
	return false
}

func init() {
	core.Register(&core.Rule{
		Name: "R-ORDKEY",
		Doc: "The cache key of a determinised state keeps the order of its threads. determinize builds the successor from the list of NFA states in thread-priority order and cuts it off behind the first match state (break-at-match), so two lists with the same members in different order have different successors ({loop, match} after 'p' and {match, restart} after '7' for p*[p7]). The key under which determinize looks the successor up and stores it (the key argument of the lookup/store pair of R-MEMOKEY inside determinize) is therefore computed from the list as it stands: the key function reaches, up to three calls deep, no routine that permutes a slice, and the list it is given was not handed to such a routine by the function that returned it (a store into s[i] of a value loaded from s[j]; sort.*, slices.Sort*). A 'canonical (sorted) key, fewer cache entries' makes the answer depend on which of the two states an earlier search built first: after Find('p'), Find('7p') returns [1 2] for [0 1] (C13 no history, C02, C14).",
		Min: 1, NeedSSA: true,
		Run: func(p *core.Prog) *core.RuleResult {
			res := &core.RuleResult{}
			pairs := findMemoPairs(p)
			var reach func(fn *ssa.Function, depth int, seen map[*ssa.Function]bool) string
			reach = func(fn *ssa.Function, depth int, seen map[*ssa.Function]bool) string {
				if fn == nil || seen[fn] || depth > 3 {
					return ""
				}
				seen[fn] = true
				if isStdSort(fn) {
					return core.FuncName(fn)
				}
				if fn.Blocks == nil {
					return ""
				}
				if permutes(fn) {
					return core.FuncName(fn)
				}
				for _, b := range fn.Blocks {
					for _, in := range b.Instrs {
						if c, ok := in.(ssa.CallInstruction); ok {
							if cal := c.Common().StaticCallee(); cal != nil {
								if w := reach(cal, depth+1, seen); w != "" {
									return w
								}
							}
						}
					}
				}
				return ""
			}
			for _, fn := range p.SrcFuncs() {
				if fn.Name() != "determinize" || fn.Pkg == nil || !strings.HasSuffix(fn.Pkg.Pkg.Path(), "/dfa/lazy") {
					continue
				}
				for _, b := range fn.Blocks {
					for _, in := range b.Instrs {
						c, ok := in.(*ssa.Call)
						if !ok {
							continue
						}
						cal := c.Call.StaticCallee()
						if cal == nil || cal.Signature.Recv() == nil {
							continue
						}
						t := cal.Signature.Recv().Type()
						if pt, ok := t.(*types.Pointer); ok {
							t = pt.Elem()
						}
						nm, _ := t.(*types.Named)
						isGet := false
						for _, mp := range pairs[nm] {
							if cal.Object() == mp.get {
								isGet = true
							}
						}
						if !isGet || len(c.Call.Args) < 2 {
							continue
						}
						kcall, ok := c.Call.Args[1].(*ssa.Call)
						if !ok || kcall.Call.StaticCallee() == nil {
							res.Obligations = append(res.Obligations, core.Obligation{Key: "R-ORDKEY|" + core.FuncName(fn) + "|key of the successor lookup", Pos: p.Pos(c.Pos()), Nontrivial: true, Status: core.Undecided, Detail: "the lookup key is not the result of a key function call"})
							continue
						}
						K := kcall.Call.StaticCallee()
						o := core.Obligation{Key: "R-ORDKEY|" + core.FuncName(fn) + "|key of the successor lookup keeps thread order", Pos: p.Pos(kcall.Pos()), Nontrivial: true}
						bad := reach(K, 0, map[*ssa.Function]bool{})
						where := "the key function " + K.Name()
						if bad == "" {
							// producers of the list arguments: the value they return has not been through a permuting routine
							for _, a := range kcall.Call.Args {
								if _, isSl := a.Type().Underlying().(*types.Slice); !isSl {
									continue
								}
								if pc, ok := a.(*ssa.Call); ok && pc.Call.StaticCallee() != nil {
									if w := returnsPermuted(pc.Call.StaticCallee(), 0, map[*ssa.Function]bool{}); w != "" {
										bad = w
										where = "the producer of its list argument, " + pc.Call.StaticCallee().Name() + ", returns a slice that"
									}
								}
							}
						}
						if bad == "" {
							o.Status = core.Discharged
							o.Detail = fmt.Sprintf("%s and the producers of its list argument reach no permuting routine", K.Name())
						} else {
							o.Status = core.Violated
							o.Detail = fmt.Sprintf("%s reaches %s, which reorders a slice: states that differ only in thread order share one cache entry, and whichever was built first answers for the other", where, bad)
						}
						res.Obligations = append(res.Obligations, o)
					}
				}
			}
			return res
		},
	})
}
