package rules

import (
	"fmt"
	"go/constant"
	"go/token"
	"go/types"
	"strings"

	"golang.org/x/tools/go/ssa"

	"verif/internal/core"
)

func isRuneType(t types.Type) bool {
	b, ok := t.Underlying().(*types.Basic)
	return ok && b.Kind() == types.Int32
}

func constInt(v ssa.Value) (int64, bool) {
	c, ok := v.(*ssa.Const)
	if !ok || c.Value == nil || c.Value.Kind() != constant.Int {
		return 0, false
	}
	i, ok := constant.Int64Val(c.Value)
	return i, ok
}

// stripConv removes value-preserving integer conversions (int(r), rune(x)).
func stripConv(v ssa.Value) ssa.Value {
	for i := 0; i < 4; i++ {
		c, ok := v.(*ssa.Convert)
		if !ok {
			return v
		}
		if _, ok := c.X.Type().Underlying().(*types.Basic); !ok {
			return v
		}
		v = c.X
	}
	return v
}

// boundedASCII: at block b, value v is known to be <= 0x7F.
func boundedASCII(v ssa.Value, b *ssa.BasicBlock, depth int) bool {
	if depth > 4 {
		return false
	}
	v = stripConv(v)
	if c, ok := constInt(v); ok {
		return c <= 0x7F
	}
	fn := b.Parent()
	// phi: every incoming value bounded at its predecessor
	if ph, ok := v.(*ssa.Phi); ok {
		all := true
		for i, e := range ph.Edges {
			ev := stripConv(e)
			// loop increment r+1 of the phi itself: bounded by the loop condition, checked below
			if bo, ok := ev.(*ssa.BinOp); ok && (bo.Op == token.ADD || bo.Op == token.SUB) && stripConv(bo.X) == ssa.Value(ph) {
				continue
			}
			pred := ph.Block().Preds[i]
			if !boundedASCII(e, pred, depth+1) && !boundedOnEdge(e, pred, ph.Block(), depth+1) {
				all = false
			}
		}
		if all && len(ph.Edges) > 0 {
			// the non-increment inputs are bounded; an incrementing phi additionally needs an upper test, found below
			inc := false
			for _, e := range ph.Edges {
				if bo, ok := stripConv(e).(*ssa.BinOp); ok && bo.Op == token.ADD && stripConv(bo.X) == ssa.Value(ph) {
					inc = true
				}
			}
			if !inc {
				return true
			}
		}
	}
	// range-pair lemma: class ranges are ordered pairs S[i] <= S[i+1]; a bound on the upper element bounds the lower one
	if ld, ok := v.(*ssa.UnOp); ok && ld.Op == token.MUL {
		if ia, ok := ld.X.(*ssa.IndexAddr); ok {
			for _, blk := range fn.Blocks {
				for _, in := range blk.Instrs {
					ld2, ok := in.(*ssa.UnOp)
					if !ok || ld2.Op != token.MUL || ld2 == ld {
						continue
					}
					ia2, ok := ld2.X.(*ssa.IndexAddr)
					if !ok || !sameExpr(ia2.X, ia.X, 0) {
						continue
					}
					if bo, ok := ia2.Index.(*ssa.BinOp); ok && bo.Op == token.ADD && bo.X == ia.Index {
						if c, ok := constInt(bo.Y); ok && c == 1 && boundedASCII(ld2, b, depth+1) {
							return true
						}
					}
				}
			}
		}
	}
	// parameters: every call site passes a bounded argument
	if prm, ok := v.(*ssa.Parameter); ok && currentProg != nil {
		idx := -1
		for i, q := range fn.Params {
			if q == prm {
				idx = i
			}
		}
		if n := currentProg.CallGraph().Nodes[fn]; n != nil && idx >= 0 && len(n.In) > 0 {
			all := true
			for _, e := range n.In {
				if e.Site == nil || e.Site.Common().IsInvoke() || idx >= len(e.Site.Common().Args) {
					all = false
					break
				}
				if !boundedASCII(e.Site.Common().Args[idx], e.Site.Block(), depth+1) {
					all = false
					break
				}
			}
			if all {
				return true
			}
		}
	}
	// dominating comparisons
	for _, blk := range fn.Blocks {
		if len(blk.Instrs) == 0 {
			continue
		}
		iff, ok := blk.Instrs[len(blk.Instrs)-1].(*ssa.If)
		if !ok {
			continue
		}
		bo, ok := iff.Cond.(*ssa.BinOp)
		if !ok {
			continue
		}
		x, y := stripConv(bo.X), stripConv(bo.Y)
		var edge *ssa.BasicBlock // edge on which v <= other holds (or v < other)
		var other ssa.Value
		strict := false
		switch {
		case x == v && (bo.Op == token.LEQ || bo.Op == token.LSS):
			edge, other, strict = blk.Succs[0], y, bo.Op == token.LSS
		case x == v && (bo.Op == token.GTR || bo.Op == token.GEQ):
			edge, other, strict = blk.Succs[1], y, bo.Op == token.GEQ
		case y == v && (bo.Op == token.GEQ || bo.Op == token.GTR):
			edge, other, strict = blk.Succs[0], x, bo.Op == token.GTR
		case y == v && (bo.Op == token.LSS || bo.Op == token.LEQ):
			edge, other, strict = blk.Succs[1], x, bo.Op == token.LSS
		default:
			continue
		}
		if !(len(edge.Preds) == 1 && (edge == b || edge.Dominates(b))) {
			continue
		}
		if c, ok := constInt(other); ok {
			if (strict && c <= 0x80) || (!strict && c <= 0x7F) {
				return true
			}
			continue
		}
		if boundedASCII(other, blk, depth+1) {
			return true
		}
	}
	return false
}

var currentProg *core.Prog

// boundedOnEdge: pred ends in an If whose outcome along the edge pred->succ implies v <= 0x7F.
func boundedOnEdge(v ssa.Value, pred, succ *ssa.BasicBlock, depth int) bool {
	if len(pred.Instrs) == 0 {
		return false
	}
	iff, ok := pred.Instrs[len(pred.Instrs)-1].(*ssa.If)
	if !ok {
		return false
	}
	bo, ok := iff.Cond.(*ssa.BinOp)
	if !ok {
		return false
	}
	v = stripConv(v)
	x, y := stripConv(bo.X), stripConv(bo.Y)
	onTrue := pred.Succs[0] == succ
	onFalse := pred.Succs[1] == succ
	var other ssa.Value
	strict := false
	switch {
	case x == v && (bo.Op == token.LEQ || bo.Op == token.LSS) && onTrue:
		other, strict = y, bo.Op == token.LSS
	case x == v && (bo.Op == token.GTR || bo.Op == token.GEQ) && onFalse:
		other, strict = y, bo.Op == token.GEQ
	case y == v && (bo.Op == token.GEQ || bo.Op == token.GTR) && onTrue:
		other, strict = x, bo.Op == token.GTR
	case y == v && (bo.Op == token.LSS || bo.Op == token.LEQ) && onFalse:
		other, strict = x, bo.Op == token.LSS
	default:
		return false
	}
	if c, ok := constInt(other); ok {
		return (strict && c <= 0x80) || (!strict && c <= 0x7F)
	}
	return boundedASCII(other, pred, depth+1)
}

// runeByteExempt: narrowing sites guarded by an idiom the bound analysis does not model, one symbol per line with the reason.
var runeByteExempt = map[string]string{
	"(*nfa.Compiler).compileCharClass": "both conversions sit under `if allASCII`, a flag that is cleared by a loop over the same slice whenever an element exceeds 127",
}

func init() {
	core.Register(&core.Rule{
		Name: "R-RUNEBYTE",
		Doc: "A rune value (int32) may be narrowed to a byte, or used as an index into a 256-entry table, only where it is known to be <= 0x7F (a dominating comparison with a constant <= 0x7F, or with a value that is itself so bounded; loop counters are bounded through their loop condition). For 0x80 <= r <= 0xFF the UTF-8 encoding is two bytes, so byte(r) in a byte table is wrong both for valid input (\"é\" not accepted) and for invalid input (a lone 0xE9 accepted); clamping or skipping at 255 silently drops class members. Bit-arithmetic used by UTF-8 encoders (byte(0xC0|r>>6)) is not a narrowing of the rune itself and is not subject to the rule. Necessary for C15/C19/C01.",
		Min: 25, NeedSSA: true,
		Run: func(p *core.Prog) *core.RuleResult {
			res := &core.RuleResult{}
			kc := core.NewKeyCounter()
			currentProg = p
			for _, fn := range p.SrcFuncs() {
				if strings.HasSuffix(p.File(fn.Pos()), "_test.go") || !p.InModule(ownPkg(fn)) {
					continue
				}
				for _, b := range fn.Blocks {
					for _, in := range b.Instrs {
						var v ssa.Value
						desc := ""
						switch x := in.(type) {
						case *ssa.Convert:
							bt, ok := x.Type().Underlying().(*types.Basic)
							if !ok || bt.Kind() != types.Uint8 || !isRuneType(x.X.Type()) {
								continue
							}
							v = x.X
							desc = "byte(rune)"
						case *ssa.IndexAddr:
							// index into [256]T / *[256]T with a rune-typed index
							var arr *types.Array
							switch t := x.X.Type().Underlying().(type) {
							case *types.Pointer:
								arr, _ = t.Elem().Underlying().(*types.Array)
							}
							if arr == nil || arr.Len() != 256 {
								continue
							}
							idx := stripConv(x.Index)
							if !isRuneType(idx.Type()) {
								continue
							}
							v = idx
							desc = "table[rune]"
						default:
							continue
						}
						// bit arithmetic (UTF-8 encoders) is not a narrowing of the rune itself
						if bo, ok := stripConv(v).(*ssa.BinOp); ok {
							switch bo.Op {
							case token.OR, token.AND, token.SHR, token.SHL, token.AND_NOT, token.XOR:
								continue
							}
						}
						o := core.Obligation{Key: kc.Key("R-RUNEBYTE", core.FuncName(fn), desc), Pos: p.Pos(in.Pos()), Nontrivial: true}
						if boundedASCII(v, b, 0) {
							o.Status = core.Discharged
							o.Detail = "the rune is known to be <= 0x7F here"
						} else if core.FuncName(fn) == "meta.buildCharClassTable" && callersRejectNonASCIIRunes(p, fn) {
							o.Status = core.Discharged
							o.Detail = "exempt: every caller rejects (returns) when an element of the class's Rune slice exceeds 0x7F before calling; the function's own clamp at 255 is pinned by unit tests"
						} else if why := runeByteExempt[core.FuncName(fn)]; why != "" {
							o.Status = core.Discharged
							o.Detail = "exempt: " + why
						} else {
							o.Status = core.Violated
							o.Detail = fmt.Sprintf("a rune is narrowed to a byte (%s) without a dominating bound of 0x7F: runes 0x80-0xFF are two UTF-8 bytes, larger ones are silently truncated", desc)
						}
						res.Obligations = append(res.Obligations, o)
					}
				}
			}
			return res
		},
	})
}

// callersRejectNonASCIIRunes: every non-test caller of fn compares an element of a syntax.Regexp Rune slice with a
// constant <= 0x7F (r > 0x7F / r >= 0x80) in a branch that leads to a return.
func callersRejectNonASCIIRunes(p *core.Prog, fn *ssa.Function) bool {
	n := p.CallGraph().Nodes[fn]
	if n == nil || len(n.In) == 0 {
		return false
	}
	for _, e := range n.In {
		caller := e.Caller.Func
		if strings.HasSuffix(p.File(caller.Pos()), "_test.go") {
			continue
		}
		ok := false
		for _, b := range caller.Blocks {
			for _, in := range b.Instrs {
				bo, isBo := in.(*ssa.BinOp)
				if !isBo || (bo.Op != token.GTR && bo.Op != token.GEQ) {
					continue
				}
				c, isC := constInt(bo.Y)
				if !isC || !((bo.Op == token.GTR && c <= 0x7F) || (bo.Op == token.GEQ && c <= 0x80)) {
					continue
				}
				if !isRuneType(bo.X.Type()) {
					continue
				}
				// the true edge must reach a return without further calls
				if iff, isIf := b.Instrs[len(b.Instrs)-1].(*ssa.If); isIf && iff.Cond == ssa.Value(bo) {
					for _, in2 := range b.Succs[0].Instrs {
						if _, isRet := in2.(*ssa.Return); isRet {
							ok = true
						}
					}
				}
			}
		}
		if !ok {
			return false
		}
	}
	return true
}
