package rules

import (
	"fmt"
	"go/token"
	"go/types"
	"sort"
	"strings"

	"golang.org/x/tools/go/ssa"

	"verif/internal/core"
)

// leftmostFirstSpanMethods: methods of the forward lazy DFA that return a match end chosen by leftmost-first priority.
var leftmostFirstSpanMethods = map[string]bool{"SearchAt": true, "Find": true, "FindAt": true, "SearchAtAnchored": true, "SearchFirstAt": true}

// longestExempt: functions whose leftmost-first span is also the leftmost-longest one, with the reason.
var longestExempt = map[string]string{
	"(*meta.Engine).findAdaptive":        adaptiveWhy,
	"(*meta.Engine).findIndicesAdaptive": adaptiveWhy,
}

const adaptiveWhy = "the FindMatch shortcut of the adaptive (UseBoth) helpers is unreachable: selectStrategy returns UseBoth only after the literal analysis found neither good nor Teddy literals (both lead to UseDFA/UseNFA/UseTeddy earlier), so e.prefilter is never a whole-match finder under this strategy; no pattern reaching it could be constructed"

// spanReachesResult: the value of call c reaches a return operand of fn through arithmetic, phis, tuples and
// package-level constructors (NewMatch), not through another engine's search (a method call), and not only through comparisons.
func spanReachesResult(fn *ssa.Function, c *ssa.Call) bool {
	var dep func(v ssa.Value, seen map[ssa.Value]bool) bool
	dep = func(v ssa.Value, seen map[ssa.Value]bool) bool {
		if v == ssa.Value(c) {
			return true
		}
		if v == nil || seen[v] {
			return false
		}
		seen[v] = true
		switch x := v.(type) {
		case *ssa.BinOp:
			switch x.Op {
			case token.EQL, token.NEQ, token.LSS, token.LEQ, token.GTR, token.GEQ:
				return false
			}
			return dep(x.X, seen) || dep(x.Y, seen)
		case *ssa.Phi:
			for _, e := range x.Edges {
				if dep(e, seen) {
					return true
				}
			}
		case *ssa.Convert:
			return dep(x.X, seen)
		case *ssa.Extract:
			// the boolean component of a (span, found) result says whether a match exists, which does not depend on
			// the match mode; only the span components are leftmost-first
			if bt, ok := x.Type().Underlying().(*types.Basic); ok && bt.Kind() == types.Bool {
				return false
			}
			return dep(x.Tuple, seen)
		case *ssa.MakeInterface:
			return dep(x.X, seen)
		case *ssa.Slice:
			return dep(x.X, seen)
		case *ssa.UnOp:
			if x.Op != token.MUL {
				return dep(x.X, seen)
			}
			// load: follow the stores into the local cell / array it reads (defer-spilled results, [2]int{start, end})
			root := x.X
			for {
				switch a := root.(type) {
				case *ssa.IndexAddr:
					root = a.X
					continue
				case *ssa.FieldAddr:
					root = a.X
					continue
				}
				break
			}
			al, ok := root.(*ssa.Alloc)
			if !ok {
				return false
			}
			return allocHolds(al, func(v ssa.Value) bool { return dep(v, seen) })
		case *ssa.Alloc:
			return allocHolds(x, func(v ssa.Value) bool { return dep(v, seen) })
		case *ssa.Call:
			if bi, ok := x.Call.Value.(*ssa.Builtin); ok && bi.Name() == "append" {
				for _, a := range x.Call.Args {
					if dep(a, seen) {
						return true
					}
				}
				return false
			}
			if cal := x.Call.StaticCallee(); cal != nil && cal.Signature.Recv() == nil && !x.Call.IsInvoke() {
				for _, a := range x.Call.Args {
					if dep(a, seen) {
						return true
					}
				}
			}
		}
		return false
	}
	comp, cyclic := blockSCCs(fn)
	for _, b := range fn.Blocks {
		for _, in := range b.Instrs {
			switch r := in.(type) {
			case *ssa.Return:
				for _, rv := range r.Results {
					if dep(rv, map[ssa.Value]bool{}) {
						return true
					}
				}
			case *ssa.Call:
				// the span steers the iteration: it reaches the position argument of a leftmost-first DFA call of the same loop
				cal := r.Call.StaticCallee()
				if cal == nil || !leftmostFirstSpanMethods[cal.Name()] || !cyclic[comp[b.Index]] {
					continue
				}
				for _, a := range r.Call.Args {
					if isIntType(a.Type()) && dep(a, map[ssa.Value]bool{}) {
						return true
					}
				}
			}
		}
	}
	return false
}

// allocHolds: some store into the local cell (or an element/field of it) stores a value satisfying pred.
func allocHolds(al *ssa.Alloc, pred func(ssa.Value) bool) bool {
	var visit func(addr ssa.Value, depth int) bool
	visit = func(addr ssa.Value, depth int) bool {
		if depth > 3 || addr.Referrers() == nil {
			return false
		}
		for _, r := range *addr.Referrers() {
			switch x := r.(type) {
			case *ssa.Store:
				if x.Addr == addr && pred(x.Val) {
					return true
				}
			case *ssa.IndexAddr:
				if visit(x, depth+1) {
					return true
				}
			case *ssa.FieldAddr:
				if visit(x, depth+1) {
					return true
				}
			}
		}
		return false
	}
	return visit(al, 0)
}

// returnsSpan: the method returns a match position - (int, int, bool), *Match - rather than a boolean.
func returnsSpan(fn *ssa.Function) bool {
	rs := fn.Signature.Results()
	switch rs.Len() {
	case 1:
		return strings.HasSuffix(rs.At(0).Type().String(), "meta.Match")
	case 3:
		return isIntType(rs.At(0).Type()) && isIntType(rs.At(1).Type())
	}
	return false
}

// ownsLeftmostFirstDFA: t is (a pointer to) a struct declared in package meta with a field of type *lazy.DFA:
// a searcher that takes match positions from lazy automata of its own, which are built with break-at-match
// (leftmost-first) priority and never see the Engine's mode.
func ownsLeftmostFirstDFA(t types.Type) bool {
	if pt, ok := t.Underlying().(*types.Pointer); ok {
		t = pt.Elem()
	}
	nm, ok := t.(*types.Named)
	if !ok || nm.Obj().Pkg() == nil || !strings.HasSuffix(nm.Obj().Pkg().Path(), "/meta") {
		return false
	}
	st, ok := nm.Underlying().(*types.Struct)
	if !ok {
		return false
	}
	for i := 0; i < st.NumFields(); i++ {
		if strings.HasSuffix(st.Field(i).Type().String(), "dfa/lazy.DFA") {
			return true
		}
	}
	return false
}

// engineFieldOwner: v loads a field of *meta.Engine.
func engineFieldOwner(v ssa.Value) (*ssa.FieldAddr, bool) {
	if u, ok := v.(*ssa.UnOp); ok && u.Op == token.MUL {
		if fa, ok := u.X.(*ssa.FieldAddr); ok && strings.HasSuffix(fa.X.Type().String(), "meta.Engine") {
			return fa, true
		}
	}
	return nil, false
}

func isLongestLoad(v ssa.Value) bool {
	u, ok := v.(*ssa.UnOp)
	if !ok || u.Op != token.MUL {
		return false
	}
	fa, ok := u.X.(*ssa.FieldAddr)
	return ok && fieldNameOf(fa) == "longest" && strings.HasSuffix(fa.X.Type().String(), "meta.Engine")
}

// notLongestBlocks: blocks of fn that are only reached when e.longest is false.
func notLongestBlocks(fn *ssa.Function) func(b *ssa.BasicBlock) bool {
	var edges []*ssa.BasicBlock // blocks whose dominance proves !longest
	var impliesNot func(v ssa.Value, depth int) bool
	domBy := func(b *ssa.BasicBlock) bool {
		for _, e := range edges {
			if e == b || e.Dominates(b) {
				return true
			}
		}
		return false
	}
	impliesNot = func(v ssa.Value, depth int) bool {
		if depth > 6 {
			return false
		}
		switch x := v.(type) {
		case *ssa.UnOp:
			return x.Op == token.NOT && isLongestLoad(x.X)
		case *ssa.Phi:
			for i, e := range x.Edges {
				if c, ok := e.(*ssa.Const); ok && c.Value != nil && c.Value.String() == "false" {
					continue
				}
				if domBy(x.Block().Preds[i]) || impliesNot(e, depth+1) {
					continue
				}
				return false
			}
			return true
		}
		return false
	}
	for round := 0; round < 3; round++ {
		for _, b := range fn.Blocks {
			if len(b.Instrs) == 0 {
				continue
			}
			iff, ok := b.Instrs[len(b.Instrs)-1].(*ssa.If)
			if !ok {
				continue
			}
			var pass *ssa.BasicBlock
			switch {
			case isLongestLoad(iff.Cond):
				pass = b.Succs[1]
			case impliesNot(iff.Cond, 0):
				pass = b.Succs[0]
			}
			if pass != nil && len(pass.Preds) == 1 {
				dup := false
				for _, e := range edges {
					if e == pass {
						dup = true
					}
				}
				if !dup {
					edges = append(edges, pass)
				}
			}
		}
	}
	return domBy
}

func init() {
	core.Register(&core.Rule{
		Name: "R-LONGEST",
		Doc: "Leftmost-first automata are consulted for a span only in leftmost-first mode: in package meta, every call of a span-returning method of the forward lazy DFA (SearchAt, Find, FindAt, SearchAtAnchored, SearchFirstAt on the Engine's dfa field) sits in code that is only reached when e.longest is false - either the call is dominated by such a test in the same function, or every call site of the function inside the package is (transitively). The same holds for the literal engines that report the first alternative matching at a position: FindMatch of a complete literal prefilter reached through e.prefilter (Teddy) and Find/FindAt of e.ahoCorasick. And for the specialised searchers the Engine holds that carry lazy automata of their own (a field of a *...Searcher type of package meta with a *lazy.DFA inside: reverse anchored, suffix, suffix-set, inner, multiline): every call of a method of theirs that returns a position (*Match or (int, int, bool)) is only reached when e.longest is false - they never see the mode (pinned tree: \\w+ error(s|s found)? gave [0 10] on 'two errors found here' after Longest(), regexp [0 16]) => fixed. Boolean calls (IsMatch*) are exempt: whether a match exists does not depend on the mode. The forward DFA is built with break-at-match priority, so its match end is the leftmost-first one; a path that uses it without looking at the mode returns the same span in both modes and is wrong in one of them (distinguishability). Necessary for C10 (every API honours Longest) and C11.",
		Min: 40, NeedSSA: true,
		Run: func(p *core.Prog) *core.RuleResult {
			res := &core.RuleResult{}
			cg := p.CallGraph()
			kc := core.NewKeyCounter()
			guards := map[*ssa.Function]func(*ssa.BasicBlock) bool{}
			guardOf := func(fn *ssa.Function) func(*ssa.BasicBlock) bool {
				if g, ok := guards[fn]; ok {
					return g
				}
				g := notLongestBlocks(fn)
				guards[fn] = g
				return g
			}
			// callersGuarded: every in-package call site of fn is in !longest code (or its function is, transitively)
			var callersGuarded func(fn *ssa.Function, depth int, seen map[*ssa.Function]bool) (bool, string)
			callersGuarded = func(fn *ssa.Function, depth int, seen map[*ssa.Function]bool) (bool, string) {
				if depth > 5 || seen[fn] {
					return true, ""
				}
				seen[fn] = true
				n := cg.Nodes[fn]
				if n == nil || len(n.In) == 0 {
					return false, core.FuncName(fn) + " has no callers in the module: it is an entry point"
				}
				if fn.Object() != nil && fn.Object().Exported() && fn.Signature.Recv() != nil {
					return false, core.FuncName(fn) + " is exported: callers outside the package are not mode-guarded"
				}
				for _, e := range n.In {
					caller := e.Caller.Func
					if strings.HasSuffix(p.File(caller.Pos()), "_test.go") || e.Site == nil {
						continue
					}
					if guardOf(caller)(e.Site.Block()) {
						continue
					}
					if ok, why := callersGuarded(caller, depth+1, seen); !ok {
						return false, why
					}
				}
				return true, ""
			}
			var fns []*ssa.Function
			for _, fn := range p.SrcFuncs() {
				pk := ownPkg(fn)
				if pk == nil || !strings.HasSuffix(pk.Path(), "/meta") || strings.HasSuffix(p.File(fn.Pos()), "_test.go") {
					continue
				}
				fns = append(fns, fn)
			}
			sort.Slice(fns, func(i, j int) bool { return core.FuncName(fns[i]) < core.FuncName(fns[j]) })
			for _, fn := range fns {
				for _, b := range fn.Blocks {
					for _, in := range b.Instrs {
						c, ok := in.(*ssa.Call)
						if !ok {
							continue
						}
						cal := c.Call.StaticCallee()
						calName := ""
						switch {
						case cal != nil && cal.Signature.Recv() != nil && leftmostFirstSpanMethods[cal.Name()] && ownPkg(cal) != nil && strings.HasSuffix(ownPkg(cal).Path(), "/dfa/lazy"):
							// receiver is the Engine's forward dfa field
							if f := innerField(c.Call.Args[0]); f != nil && f.Name() == "dfa" {
								calName = cal.Name()
							}
						case cal != nil && cal.Signature.Recv() != nil && (cal.Name() == "Find" || cal.Name() == "FindAt") && len(c.Call.Args) > 0 && innerField(c.Call.Args[0]) != nil && innerField(c.Call.Args[0]).Name() == "ahoCorasick":
							// the Aho-Corasick literal engine (first alternative wins)
							calName = "ahoCorasick." + cal.Name()
						case cal != nil && cal.Signature.Recv() != nil && len(c.Call.Args) > 0 && returnsSpan(cal) && ownsLeftmostFirstDFA(cal.Signature.Recv().Type()):
							// a specialised searcher held by the Engine that carries automata of its own
							// (reverse anchored / suffix / suffix-set / inner / multiline searchers)
							if f := innerField(c.Call.Args[0]); f != nil && strings.HasSuffix(f.Type().String(), "Searcher") {
								if _, onEngine := engineFieldOwner(c.Call.Args[0]); onEngine {
									calName = f.Name() + "." + cal.Name()
								}
							}
						case c.Call.IsInvoke() && c.Call.Method.Name() == "FindMatch":
							// a literal prefilter that returns whole matches of varying length (Teddy), reached through e.prefilter
							v := c.Call.Value
							if ta, ok := v.(*ssa.TypeAssert); ok {
								v = ta.X
							}
							if ex, ok := v.(*ssa.Extract); ok {
								if ta, ok := ex.Tuple.(*ssa.TypeAssert); ok {
									v = ta.X
								}
							}
							if f := innerField(v); f != nil && f.Name() == "prefilter" {
								calName = "prefilter.FindMatch"
							}
						}
						if calName == "" {
							continue
						}
						o := core.Obligation{Key: kc.Key("R-LONGEST", core.FuncName(fn), "span from leftmost-first "+calName), Pos: p.Pos(c.Pos()), Nontrivial: true}
						if !spanReachesResult(fn, c) {
							o.Status = core.Discharged
							o.Detail = "the DFA's match end is only tested for existence or used as a position hint for another engine; it does not reach the function's result"
						} else if why := longestExempt[core.FuncName(fn)]; why != "" {
							o.Status = core.Discharged
							o.Detail = "exempt: " + why
						} else if guardOf(fn)(b) {
							o.Status = core.Discharged
							o.Detail = "the call is only reached when e.longest is false"
						} else if ok, why := callersGuarded(fn, 0, map[*ssa.Function]bool{}); ok {
							o.Status = core.Discharged
							o.Detail = "every call site of the function is only reached when e.longest is false"
						} else {
							o.Status = core.Violated
							o.Detail = fmt.Sprintf("the match end comes from the leftmost-first forward DFA without a test of e.longest on the way (%s): after Longest() this path still returns the leftmost-first span", why)
						}
						res.Obligations = append(res.Obligations, o)
					}
				}
			}
			return res
		},
	})
}
