package rules

import (
	"fmt"
	"go/token"
	"go/types"
	"sort"
	"strings"

	"golang.org/x/tools/go/ssa"

	"verif/internal/core"
	"verif/internal/own"
)

// ---------------------------------------------------------------------------------------------
// R-PAIR: a counter field incremented at function entry and decremented in the same function
// (recursion depth) must be decremented on every path to return.

func fieldIncDec(in ssa.Instruction) (fld *types.Var, base ssa.Value, delta int) {
	st, ok := in.(*ssa.Store)
	if !ok {
		return nil, nil, 0
	}
	fa, ok := st.Addr.(*ssa.FieldAddr)
	if !ok {
		return nil, nil, 0
	}
	bo, ok := st.Val.(*ssa.BinOp)
	if !ok || (bo.Op != token.ADD && bo.Op != token.SUB) {
		return nil, nil, 0
	}
	c, ok := constInt(bo.Y)
	if !ok || c != 1 {
		return nil, nil, 0
	}
	ld, ok := bo.X.(*ssa.UnOp)
	if !ok || ld.Op != token.MUL {
		return nil, nil, 0
	}
	fa2, ok := ld.X.(*ssa.FieldAddr)
	if !ok || fa2.Field != fa.Field || !sameExpr(fa2.X, fa.X, 0) {
		return nil, nil, 0
	}
	if bo.Op == token.ADD {
		return innerField(fa), fa.X, +1
	}
	return innerField(fa), fa.X, -1
}

func init() {
	core.Register(&core.Rule{
		Name: "R-PAIR",
		Doc: "Paired counter updates: in a function that both increments (x.f++) and decrements (x.f--, directly or in a deferred closure) the same integer field (the NFA compiler's recursion depth), every path from the increment to a return must pass the decrement, or the decrement must be deferred before any non-error return (an exit that returns a non-nil error aborts the whole compilation). A path that skips it leaks one level per call, so the depth limit is hit by patterns that are not deep (Compile rejects what regexp accepts: C09) or never hit by patterns that are.",
		Min: 1, NeedSSA: true,
		Run: func(p *core.Prog) *core.RuleResult {
			res := &core.RuleResult{}
			kc := core.NewKeyCounter()
			for _, fn := range p.SrcFuncs() {
				if strings.HasSuffix(p.File(fn.Pos()), "_test.go") || fn.Parent() != nil {
					continue
				}
				type site struct {
					b *ssa.BasicBlock
					i int
					f *types.Var
				}
				var incs []site
				decIn := map[*types.Var]bool{}
				for _, b := range fn.Blocks {
					for i, in := range b.Instrs {
						if f, _, d := fieldIncDec(in); f != nil {
							if d > 0 {
								incs = append(incs, site{b, i, f})
							} else {
								decIn[f] = true
							}
						}
					}
				}
				// decrements inside deferred closures
				deferDec := map[*types.Var][]*ssa.Defer{}
				for _, b := range fn.Blocks {
					for _, in := range b.Instrs {
						d, ok := in.(*ssa.Defer)
						if !ok {
							continue
						}
						var cl *ssa.Function
						switch v := d.Call.Value.(type) {
						case *ssa.MakeClosure:
							cl = v.Fn.(*ssa.Function)
						case *ssa.Function:
							cl = v
						}
						if cl == nil {
							continue
						}
						for _, cb := range cl.Blocks {
							for _, cin := range cb.Instrs {
								if f, _, dd := fieldIncDec(cin); f != nil && dd < 0 {
									deferDec[f] = append(deferDec[f], d)
								}
							}
						}
					}
				}
				for _, inc := range incs {
					if !decIn[inc.f] && len(deferDec[inc.f]) == 0 {
						continue // not a paired counter in this function
					}
					o := core.Obligation{Key: kc.Key("R-PAIR", core.FuncName(fn), "increment of "+inc.f.Name()+" paired"), Pos: p.Pos(inc.b.Instrs[inc.i].Pos()), Nontrivial: true}
					bad := ""
					visited := map[*ssa.BasicBlock]bool{}
					var walk func(b *ssa.BasicBlock, i int)
					walk = func(b *ssa.BasicBlock, i int) {
						if bad != "" {
							return
						}
						for ; i < len(b.Instrs); i++ {
							in := b.Instrs[i]
							if f, _, d := fieldIncDec(in); f == inc.f && d < 0 {
								return
							}
							if d, ok := in.(*ssa.Defer); ok {
								for _, dd := range deferDec[inc.f] {
									if dd == d {
										return
									}
								}
							}
							if r, ok := in.(*ssa.Return); ok {
								// error exits abort the whole operation: the counter's owner is discarded
								if n := len(r.Results); n > 0 && isErrorType(r.Results[n-1].Type()) && !isNilConst(r.Results[n-1]) {
									return
								}
								bad = fmt.Sprintf("the return at %s is reached after %s++ without the matching decrement", p.Pos(r.Pos()), inc.f.Name())
								return
							}
						}
						for _, s := range b.Succs {
							if !visited[s] {
								visited[s] = true
								walk(s, 0)
							}
						}
					}
					walk(inc.b, inc.i+1)
					if bad == "" {
						o.Status = core.Discharged
						o.Detail = "every path to return passes the decrement (or it is deferred)"
					} else {
						o.Status = core.Violated
						o.Detail = bad + ": the counter leaks one level per call"
					}
					res.Obligations = append(res.Obligations, o)
				}
			}
			return res
		},
	})

	// -----------------------------------------------------------------------------------------
	// R-COPYFRESH: a copy of the compiled value must not share the sub-object that the value's own
	// mutators write through.
	core.Register(&core.Rule{
		Name: "R-COPYFRESH",
		Doc: "Copies do not share mode-carrying state: for the compiled value type (coregex.Regex), a pointer field through which one of its documented mutators (Longest) calls a mutator of the pointee (Engine.SetLongest) is mode-carrying; no method of the type may return a new value of the type whose mode-carrying field is the receiver's own pointer (a shallow copy `re := *r`, or engine: r.engine). Otherwise Longest() on a copy changes the original and vice versa (C10: the mode belongs to one Regex value; C09: Copy agrees with regexp).",
		Min: 1, NeedSSA: true,
		Run: func(p *core.Prog) *core.RuleResult {
			res := &core.RuleResult{}
			named := p.LookupType("", "Regex")
			if named == nil {
				res.Fatal = append(res.Fatal, "coregex.Regex not found")
				return res
			}
			st := named.Underlying().(*types.Struct)
			// mode-carrying fields: pointer fields on which a mutator method of Regex calls a mutator method
			carrying := map[int]string{}
			ms := p.SSA.MethodSets.MethodSet(types.NewPointer(named))
			for i := 0; i < ms.Len(); i++ {
				fn := p.SSA.MethodValue(ms.At(i))
				if fn == nil || fn.Blocks == nil || !own.Mutators[fn.Name()] || len(fn.Params) == 0 {
					continue
				}
				for _, b := range fn.Blocks {
					for _, in := range b.Instrs {
						c, ok := in.(*ssa.Call)
						if !ok || len(c.Call.Args) == 0 {
							continue
						}
						cal := c.Call.StaticCallee()
						if cal == nil || !own.Mutators[cal.Name()] {
							continue
						}
						if ld, ok := c.Call.Args[0].(*ssa.UnOp); ok && ld.Op == token.MUL {
							if fa, ok := ld.X.(*ssa.FieldAddr); ok && fa.X == ssa.Value(fn.Params[0]) {
								carrying[fa.Field] = fn.Name() + " -> " + cal.Name()
							}
						}
					}
				}
			}
			if len(carrying) == 0 {
				res.Fatal = append(res.Fatal, "no mode-carrying field of Regex found (Longest no longer writes through a field?)")
				return res
			}
			var names []string
			for i, why := range carrying {
				names = append(names, st.Field(i).Name()+" ("+why+")")
			}
			sort.Strings(names)
			res.Notes = append(res.Notes, fmt.Sprintf("mode-carrying fields of Regex: %v", names))
			for i := 0; i < ms.Len(); i++ {
				fn := p.SSA.MethodValue(ms.At(i))
				if fn == nil || fn.Blocks == nil || len(fn.Params) == 0 {
					continue
				}
				r := fn.Signature.Results()
				if r.Len() == 0 || namedOfType(r.At(0).Type()) != named {
					continue
				}
				recv := fn.Params[0]
				o := core.Obligation{Key: "R-COPYFRESH|" + core.FuncName(fn) + "|result does not share the receiver's engine", Pos: p.Pos(fn.Pos()), Nontrivial: true, Status: core.Discharged, Detail: "the returned value's mode-carrying field does not come from the receiver"}
				for _, b := range fn.Blocks {
					for _, in := range b.Instrs {
						stt, ok := in.(*ssa.Store)
						if !ok {
							continue
						}
						// whole-struct copy *new = *r
						if ld, ok := stt.Val.(*ssa.UnOp); ok && ld.Op == token.MUL && ld.X == ssa.Value(recv) && namedOfType(stt.Addr.Type()) == named {
							o.Status = core.Violated
							o.Detail = fmt.Sprintf("%s copies the whole receiver struct into the returned value (shallow copy at %s): the copy shares the engine pointer that Longest() mutates", fn.Name(), p.Pos(stt.Pos()))
						}
						// field copy new.f = r.f
						if fa, ok := stt.Addr.(*ssa.FieldAddr); ok && namedOfType(fa.X.Type()) == named && fa.X != ssa.Value(recv) {
							if _, isCarry := carrying[fa.Field]; isCarry {
								if ld, ok := stt.Val.(*ssa.UnOp); ok && ld.Op == token.MUL {
									if fa2, ok := ld.X.(*ssa.FieldAddr); ok && fa2.X == ssa.Value(recv) && fa2.Field == fa.Field {
										o.Status = core.Violated
										o.Detail = fmt.Sprintf("%s stores the receiver's own %s pointer into the returned value (%s): the two values share the object that Longest() mutates", fn.Name(), st.Field(fa.Field).Name(), p.Pos(stt.Pos()))
									}
								}
							}
						}
					}
				}
				res.Obligations = append(res.Obligations, o)
			}
			return res
		},
	})

	// -----------------------------------------------------------------------------------------
	// R-MODEPROP: the getter of pooled per-search state copies the engine's match mode into the state on every path.
	core.Register(&core.Rule{
		Name: "R-MODEPROP",
		Doc: "Mode propagation into recycled state: in the wrapper that hands out pooled per-search state (getSearchState), every assignment of the engine's mode flag into a component of the state (a store of a value loaded from a boolean field of the receiver, or a setter call with such a value) must be reached on every path from the function entry to return that does not go through a nil test of that component - in particular it may not be confined to the 'fresh from the pool' branch, because the single-slot cache hands back states that were configured before the last Longest() call. (b) Engine.SetLongest forwards the mode to every field of the Engine whose type has a SetLongest method of its own (pinned tree: the ASCII-only bounded backtracker was left out, ^(.|..) replaced one byte instead of two in longest mode) => fixed. Necessary for C10 (every API honours the mode) and C11 (Find and FindSubmatch agree).",
		Min: 5, NeedSSA: true,
		Run: func(p *core.Prog) *core.RuleResult {
			res := &core.RuleResult{}
			pf := computePoolFacts(p)
			kc := core.NewKeyCounter()
			for fn := range pf.getters {
				if fn.Blocks == nil || fn.Signature.Recv() == nil || len(fn.Params) == 0 {
					continue
				}
				recv := fn.Params[0]
				isModeValue := func(v ssa.Value) *types.Var {
					ld, ok := v.(*ssa.UnOp)
					if !ok || ld.Op != token.MUL {
						return nil
					}
					fa, ok := ld.X.(*ssa.FieldAddr)
					if !ok || fa.X != ssa.Value(recv) {
						return nil
					}
					f := innerField(fa)
					if f != nil && types.Identical(f.Type().Underlying(), types.Typ[types.Bool]) {
						return f
					}
					return nil
				}
				for _, b := range fn.Blocks {
					for _, in := range b.Instrs {
						var mode *types.Var
						var target string
						var comp ssa.Value // the state component written through
						switch x := in.(type) {
						case *ssa.Store:
							if mode = isModeValue(x.Val); mode != nil {
								target = storeDescOf(x.Addr)
								if fa, ok := x.Addr.(*ssa.FieldAddr); ok {
									comp = fa.X
								}
							}
						case *ssa.Call:
							for _, a := range x.Call.Args[min(1, len(x.Call.Args)):] {
								if m := isModeValue(a); m != nil {
									mode = m
									if cal := x.Call.StaticCallee(); cal != nil {
										target = cal.Name()
									}
									if len(x.Call.Args) > 0 {
										comp = x.Call.Args[0]
									}
								}
							}
						}
						if mode == nil {
							continue
						}
						o := core.Obligation{Key: kc.Key("R-MODEPROP", core.FuncName(fn), "propagates "+mode.Name()+" via "+target), Pos: p.Pos(in.Pos()), Nontrivial: true}
						// every path entry->return must pass through this block unless it takes the nil edge of a test on the component
						bad := pathAvoiding(fn, b, comp)
						if bad == "" {
							o.Status = core.Discharged
							o.Detail = "executed on every path to return (except where the component is nil)"
						} else {
							o.Status = core.Violated
							o.Detail = "the engine's mode flag is copied into the handed-out state only on some paths (" + bad + "): a state parked before Longest() keeps the old mode"
						}
						res.Obligations = append(res.Obligations, o)
					}
				}
			}
			// (b) the engine's own mode setter reaches every component that has a setter of the same name
			for _, fn := range p.SrcFuncs() {
				if fn.Name() != "SetLongest" || fn.Signature.Recv() == nil || !strings.HasSuffix(fn.Signature.Recv().Type().String(), "meta.Engine") || fn.Blocks == nil {
					continue
				}
				st, ok := fn.Signature.Recv().Type().Underlying().(*types.Pointer).Elem().Underlying().(*types.Struct)
				if !ok {
					continue
				}
				called := map[string]bool{}
				for _, b := range fn.Blocks {
					for _, in := range b.Instrs {
						c, ok := in.(*ssa.Call)
						if !ok || len(c.Call.Args) == 0 {
							continue
						}
						if cal := c.Call.StaticCallee(); cal != nil && cal.Name() == "SetLongest" {
							if f := innerField(c.Call.Args[0]); f != nil {
								called[f.Name()] = true
							}
						}
					}
				}
				for i := 0; i < st.NumFields(); i++ {
					f := st.Field(i)
					ms := types.NewMethodSet(f.Type())
					has := false
					for j := 0; j < ms.Len(); j++ {
						if ms.At(j).Obj().Name() == "SetLongest" {
							has = true
						}
					}
					if !has {
						continue
					}
					o := core.Obligation{Key: "R-MODEPROP|" + core.FuncName(fn) + "|reaches component " + f.Name(), Pos: p.Pos(fn.Pos()), Nontrivial: true}
					if called[f.Name()] {
						o.Status = core.Discharged
						o.Detail = "SetLongest is forwarded to e." + f.Name()
					} else {
						o.Status = core.Violated
						o.Detail = "the Engine holds e." + f.Name() + ", whose type has a SetLongest method, but Engine.SetLongest never calls it: searches through that component keep the mode it was built with"
					}
					res.Obligations = append(res.Obligations, o)
				}
			}
			return res
		},
	})

	// -----------------------------------------------------------------------------------------
	// R-ITERSTATE: iterator closures keep their cursor inside the closure.
	core.Register(&core.Rule{
		Name: "R-ITERSTATE",
		Doc: "Iterators restart: a method that returns an iterator function (a closure taking a yield callback: AllIndex, All, AllString, AllStringIndex) must keep the traversal cursor inside the closure; the closure may not write variables captured from the enclosing method: no store to a captured variable or to a field of one, and no call that hands a captured variable (or an object the enclosing method allocated and captured by pointer) to a callee that writes through that parameter (a cursor struct with a next method). A cursor that lives in the method body belongs to the iterator value, so ranging over the same value twice, after a break, or nested yields a different sequence than FindAllIndex (C04).",
		Min: 2, NeedSSA: true,
		Run: func(p *core.Prog) *core.RuleResult {
			res := &core.RuleResult{}
			for _, fn := range own.SearchRootMethods(p) {
				for _, an := range fn.AnonFuncs {
					// iterator closure: exactly one parameter of function type returning bool
					if len(an.Params) != 1 {
						continue
					}
					sig, ok := an.Params[0].Type().Underlying().(*types.Signature)
					if !ok || sig.Results().Len() != 1 {
						continue
					}
					o := core.Obligation{Key: "R-ITERSTATE|" + core.FuncName(an) + "|cursor is local to the traversal", Pos: p.Pos(an.Pos()), Nontrivial: true, Status: core.Discharged, Detail: "the iterator closure writes no variable captured from the enclosing method"}
					ownAlloc := map[ssa.Value]bool{}
					var check func(f *ssa.Function, outer map[ssa.Value]bool)
					check = func(f *ssa.Function, outer map[ssa.Value]bool) {
						for _, b := range f.Blocks {
							for _, in := range b.Instrs {
								if st, ok := in.(*ssa.Store); ok {
									if fv := outerCell(st.Addr, outer); fv != nil {
										o.Status = core.Violated
										o.Detail = fmt.Sprintf("the iterator closure stores to the captured variable %s of the enclosing method (%s): the cursor survives between traversals of the same iterator value", fv.Name(), p.Pos(st.Pos()))
									}
								}
								// the same through a helper: a captured variable of the enclosing method (or an object that method
								// allocated and captured by pointer) is handed to a callee that writes through that parameter
								if c, ok := in.(ssa.CallInstruction); ok {
									cal := c.Common().StaticCallee()
									if cal == nil || cal.Blocks == nil {
										continue
									}
									for ai, a := range c.Common().Args {
										fv := outerCell(a, outer)
										if fv == nil {
											if ld, isLd := a.(*ssa.UnOp); isLd && ld.Op == token.MUL {
												if f2, isFV := ld.X.(*ssa.FreeVar); isFV && outer[f2] && ownAlloc[f2] {
													fv = f2
												}
											}
										}
										if fv != nil && writesViaParam(cal, ai, 0) {
											o.Status = core.Violated
											o.Detail = fmt.Sprintf("the iterator closure hands the captured variable %s of the enclosing method to %s, which writes through it (%s): the cursor lives in the iterator value and survives between traversals", fv.Name(), core.FuncName(cal), p.Pos(c.Pos()))
										}
									}
								}
							}
						}
					}
					outer := map[ssa.Value]bool{}
					for _, fv := range an.FreeVars {
						outer[fv] = true
					}
					// captured cells that hold a pointer to an object the enclosing method allocated itself
					for _, b := range fn.Blocks {
						for _, ins := range b.Instrs {
							mc, ok := ins.(*ssa.MakeClosure)
							if !ok || mc.Fn != ssa.Value(an) {
								continue
							}
							for k, bd := range mc.Bindings {
								cell, ok := bd.(*ssa.Alloc)
								if !ok || k >= len(an.FreeVars) || cell.Referrers() == nil {
									continue
								}
								for _, r := range *cell.Referrers() {
									if st, ok := r.(*ssa.Store); ok && st.Addr == ssa.Value(cell) {
										if _, isAlloc := st.Val.(*ssa.Alloc); isAlloc {
											ownAlloc[an.FreeVars[k]] = true
										}
									}
								}
							}
						}
					}
					check(an, outer)
					// nested closures (range-over-func bodies) capturing the same outer cells
					for _, inner := range an.AnonFuncs {
						// map inner free vars that are bound to an's free vars
						in2 := map[ssa.Value]bool{}
						for _, b := range an.Blocks {
							for _, ins := range b.Instrs {
								if mc, ok := ins.(*ssa.MakeClosure); ok && mc.Fn == ssa.Value(inner) {
									for k, bd := range mc.Bindings {
										if outer[bd] && k < len(inner.FreeVars) {
											in2[inner.FreeVars[k]] = true
										}
									}
								}
							}
						}
						check(inner, in2)
					}
					res.Obligations = append(res.Obligations, o)
				}
			}
			return res
		},
	})
}

// outerCell: addr is a captured variable of the set, or a field/element address inside one (no load in between).
func outerCell(addr ssa.Value, outer map[ssa.Value]bool) *ssa.FreeVar {
	for d := 0; d < 6; d++ {
		switch x := addr.(type) {
		case *ssa.FreeVar:
			if outer[x] {
				return x
			}
			return nil
		case *ssa.FieldAddr:
			addr = x.X
		case *ssa.IndexAddr:
			addr = x.X
		default:
			return nil
		}
	}
	return nil
}

// writesViaParam: fn stores into memory reached from its parameter idx without a load in between (fields,
// elements), itself or through a callee it hands the parameter to (two deep).
func writesViaParam(fn *ssa.Function, idx, depth int) bool {
	if fn == nil || fn.Blocks == nil || idx >= len(fn.Params) || depth > 2 {
		return false
	}
	prm := ssa.Value(fn.Params[idx])
	from := func(addr ssa.Value) bool {
		for d := 0; d < 6; d++ {
			switch x := addr.(type) {
			case *ssa.FieldAddr:
				addr = x.X
			case *ssa.IndexAddr:
				addr = x.X
			default:
				return addr == prm
			}
		}
		return false
	}
	for _, b := range fn.Blocks {
		for _, in := range b.Instrs {
			switch x := in.(type) {
			case *ssa.Store:
				if from(x.Addr) {
					return true
				}
			case ssa.CallInstruction:
				cal := x.Common().StaticCallee()
				for ai, a := range x.Common().Args {
					if from(a) && writesViaParam(cal, ai, depth+1) {
						return true
					}
				}
			}
		}
	}
	return false
}

func storeDescOf(addr ssa.Value) string {
	if fa, ok := addr.(*ssa.FieldAddr); ok {
		if f := innerField(fa); f != nil {
			return f.Name()
		}
	}
	return "store"
}

// pathAvoiding: is there a path from fn's entry to a Return that does not pass through block target,
// not counting paths that take the nil edge of a comparison of comp (or the value it was loaded from) with nil?
func pathAvoiding(fn *ssa.Function, target *ssa.BasicBlock, comp ssa.Value) string {
	isNilTestOf := func(iff *ssa.If) (nilEdge int) {
		bo, ok := iff.Cond.(*ssa.BinOp)
		if !ok || (bo.Op != token.EQL && bo.Op != token.NEQ) {
			return -1
		}
		var other ssa.Value
		switch {
		case isNilConst(bo.Y):
			other = bo.X
		case isNilConst(bo.X):
			other = bo.Y
		default:
			return -1
		}
		if comp == nil || !(other == comp || sameExpr(other, comp, 0)) {
			return -1
		}
		if bo.Op == token.EQL {
			return 0
		}
		return 1
	}
	seen := map[*ssa.BasicBlock]bool{}
	bad := ""
	var walk func(b *ssa.BasicBlock)
	walk = func(b *ssa.BasicBlock) {
		if bad != "" || seen[b] || b == target {
			return
		}
		seen[b] = true
		for _, in := range b.Instrs {
			if _, ok := in.(*ssa.Return); ok {
				bad = "a path reaches return without it"
				return
			}
		}
		if len(b.Instrs) > 0 {
			if iff, ok := b.Instrs[len(b.Instrs)-1].(*ssa.If); ok {
				// conjunctions: e.boundedBacktracker != nil && state.backtracker != nil: any nil test edge is excused
				if ne := isNilTestOf(iff); ne >= 0 {
					walk(b.Succs[1-ne])
					return
				}
				// tests of other nil-ness (component absent) are also excused when they compare some value with nil
				if bo, ok := iff.Cond.(*ssa.BinOp); ok && (isNilConst(bo.X) || isNilConst(bo.Y)) && (bo.Op == token.EQL || bo.Op == token.NEQ) {
					if !feedsGetResult(bo) {
						ne := 0
						if bo.Op == token.NEQ {
							ne = 1
						}
						walk(b.Succs[1-ne])
						return
					}
				}
			}
		}
		for _, s := range b.Succs {
			walk(s)
		}
	}
	walk(fn.Blocks[0])
	return bad
}

// feedsGetResult: the nil comparison tests the state pointer obtained from the pool primitives (state == nil after Swap):
// that branch distinguishes "cached" from "fresh" states and is NOT an excuse.
func feedsGetResult(bo *ssa.BinOp) bool {
	for _, v := range []ssa.Value{bo.X, bo.Y} {
		v = stripAlias(v)
		if c, ok := v.(*ssa.Call); ok && primitiveGet(&c.Call) {
			return true
		}
	}
	return false
}

func isErrorType(t types.Type) bool {
	n, ok := t.(*types.Named)
	return ok && n.Obj().Name() == "error" && n.Obj().Pkg() == nil
}
