package rules

import (
	"fmt"
	"go/token"
	"go/types"
	"sort"
	"strings"

	"golang.org/x/tools/go/ssa"

	"verif/internal/core"
)

// R-CLONE: copy completeness. A method of *T that builds a fresh T and fills it from the receiver's fields
// (a clone) must carry over every field: a dropped field silently resets part of the value's meaning
// (e.g. a literal sequence's partial-coverage flag, a searcher's mode).

// cloneExempt: fields a clone legitimately does not carry over, one symbol per line with the reason.
var cloneExempt = map[string]string{}

func init() {
	core.Register(&core.Rule{
		Name: "R-CLONE",
		Doc: "Copy completeness: a method of *T (T a module struct) that returns a freshly allocated T and reads at least one field of its receiver is a clone (the new value is derived from the old one); it must assign every field of T in the new value (from the receiver or otherwise). A field the clone forgets is silently reset: a literal.Seq clone that drops partialCoverage turns a non-covering literal set back into one that may gate a search (C17/C16/C12), a state copy that drops the match mode changes semantics (C10).",
		Min: 3, NeedSSA: true,
		Run: func(p *core.Prog) *core.RuleResult {
			res := &core.RuleResult{}
			var clones []string
			for _, fn := range p.SrcFuncs() {
				if fn.Signature.Recv() == nil || strings.HasSuffix(p.File(fn.Pos()), "_test.go") || len(fn.Params) == 0 {
					continue
				}
				recvNamed := namedOfType(fn.Signature.Recv().Type())
				if recvNamed == nil || recvNamed.Obj().Pkg() == nil || !p.InModule(recvNamed.Obj().Pkg()) {
					continue
				}
				st, ok := recvNamed.Underlying().(*types.Struct)
				if !ok || st.NumFields() < 2 {
					continue
				}
				results := fn.Signature.Results()
				if results.Len() == 0 || namedOfType(results.At(0).Type()) != recvNamed {
					continue
				}
				recv := fn.Params[0]
				// fresh values of T built in this function (directly, or through a constructor of the same package) that are returned
				for _, b := range fn.Blocks {
					for _, in := range b.Instrs {
						var al ssa.Value
						assigned := map[int]bool{}
						fromRecv := 0
						switch x := in.(type) {
						case *ssa.Alloc:
							if namedOfType(x.Type()) != recvNamed {
								continue
							}
							al = x
						case *ssa.Call:
							cal := x.Call.StaticCallee()
							if cal == nil || cal.Pkg != fn.Pkg || cal.Signature.Recv() != nil || cal.Blocks == nil || namedOfType(x.Type()) != recvNamed {
								continue
							}
							ctorFields, isCtor := constructorFields(cal, recvNamed)
							if !isCtor {
								continue
							}
							for f := range ctorFields {
								assigned[f] = true
							}
							for _, a := range x.Call.Args {
								if derivedFromRecvField(a, recv, 0) {
									fromRecv++
								}
							}
							al = x
						default:
							continue
						}
						if !flowsToReturn(al, fn) {
							continue
						}
						if al.Referrers() != nil {
							for _, r := range *al.Referrers() {
								fa, ok := r.(*ssa.FieldAddr)
								if !ok || fa.Referrers() == nil {
									continue
								}
								for _, r2 := range *fa.Referrers() {
									if stt, ok := r2.(*ssa.Store); ok && stt.Addr == ssa.Value(fa) {
										assigned[fa.Field] = true
										if derivedFromRecvField(stt.Val, recv, 0) {
											fromRecv++
										}
									}
								}
							}
						}
						if fromRecv == 0 && !readsRecvField(fn, recv) {
							continue // a constructor-like method, not a clone
						}
						clones = append(clones, core.FuncName(fn))
						for i := 0; i < st.NumFields(); i++ {
							f := st.Field(i)
							fq := core.TypeName(recvNamed) + "." + f.Name()
							o := core.Obligation{Key: "R-CLONE|" + core.FuncName(fn) + "|copies " + fq, Pos: p.Pos(fn.Pos()), Nontrivial: true}
							switch {
							case !assigned[i] && zeroOnThisPath(fn, recv, i, in.Block()):
								o.Status = core.Discharged
								o.Detail = "the receiver's field is known to be nil/zero on the path that builds this value"
							case assigned[i]:
								o.Status = core.Discharged
								o.Detail = "field is assigned in the new value"
							case cloneExempt[fq] != "":
								o.Status = core.Discharged
								o.Detail = "exempt: " + cloneExempt[fq]
							default:
								o.Status = core.Violated
								o.Detail = fmt.Sprintf("%s builds a new %s from the receiver but does not carry over field %s: the copy silently resets it", fn.Name(), core.TypeName(recvNamed), f.Name())
							}
							res.Obligations = append(res.Obligations, o)
						}
					}
				}
			}
			sort.Strings(clones)
			res.Notes = append(res.Notes, fmt.Sprintf("clone-shaped methods: %v", clones))
			return res
		},
	})
}

func flowsToReturn(v ssa.Value, fn *ssa.Function) bool {
	seen := map[ssa.Value]bool{}
	var walk func(v ssa.Value) bool
	walk = func(v ssa.Value) bool {
		if seen[v] || v.Referrers() == nil {
			return false
		}
		seen[v] = true
		for _, r := range *v.Referrers() {
			switch x := r.(type) {
			case *ssa.Return:
				return true
			case *ssa.Phi:
				if walk(x) {
					return true
				}
			case *ssa.UnOp:
				if x.Op == token.MUL && walk(x) { // value receiver result: return *alloc
					return true
				}
			case *ssa.MakeInterface:
				if walk(x) {
					return true
				}
			}
		}
		return false
	}
	return walk(v)
}

func derivedFromRecvField(v ssa.Value, recv ssa.Value, depth int) bool {
	if depth > 8 {
		return false
	}
	switch x := v.(type) {
	case *ssa.UnOp:
		return derivedFromRecvField(x.X, recv, depth+1)
	case *ssa.FieldAddr:
		return x.X == recv || derivedFromRecvField(x.X, recv, depth+1)
	case *ssa.Field:
		return derivedFromRecvField(x.X, recv, depth+1)
	case *ssa.IndexAddr:
		return derivedFromRecvField(x.X, recv, depth+1)
	case *ssa.Slice:
		return derivedFromRecvField(x.X, recv, depth+1)
	case *ssa.Convert:
		return derivedFromRecvField(x.X, recv, depth+1)
	case *ssa.ChangeType:
		return derivedFromRecvField(x.X, recv, depth+1)
	case *ssa.Phi:
		for _, e := range x.Edges {
			if derivedFromRecvField(e, recv, depth+1) {
				return true
			}
		}
	case *ssa.Call:
		// copy helpers: a call whose arguments derive from the receiver's fields (append([]T(nil), r.x...), clone(r.x))
		for _, a := range x.Call.Args {
			if derivedFromRecvField(a, recv, depth+1) {
				return true
			}
		}
	case *ssa.MakeSlice, *ssa.Alloc:
		// a fresh buffer filled by copy(...) from the receiver: look for copy/stores using it
		val := v
		if val.Referrers() != nil {
			for _, r := range *val.Referrers() {
				if c, ok := r.(*ssa.Call); ok {
					if b, ok := c.Call.Value.(*ssa.Builtin); ok && b.Name() == "copy" && len(c.Call.Args) == 2 && c.Call.Args[0] == val {
						if derivedFromRecvField(c.Call.Args[1], recv, depth+1) {
							return true
						}
					}
				}
			}
		}
	}
	return false
}

// zeroOnThisPath: block b is reached only through the true edge of `recv.field == nil` (so leaving the field unset copies it).
func zeroOnThisPath(fn *ssa.Function, recv ssa.Value, field int, b *ssa.BasicBlock) bool {
	for _, blk := range fn.Blocks {
		if len(blk.Instrs) == 0 {
			continue
		}
		iff, ok := blk.Instrs[len(blk.Instrs)-1].(*ssa.If)
		if !ok {
			continue
		}
		bo, ok := iff.Cond.(*ssa.BinOp)
		if !ok || (bo.Op != token.EQL && bo.Op != token.NEQ) {
			continue
		}
		var other ssa.Value
		switch {
		case isNilConst(bo.Y) || isZeroConst(bo.Y):
			other = bo.X
		case isNilConst(bo.X) || isZeroConst(bo.X):
			other = bo.Y
		default:
			continue
		}
		ld, ok := other.(*ssa.UnOp)
		if !ok || ld.Op != token.MUL {
			continue
		}
		fa, ok := ld.X.(*ssa.FieldAddr)
		if !ok || fa.X != recv || fa.Field != field {
			continue
		}
		zero := blk.Succs[0]
		if bo.Op == token.NEQ {
			zero = blk.Succs[1]
		}
		if len(zero.Preds) == 1 && (zero == b || zero.Dominates(b)) {
			return true
		}
	}
	return false
}

// constructorFields: g returns a freshly allocated T; reports the fields it assigns.
func constructorFields(g *ssa.Function, named *types.Named) (map[int]bool, bool) {
	fields := map[int]bool{}
	found := false
	for _, b := range g.Blocks {
		for _, in := range b.Instrs {
			al, ok := in.(*ssa.Alloc)
			if !ok || namedOfType(al.Type()) != named || !flowsToReturn(al, g) {
				continue
			}
			found = true
			if al.Referrers() == nil {
				continue
			}
			for _, r := range *al.Referrers() {
				if fa, ok := r.(*ssa.FieldAddr); ok && fa.Referrers() != nil {
					for _, r2 := range *fa.Referrers() {
						if st, ok := r2.(*ssa.Store); ok && st.Addr == ssa.Value(fa) {
							fields[fa.Field] = true
						}
					}
				}
			}
		}
	}
	return fields, found
}

func readsRecvField(fn *ssa.Function, recv ssa.Value) bool {
	if recv.Referrers() == nil {
		return false
	}
	for _, r := range *recv.Referrers() {
		if _, ok := r.(*ssa.FieldAddr); ok {
			return true
		}
	}
	return false
}
