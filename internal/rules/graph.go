package rules

import (
	"sort"

	"golang.org/x/tools/go/ssa"

	"verif/internal/core"
)

// blockSCCs returns, for each block index, an SCC id; and for each SCC whether it is cyclic.
func blockSCCs(fn *ssa.Function) (comp []int, cyclic map[int]bool) {
	n := len(fn.Blocks)
	comp = make([]int, n)
	for i := range comp {
		comp[i] = -1
	}
	index := make([]int, n)
	low := make([]int, n)
	on := make([]bool, n)
	for i := range index {
		index[i] = -1
	}
	var stack []int
	idx, nc := 0, 0
	cyclic = map[int]bool{}
	var strong func(v int)
	strong = func(v int) {
		index[v], low[v] = idx, idx
		idx++
		stack = append(stack, v)
		on[v] = true
		for _, s := range fn.Blocks[v].Succs {
			w := s.Index
			if index[w] == -1 {
				strong(w)
				if low[w] < low[v] {
					low[v] = low[w]
				}
			} else if on[w] && index[w] < low[v] {
				low[v] = index[w]
			}
		}
		if low[v] == index[v] {
			size := 0
			for {
				w := stack[len(stack)-1]
				stack = stack[:len(stack)-1]
				on[w] = false
				comp[w] = nc
				size++
				if w == v {
					break
				}
			}
			if size > 1 {
				cyclic[nc] = true
			} else {
				for _, s := range fn.Blocks[v].Succs {
					if s.Index == v {
						cyclic[nc] = true
					}
				}
			}
			nc++
		}
	}
	for i := 0; i < n; i++ {
		if index[i] == -1 {
			strong(i)
		}
	}
	return comp, cyclic
}

// funcSCCs computes SCCs of the call graph restricted to the given function set.
func funcSCCs(p *core.Prog, fns map[*ssa.Function]bool) [][]*ssa.Function {
	cg := p.CallGraph()
	var order []*ssa.Function
	for f := range fns {
		order = append(order, f)
	}
	sort.Slice(order, func(i, j int) bool { return core.FuncName(order[i]) < core.FuncName(order[j]) })
	index := map[*ssa.Function]int{}
	low := map[*ssa.Function]int{}
	on := map[*ssa.Function]bool{}
	var stack []*ssa.Function
	var out [][]*ssa.Function
	idx := 0
	var strong func(v *ssa.Function)
	strong = func(v *ssa.Function) {
		index[v], low[v] = idx, idx
		idx++
		stack = append(stack, v)
		on[v] = true
		if n := cg.Nodes[v]; n != nil {
			for _, e := range n.Out {
				w := e.Callee.Func
				if !fns[w] {
					continue
				}
				if _, ok := index[w]; !ok {
					strong(w)
					if low[w] < low[v] {
						low[v] = low[w]
					}
				} else if on[w] && index[w] < low[v] {
					low[v] = index[w]
				}
			}
		}
		if low[v] == index[v] {
			var c []*ssa.Function
			for {
				w := stack[len(stack)-1]
				stack = stack[:len(stack)-1]
				on[w] = false
				c = append(c, w)
				if w == v {
					break
				}
			}
			self := false
			if len(c) == 1 {
				if n := cg.Nodes[v]; n != nil {
					for _, e := range n.Out {
						if e.Callee.Func == v {
							self = true
						}
					}
				}
			}
			if len(c) > 1 || self {
				sort.Slice(c, func(i, j int) bool { return core.FuncName(c[i]) < core.FuncName(c[j]) })
				out = append(out, c)
			}
		}
	}
	for _, f := range order {
		if _, ok := index[f]; !ok {
			strong(f)
		}
	}
	sort.Slice(out, func(i, j int) bool { return core.FuncName(out[i][0]) < core.FuncName(out[j][0]) })
	return out
}
