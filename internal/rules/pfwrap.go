package rules

import (
	"fmt"
	"go/token"
	"strings"

	"golang.org/x/tools/go/ssa"

	"verif/internal/core"
)

func init() {
	core.Register(&core.Rule{
		Name: "R-PFWRAP",
		Doc: "A wrapper around a candidate finder does not swallow a candidate. In every Find/FindMatch of package prefilter that obtains its positions from another Prefilter through the interface (the line-anchor, incomplete and effectiveness-tracking wrappers), a return of the constant -1 that is reached after the inner call lies on the edge where the inner result was tested to be negative (pos == -1, pos < 0, !(pos >= 0)). Returning -1 while holding a position the inner finder reported tells the candidate loop that no further candidate exists: it stops and steps over the match (the tracker retiring itself on the very call that found the candidate). Rejecting a candidate for a reason of the wrapper's own (not at a line start) must lead to another inner call, not to -1. Necessary for C16.",
		Min: 2, NeedSSA: true,
		Run: func(p *core.Prog) *core.RuleResult {
			res := &core.RuleResult{}
			subjects, errs := candidateFinders(p)
			if errs != "" {
				res.Fatal = append(res.Fatal, errs)
				return res
			}
			kc := core.NewKeyCounter()
			wrappers := 0
			for _, fn := range subjects {
				if ownPkg(fn) == nil || !strings.HasSuffix(ownPkg(fn).Path(), "/prefilter") {
					continue
				}
				// inner calls: invoke of Find/FindMatch on an interface value
				var inner []*ssa.Call
				for _, b := range fn.Blocks {
					for _, in := range b.Instrs {
						if c, ok := in.(*ssa.Call); ok && c.Call.IsInvoke() && (c.Call.Method.Name() == "Find" || c.Call.Method.Name() == "FindMatch") {
							inner = append(inner, c)
						}
					}
				}
				if len(inner) == 0 {
					continue
				}
				wrappers++
				for _, b := range fn.Blocks {
					for _, in := range b.Instrs {
						r, ok := in.(*ssa.Return)
						if !ok || len(r.Results) == 0 {
							continue
						}
						if c, ok := constInt(r.Results[0]); !ok || c != -1 {
							continue
						}
						// reached after an inner call?
						var after *ssa.Call
						for _, ic := range inner {
							if ic.Block() == b || ic.Block().Dominates(b) {
								after = ic
							}
						}
						if after == nil {
							continue
						}
						o := core.Obligation{Key: kc.Key("R-PFWRAP", core.FuncName(fn), "-1 only when the inner finder reported none"), Pos: p.Pos(r.Pos()), Nontrivial: true}
						ok2 := false
						for d := b; d != nil && !ok2; d = d.Idom() {
							id := d.Idom()
							if id == nil || len(id.Instrs) == 0 || len(d.Preds) != 1 {
								continue
							}
							iff, isIf := id.Instrs[len(id.Instrs)-1].(*ssa.If)
							if !isIf {
								continue
							}
							cmp, isCmp := iff.Cond.(*ssa.BinOp)
							if !isCmp {
								continue
							}
							// the compared value comes from an inner call
							var other ssa.Value
							if searchResultOrigin(cmp.X, map[ssa.Value]bool{}) != nil {
								other = cmp.Y
							} else {
								continue
							}
							c, isC := constInt(other)
							if !isC {
								continue
							}
							onTrue := id.Succs[0] == d
							switch {
							case cmp.Op == token.EQL && c == -1 && onTrue,
								cmp.Op == token.NEQ && c == -1 && !onTrue,
								cmp.Op == token.LSS && c == 0 && onTrue,
								cmp.Op == token.GEQ && c == 0 && !onTrue,
								cmp.Op == token.LEQ && c == -1 && onTrue,
								cmp.Op == token.GTR && c == -1 && !onTrue:
								ok2 = true
							}
						}
						if ok2 {
							o.Status = core.Discharged
							o.Detail = "on the edge where the inner result is negative"
						} else {
							o.Status = core.Violated
							o.Detail = "-1 is returned after the inner finder was called, on a path where its result is not known to be negative: a reported candidate is swallowed and the candidate loop stops before the match"
						}
						res.Obligations = append(res.Obligations, o)
					}
				}
			}
			o := core.Obligation{Key: "R-PFWRAP|census|wrapping finders examined", Nontrivial: true, Status: core.Discharged, Detail: fmt.Sprintf("%d Find/FindMatch implementations obtain positions from an inner Prefilter", wrappers)}
			if wrappers < 3 {
				o.Status = core.Violated
				o.Detail += ": fewer than the 3 confirmed on the reference tree"
			}
			res.Obligations = append(res.Obligations, o)
			return res
		},
	})
}
