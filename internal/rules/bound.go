package rules

import (
	"fmt"
	"go/token"
	"go/types"
	"strings"

	"golang.org/x/tools/go/ssa"

	"verif/internal/core"
)

// sameExpr: structural equality of two SSA values (go/ssa has no CSE, so len(h) computed twice is two values).
func sameExpr(a, b ssa.Value, depth int) bool {
	if a == b {
		return true
	}
	if depth > 6 {
		return false
	}
	switch x := a.(type) {
	case *ssa.Const:
		y, ok := b.(*ssa.Const)
		return ok && x.Value != nil && y.Value != nil && x.Value.String() == y.Value.String()
	case *ssa.Call:
		y, ok := b.(*ssa.Call)
		if !ok {
			return false
		}
		bx, ok1 := x.Call.Value.(*ssa.Builtin)
		by, ok2 := y.Call.Value.(*ssa.Builtin)
		if ok1 && ok2 && bx.Name() == by.Name() && (bx.Name() == "len" || bx.Name() == "cap") {
			return sameExpr(x.Call.Args[0], y.Call.Args[0], depth+1)
		}
		return false
	case *ssa.BinOp:
		y, ok := b.(*ssa.BinOp)
		return ok && x.Op == y.Op && sameExpr(x.X, y.X, depth+1) && sameExpr(x.Y, y.Y, depth+1)
	case *ssa.Convert:
		y, ok := b.(*ssa.Convert)
		return ok && sameExpr(x.X, y.X, depth+1)
	case *ssa.UnOp:
		y, ok := b.(*ssa.UnOp)
		if !ok || x.Op != y.Op {
			return false
		}
		// loads of the same field of the same base
		fx, ok1 := x.X.(*ssa.FieldAddr)
		fy, ok2 := y.X.(*ssa.FieldAddr)
		if ok1 && ok2 {
			return fx.Field == fy.Field && sameExpr(fx.X, fy.X, depth+1)
		}
		return sameExpr(x.X, y.X, depth+1)
	}
	return false
}

func derivesFromValue(v, src ssa.Value, depth int) bool {
	if v == src {
		return true
	}
	if depth > 6 {
		return false
	}
	switch x := v.(type) {
	case *ssa.BinOp:
		return derivesFromValue(x.X, src, depth+1) || derivesFromValue(x.Y, src, depth+1)
	case *ssa.Convert:
		return derivesFromValue(x.X, src, depth+1)
	case *ssa.Phi:
		for _, e := range x.Edges {
			if derivesFromValue(e, src, depth+1) {
				return true
			}
		}
	}
	return false
}

// tableAllocator: fn has an int parameter n and allocates (make) a slice whose length derives from n and stores it into a struct field.
func tableAllocator(fn *ssa.Function) (paramIdx int, field string, ok bool) {
	for _, b := range fn.Blocks {
		for _, in := range b.Instrs {
			ms, isMs := in.(*ssa.MakeSlice)
			if !isMs || ms.Referrers() == nil {
				continue
			}
			stored := ""
			for _, r := range *ms.Referrers() {
				if st, isSt := r.(*ssa.Store); isSt && st.Val == ssa.Value(ms) {
					if fa, isFa := st.Addr.(*ssa.FieldAddr); isFa {
						stored = fieldNameOf(fa)
					}
				}
			}
			if stored == "" {
				continue
			}
			for i, prm := range fn.Params {
				if bt, isB := prm.Type().Underlying().(*types.Basic); isB && bt.Info()&types.IsInteger != 0 {
					if derivesFromValue(ms.Len, prm, 0) {
						return i, stored, true
					}
				}
			}
		}
	}
	return 0, "", false
}

func fieldNameOf(fa *ssa.FieldAddr) string {
	st := fa.X.Type().Underlying().(*types.Pointer).Elem().Underlying().(*types.Struct)
	return st.Field(fa.Field).Name()
}

// capacityPredicate: bool method with an int parameter that compares an expression derived from it with a receiver field.
func capacityPredicate(fn *ssa.Function) bool {
	if fn.Signature.Recv() == nil || fn.Blocks == nil || len(fn.Params) != 2 {
		return false
	}
	res := fn.Signature.Results()
	if res.Len() != 1 || !types.Identical(res.At(0).Type().Underlying(), types.Typ[types.Bool]) {
		return false
	}
	if bt, ok := fn.Params[1].Type().Underlying().(*types.Basic); !ok || bt.Info()&types.IsInteger == 0 {
		return false
	}
	for _, b := range fn.Blocks {
		for _, in := range b.Instrs {
			bo, ok := in.(*ssa.BinOp)
			if !ok {
				continue
			}
			switch bo.Op {
			case token.LEQ, token.LSS, token.GEQ, token.GTR:
			default:
				continue
			}
			lhsParam := derivesFromValue(bo.X, fn.Params[1], 0)
			rhsParam := derivesFromValue(bo.Y, fn.Params[1], 0)
			isRecvField := func(v ssa.Value) bool {
				ld, ok := v.(*ssa.UnOp)
				if !ok || ld.Op != token.MUL {
					return false
				}
				fa, ok := ld.X.(*ssa.FieldAddr)
				return ok && fa.X == ssa.Value(fn.Params[0])
			}
			if (lhsParam && isRecvField(bo.Y)) || (rhsParam && isRecvField(bo.X)) {
				return true
			}
		}
	}
	return false
}

// dominatedByTrueCall: block b is dominated by the edge on which call C(...) returned true; returns the argument values of such calls.
func guardingCalls(fn *ssa.Function, b *ssa.BasicBlock, isPred func(*ssa.Function) bool) []*ssa.Call {
	var out []*ssa.Call
	for _, blk := range fn.Blocks {
		if len(blk.Instrs) == 0 {
			continue
		}
		iff, ok := blk.Instrs[len(blk.Instrs)-1].(*ssa.If)
		if !ok {
			continue
		}
		cond := iff.Cond
		neg := false
		if u, ok := cond.(*ssa.UnOp); ok && u.Op == token.NOT {
			cond = u.X
			neg = true
		}
		c, ok := cond.(*ssa.Call)
		if !ok {
			continue
		}
		cal := c.Call.StaticCallee()
		if cal == nil || !isPred(cal) {
			continue
		}
		pass := blk.Succs[0]
		if neg {
			pass = blk.Succs[1]
		}
		if len(pass.Preds) == 1 && (pass == b || pass.Dominates(b)) {
			out = append(out, c)
		}
	}
	return out
}

func init() {
	core.Register(&core.Rule{
		Name: "R-BOUND",
		Doc: "Growth of per-search memory is guarded: (i) every call of a table allocator (a function that makes a slice whose length derives from its integer parameter and stores it in a state field: the backtracker's visited table) is dominated by the true edge of the capacity predicate (a bool method comparing an expression of its integer parameter with a receiver field) called on the structurally same length expression; (ii) in every method of a cache type that compares a usage figure with a capacity field, each growth of the type's slice/map fields (map insert, append) is dominated by the within-capacity edge of that comparison. Necessary for C20 (visited table never exceeds its cap; the DFA cache never exceeds its capacity by more than one state).",
		Min: 5, NeedSSA: true,
		Run: func(p *core.Prog) *core.RuleResult {
			res := &core.RuleResult{}
			kc := core.NewKeyCounter()
			allocators := map[*ssa.Function]int{}
			preds := map[*ssa.Function]bool{}
			var anames, pnames []string
			for _, fn := range p.SrcFuncs() {
				if strings.HasSuffix(p.File(fn.Pos()), "_test.go") {
					continue
				}
				if i, fld, ok := tableAllocator(fn); ok && fn.Signature.Recv() != nil {
					allocators[fn] = i
					anames = append(anames, core.FuncName(fn)+"→"+fld)
				}
				if capacityPredicate(fn) {
					preds[fn] = true
					pnames = append(pnames, core.FuncName(fn))
				}
			}
			res.Notes = append(res.Notes, fmt.Sprintf("table allocators: %v; capacity predicates: %v", sortedStrs(anames), sortedStrs(pnames)))
			// (i)
			for _, fn := range p.SrcFuncs() {
				if strings.HasSuffix(p.File(fn.Pos()), "_test.go") {
					continue
				}
				for _, b := range fn.Blocks {
					for _, in := range b.Instrs {
						c, ok := in.(*ssa.Call)
						if !ok {
							continue
						}
						cal := c.Call.StaticCallee()
						pi, isAlloc := allocators[cal]
						if cal == nil || !isAlloc || pi >= len(c.Call.Args) {
							continue
						}
						// only allocators that have a sibling capacity predicate on the same receiver type
						recvT := namedOfType(cal.Signature.Recv().Type())
						hasPred := false
						for pr := range preds {
							if namedOfType(pr.Signature.Recv().Type()) == recvT {
								hasPred = true
							}
						}
						if !hasPred {
							continue
						}
						n := c.Call.Args[pi]
						o := core.Obligation{Key: kc.Key("R-BOUND", core.FuncName(fn), "table allocation "+cal.Name()), Pos: p.Pos(c.Pos()), Nontrivial: true}
						guards := guardingCalls(fn, b, func(f *ssa.Function) bool { return preds[f] && namedOfType(f.Signature.Recv().Type()) == recvT })
						switch {
						case len(guards) == 0:
							o.Status = core.Violated
							o.Detail = "the table is sized without a dominating capacity test: the visited table can exceed its cap"
						default:
							o.Status = core.Violated
							o.Detail = fmt.Sprintf("the capacity test that dominates this allocation checks a different length than the one the table is sized with (allocation uses %s): the cap is checked for one size and the table allocated for another", n.String())
							for _, g := range guards {
								if len(g.Call.Args) == 2 && sameExpr(g.Call.Args[1], n, 0) {
									o.Status = core.Discharged
									o.Detail = "dominated by the capacity predicate on the same length expression"
								}
							}
						}
						res.Obligations = append(res.Obligations, o)
					}
				}
			}
			// (ii)
			for _, fn := range p.SrcFuncs() {
				if fn.Signature.Recv() == nil || strings.HasSuffix(p.File(fn.Pos()), "_test.go") || len(fn.Params) == 0 {
					continue
				}
				recv := fn.Params[0]
				// capacity comparison: usage (call on receiver) vs receiver field
				type capTest struct {
					within *ssa.BasicBlock
					desc   string
				}
				var tests []capTest
				for _, blk := range fn.Blocks {
					if len(blk.Instrs) == 0 {
						continue
					}
					iff, ok := blk.Instrs[len(blk.Instrs)-1].(*ssa.If)
					if !ok {
						continue
					}
					bo, ok := iff.Cond.(*ssa.BinOp)
					if !ok {
						continue
					}
					isUsage := func(v ssa.Value) bool {
						c, ok := v.(*ssa.Call)
						if !ok {
							return false
						}
						cal := c.Call.StaticCallee()
						return cal != nil && cal.Signature.Recv() != nil && len(c.Call.Args) == 1 && c.Call.Args[0] == ssa.Value(recv)
					}
					isCapField := func(v ssa.Value) bool {
						ld, ok := v.(*ssa.UnOp)
						if !ok || ld.Op != token.MUL {
							return false
						}
						fa, ok := ld.X.(*ssa.FieldAddr)
						if !ok || fa.X != ssa.Value(recv) {
							return false
						}
						bt, isInt := ld.Type().Underlying().(*types.Basic)
						return isInt && bt.Info()&types.IsInteger != 0
					}
					var within *ssa.BasicBlock
					switch {
					case isUsage(bo.X) && isCapField(bo.Y) && (bo.Op == token.GEQ || bo.Op == token.GTR):
						within = blk.Succs[1]
					case isUsage(bo.X) && isCapField(bo.Y) && (bo.Op == token.LSS || bo.Op == token.LEQ):
						within = blk.Succs[0]
					case isCapField(bo.X) && isUsage(bo.Y) && (bo.Op == token.LEQ || bo.Op == token.LSS):
						within = blk.Succs[1]
					case isCapField(bo.X) && isUsage(bo.Y) && (bo.Op == token.GTR || bo.Op == token.GEQ):
						within = blk.Succs[0]
					}
					if within != nil {
						tests = append(tests, capTest{within, bo.String()})
					}
				}
				if len(tests) == 0 {
					continue
				}
				for _, b := range fn.Blocks {
					for _, in := range b.Instrs {
						desc := ""
						switch x := in.(type) {
						case *ssa.MapUpdate:
							if _, _, f, _ := baseField(x.Map); f != nil {
								desc = "map insert into " + f.Name()
							}
						case *ssa.Store:
							if isAppendCall(x.Val) {
								if fa, ok := x.Addr.(*ssa.FieldAddr); ok && fa.X == ssa.Value(recv) {
									desc = "append to " + fieldNameOf(fa)
								}
							}
						}
						if desc == "" {
							continue
						}
						o := core.Obligation{Key: kc.Key("R-BOUND", core.FuncName(fn), "cache growth: "+desc), Pos: p.Pos(in.Pos()), Nontrivial: true, Status: core.Violated}
						o.Detail = "cache growth is not dominated by the within-capacity edge of the capacity comparison: some path inserts without the byte budget being checked"
						for _, t := range tests {
							if len(t.within.Preds) == 1 && (t.within == b || t.within.Dominates(b)) {
								o.Status = core.Discharged
								o.Detail = "dominated by the within-capacity edge of " + t.desc
							}
						}
						res.Obligations = append(res.Obligations, o)
					}
				}
			}
			return res
		},
	})
}
