package rules

import (
	"fmt"
	"go/token"
	"go/types"
	"strings"

	"golang.org/x/tools/go/ssa"

	"verif/internal/core"
	"verif/internal/own"
)

func ownPkg(f *ssa.Function) *types.Package { return own.FnPkg(f) }

// elemAccess describes loads/stores of elements of slice fields of struct types in a function.
type elemAccess struct {
	loads, stores map[*types.Var]bool
}

func elemAccessOf(fn *ssa.Function) elemAccess {
	ea := elemAccess{loads: map[*types.Var]bool{}, stores: map[*types.Var]bool{}}
	for _, b := range fn.Blocks {
		for _, in := range b.Instrs {
			switch x := in.(type) {
			case *ssa.Store:
				if ia, ok := x.Addr.(*ssa.IndexAddr); ok {
					if _, _, f, _ := baseField(ia.X); f != nil {
						ea.stores[f] = true
					}
				}
			case *ssa.UnOp:
				if x.Op == token.MUL {
					if ia, ok := x.X.(*ssa.IndexAddr); ok {
						if _, _, f, _ := baseField(ia.X); f != nil {
							ea.loads[f] = true
						}
					}
				}
			}
		}
	}
	return ea
}

// isGate: a bool function that tests and sets an element of a slice field (visited table):
// with same-receiver callees folded in, it loads and stores elements of the same slice field,
// and returns both constant true and constant false.
func isGate(fn *ssa.Function, memo map[*ssa.Function]bool, depth int) bool {
	if v, ok := memo[fn]; ok {
		return v
	}
	memo[fn] = false
	if fn == nil || fn.Blocks == nil || depth > 3 {
		return false
	}
	res := fn.Signature.Results()
	if res.Len() != 1 {
		return false
	}
	if b, ok := res.At(0).Type().Underlying().(*types.Basic); !ok || b.Kind() != types.Bool {
		return false
	}
	// a test-and-set is O(1): no loops, not recursive
	if _, cyc := blockSCCs(fn); len(cyc) > 0 {
		return false
	}
	ea := elemAccessOf(fn)
	if len(ea.stores) == 0 {
		return false
	}
	// fold direct callees on the same receiver / state argument
	for _, b := range fn.Blocks {
		for _, in := range b.Instrs {
			if c, ok := in.(*ssa.Call); ok {
				if cal := c.Call.StaticCallee(); cal == fn {
					return false
				} else if cal != nil && cal.Blocks != nil {
					if _, cyc := blockSCCs(cal); len(cyc) > 0 {
						continue
					}
					e2 := elemAccessOf(cal)
					for f := range e2.loads {
						ea.loads[f] = true
					}
					for f := range e2.stores {
						ea.stores[f] = true
					}
				}
			}
		}
	}
	both := false
	for f := range ea.loads {
		if ea.stores[f] {
			both = true
		}
	}
	if !both {
		return false
	}
	retTrue, retFalse := false, false
	for _, b := range fn.Blocks {
		for _, in := range b.Instrs {
			if r, ok := in.(*ssa.Return); ok && len(r.Results) == 1 {
				if c, ok := r.Results[0].(*ssa.Const); ok && c.Value != nil {
					if c.Value.String() == "true" {
						retTrue = true
					} else {
						retFalse = true
					}
				}
			}
		}
	}
	memo[fn] = retTrue && retFalse
	return memo[fn]
}

// gatedBy reports whether block target is reachable only through the "gate returned true" edge of an If on a gate call.
func gatedBy(fn *ssa.Function, target *ssa.BasicBlock, gates map[*ssa.Function]bool) (bool, string) {
	for _, b := range fn.Blocks {
		if len(b.Instrs) == 0 {
			continue
		}
		iff, ok := b.Instrs[len(b.Instrs)-1].(*ssa.If)
		if !ok {
			continue
		}
		cond := iff.Cond
		neg := false
		if u, ok := cond.(*ssa.UnOp); ok && u.Op == token.NOT {
			cond = u.X
			neg = true
		}
		call, ok := cond.(*ssa.Call)
		if !ok {
			continue
		}
		cal := call.Call.StaticCallee()
		if cal == nil || !gates[cal] {
			continue
		}
		pass := b.Succs[0]
		if neg {
			pass = b.Succs[1]
		}
		if len(pass.Preds) != 1 {
			continue
		}
		if pass == target || pass.Dominates(target) {
			return true, core.FuncName(cal)
		}
	}
	return false, ""
}

// recursionExempt: recursive functions that are linear without a visited gate, one symbol per line with the reason.
var recursionExempt = map[string]string{
	"(*nfa.CharClassSearcher).SearchAt": "tail call with a strictly larger offset after a scan that ended at that offset: the scans are disjoint, total work is linear in the haystack",
}

// recursionAdvances: fn takes a haystack, and the recursive call site passes, for one of fn's int parameters, that
// parameter plus something (the position moves on). bounded names another int parameter that the call passes
// incremented by a positive constant and that fn compares with the length of a slice held by its receiver
// (a count of pattern parts): the nesting depth is then bounded by the pattern, not by the input.
func recursionAdvances(fn *ssa.Function, site ssa.CallInstruction) (advances bool, bounded string, what string) {
	hasHay := false
	for _, prm := range fn.Params {
		if isByteSlice(prm.Type()) {
			hasHay = true
		}
	}
	if !hasHay {
		return false, "", ""
	}
	callee := site.Common().StaticCallee()
	if callee != fn {
		// mutual recursion: compare by position only when the signatures agree
		if callee == nil || callee.Signature.Params().Len() != fn.Signature.Params().Len() {
			return false, "", ""
		}
	}
	args := site.Common().Args
	for i, prm := range fn.Params {
		if i >= len(args) || !isIntType(prm.Type()) {
			continue
		}
		bo, ok := args[i].(*ssa.BinOp)
		if !ok || bo.Op != token.ADD || (bo.X != ssa.Value(prm) && bo.Y != ssa.Value(prm)) {
			continue
		}
		other := bo.Y
		if bo.Y == ssa.Value(prm) {
			other = bo.X
		}
		if c, isC := constInt(other); isC && c <= 0 {
			continue
		}
		// is this parameter compared with len(receiver field)?
		patternBound := false
		if prm.Referrers() != nil {
			for _, r := range *prm.Referrers() {
				cmp, ok := r.(*ssa.BinOp)
				if !ok {
					continue
				}
				switch cmp.Op {
				case token.LSS, token.LEQ, token.GTR, token.GEQ, token.EQL, token.NEQ:
				default:
					continue
				}
				o := cmp.Y
				if cmp.Y == ssa.Value(prm) {
					o = cmp.X
				}
				if ln, ok := o.(*ssa.Call); ok {
					if bi, ok := ln.Call.Value.(*ssa.Builtin); ok && bi.Name() == "len" && len(ln.Call.Args) == 1 {
						if innerField(ln.Call.Args[0]) != nil && !isByteSlice(ln.Call.Args[0].Type()) {
							patternBound = true
						}
					}
				}
			}
		}
		if _, isC := constInt(other); isC && patternBound {
			bounded = "the parameter " + prm.Name()
			continue
		}
		advances = true
		what = prm.Name()
	}
	return advances, bounded, what
}

func init() {
	core.Register(&core.Rule{
		Name: "R-RECURSION",
		Doc: "Every call-graph cycle reachable from a search root (other than structural recursion over the *syntax.Regexp tree, which the parser's nesting limit bounds) must pass, on every path from function entry to a recursive call, through a visited gate: a bool function that tests-and-sets an element of a per-search table, whose false result leads away from the recursion. Necessary for C05 (an ungated recursion over (part, position) re-explores polynomially/exponentially) and for C07's termination. (b) Stack depth: in a function with a haystack parameter, a recursive call that passes one of the function's int parameters plus something (the position moves on through the input) nests once per consumed byte; it is accepted only when another int argument is passed incremented by a positive constant and the function compares that parameter with the length of a slice held by its receiver (a count of pattern parts), so that the depth is bounded by the pattern. A visited table does not bound the depth, only the work: the bounded backtracker recursed once per step of the path it followed, and ^(\\w+\\s*)+$ on a 2 MB line ended the process with 'fatal error: stack overflow' (C07: no fatal error) => fixed by an explicit stack.",
		Min: 6, NeedSSA: true,
		Run: func(p *core.Prog) *core.RuleResult {
			a := OwnAnalysis(p)
			res := &core.RuleResult{}
			fns := map[*ssa.Function]bool{}
			for f := range a.Reached {
				if p.InModule(ownPkg(f)) {
					fns[f] = true
				}
			}
			gateMemo := map[*ssa.Function]bool{}
			gates := map[*ssa.Function]bool{}
			for _, f := range p.SrcFuncs() {
				if isGate(f, gateMemo, 0) {
					gates[f] = true
				}
			}
			var gnames []string
			for g := range gates {
				gnames = append(gnames, core.FuncName(g))
			}
			res.Notes = append(res.Notes, fmt.Sprintf("visited gates recognised by summary: %v", sortedStrs(gnames)))
			cg := p.CallGraph()
			for _, scc := range funcSCCs(p, fns) {
				inSCC := map[*ssa.Function]bool{}
				astRec := true
				for _, f := range scc {
					inSCC[f] = true
					has := false
					for _, prm := range f.Params {
						if strings.HasSuffix(prm.Type().String(), "regexp/syntax.Regexp") {
							has = true
						}
					}
					if !has {
						astRec = false
					}
				}
				for _, f := range scc {
					name := core.FuncName(f)
					kc := 0
					n := cg.Nodes[f]
					seenSite := map[ssa.CallInstruction]bool{}
					for _, e := range n.Out {
						if !inSCC[e.Callee.Func] || e.Site == nil || seenSite[e.Site] {
							continue
						}
						seenSite[e.Site] = true
						key := fmt.Sprintf("R-RECURSION|%s|recursive call %s", name, core.FuncName(e.Callee.Func))
						if kc > 0 {
							key += fmt.Sprintf("#%d", kc)
						}
						kc++
						o := core.Obligation{Key: key, Pos: p.Pos(e.Site.Pos()), Nontrivial: true}
						switch {
						case astRec:
							o.Status = core.Discharged
							o.Detail = "structural recursion over the syntax tree (bounded by the parser's nesting limit); not search-time work"
						default:
							if ok, g := gatedBy(f, e.Site.Block(), gates); ok {
								o.Status = core.Discharged
								o.Detail = "dominated by the true edge of visited gate " + g
							} else if why := recursionExempt[name]; why != "" {
								o.Status = core.Discharged
								o.Detail = "exempt: " + why
							} else {
								o.Status = core.Violated
								o.Detail = "recursive call is not guarded by a visited gate: the same (state, position) can be re-explored on every backtrack"
							}
						}
						res.Obligations = append(res.Obligations, o)
						// (b) stack depth: a recursive call that moves on through the haystack nests once per
						// consumed byte unless another argument counts towards a bound taken from the pattern
						if astRec {
							continue
						}
						if adv, bounded, what := recursionAdvances(f, e.Site); adv {
							o2 := core.Obligation{Key: key + " [stack depth]", Pos: p.Pos(e.Site.Pos()), Nontrivial: true}
							if bounded != "" {
								o2.Status = core.Discharged
								o2.Detail = "the call advances " + what + " through the haystack, and " + bounded + " counts towards a length taken from the compiled pattern: the nesting depth does not grow with the input"
							} else {
								o2.Status = core.Violated
								o2.Detail = "the call advances " + what + " through the haystack and no argument counts towards a pattern-sized bound: the nesting depth grows with the input, and the runtime kills the process when a goroutine stack passes its limit (fatal error: stack overflow - not a recoverable panic)"
							}
							res.Obligations = append(res.Obligations, o2)
						}
					}
				}
			}
			return res
		},
	})

	core.Register(&core.Rule{
		Name: "R-EPOCH",
		Doc: "The visited epoch of a generation-stamped table (an integer field E compared with and stored into elements of a slice field V by a gate function): (a) every increment of E is followed, before any call, by a test of E against 0 whose taken branch clears V (wrap handling: the 2^k-th search must not see stale marks; necessary for C13), the table is not extended by re-slicing itself after the increment (the clear must cover the final extent), and if the table is ever re-sliced below its capacity the clear covers V[:cap(V)]; (b) no increment of E, and no call of a function that increments E, sits in a loop that also calls the gated recursion (a reset per start position turns the states x n visited bound into states x n^2; necessary for C05).",
		Min: 2, NeedSSA: true,
		Run: func(p *core.Prog) *core.RuleResult {
			res := &core.RuleResult{}
			// epoch fields: integer fields stored into elements of a slice field inside a gate
			gateMemo := map[*ssa.Function]bool{}
			epoch := map[*types.Var]*types.Var{} // epoch field -> table field
			gates := map[*ssa.Function]bool{}
			for _, f := range p.SrcFuncs() {
				if !isGate(f, gateMemo, 0) {
					continue
				}
				gates[f] = true
				for _, b := range f.Blocks {
					for _, in := range b.Instrs {
						st, ok := in.(*ssa.Store)
						if !ok {
							continue
						}
						ia, ok := st.Addr.(*ssa.IndexAddr)
						if !ok {
							continue
						}
						_, _, tf, _ := baseField(ia.X)
						if tf == nil {
							continue
						}
						if ld, ok := st.Val.(*ssa.UnOp); ok && ld.Op == token.MUL {
							if fa, ok := ld.X.(*ssa.FieldAddr); ok {
								_, _, ef, _ := baseField(fa)
								if ef != nil && ef != tf && comparesElemWithField(f, tf, ef) {
									epoch[ef] = tf
								}
							}
						}
					}
				}
			}
			if len(epoch) == 0 {
				res.Fatal = append(res.Fatal, "no generation-stamped visited table found (anchor lost)")
				return res
			}
			// functions that reach a gate
			cg := p.CallGraph()
			reachGate := map[*ssa.Function]bool{}
			for g := range gates {
				reachGate[g] = true
			}
			for changed := true; changed; {
				changed = false
				for _, f := range p.SrcFuncs() {
					if reachGate[f] {
						continue
					}
					if n := cg.Nodes[f]; n != nil {
						for _, e := range n.Out {
							if reachGate[e.Callee.Func] {
								reachGate[f] = true
								changed = true
								break
							}
						}
					}
				}
			}
			kc := core.NewKeyCounter()
			// functions that advance an epoch field (directly)
			advances := map[*ssa.Function]*types.Var{}
			for _, f := range p.SrcFuncs() {
				for _, b := range f.Blocks {
					for _, in := range b.Instrs {
						st, ok := in.(*ssa.Store)
						if !ok {
							continue
						}
						_, owner, ef, elem := baseField(st.Addr)
						if ef == nil || elem || epoch[ef] == nil {
							continue
						}
						if bo, ok := st.Val.(*ssa.BinOp); ok && bo.Op == token.ADD && derivesFromLoadOf(bo.X, owner, ef, 0) {
							advances[f] = ef
						}
					}
				}
			}
			// (b') a call of an epoch-advancing function inside a loop that also calls the gated recursion
			for _, f := range p.SrcFuncs() {
				if strings.HasSuffix(p.File(f.Pos()), "_test.go") {
					continue
				}
				comp, cyclic := blockSCCs(f)
				for _, b := range f.Blocks {
					if !cyclic[comp[b.Index]] {
						continue
					}
					for _, in := range b.Instrs {
						c, ok := in.(*ssa.Call)
						if !ok {
							continue
						}
						cal := c.Call.StaticCallee()
						if cal == nil || advances[cal] == nil || cal == f {
							continue
						}
						ob := core.Obligation{Key: kc.Key("R-EPOCH", core.FuncName(f), "call "+cal.Name()+" (advances "+advances[cal].Name()+") not-per-start-position"), Pos: p.Pos(c.Pos()), Nontrivial: true, Status: core.Discharged, Detail: "the loop does not call the gated recursion"}
						for _, b2 := range f.Blocks {
							if comp[b2.Index] != comp[b.Index] {
								continue
							}
							for _, in2 := range b2.Instrs {
								if c2, ok := in2.(*ssa.Call); ok {
									if cal2 := c2.Call.StaticCallee(); cal2 != nil && reachGate[cal2] && cal2 != cal {
										ob.Status = core.Violated
										ob.Detail = fmt.Sprintf("%s advances the visited epoch and is called inside the start-position loop that calls %s (at %s): every start position re-explores all (state, position) pairs, Θ(states·n²)", cal.Name(), core.FuncName(cal2), p.Pos(c2.Pos()))
									}
								}
							}
						}
						res.Obligations = append(res.Obligations, ob)
					}
				}
			}
			for _, f := range p.SrcFuncs() {
				if strings.HasSuffix(p.File(f.Pos()), "_test.go") {
					continue
				}
				comp, cyclic := blockSCCs(f)
				for _, b := range f.Blocks {
					for i, in := range b.Instrs {
						st, ok := in.(*ssa.Store)
						if !ok {
							continue
						}
						_, owner, ef, elem := baseField(st.Addr)
						if ef == nil || elem || epoch[ef] == nil {
							continue
						}
						bo, ok := st.Val.(*ssa.BinOp)
						if !ok || bo.Op != token.ADD || !derivesFromLoadOf(bo.X, owner, ef, 0) {
							continue
						}
						fq := core.TypeName(owner) + "." + ef.Name()
						// (a) wrap test
						oa := core.Obligation{Key: kc.Key("R-EPOCH", core.FuncName(f), "increment "+fq+" wrap-check"), Pos: p.Pos(st.Pos()), Nontrivial: true}
						if ok, why := wrapChecked(b, i, bo, owner, ef, epoch[ef]); ok {
							oa.Status = core.Discharged
							oa.Detail = why
						} else {
							oa.Status = core.Violated
							oa.Detail = "increment of the visited epoch is not followed by a wrap test that clears the table: " + why
						}
						res.Obligations = append(res.Obligations, oa)
						// (a') the wrap-clear covers the table's final extent: after the increment (and its clear) the table field is
						// not extended by re-slicing itself (rows beyond the old length would keep marks of the previous cycle)
						oc := core.Obligation{Key: kc.Key("R-EPOCH", core.FuncName(f), "increment "+fq+" wrap-clear covers the final table"), Pos: p.Pos(st.Pos()), Nontrivial: true, Status: core.Discharged, Detail: "the table is not re-sliced after the epoch is advanced"}
						tf := epoch[ef]
						for _, b2 := range f.Blocks {
							for j, in2 := range b2.Instrs {
								st2, ok := in2.(*ssa.Store)
								if !ok {
									continue
								}
								_, owner2, f2, elem2 := baseField(st2.Addr)
								if f2 != tf || elem2 || owner2 != owner {
									continue
								}
								sl, ok := st2.Val.(*ssa.Slice)
								if !ok || !derivesFromLoadOf(sl.X, owner, tf, 0) {
									continue
								}
								after := (b2 == b && j > i) || (b2 != b && blockReaches(b, b2))
								if after {
									oc.Status = core.Violated
									oc.Detail = fmt.Sprintf("the table is re-sliced (%s) after the epoch was advanced and the wrap-clear ran: the clear covered only the previous extent, rows beyond it keep marks from 65536 searches ago and count as visited", p.Pos(st2.Pos()))
								}
							}
						}
						res.Obligations = append(res.Obligations, oc)
						// (a'') the wrap-clear covers the whole backing array when the table can be shorter than its capacity
						// (some function stores a re-slice V[:n] of the table back into the field): the zero stores of the
						// clear must go through a view V[:cap(V)]
						resliced := false
						for _, g := range p.SrcFuncs() {
							for _, gb := range g.Blocks {
								for _, gin := range gb.Instrs {
									st2, ok := gin.(*ssa.Store)
									if !ok {
										continue
									}
									_, owner2, f2, elem2 := baseField(st2.Addr)
									if f2 != tf || elem2 || owner2 != owner {
										continue
									}
									if sl, ok := st2.Val.(*ssa.Slice); ok && sl.High != nil && derivesFromLoadOf(sl.X, owner, tf, 0) {
										resliced = true
									}
								}
							}
						}
						if resliced {
							od := core.Obligation{Key: kc.Key("R-EPOCH", core.FuncName(f), "increment "+fq+" wrap-clear covers the capacity"), Pos: p.Pos(st.Pos()), Nontrivial: true}
							full, partial := false, ""
							for _, b2 := range f.Blocks {
								for _, in2 := range b2.Instrs {
									st2, ok := in2.(*ssa.Store)
									if !ok || !isZeroConst(st2.Val) {
										continue
									}
									ia, ok := st2.Addr.(*ssa.IndexAddr)
									if !ok {
										continue
									}
									base := ia.X
									if sl, ok := base.(*ssa.Slice); ok && derivesFromLoadOf(sl.X, owner, tf, 0) {
										if c, ok := sl.High.(*ssa.Call); ok {
											if bi, ok := c.Call.Value.(*ssa.Builtin); ok && bi.Name() == "cap" && derivesFromLoadOf(c.Call.Args[0], owner, tf, 0) {
												full = true
												continue
											}
										}
										partial = p.Pos(st2.Pos())
									} else if derivesFromLoadOf(base, owner, tf, 0) {
										partial = p.Pos(st2.Pos())
									}
								}
							}
							switch {
							case full && partial == "":
								od.Status = core.Discharged
								od.Detail = "the clear runs over " + tf.Name() + "[:cap(" + tf.Name() + ")]"
							case partial != "":
								od.Status = core.Violated
								od.Detail = fmt.Sprintf("the table is re-sliced below its capacity elsewhere, but the wrap-clear at %s only covers the current length: rows beyond it keep the stamps of the previous cycle and look visited when the same epoch value comes round on a longer input", partial)
							default:
								od.Status = core.Discharged
								od.Detail = "no element-wise clear of the table in this function (checked by the wrap-check obligation)"
							}
							res.Obligations = append(res.Obligations, od)
						}
						// (b) not in a loop with the gated recursion
						ob := core.Obligation{Key: kc.Key("R-EPOCH", core.FuncName(f), "increment "+fq+" not-per-start-position"), Pos: p.Pos(st.Pos()), Nontrivial: true}
						ob.Status = core.Discharged
						ob.Detail = "increment is not inside a loop that calls the gated recursion"
						if cyclic[comp[b.Index]] {
							for _, b2 := range f.Blocks {
								if comp[b2.Index] != comp[b.Index] {
									continue
								}
								for _, in2 := range b2.Instrs {
									if c, ok := in2.(*ssa.Call); ok {
										if cal := c.Call.StaticCallee(); cal != nil && reachGate[cal] {
											ob.Status = core.Violated
											ob.Detail = fmt.Sprintf("the visited epoch is advanced inside the start-position loop that calls %s (at %s): every start position re-explores all (state, position) pairs, Θ(states·n²)", core.FuncName(cal), p.Pos(c.Pos()))
										}
									}
								}
							}
						}
						res.Obligations = append(res.Obligations, ob)
					}
				}
			}
			var names []string
			for e, t := range epoch {
				names = append(names, e.Name()+" stamps "+t.Name())
			}
			res.Notes = append(res.Notes, fmt.Sprintf("generation-stamped tables: %v", sortedStrs(names)))
			return res
		},
	})
}

// wrapChecked: after the increment at b.Instrs[i], with no intervening call, the block ends in
// If (E == 0) (on the incremented value or a reload) and the taken branch stores constants into V's elements.
func wrapChecked(b *ssa.BasicBlock, i int, inc *ssa.BinOp, owner *types.Named, ef, tf *types.Var) (bool, string) {
	for j := i + 1; j < len(b.Instrs); j++ {
		switch x := b.Instrs[j].(type) {
		case *ssa.Call:
			return false, "a call precedes the wrap test"
		case *ssa.If:
			bo, ok := x.Cond.(*ssa.BinOp)
			if !ok || (bo.Op != token.EQL && bo.Op != token.NEQ) {
				return false, "the branch after the increment is not a comparison with 0"
			}
			tested := bo.X
			if isZeroConst(bo.X) {
				tested = bo.Y
			} else if !isZeroConst(bo.Y) {
				return false, "the branch after the increment is not a comparison with 0"
			}
			if tested != ssa.Value(inc) && !derivesFromLoadOf(tested, owner, ef, 0) {
				return false, "the comparison does not test the epoch field"
			}
			// the branch taken when the epoch has wrapped: `if E == 0 { clear }` or `if E != 0 { return }; clear`
			wrap := b.Succs[0]
			if bo.Op == token.NEQ {
				wrap = b.Succs[1]
			}
			// look for a constant element store into V within the region only the wrapped case reaches (bounded BFS)
			seen := map[*ssa.BasicBlock]bool{}
			work := []*ssa.BasicBlock{wrap}
			for len(work) > 0 && len(seen) < 8 {
				c := work[0]
				work = work[1:]
				if seen[c] || (len(wrap.Preds) == 1 && !wrap.Dominates(c)) {
					continue
				}
				seen[c] = true
				for _, in := range c.Instrs {
					switch y := in.(type) {
					case *ssa.Store:
						if ia, ok := y.Addr.(*ssa.IndexAddr); ok {
							if _, _, f, _ := baseField(ia.X); f == tf {
								if _, ok := y.Val.(*ssa.Const); ok {
									return true, "increment is followed by if E == 0 { clear table }"
								}
							}
						}
					case *ssa.Call:
						if bi, ok := y.Call.Value.(*ssa.Builtin); ok && bi.Name() == "clear" {
							return true, "increment is followed by if E == 0 { clear(table) }"
						}
					}
				}
				work = append(work, c.Succs...)
			}
			return false, "the wrap branch does not clear the table"
		}
	}
	return false, "no wrap test in the block of the increment"
}

// comparesElemWithField: fn contains V[i] == E (or !=) for slice field V and scalar field E.
func comparesElemWithField(fn *ssa.Function, tf, ef *types.Var) bool {
	isElemOf := func(v ssa.Value) bool {
		ld, ok := v.(*ssa.UnOp)
		if !ok || ld.Op != token.MUL {
			return false
		}
		ia, ok := ld.X.(*ssa.IndexAddr)
		if !ok {
			return false
		}
		_, _, f, _ := baseField(ia.X)
		return f == tf
	}
	isField := func(v ssa.Value) bool {
		ld, ok := v.(*ssa.UnOp)
		if !ok || ld.Op != token.MUL {
			return false
		}
		fa, ok := ld.X.(*ssa.FieldAddr)
		if !ok {
			return false
		}
		_, _, f, _ := baseField(fa)
		return f == ef
	}
	for _, b := range fn.Blocks {
		for _, in := range b.Instrs {
			if bo, ok := in.(*ssa.BinOp); ok && (bo.Op == token.EQL || bo.Op == token.NEQ) {
				if (isElemOf(bo.X) && isField(bo.Y)) || (isElemOf(bo.Y) && isField(bo.X)) {
					return true
				}
			}
		}
	}
	return false
}


// blockReaches: to is reachable from from through successor edges (from != to, or through a cycle).
func blockReaches(from, to *ssa.BasicBlock) bool {
	seen := map[*ssa.BasicBlock]bool{}
	var dfs func(b *ssa.BasicBlock) bool
	dfs = func(b *ssa.BasicBlock) bool {
		for _, s := range b.Succs {
			if s == to {
				return true
			}
			if !seen[s] {
				seen[s] = true
				if dfs(s) {
					return true
				}
			}
		}
		return false
	}
	return dfs(from)
}
