package rules

import (
	"go/types"
	"strings"

	"golang.org/x/tools/go/ssa"

	"verif/internal/core"
)

// cowTypes: named types of the module with a clone method (taking another reference to shared data) and
// an update method (writing in place while the data has one owner): copy-on-write handles.
func cowTypes(p *core.Prog) map[*types.Named]bool {
	out := map[*types.Named]bool{}
	for _, pk := range p.Pkgs {
		sc := pk.Types.Scope()
		for _, n := range sc.Names() {
			tn, ok := sc.Lookup(n).(*types.TypeName)
			if !ok {
				continue
			}
			named, ok := tn.Type().(*types.Named)
			if !ok {
				continue
			}
			hasClone, hasUpdate := false, false
			for i := 0; i < named.NumMethods(); i++ {
				switch named.Method(i).Name() {
				case "clone", "Clone":
					hasClone = true
				case "update", "Update":
					hasUpdate = true
				}
			}
			if hasClone && hasUpdate {
				out[named] = true
			}
		}
	}
	return out
}

func init() {
	core.Register(&core.Rule{
		Name: "R-COWORDER",
		Doc: "A second reference to copy-on-write data is taken before the first one is used. For the module's copy-on-write handle types (a named type with a clone method that adds a reference and an update method that writes in place while there is one owner: nfa.cowCaptures), in every function that clones a handle h, no call that receives the same handle (structurally the same expression, e.g. the field t.captures of the same parameter) precedes the clone on a path to it: the earlier callee may update the data in place, and the clone taken afterwards refers to the updated data. This is the split of the thread-list PikeVM: left branch explored with the handle, right branch given a clone - the clone must come first. Pinned tree: both split sites cloned after exploring the left branch ⇒ repeated capture groups reported with the slots of an abandoned branch ((a+){2,3}b on aaab: [3 3]) ⇒ fixed. Necessary for C03 (capture positions), C08 (replacement templates).",
		Min: 2, NeedSSA: true,
		Run: func(p *core.Prog) *core.RuleResult {
			res := &core.RuleResult{}
			kc := core.NewKeyCounter()
			cow := cowTypes(p)
			if len(cow) == 0 {
				res.Fatal = append(res.Fatal, "no copy-on-write handle type found (expected nfa.cowCaptures)")
				return res
			}
			isCow := func(t types.Type) bool {
				n, ok := t.(*types.Named)
				return ok && cow[n]
			}
			for _, fn := range p.SrcFuncs() {
				if strings.HasSuffix(p.File(fn.Pos()), "_test.go") || !p.InModule(ownPkg(fn)) {
					continue
				}
				for _, b := range fn.Blocks {
					for _, in := range b.Instrs {
						call, ok := in.(*ssa.Call)
						if !ok {
							continue
						}
						g := call.Call.StaticCallee()
						if g == nil || (g.Name() != "clone" && g.Name() != "Clone") || len(call.Call.Args) == 0 || !isCow(call.Call.Args[0].Type()) {
							continue
						}
						h := call.Call.Args[0]
						o := core.Obligation{Key: kc.Key("R-COWORDER", core.FuncName(fn), "clone precedes every use of the handle"), Pos: p.Pos(call.Pos()), Nontrivial: true, Status: core.Discharged}
						o.Detail = "no call receives the handle before this clone on any path to it"
						// earlier calls (same block before, or in a dominating/ predecessor-reaching block) that receive the same handle
						for _, b2 := range fn.Blocks {
							for _, in2 := range b2.Instrs {
								c2, ok := in2.(ssa.CallInstruction)
								if !ok || in2 == ssa.Instruction(call) {
									continue
								}
								if g2 := c2.Common().StaticCallee(); g2 != nil && (g2.Name() == "clone" || g2.Name() == "Clone" || g2.Name() == "get") {
									continue
								}
								uses := false
								for _, a := range c2.Common().Args {
									if usesHandle(a, h, 0) {
										uses = true
									}
								}
								if !uses {
									continue
								}
								before := false
								if b2 == b {
									for _, x := range b.Instrs {
										if x == in2 {
											before = true
											break
										}
										if x == ssa.Instruction(call) {
											break
										}
									}
								} else if blockReaches(b2, b) && !blockReaches(b, b2) {
									before = true
								}
								if before {
									o.Status = core.Violated
									o.Detail = "the call at " + p.Pos(in2.Pos()) + " receives the same handle before it is cloned here: the callee may write the shared data in place, and the clone then refers to the written data"
								}
							}
						}
						res.Obligations = append(res.Obligations, o)
					}
				}
			}
			return res
		},
	})
}

// usesHandle: value v is, or is a struct built from, the handle h (structurally).
func usesHandle(v, h ssa.Value, d int) bool {
	if d > 4 {
		return false
	}
	if sameExpr(v, h, 0) {
		return true
	}
	switch x := v.(type) {
	case *ssa.UnOp:
		return usesHandle(x.X, h, d+1)
	case *ssa.Alloc:
		if x.Referrers() != nil {
			for _, r := range *x.Referrers() {
				if st, ok := r.(*ssa.Store); ok && usesHandle(st.Val, h, d+1) {
					return true
				}
				if fa, ok := r.(*ssa.FieldAddr); ok && fa.Referrers() != nil {
					for _, r2 := range *fa.Referrers() {
						if st, ok := r2.(*ssa.Store); ok && usesHandle(st.Val, h, d+1) {
							return true
						}
					}
				}
			}
		}
	}
	return false
}
