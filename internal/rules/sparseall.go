package rules

import (
	"strings"

	"golang.org/x/tools/go/ssa"

	"verif/internal/core"
)

func init() {
	core.Register(&core.Rule{
		Name: "R-SPARSEALL",
		Doc: "The DFA's move follows every transition of a sparse NFA state that accepts the byte. The lazy DFA is also built from REVERSED automata (nfa.Reverse / ReverseAnchored), whose sparse states collect the incoming byte edges of a state: their ranges are neither sorted nor disjoint and lead to different targets. In package dfa/lazy a function that reads the transition list of an NFA state ((*nfa.State).Transitions) therefore looks at all of it: it calls no searching routine of package sort or slices (sort.Search, slices.BinarySearch...) - a bisection 'because the ranges of a class are sorted and disjoint' follows one transition and drops the others, and the reverse DFA of (?:alpha|beta|...)= recognises only its first branch (\\w+(?:alpha|...|lambda)= finds nothing; C14 DFA = NFA, C01/C02). An early exit after the first hit is the same mistake; the existing tests notice that one.",
		Min: 1, NeedSSA: true,
		Run: func(p *core.Prog) *core.RuleResult {
			res := &core.RuleResult{}
			pk := p.SSAPkg("dfa/lazy")
			if pk == nil {
				res.Fatal = append(res.Fatal, "package dfa/lazy not found")
				return res
			}
			for _, fn := range p.SrcFuncs() {
				own := fn.Pkg
				if own == nil && fn.Parent() != nil {
					own = fn.Parent().Pkg
				}
				if own != pk || strings.HasSuffix(p.File(fn.Pos()), "_test.go") {
					continue
				}
				readsTrans := false
				search := ""
				var visit func(f *ssa.Function)
				visit = func(f *ssa.Function) {
					for _, b := range f.Blocks {
						for _, in := range b.Instrs {
							c, ok := in.(ssa.CallInstruction)
							if !ok {
								continue
							}
							cal := c.Common().StaticCallee()
							if cal == nil {
								continue
							}
							if cal.Name() == "Transitions" && cal.Signature.Recv() != nil && strings.HasSuffix(cal.Signature.Recv().Type().String(), "nfa.State") {
								readsTrans = true
							}
							if cal.Pkg != nil && (cal.Pkg.Pkg.Path() == "sort" || cal.Pkg.Pkg.Path() == "slices") && strings.Contains(cal.Name(), "Search") {
								search = cal.Pkg.Pkg.Path() + "." + cal.Name() + " at " + p.Pos(in.Pos())
							}
						}
					}
					for _, an := range f.AnonFuncs {
						visit(an)
					}
				}
				if fn.Parent() != nil {
					continue // closures are visited with their parent
				}
				visit(fn)
				if !readsTrans {
					continue
				}
				o := core.Obligation{Key: "R-SPARSEALL|" + core.FuncName(fn) + "|all transitions of a sparse state examined", Pos: p.Pos(fn.Pos()), Nontrivial: true}
				if search == "" {
					o.Status = core.Discharged
					o.Detail = "reads the transition list without a searching routine"
				} else {
					o.Status = core.Violated
					o.Detail = "looks a byte up in the transition list with " + search + ": in a reversed automaton the ranges overlap and lead to different targets, so all but one of the accepting transitions are dropped"
				}
				res.Obligations = append(res.Obligations, o)
			}
			return res
		},
	})
}
