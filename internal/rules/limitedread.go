package rules

import (
	"fmt"
	"strings"

	"golang.org/x/tools/go/ssa"

	"verif/internal/asm"
	"verif/internal/core"
)

func init() {
	core.Register(&core.Rule{
		Name: "R-LIMITEDREAD",
		Doc: "The bounded reverse scan reads no byte below its guard. (*lazy.DFA).SearchReverseLimited(cache, haystack, start, end, minStart) exists so that the candidate loops of the reverse strategies stay linear: each candidate's backward scan is confined to [minStart, end), and minStart only grows. For every read haystack[i] in that function, minStart <= i follows from the branch conditions that dominate the read (linear inequalities; a variable that merges several values - lowerBound := max(start, minStart) - is bounded through each of its incoming edges). A scan that goes on below the guard 'once a match start has been seen' returns correct positions, and every caller stays correct, but a haystack of inner-literal hits whose prefix matches and whose tail does not is rescanned from each candidate down to the start: quadratic (one Match call on 160 KB: 2.9 s for 50 ms). Necessary for C05; not provable = violated.",
		Min: 1, NeedSSA: true,
		Run: func(p *core.Prog) *core.RuleResult {
			res := &core.RuleResult{}
			kc := core.NewKeyCounter()
			for _, fn := range p.SrcFuncs() {
				if fn.Name() != "SearchReverseLimited" || fn.Signature.Recv() == nil || !strings.HasSuffix(fn.Signature.Recv().Type().String(), "lazy.DFA") || len(fn.Params) < 6 || fn.Blocks == nil {
					continue
				}
				hay, minStart := fn.Params[2], fn.Params[5]
				if !isByteSlice(hay.Type()) || !isIntType(minStart.Type()) {
					res.Fatal = append(res.Fatal, "SearchReverseLimited: unexpected parameter list")
					continue
				}
				nonneg := map[string]bool{}
				ms := ssaLin(minStart, nonneg, 0)
				// lemma: minStart <= phi when it holds on every incoming edge
				var lemmas []asm.Lin
				for round := 0; round < 2; round++ {
					for _, b := range fn.Blocks {
						for _, in := range b.Instrs {
							ph, ok := in.(*ssa.Phi)
							if !ok || !isIntType(ph.Type()) {
								continue
							}
							all := true
							for i, e := range ph.Edges {
								facts := append(edgeFacts(b.Preds[i], b, nonneg), lemmas...)
								if !asm.Entails(facts, nonneg, ms.Plus(ssaLin(e, nonneg, 0), -1)) {
									all = false
									break
								}
							}
							if all {
								lemmas = append(lemmas, ms.Plus(ssaLin(ph, nonneg, 0), -1))
							}
						}
					}
				}
				for _, b := range fn.Blocks {
					for _, in := range b.Instrs {
						ia, ok := in.(*ssa.IndexAddr)
						if !ok || ia.X != ssa.Value(hay) {
							continue
						}
						o := core.Obligation{Key: kc.Key("R-LIMITEDREAD", core.FuncName(fn), "haystack read at or above minStart"), Pos: p.Pos(ia.Pos()), Nontrivial: true}
						facts := append(dominatingFacts(b, nonneg), lemmas...)
						if asm.Entails(facts, nonneg, ms.Plus(ssaLin(ia.Index, nonneg, 0), -1)) {
							o.Status = core.Discharged
							o.Detail = "minStart <= index follows from the dominating loop condition and the definition of the lower bound"
						} else {
							var fs []string
							for _, f := range facts {
								fs = append(fs, f.String()+"<=0")
							}
							o.Status = core.Violated
							o.Detail = fmt.Sprintf("nothing that dominates this read bounds its index from below by minStart: the scan can run below the anti-quadratic guard, so consecutive candidates rescan the same bytes; known here: %s", strings.Join(fs, " ; "))
						}
						res.Obligations = append(res.Obligations, o)
					}
				}
			}
			return res
		},
	})
}
