package rules

import "verif/internal/core"

// Properties maps each claimed property to its rules. Filled in props_table.go.
var Properties = map[string]*core.PropertySpec{}

func WriteManifest() error { return writeManifest() }
