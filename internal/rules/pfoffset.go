package rules

import (
	"fmt"
	"go/token"
	"go/types"
	"sort"
	"strings"

	"golang.org/x/tools/go/ssa"

	"verif/internal/core"
)

// dependsOn: backward slice from v reaches target (through arithmetic, phis, conversions, extracts and calls that received it).
func dependsOn(v, target ssa.Value, seen map[ssa.Value]bool) bool {
	if v == target {
		return true
	}
	if v == nil || seen[v] {
		return false
	}
	seen[v] = true
	switch x := v.(type) {
	case *ssa.BinOp:
		return dependsOn(x.X, target, seen) || dependsOn(x.Y, target, seen)
	case *ssa.UnOp:
		return dependsOn(x.X, target, seen)
	case *ssa.Convert:
		return dependsOn(x.X, target, seen)
	case *ssa.ChangeType:
		return dependsOn(x.X, target, seen)
	case *ssa.Phi:
		for _, e := range x.Edges {
			if dependsOn(e, target, seen) {
				return true
			}
		}
	case *ssa.Extract:
		return dependsOn(x.Tuple, target, seen)
	case *ssa.Call:
		for _, a := range x.Call.Args {
			if dependsOn(a, target, seen) {
				return true
			}
		}
		if x.Call.IsInvoke() {
			return dependsOn(x.Call.Value, target, seen)
		}
	case *ssa.Slice:
		return dependsOn(x.X, target, seen) || (x.Low != nil && dependsOn(x.Low, target, seen))
	case *ssa.Field:
		return dependsOn(x.X, target, seen)
	case *ssa.FieldAddr:
		return dependsOn(x.X, target, seen)
	case *ssa.IndexAddr:
		return dependsOn(x.X, target, seen) || dependsOn(x.Index, target, seen)
	case *ssa.Alloc:
		// local cell: any store into it
		if x.Referrers() != nil {
			for _, r := range *x.Referrers() {
				if st, ok := r.(*ssa.Store); ok && st.Addr == ssa.Value(x) && dependsOn(st.Val, target, seen) {
					return true
				}
			}
		}
	}
	return false
}

func init() {
	core.Register(&core.Rule{
		Name: "R-PFOFFSET",
		Doc: "Offset discipline of candidate finders: for every implementation of prefilter.Prefilter's Find/FindMatch and every simd ...At wrapper (functions taking (haystack []byte, start int ...)): (a) a re-slice haystack[start:] is dominated by a comparison of start with len(haystack) whose failing edge returns; (b) every returned position other than the constant -1 is data-dependent on start (a result that does not depend on start cannot be >= start for every start); (c) a look-behind read (index i-1) indexes the full haystack parameter, never a window re-sliced from start, so a window's first byte is not mistaken for a line/text start. Necessary for C16 (smallest position at or after the offset; line-anchor wrapper re-checks the real line start).",
		Min: 34, NeedSSA: true,
		Run: func(p *core.Prog) *core.RuleResult {
			res := &core.RuleResult{}
			pfPkg := p.Pkg("prefilter")
			var iface *types.Interface
			if pfPkg != nil {
				if tn, ok := pfPkg.Types.Scope().Lookup("Prefilter").(*types.TypeName); ok {
					iface, _ = tn.Type().Underlying().(*types.Interface)
				}
			}
			if iface == nil {
				res.Fatal = append(res.Fatal, "prefilter.Prefilter interface not found")
				return res
			}
			var subjects []*ssa.Function
			for _, fn := range p.SrcFuncs() {
				if strings.HasSuffix(p.File(fn.Pos()), "_test.go") || fn.Parent() != nil {
					continue
				}
				pk := ownPkg(fn)
				if pk == nil {
					continue
				}
				isPF := false
				if fn.Signature.Recv() != nil && (fn.Name() == "Find" || fn.Name() == "FindMatch") {
					rt := fn.Signature.Recv().Type()
					if types.Implements(rt, iface) || types.Implements(types.NewPointer(rt), iface) {
						isPF = true
					}
				}
				isAt := strings.HasSuffix(pk.Path(), "/simd") && strings.HasSuffix(fn.Name(), "At") && fn.Object() != nil && fn.Object().Exported()
				if !isPF && !isAt {
					continue
				}
				subjects = append(subjects, fn)
			}
			sort.Slice(subjects, func(i, j int) bool { return core.FuncName(subjects[i]) < core.FuncName(subjects[j]) })
			for _, fn := range subjects {
				// identify haystack ([]byte) and start (int) parameters
				var hay, start *ssa.Parameter
				for _, prm := range fn.Params {
					if isByteSlice(prm.Type()) && hay == nil {
						hay = prm
					}
					if bt, ok := prm.Type().Underlying().(*types.Basic); ok && bt.Kind() == types.Int && hay != nil && start == nil {
						start = prm
					}
				}
				if hay == nil || start == nil {
					continue
				}
				name := core.FuncName(fn)
				kc := core.NewKeyCounter()
				// (a) re-slices from start
				for _, b := range fn.Blocks {
					for _, in := range b.Instrs {
						sl, ok := in.(*ssa.Slice)
						if !ok || sl.X != ssa.Value(hay) || sl.Low == nil || !dependsOn(sl.Low, start, map[ssa.Value]bool{}) {
							continue
						}
						o := core.Obligation{Key: kc.Key("R-PFOFFSET", name, "reslice haystack[start:] guarded"), Pos: p.Pos(sl.Pos()), Nontrivial: true}
						if startGuarded(fn, b, hay, start) {
							o.Status = core.Discharged
							o.Detail = "dominated by a comparison of start with len(haystack)"
						} else {
							o.Status = core.Violated
							o.Detail = "haystack[start:] is taken without a dominating comparison of start with len(haystack): start > len panics, start == len must yield -1"
						}
						res.Obligations = append(res.Obligations, o)
					}
				}
				// (b) returned positions depend on start
				for _, b := range fn.Blocks {
					for _, in := range b.Instrs {
						r, ok := in.(*ssa.Return)
						if !ok || len(r.Results) == 0 {
							continue
						}
						v := r.Results[0]
						if c, ok := constInt(v); ok && c == -1 {
							continue
						}
						o := core.Obligation{Key: kc.Key("R-PFOFFSET", name, "returned position depends on start"), Pos: p.Pos(r.Pos()), Nontrivial: true}
						if dependsOn(v, start, map[ssa.Value]bool{}) {
							o.Status = core.Discharged
							o.Detail = "the returned position is computed from start (directly or by a callee that received it)"
						} else {
							o.Status = core.Violated
							o.Detail = "a returned position does not depend on the start offset: it is a position inside a window or from offset 0, not an absolute position at or after start"
						}
						res.Obligations = append(res.Obligations, o)
					}
				}
				// (c) look-behind reads index the full haystack
				for _, b := range fn.Blocks {
					for _, in := range b.Instrs {
						ia, ok := in.(*ssa.IndexAddr)
						if !ok || !isByteSlice(ia.X.Type()) {
							continue
						}
						bo, ok := ia.Index.(*ssa.BinOp)
						if !ok || bo.Op != token.SUB {
							continue
						}
						if c, ok := constInt(bo.Y); !ok || c < 1 {
							continue
						}
						o := core.Obligation{Key: kc.Key("R-PFOFFSET", name, "look-behind read on full haystack"), Pos: p.Pos(ia.Pos()), Nontrivial: true}
						if ia.X == ssa.Value(hay) {
							o.Status = core.Discharged
							o.Detail = "the byte before the candidate is read from the full haystack"
						} else {
							o.Status = core.Violated
							o.Detail = "a look-behind byte (index-1) is read from a re-sliced window, not from the full haystack: the window's first byte is taken for a line/text start"
						}
						res.Obligations = append(res.Obligations, o)
					}
				}
				if kc != nil {
					res.Obligations = append(res.Obligations, core.Obligation{Key: "R-PFOFFSET|" + name + "|candidate finder analysed", Pos: p.Pos(fn.Pos()), Status: core.Discharged, Detail: "Find/FindMatch/...At implementation"})
				}
			}
			res.Notes = append(res.Notes, fmt.Sprintf("candidate finders analysed: %d", len(subjects)))
			return res
		},
	})
}

// startGuarded: block b is dominated by an edge of a comparison between start and len(haystack).
func startGuarded(fn *ssa.Function, b *ssa.BasicBlock, hay, start ssa.Value) bool {
	isLen := func(v ssa.Value) bool {
		c, ok := v.(*ssa.Call)
		if !ok {
			return false
		}
		bi, ok := c.Call.Value.(*ssa.Builtin)
		return ok && bi.Name() == "len" && c.Call.Args[0] == hay
	}
	for _, blk := range fn.Blocks {
		if len(blk.Instrs) == 0 {
			continue
		}
		iff, ok := blk.Instrs[len(blk.Instrs)-1].(*ssa.If)
		if !ok {
			continue
		}
		bo, ok := iff.Cond.(*ssa.BinOp)
		if !ok {
			continue
		}
		if !((bo.X == start && isLen(bo.Y)) || (bo.Y == start && isLen(bo.X))) {
			continue
		}
		for _, s := range blk.Succs {
			if len(s.Preds) == 1 && (s == b || s.Dominates(b)) {
				return true
			}
		}
		// short-circuit forms (start < 0 || start >= len): the fallthrough of the second test
		if blk.Dominates(b) && blk != b {
			for _, s := range blk.Succs {
				if s == b || s.Dominates(b) {
					return true
				}
			}
		}
	}
	return false
}
