package rules

import (
	"fmt"
	"go/token"
	"go/types"
	"sort"
	"strings"

	"golang.org/x/tools/go/ssa"

	"verif/internal/core"
	"verif/internal/own"
)

func init() {
	core.Register(&core.Rule{
		Name: "R-FRESHRET",
		Doc: "Replace* returns memory of its own: for every exported method of coregex.Regex whose name begins with Replace and whose result is a []byte, the ownership class of the result under the root context (receiver SHARED, src/repl INPUT) is FRESH - never the caller's src or repl slice (INPUT) and never memory of the compiled object (SHARED). regexp documents 'returns a copy of src'; a no-match shortcut that returns src itself makes the caller's later writes to the result modify the source (C08: a fresh copy when nothing matches; C07).",
		Min: 3, NeedSSA: true,
		Run: func(p *core.Prog) *core.RuleResult {
			res := &core.RuleResult{}
			a := OwnAnalysis(p)
			rets := a.RootRets()
			var fns []*ssa.Function
			for fn := range rets {
				fns = append(fns, fn)
			}
			sort.Slice(fns, func(i, j int) bool { return core.FuncName(fns[i]) < core.FuncName(fns[j]) })
			for _, fn := range fns {
				if fn.Signature.Recv() == nil || !strings.HasPrefix(fn.Name(), "Replace") || fn.Parent() != nil {
					continue
				}
				if pk := ownPkg(fn); pk == nil || pk.Path() != core.ModPath {
					continue
				}
				r := fn.Signature.Results()
				for i := 0; i < r.Len(); i++ {
					if !isByteSlice(r.At(i).Type()) {
						continue
					}
					o := core.Obligation{Key: "R-FRESHRET|" + core.FuncName(fn) + "|result " + fmt.Sprint(i), Pos: p.Pos(fn.Pos()), Nontrivial: true}
					if i >= len(rets[fn]) {
						o.Status = core.Undecided
						o.Detail = "no result class computed"
					} else if c := rets[fn][i].C; c <= own.FRESH {
						o.Status = core.Discharged
						o.Detail = "the result is allocated by this call on every path (class " + c.String() + ")"
					} else {
						o.Status = core.Violated
						o.Detail = fmt.Sprintf("the result may be memory of class %s (%s): the caller receives its own src/repl slice or memory of the compiled object instead of a copy", c, rets[fn][i].Path)
					}
					res.Obligations = append(res.Obligations, o)
				}
			}
			return res
		},
	})

	core.Register(&core.Rule{
		Name: "R-STATERET",
		Doc: "No result of a public search method is memory of the pooled per-search state: for every root (exported method of coregex.Regex and meta.Engine, and the iterator closures they return) every pointer-like result (slice, pointer, map, struct holding them) has an ownership class other than STATE under the root context. Per-search state goes back to the pool when the method returns (deferred put), so a result that aliases it - capture index slices cut out of the one-pass cache's slot array instead of copied - is overwritten by the next search of any goroutine while the caller still reads it. Necessary for C06 (concurrent calls return the sequential results), C13 and C03.",
		Min: 40, NeedSSA: true,
		Run: func(p *core.Prog) *core.RuleResult {
			res := &core.RuleResult{}
			a := OwnAnalysis(p)
			rets := a.RootRets()
			var fns []*ssa.Function
			for fn := range rets {
				fns = append(fns, fn)
			}
			sort.Slice(fns, func(i, j int) bool { return core.FuncName(fns[i]) < core.FuncName(fns[j]) })
			for _, fn := range fns {
				r := fn.Signature.Results()
				for i := 0; i < r.Len(); i++ {
					if !pointerLike(r.At(i).Type(), 0) {
						continue
					}
					o := core.Obligation{Key: "R-STATERET|" + core.FuncName(fn) + "|result " + fmt.Sprint(i), Pos: p.Pos(fn.Pos()), Nontrivial: true}
					switch {
					case i >= len(rets[fn]):
						o.Status = core.Undecided
						o.Detail = "no result class computed"
					case rets[fn][i].C == own.STATE:
						o.Status = core.Violated
						o.Detail = fmt.Sprintf("the result may be memory of the pooled per-search state (%s): it is handed back to the pool when the method returns and rewritten by the next search while the caller still holds it", rets[fn][i].Path)
					case deepStateKey(a, r.At(i).Type(), 0) != "":
						k := deepStateKey(a, r.At(i).Type(), 0)
						o.Status = core.Violated
						o.Detail = fmt.Sprintf("memory reachable from the result (%s) may belong to the pooled per-search state (%s): it is handed back to the pool when the method returns and rewritten by the next search while the caller still holds it", k, a.ContentWhy(k))
					default:
						o.Status = core.Discharged
						o.Detail = "result class " + rets[fn][i].C.String()
					}
					res.Obligations = append(res.Obligations, o)
				}
			}
			return res
		},
	})

	core.Register(&core.Rule{
		Name: "R-EXPAND",
		Doc: "Template expansion reads what distinguishes templates: an expander is a function of the root package that takes a match-index slice ([]int) and at least two byte sequences and looks for '$' in one of them. Its family (the expander and the module functions it calls) must (1) reach the capture-name table (SubexpNames/SubexpIndex): for (?P<a>x)(?P<b>y) the templates $a and $b need different output and nothing else distinguishes them; (2) test for the closing brace '}' as well as the opening one: ${1}0 and ${10} differ only there; (3) accumulate a multi-digit group number (a multiplication by 10 or a strconv call inside the family): $1 and $10 name different groups; (4) classify the characters of a name with a rune classifier of package unicode (IsLetter/IsDigit, In, Is ...), as regexp does: a non-ASCII letter glued to a reference belongs to the name ($1\u00e8re is the unknown group '1\u00e8re', not $1 followed by text). Necessary for C08 ($name, ${name}, multi-digit $10).",
		Min: 3, NeedSSA: true,
		Run: func(p *core.Prog) *core.RuleResult {
			res := &core.RuleResult{}
			isConstByte := func(v ssa.Value, b int64) bool {
				c, ok := v.(*ssa.Const)
				if !ok || c.Value == nil {
					return false
				}
				if bt, ok := c.Type().Underlying().(*types.Basic); !ok || bt.Info()&types.IsInteger == 0 {
					return false
				}
				return c.Int64() == b
			}
			mentions := func(fn *ssa.Function, b int64) bool {
				for _, blk := range fn.Blocks {
					for _, in := range blk.Instrs {
						switch x := in.(type) {
						case *ssa.BinOp:
							if (x.Op == token.EQL || x.Op == token.NEQ) && (isConstByte(x.X, b) || isConstByte(x.Y, b)) {
								return true
							}
						case *ssa.Call:
							for _, a := range x.Call.Args {
								if isConstByte(a, b) {
									return true
								}
							}
						}
					}
				}
				return false
			}
			for _, fn := range p.SrcFuncs() {
				if strings.HasSuffix(p.File(fn.Pos()), "_test.go") {
					continue
				}
				if pk := ownPkg(fn); pk == nil || pk.Path() != core.ModPath {
					continue
				}
				nseq, hasMatch := 0, false
				for _, prm := range fn.Params {
					if isByteSeq(prm.Type()) {
						nseq++
					}
					if sl, ok := prm.Type().Underlying().(*types.Slice); ok && isIntType(sl.Elem()) {
						hasMatch = true
					}
				}
				if nseq < 2 || !hasMatch || !mentions(fn, '$') {
					continue
				}
				// family: module callees, transitively
				fam := map[*ssa.Function]bool{fn: true}
				work := []*ssa.Function{fn}
				names, mul10 := false, false
				runeClass := map[string]bool{}
				for len(work) > 0 {
					f := work[0]
					work = work[1:]
					for _, blk := range f.Blocks {
						for _, in := range blk.Instrs {
							if bo, ok := in.(*ssa.BinOp); ok && bo.Op == token.MUL && (isConstByte(bo.X, 10) || isConstByte(bo.Y, 10)) {
								mul10 = true
							}
							c, ok := in.(ssa.CallInstruction)
							if !ok {
								continue
							}
							cal := c.Common().StaticCallee()
							if cal == nil {
								continue
							}
							if cal.Pkg != nil && cal.Pkg.Pkg.Path() == "strconv" {
								mul10 = true
							}
							if cal.Name() == "SubexpNames" || cal.Name() == "SubexpIndex" {
								names = true
							}
							if cal.Pkg != nil && cal.Pkg.Pkg.Path() == "unicode" && (strings.HasPrefix(cal.Name(), "Is") || cal.Name() == "In") {
								runeClass["unicode"] = true // any classifier of package unicode: IsLetter/IsDigit, In(r, L, Nd), Is(...)
							}
							if cpk := ownPkg(cal); cpk != nil && cpk.Path() == core.ModPath && !fam[cal] && cal.Blocks != nil {
								fam[cal] = true
								work = append(work, cal)
							}
						}
					}
				}
				closeBrace, openBrace := false, false
				var famNames []string
				for f := range fam {
					famNames = append(famNames, f.Name())
					if mentions(f, '}') {
						closeBrace = true
					}
					if mentions(f, '{') {
						openBrace = true
					}
				}
				sort.Strings(famNames)
				mk := func(what string, ok bool, good, bad string) {
					o := core.Obligation{Key: "R-EXPAND|" + core.FuncName(fn) + "|" + what, Pos: p.Pos(fn.Pos()), Nontrivial: true, Path: []string{"family: " + strings.Join(famNames, ", ")}}
					if ok {
						o.Status = core.Discharged
						o.Detail = good
					} else {
						o.Status = core.Violated
						o.Detail = bad
					}
					res.Obligations = append(res.Obligations, o)
				}
				mk("reads the capture names", names, "the family reaches SubexpNames/SubexpIndex", "the expander never reads the capture-name table: $name and ${name} cannot be resolved, so templates that differ only in the name expand alike")
				mk("tests for both braces", closeBrace && openBrace, "the family tests for '{' and '}'", "the expander does not test for both '{' and '}': ${name} is not parsed, so ${1}0 and ${10} expand alike or the braces are copied literally")
				mk("name lexer classifies runes", runeClass["unicode"], "the family calls a rune classifier of package unicode", "the family does not classify the characters of a name with package unicode (IsLetter/IsDigit, In, Is): regexp ends a $name at the first rune that is neither a letter, a digit nor '_' in Unicode's sense, so $1\u00e8re names the (unknown) group \"1\u00e8re\" and expands to nothing; a byte-wise ASCII scan ends the name early and expands $1")
				mk("accumulates multi-digit group numbers", mul10, "the family multiplies by 10 (or calls strconv) while reading the number", "the expander reads a single digit: $10 is taken for $1 followed by 0")
			}
			return res
		},
	})
}


// pointerLike: values of the type can reference memory (slice, pointer, map, chan, func, interface, or a struct/array holding one).
func pointerLike(t types.Type, depth int) bool {
	if depth > 4 {
		return false
	}
	switch u := t.Underlying().(type) {
	case *types.Slice, *types.Pointer, *types.Map, *types.Chan, *types.Signature, *types.Interface:
		return true
	case *types.Struct:
		for i := 0; i < u.NumFields(); i++ {
			if pointerLike(u.Field(i).Type(), depth+1) {
				return true
			}
		}
	case *types.Array:
		return pointerLike(u.Elem(), depth+1)
	}
	return false
}


// deepStateKey: a memory cell reachable from a value of type t (fields of freshly built structs, elements of slices)
// whose recorded content class is STATE; "" if none. Content is keyed by field and by element type (see package own).
func deepStateKey(a *own.Analysis, t types.Type, depth int) string {
	if depth > 3 {
		return ""
	}
	content := a.Content()
	switch u := t.Underlying().(type) {
	case *types.Pointer:
		return deepStateKey(a, u.Elem(), depth+1)
	case *types.Slice:
		if pointerLike(u.Elem(), 0) {
			k := "elem:" + core.TypeName(u.Elem())
			if content[k] == own.STATE {
				return k
			}
			return deepStateKey(a, u.Elem(), depth+1)
		}
	case *types.Struct:
		if n, ok := t.(*types.Named); ok && !a.P.InModule(n.Obj().Pkg()) {
			return ""
		}
		for i := 0; i < u.NumFields(); i++ {
			f := u.Field(i)
			if !pointerLike(f.Type(), 0) {
				continue
			}
			k := "field:" + core.TypeName(t) + "." + f.Name()
			if content[k] == own.STATE {
				return k
			}
			if r := deepStateKey(a, f.Type(), depth+1); r != "" {
				return r
			}
		}
	}
	return ""
}
