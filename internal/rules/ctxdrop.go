package rules

import (
	"go/token"
	"go/types"
	"strings"

	"golang.org/x/tools/go/ssa"

	"verif/internal/core"
)

// contextDroppingWrappers: functions whose whole body is `return g(recv, nil, 0, ...)`: they evaluate a
// position-dependent question (can the pattern match empty here?) as if at offset 0 of an empty input.
func contextDroppingWrappers(p *core.Prog) map[*ssa.Function]*ssa.Function {
	out := map[*ssa.Function]*ssa.Function{}
	for _, fn := range p.SrcFuncs() {
		if len(fn.Blocks) != 1 || strings.HasSuffix(p.File(fn.Pos()), "_test.go") {
			continue
		}
		var call *ssa.Call
		n := 0
		for _, in := range fn.Blocks[0].Instrs {
			switch x := in.(type) {
			case *ssa.Call:
				call = x
				n++
			case *ssa.Return, *ssa.DebugRef:
			default:
				n += 10
			}
		}
		if n != 1 || call == nil {
			continue
		}
		g := call.Call.StaticCallee()
		if g == nil || len(g.Blocks) == 0 {
			continue
		}
		nilBytes, zeroInt := false, false
		for _, a := range call.Call.Args {
			c, ok := a.(*ssa.Const)
			if !ok {
				continue
			}
			if c.Value == nil && isByteSlice(c.Type()) {
				nilBytes = true
			}
			if i, ok := constInt(c); ok && i == 0 && isIntType(c.Type()) {
				zeroInt = true
			}
		}
		if nilBytes && zeroInt {
			out[fn] = g
		}
	}
	return out
}

// emptyHaystackSearchers: functions of the module without a []byte parameter that hand a module function a
// haystack that is empty by construction ([]byte{} or a nil constant): "does the pattern match the empty input".
// Clause (b) of R-CTXDROP treats them like the nil/0 wrappers.
func emptyHaystackSearchers(p *core.Prog) map[*ssa.Function]*ssa.Function {
	out := map[*ssa.Function]*ssa.Function{}
	for _, fn := range p.SrcFuncs() {
		if strings.HasSuffix(p.File(fn.Pos()), "_test.go") || !p.InModule(ownPkg(fn)) || fn.Signature.Recv() == nil {
			continue
		}
		if r := fn.Signature.Results(); r.Len() != 1 || !isBoolType(r.At(0).Type()) {
			continue
		}
		hasBytes := false
		for _, prm := range fn.Params {
			if isByteSlice(prm.Type()) {
				hasBytes = true
			}
		}
		if hasBytes {
			continue
		}
		for _, b := range fn.Blocks {
			for _, in := range b.Instrs {
				call, ok := in.(*ssa.Call)
				if !ok {
					continue
				}
				g := call.Call.StaticCallee()
				if g == nil || len(g.Blocks) == 0 || !p.InModule(ownPkg(g)) {
					continue
				}
				for _, a := range call.Call.Args {
					if !isByteSlice(a.Type()) {
						continue
					}
					if sl, ok := a.(*ssa.Slice); ok && sl.Low == nil && sl.High == nil {
						if al, ok := sl.X.(*ssa.Alloc); ok {
							if pt, ok := al.Type().Underlying().(*types.Pointer); ok {
								if arr, ok := pt.Elem().Underlying().(*types.Array); ok && arr.Len() == 0 {
									out[fn] = g
								}
							}
						}
					}
				}
			}
		}
	}
	return out
}

func init() {
	core.Register(&core.Rule{
		Name: "R-CTXDROP",
		Doc: "A position-dependent question is not answered for offset 0 of an empty input. A wrapper whose whole body forwards nil and 0 to a sibling taking (haystack []byte, pos int) (matchesEmpty() = matchesEmptyAt(nil, 0)) evaluates look-around assertions with nothing before and nothing after the position. A function that has a haystack in scope may call it only where the haystack is known to be empty (dominated by the true edge of len(haystack) == 0): at the end of a non-empty haystack, whether \\b, \\B, (?m)^ or $ hold depends on the bytes before the position, and the sibling must be called with them. Necessary for C04 (the match sequence of a resumed search: FindAllSubmatch of \\b on \"a\" loses [1 1]) and C02. Clause (b): the same for a helper without a haystack parameter that hands a module search function a haystack empty by construction ([]byte{}): lazy.(*DFA).matchesEmpty, which five entry points of the lazy DFA asked at the end of a non-empty haystack before fix 6e116d7 (C14).",
		Min: 6, NeedSSA: true,
		Run: func(p *core.Prog) *core.RuleResult {
			res := &core.RuleResult{}
			kc := core.NewKeyCounter()
			wr := contextDroppingWrappers(p)
			var names []string
			for w, g := range wr {
				names = append(names, core.FuncName(w)+" -> "+core.FuncName(g))
			}
			res.Notes = append(res.Notes, "context-dropping wrappers (computed): "+strings.Join(sortedStrs(names), ", "))
			var names2 []string
			for w, g := range emptyHaystackSearchers(p) {
				if wr[w] == nil {
					wr[w] = g
					names2 = append(names2, core.FuncName(w)+" -> "+core.FuncName(g)+"([]byte{})")
				}
			}
			res.Notes = append(res.Notes, "clause (b), helpers that search a haystack empty by construction (computed): "+strings.Join(sortedStrs(names2), ", "))
			for _, fn := range p.SrcFuncs() {
				if strings.HasSuffix(p.File(fn.Pos()), "_test.go") || !p.InModule(ownPkg(fn)) {
					continue
				}
				var hay *ssa.Parameter
				for _, prm := range fn.Params {
					if isByteSlice(prm.Type()) && hay == nil {
						hay = prm
					}
				}
				if hay == nil {
					continue
				}
				for _, b := range fn.Blocks {
					for _, in := range b.Instrs {
						call, ok := in.(ssa.CallInstruction)
						if !ok {
							continue
						}
						w := call.Common().StaticCallee()
						if w == nil || wr[w] == nil {
							continue
						}
						o := core.Obligation{Key: kc.Key("R-CTXDROP", core.FuncName(fn), "call of "+core.FuncName(w)+" only for an empty haystack"), Pos: p.Pos(in.Pos()), Nontrivial: true}
						ok2 := false
						for d := b; d != nil && !ok2; d = d.Idom() {
							id := d.Idom()
							if id == nil || len(id.Instrs) == 0 {
								continue
							}
							iff, isIf := id.Instrs[len(id.Instrs)-1].(*ssa.If)
							if !isIf || len(d.Preds) != 1 {
								continue
							}
							cmp, isCmp := iff.Cond.(*ssa.BinOp)
							if !isCmp {
								continue
							}
							// len(hay) == 0 on the true edge, or len(hay) != 0 / > 0 on the false edge
							var other ssa.Value
							if isLenOf(cmp.X, hay) {
								other = cmp.Y
							} else if isLenOf(cmp.Y, hay) {
								other = cmp.X
							} else {
								continue
							}
							c, isC := constInt(other)
							if !isC || c != 0 {
								continue
							}
							onTrue := id.Succs[0] == d
							switch {
							case cmp.Op == token.EQL && onTrue, cmp.Op == token.NEQ && !onTrue, cmp.Op == token.GTR && !onTrue && isLenOf(cmp.X, hay), cmp.Op == token.LEQ && onTrue && isLenOf(cmp.X, hay):
								ok2 = true
							}
						}
						if ok2 {
							o.Status = core.Discharged
							o.Detail = "dominated by len(" + hay.Name() + ") == 0"
						} else {
							o.Status = core.Violated
							o.Detail = core.FuncName(w) + " answers for offset 0 of an empty input; here " + hay.Name() + " is not known to be empty, so assertions that look at the bytes before the position are evaluated wrongly: call " + core.FuncName(wr[w]) + " with the haystack and the position"
						}
						res.Obligations = append(res.Obligations, o)
					}
				}
			}
			return res
		},
	})
}

func isLenOf(v ssa.Value, s ssa.Value) bool {
	c, ok := v.(*ssa.Call)
	if !ok {
		return false
	}
	bi, ok := c.Call.Value.(*ssa.Builtin)
	return ok && bi.Name() == "len" && len(c.Call.Args) == 1 && c.Call.Args[0] == s
}
