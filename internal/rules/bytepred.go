package rules

import (
	"fmt"
	"go/constant"
	"go/token"
	"go/types"
	"sort"
	"strings"

	"golang.org/x/tools/go/ssa"

	"verif/internal/core"
)

// A byte predicate is a function func(x T) bool, T an integer type, whose SSA body consists only of
// comparisons/arithmetic of x with constants, boolean connectives (branches and phis), conversions
// and calls of other byte predicates. Its meaning is a set of bytes, and that set is computed here
// exactly, by folding the body for each of the 256 values of x (constant folding over a finite
// domain: nothing of the library is executed).

type predEnv struct {
	vals  map[ssa.Value]constant.Value
	depth int
}

func truncTo(v constant.Value, t types.Type) (constant.Value, bool) {
	b, ok := t.Underlying().(*types.Basic)
	if !ok {
		return nil, false
	}
	if b.Info()&types.IsBoolean != 0 {
		return v, v.Kind() == constant.Bool
	}
	if b.Info()&types.IsInteger == 0 || v.Kind() != constant.Int {
		return nil, false
	}
	i, ok := constant.Int64Val(v)
	if !ok {
		return nil, false
	}
	switch b.Kind() {
	case types.Uint8:
		return constant.MakeInt64(int64(uint8(i))), true
	case types.Int8:
		return constant.MakeInt64(int64(int8(i))), true
	case types.Uint16:
		return constant.MakeInt64(int64(uint16(i))), true
	case types.Int16:
		return constant.MakeInt64(int64(int16(i))), true
	case types.Uint32:
		return constant.MakeInt64(int64(uint32(i))), true
	case types.Int32:
		return constant.MakeInt64(int64(int32(i))), true
	case types.Int, types.Int64, types.Uint, types.Uint64, types.Uintptr, types.UntypedInt, types.UntypedRune:
		return v, true
	}
	return nil, false
}

// foldPred folds fn(x) to a boolean; ok=false when the body is not a pure byte predicate.
func foldPred(fn *ssa.Function, x int64, depth int) (res bool, ok bool) {
	if depth > 3 || fn == nil || len(fn.Blocks) == 0 || len(fn.Params) != 1 || len(fn.FreeVars) != 0 {
		return false, false
	}
	env := map[ssa.Value]constant.Value{}
	pv, ok := truncTo(constant.MakeInt64(x), fn.Params[0].Type())
	if !ok {
		return false, false
	}
	env[fn.Params[0]] = pv
	get := func(v ssa.Value) (constant.Value, bool) {
		if c, ok := v.(*ssa.Const); ok {
			if c.Value == nil {
				return nil, false
			}
			return c.Value, true
		}
		r, ok := env[v]
		return r, ok
	}
	blk := fn.Blocks[0]
	var prev *ssa.BasicBlock
	for steps := 0; steps < 4096; steps++ {
		for _, in := range blk.Instrs {
			switch in := in.(type) {
			case *ssa.DebugRef:
			case *ssa.Phi:
				idx := -1
				for i, p := range blk.Preds {
					if p == prev {
						idx = i
					}
				}
				if idx < 0 {
					return false, false
				}
				v, ok := get(in.Edges[idx])
				if !ok {
					return false, false
				}
				env[in] = v
			case *ssa.BinOp:
				a, ok1 := get(in.X)
				b, ok2 := get(in.Y)
				if !ok1 || !ok2 {
					return false, false
				}
				switch in.Op {
				case token.EQL, token.NEQ, token.LSS, token.LEQ, token.GTR, token.GEQ:
					if a.Kind() == constant.Bool || b.Kind() == constant.Bool {
						if in.Op != token.EQL && in.Op != token.NEQ {
							return false, false
						}
						eq := constant.BoolVal(a) == constant.BoolVal(b)
						env[in] = constant.MakeBool(eq == (in.Op == token.EQL))
					} else {
						env[in] = constant.MakeBool(constant.Compare(a, in.Op, b))
					}
				case token.ADD, token.SUB, token.MUL, token.AND, token.OR, token.XOR, token.AND_NOT:
					if a.Kind() == constant.Bool {
						return false, false
					}
					r, ok := truncTo(constant.BinaryOp(a, in.Op, b), in.Type())
					if !ok {
						return false, false
					}
					env[in] = r
				case token.SHL, token.SHR:
					s, ok := constant.Uint64Val(b)
					if !ok || s > 63 {
						return false, false
					}
					r, ok := truncTo(constant.Shift(a, in.Op, uint(s)), in.Type())
					if !ok {
						return false, false
					}
					env[in] = r
				default:
					return false, false
				}
			case *ssa.UnOp:
				a, ok := get(in.X)
				if !ok || in.Op != token.NOT || a.Kind() != constant.Bool {
					return false, false
				}
				env[in] = constant.MakeBool(!constant.BoolVal(a))
			case *ssa.Convert:
				a, ok := get(in.X)
				if !ok {
					return false, false
				}
				r, ok := truncTo(a, in.Type())
				if !ok {
					return false, false
				}
				env[in] = r
			case *ssa.ChangeType:
				a, ok := get(in.X)
				if !ok {
					return false, false
				}
				env[in] = a
			case *ssa.Call:
				cal := in.Call.StaticCallee()
				if cal == nil || len(in.Call.Args) != 1 {
					return false, false
				}
				a, ok := get(in.Call.Args[0])
				if !ok || a.Kind() != constant.Int {
					return false, false
				}
				ai, _ := constant.Int64Val(a)
				r, ok := foldPred(cal, ai, depth+1)
				if !ok {
					return false, false
				}
				env[in] = constant.MakeBool(r)
			case *ssa.If:
				c, ok := get(in.Cond)
				if !ok || c.Kind() != constant.Bool {
					return false, false
				}
				prev = blk
				if constant.BoolVal(c) {
					blk = blk.Succs[0]
				} else {
					blk = blk.Succs[1]
				}
			case *ssa.Jump:
				prev = blk
				blk = blk.Succs[0]
			case *ssa.Return:
				if len(in.Results) != 1 {
					return false, false
				}
				c, ok := get(in.Results[0])
				if !ok || c.Kind() != constant.Bool {
					return false, false
				}
				return constant.BoolVal(c), true
			default:
				return false, false
			}
		}
	}
	return false, false
}

type byteSet [256]bool

func predTable(fn *ssa.Function) (*byteSet, bool) {
	sig := fn.Signature
	if sig.Recv() != nil || sig.Params().Len() != 1 || sig.Results().Len() != 1 {
		return nil, false
	}
	if b, ok := sig.Results().At(0).Type().Underlying().(*types.Basic); !ok || b.Kind() != types.Bool {
		return nil, false
	}
	if b, ok := sig.Params().At(0).Type().Underlying().(*types.Basic); !ok || b.Info()&types.IsInteger == 0 {
		return nil, false
	}
	var t byteSet
	for x := 0; x < 256; x++ {
		r, ok := foldPred(fn, int64(x), 0)
		if !ok {
			return nil, false
		}
		t[x] = r
	}
	return &t, true
}

func (t *byteSet) count() int {
	n := 0
	for _, b := range t {
		if b {
			n++
		}
	}
	return n
}

func describeBytes(bs []int) string {
	var parts []string
	for _, b := range bs {
		if b >= 0x21 && b < 0x7F {
			parts = append(parts, fmt.Sprintf("%q", rune(b)))
		} else {
			parts = append(parts, fmt.Sprintf("0x%02X", b))
		}
	}
	if len(parts) > 8 {
		parts = append(parts[:8], fmt.Sprintf("... %d in all", len(bs)))
	}
	return strings.Join(parts, ",")
}

// byteClassRefs: the reference classes, each taken from the standard library's own definition
// (folded the same way), so the expected set is not a table frozen in the checker.
var byteClassRefs = []struct{ pkg, fn, what string }{
	{"regexp/syntax", "IsWordChar", "word bytes [0-9A-Za-z_]: the class \\b, \\B and the word scanners are defined by"},
}

func init() {
	core.Register(&core.Rule{
		Name: "R-BYTEPRED",
		Doc: "Byte predicates denote the class they stand for: every module function func(x T) bool over an integer x whose body is a pure combination of comparisons of x with constants (ranges, equalities, connectives, calls of other such predicates) denotes a set of bytes, computed exactly by folding the body over the 256 byte values. A predicate whose set differs from a reference class in at most 4 of the 256 bytes (regexp/syntax.IsWordChar, folded from the standard library's source the same way) is an implementation of that class and must denote exactly that set. The scalar word scanner (simd.isWordChar: MemchrWord/MemchrNotWord and the tails of the vector code), the PikeVM's and the lazy DFA's isWordByte (\\b, \\B) are such siblings; a range test that is off by one byte ('`' between '_' and 'a', '@' before 'A', ':' after '9') changes answers only for haystacks containing that byte next to a word. Necessary for C18 (word search equals its scalar definition), C14/C02 (\\b, \\B agree between engines and with regexp). Decides the Go predicates, not the assembly range constants.",
		Min: 3, NeedSSA: true,
		Run: func(p *core.Prog) *core.RuleResult {
			res := &core.RuleResult{}
			type ref struct {
				name string
				tab  *byteSet
			}
			var refs []ref
			for _, r := range byteClassRefs {
				sp := p.SSA.ImportedPackage(r.pkg)
				if sp == nil {
					res.Fatal = append(res.Fatal, "reference package "+r.pkg+" not loaded")
					return res
				}
				fn := sp.Func(r.fn)
				if fn == nil {
					res.Fatal = append(res.Fatal, "reference predicate "+r.pkg+"."+r.fn+" not found")
					return res
				}
				t, ok := predTable(fn)
				if !ok {
					res.Fatal = append(res.Fatal, "reference predicate "+r.pkg+"."+r.fn+" is not foldable")
					return res
				}
				refs = append(refs, ref{r.pkg + "." + r.fn, t})
			}
			var cands []*ssa.Function
			for _, fn := range p.SrcFuncs() {
				if fn.Parent() != nil || strings.HasSuffix(p.File(fn.Pos()), "_test.go") {
					continue
				}
				cands = append(cands, fn)
			}
			sort.Slice(cands, func(i, j int) bool { return core.FuncName(cands[i]) < core.FuncName(cands[j]) })
			folded := 0
			for _, fn := range cands {
				t, ok := predTable(fn)
				if !ok {
					continue
				}
				folded++
				near := false
				for _, r := range refs {
					var extra, missing []int
					for x := 0; x < 256; x++ {
						if t[x] && !r.tab[x] {
							extra = append(extra, x)
						}
						if !t[x] && r.tab[x] {
							missing = append(missing, x)
						}
					}
					if len(extra)+len(missing) > 4 {
						continue
					}
					near = true
					o := core.Obligation{Key: "R-BYTEPRED|" + core.FuncName(fn) + "|denotes the byte set of " + r.name, Pos: p.Pos(fn.Pos()), Nontrivial: true}
					if len(extra)+len(missing) == 0 {
						o.Status = core.Discharged
						o.Detail = fmt.Sprintf("folded over 0..255: %d members, identical to %s", t.count(), r.name)
					} else {
						o.Status = core.Violated
						o.Detail = fmt.Sprintf("folded over 0..255: the predicate accepts {%s} which %s rejects and rejects {%s} which it accepts; it differs from the class in %d of 256 bytes, so it stands for that class and gets it wrong", describeBytes(extra), r.name, describeBytes(missing), len(extra)+len(missing))
					}
					res.Obligations = append(res.Obligations, o)
				}
				if !near {
					res.Notes = append(res.Notes, fmt.Sprintf("%s: pure byte predicate with %d members, not near a reference class (not an obligation)", core.FuncName(fn), t.count()))
				}
			}
			res.Notes = append(res.Notes, fmt.Sprintf("%d module functions fold to a byte set", folded))
			return res
		},
	})
}
