package rules

import (
	"fmt"
	"go/token"
	"go/types"
	"sort"
	"strings"

	"golang.org/x/tools/go/ssa"

	"verif/internal/core"
)

// scratchViewMethods: methods of package nfa types that return a sub-slice of a slice field of their receiver
// (a window into a table that later steps overwrite).
func scratchViewMethods(p *core.Prog) map[*ssa.Function]bool {
	out := map[*ssa.Function]bool{}
	pk := p.SSAPkg("nfa")
	if pk == nil {
		return out
	}
	for _, fn := range p.SrcFuncs() {
		if fn.Pkg != pk || fn.Signature.Recv() == nil || fn.Blocks == nil || len(fn.Params) == 0 || strings.HasSuffix(p.File(fn.Pos()), "_test.go") {
			continue
		}
		rs := fn.Signature.Results()
		if rs.Len() != 1 {
			continue
		}
		if _, ok := rs.At(0).Type().Underlying().(*types.Slice); !ok {
			continue
		}
		view := false
		for _, b := range fn.Blocks {
			for _, in := range b.Instrs {
				r, ok := in.(*ssa.Return)
				if !ok || len(r.Results) != 1 {
					continue
				}
				if sl, ok := r.Results[0].(*ssa.Slice); ok {
					if ld, ok := sl.X.(*ssa.UnOp); ok && ld.Op == token.MUL {
						if fa, ok := ld.X.(*ssa.FieldAddr); ok && fa.X == ssa.Value(fn.Params[0]) {
							view = true
						}
					}
				}
			}
		}
		if view {
			out[fn] = true
		}
	}
	return out
}

func init() {
	core.Register(&core.Rule{
		Name: "R-VIEWSCOPE",
		Doc: "A window into per-search scratch is used where it is taken. A view method (package nfa: a method that returns a sub-slice of a slice field of its receiver - SlotTable.ForState, the capture row of an NFA state) hands out memory that the next simulation step overwrites (the two slot tables swap every step). In every caller the view is only read or written element-wise, measured, compared with nil, re-sliced, or used as an operand of copy / the variadic source of append; it is never kept in a variable that lives across a loop iteration (a phi), stored into a field or cell, returned, or passed to a function that does any of these with its parameter (helpers are followed two calls deep). 'bestSlots = table.ForState(match)' instead of copy(bestSlots, ...) keeps the captures of the best match in a row that a later, losing thread reaching Match overwrites - in leftmost-longest mode, an even number of steps later (C10: sub-matches of the reported match; C03).",
		Min: 5, NeedSSA: true,
		Run: func(p *core.Prog) *core.RuleResult {
			res := &core.RuleResult{}
			views := scratchViewMethods(p)
			var names []string
			for f := range views {
				names = append(names, core.FuncName(f))
			}
			sort.Strings(names)
			res.Notes = append(res.Notes, "view methods: "+strings.Join(names, ", "))
			if len(views) == 0 {
				res.Fatal = append(res.Fatal, "no view method found in package nfa")
				return res
			}
			kc := core.NewKeyCounter()
			for _, fn := range p.SrcFuncs() {
				if strings.HasSuffix(p.File(fn.Pos()), "_test.go") || !p.InModule(ownPkg(fn)) {
					continue
				}
				for _, b := range fn.Blocks {
					for _, in := range b.Instrs {
						c, ok := in.(*ssa.Call)
						if !ok || !views[c.Call.StaticCallee()] {
							continue
						}
						o := core.Obligation{Key: kc.Key("R-VIEWSCOPE", core.FuncName(fn), "view from "+c.Call.StaticCallee().Name()+" consumed in place"), Pos: p.Pos(c.Pos()), Nontrivial: true}
						bad := ""
						seen := map[ssa.Value]bool{}
						depth := 0
						var check func(v ssa.Value)
						check = func(v ssa.Value) {
							if bad != "" || seen[v] || v.Referrers() == nil {
								return
							}
							seen[v] = true
							for _, r := range *v.Referrers() {
								switch x := r.(type) {
								case *ssa.IndexAddr, *ssa.DebugRef:
								case *ssa.Slice:
									if x.X == v {
										check(x)
									}
								case *ssa.BinOp:
									if x.Op != token.EQL && x.Op != token.NEQ {
										bad = "used in arithmetic at " + p.Pos(x.Pos())
									}
								case *ssa.Call:
									if bi, ok := x.Call.Value.(*ssa.Builtin); ok {
										switch bi.Name() {
										case "len", "cap", "copy":
											continue
										case "append":
											if len(x.Call.Args) > 0 && x.Call.Args[0] == v {
												bad = "extended by append at " + p.Pos(x.Pos())
											}
											continue
										}
									}
									// a module helper may receive the view if it uses its parameter under the same discipline
									if cal := x.Call.StaticCallee(); cal != nil && cal.Blocks != nil && depth < 2 {
										okAll := true
										for i, a := range x.Call.Args {
											if a == v && i < len(cal.Params) {
												depth++
												check(cal.Params[i])
												depth--
												if bad != "" {
													okAll = false
												}
											}
										}
										if okAll {
											continue
										}
										return
									}
									bad = fmt.Sprintf("passed to %s at %s", calleeNameOf(&x.Call), p.Pos(x.Pos()))
								case *ssa.Phi:
									bad = "kept in a variable across control flow (" + x.Comment + ") at " + p.Pos(x.Pos())
								case *ssa.Store:
									if x.Val == v {
										bad = "stored at " + p.Pos(x.Pos())
									}
								case *ssa.Return:
									bad = "returned at " + p.Pos(x.Pos())
								default:
									bad = fmt.Sprintf("used by %T at %s", r, p.Pos(r.Pos()))
								}
								if bad != "" {
									return
								}
							}
						}
						check(c)
						if bad == "" {
							o.Status = core.Discharged
							o.Detail = "the view is only indexed, measured, compared with nil, re-sliced or copied from/into"
						} else {
							o.Status = core.Violated
							o.Detail = "the view into the scratch table is " + bad + ": the row it points into is rewritten by later steps, so what is read through it afterwards is another thread's data"
						}
						res.Obligations = append(res.Obligations, o)
					}
				}
			}
			return res
		},
	})
}
