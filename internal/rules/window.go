package rules

import (
	"fmt"
	"go/token"
	"strings"

	"golang.org/x/tools/go/ssa"

	"verif/internal/core"
)

// endMinusConst: v is (a value derived from the result of a search call) minus a positive constant -
// a guess of where a match starts, taken from where it ends.
func endMinusConst(v ssa.Value, seen map[ssa.Value]bool) (ssa.Value, bool) {
	if v == nil || seen[v] {
		return nil, false
	}
	seen[v] = true
	switch x := v.(type) {
	case *ssa.BinOp:
		if x.Op == token.SUB {
			if c, ok := constInt(x.Y); ok && c > 1 {
				if src := searchResultOrigin(x.X, map[ssa.Value]bool{}); src != nil {
					return src, true
				}
			}
		}
		if x.Op == token.ADD || x.Op == token.SUB {
			if s, ok := endMinusConst(x.X, seen); ok {
				return s, true
			}
			return endMinusConst(x.Y, seen)
		}
	case *ssa.Phi:
		for _, e := range x.Edges {
			if s, ok := endMinusConst(e, seen); ok {
				return s, true
			}
		}
	case *ssa.Convert:
		return endMinusConst(x.X, seen)
	}
	return nil, false
}

// searchResultOrigin: the value is (or is extracted from) the result of a call that searches a []byte.
func searchResultOrigin(v ssa.Value, seen map[ssa.Value]bool) ssa.Value {
	if v == nil || seen[v] {
		return nil
	}
	seen[v] = true
	switch x := v.(type) {
	case *ssa.Call:
		for _, a := range x.Call.Args {
			if isByteSlice(a.Type()) {
				return x
			}
		}
	case *ssa.Extract:
		return searchResultOrigin(x.Tuple, seen)
	case *ssa.Phi:
		for _, e := range x.Edges {
			if s := searchResultOrigin(e, seen); s != nil {
				return s
			}
		}
	case *ssa.Convert:
		return searchResultOrigin(x.X, seen)
	}
	return nil
}

func init() {
	core.Register(&core.Rule{
		Name: "R-WINDOW",
		Doc: "Where a match starts is not guessed from where it ends. In packages meta and the root package, the start argument of a search call (a module function or method with a []byte parameter and an int position parameter) must not be a position obtained from another search's result minus a constant: a match can be arbitrarily long, so `end - 100` lies inside every match longer than that and the second search then reports a later match or none, while the existence test still says true. Lower bounds that advance with a candidate loop (minStart) and ends used as the next search start are not of this shape. Zero violations expected; the number of search calls examined is the positive instance. Pinned tree: five sites of strategy UseBoth (probe adaptivewindow_test.go) ⇒ fixed. Necessary for C02 (leftmost match), C11 (Match and Find agree).",
		Min: 1, NeedSSA: true,
		Run: func(p *core.Prog) *core.RuleResult {
			res := &core.RuleResult{}
			kc := core.NewKeyCounter()
			examined := 0
			for _, fn := range p.SrcFuncs() {
				pk := ownPkg(fn)
				if pk == nil || !p.InModule(pk) || strings.HasSuffix(p.File(fn.Pos()), "_test.go") {
					continue
				}
				rel := strings.TrimPrefix(pk.Path(), core.ModPath)
				if rel != "" && rel != "/meta" {
					continue
				}
				for _, b := range fn.Blocks {
					for _, in := range b.Instrs {
						call, ok := in.(ssa.CallInstruction)
						if !ok {
							continue
						}
						cc := call.Common()
						hasBytes := false
						for _, a := range cc.Args {
							if isByteSlice(a.Type()) {
								hasBytes = true
							}
						}
						if !hasBytes {
							continue
						}
						if g := cc.StaticCallee(); g != nil && (g.Pkg == nil || !p.InModule(g.Pkg.Pkg)) {
							continue
						}
						examined++
						for _, a := range cc.Args {
							if !isIntType(a.Type()) {
								continue
							}
							src, ok := endMinusConst(a, map[ssa.Value]bool{})
							if !ok {
								continue
							}
							o := core.Obligation{Key: kc.Key("R-WINDOW", core.FuncName(fn), "search start guessed from an end position"), Pos: p.Pos(in.Pos()), Nontrivial: true, Status: core.Violated}
							o.Detail = fmt.Sprintf("a position argument of %s is the result of %s minus a constant: a match longer than the constant starts before it", calleeNameOf(cc), src.String())
							res.Obligations = append(res.Obligations, o)
						}
					}
				}
			}
			res.Obligations = append(res.Obligations, core.Obligation{Key: "R-WINDOW|census|search calls examined", Status: core.Discharged, Nontrivial: true, Detail: fmt.Sprintf("%d search calls in meta and the root package, none started at (a search result - constant)", examined)})
			if examined < 100 {
				res.Fatal = append(res.Fatal, fmt.Sprintf("only %d search calls examined", examined))
			}
			return res
		},
	})
}

func calleeNameOf(cc *ssa.CallCommon) string {
	if g := cc.StaticCallee(); g != nil {
		return core.FuncName(g)
	}
	if cc.IsInvoke() {
		return cc.Method.Name()
	}
	return cc.Value.Name()
}
