package rules

import (
	"fmt"
	"go/token"
	"go/types"
	"sort"
	"strings"

	"golang.org/x/tools/go/ssa"

	"verif/internal/core"
)

// modeSetter: a method whose only stores go to one field of its receiver with a value derived from its single parameter.
func modeSetter(fn *ssa.Function) *types.Var {
	if fn.Signature.Recv() == nil || fn.Blocks == nil || len(fn.Params) != 2 || fn.Signature.Results().Len() != 0 {
		return nil
	}
	var field *types.Var
	for _, b := range fn.Blocks {
		for _, in := range b.Instrs {
			switch x := in.(type) {
			case *ssa.Store:
				fa, ok := x.Addr.(*ssa.FieldAddr)
				if !ok {
					return nil
				}
				f := innerField(fa)
				if field != nil && f != field {
					return nil
				}
				if !dependsOn(x.Val, fn.Params[1], map[ssa.Value]bool{}) {
					// constant clamps (n = 0) are fine
					if _, isConst := x.Val.(*ssa.Const); !isConst {
						return nil
					}
				}
				field = f
			case *ssa.Call, *ssa.MapUpdate:
				return nil
			}
		}
	}
	if field == nil {
		return nil
	}
	switch field.Type().Underlying().(type) {
	case *types.Basic:
		return field
	}
	return nil
}

func init() {
	core.Register(&core.Rule{
		Name: "R-ENTRYCONFIG",
		Doc: "Per-search mode fields (a scalar field of a recycled state object with a dedicated setter method, e.g. the slot table's active-slot width) persist between calls, so every public entry point whose code can read such a field must also (re)establish it: for each mode field F, every exported method of a type whose exported methods configure F, from which a read of F is reachable, must reach a call of a setter of F. An entry that relies on the width left behind by the previous call returns results that depend on the call history (C13) - e.g. captures truncated to group 0 after a non-capturing search.",
		Min: 12, NeedSSA: true,
		Run: func(p *core.Prog) *core.RuleResult {
			res := &core.RuleResult{}
			cg := p.CallGraph()
			setters := map[*types.Var][]*ssa.Function{}
			for _, fn := range p.SrcFuncs() {
				if strings.HasSuffix(p.File(fn.Pos()), "_test.go") {
					continue
				}
				if f := modeSetter(fn); f != nil {
					setters[f] = append(setters[f], fn)
				}
			}
			reach := func(seed map[*ssa.Function]bool) map[*ssa.Function]bool {
				out := map[*ssa.Function]bool{}
				for f := range seed {
					out[f] = true
				}
				for changed := true; changed; {
					changed = false
					for _, fn := range p.SrcFuncs() {
						if out[fn] {
							continue
						}
						if n := cg.Nodes[fn]; n != nil {
							for _, e := range n.Out {
								if out[e.Callee.Func] {
									out[fn] = true
									changed = true
									break
								}
							}
						}
					}
				}
				return out
			}
			var fields []*types.Var
			for f := range setters {
				fields = append(fields, f)
			}
			sort.Slice(fields, func(i, j int) bool { return fields[i].Name() < fields[j].Name() })
			for _, F := range fields {
				stateType := ownerOfField(p, F)
				// direct readers of F (methods of the state type itself, getters included)
				readers := map[*ssa.Function]bool{}
				for _, fn := range p.SrcFuncs() {
					if strings.HasSuffix(p.File(fn.Pos()), "_test.go") || modeSetter(fn) == F {
						continue
					}
					for _, b := range fn.Blocks {
						for _, in := range b.Instrs {
							if ld, ok := in.(*ssa.UnOp); ok && ld.Op == token.MUL {
								if fa, ok := ld.X.(*ssa.FieldAddr); ok && innerField(fa) == F {
									readers[fn] = true
								}
							}
						}
					}
				}
				isSetter := map[*ssa.Function]bool{}
				for _, sfn := range setters[F] {
					isSetter[sfn] = true
				}
				// per holder field H (the field through which the state object is reached): who sets / reads via H
				setVia := map[*types.Var]map[*ssa.Function]bool{}
				readVia := map[*types.Var]map[*ssa.Function]bool{}
				add := func(m map[*types.Var]map[*ssa.Function]bool, h *types.Var, fn *ssa.Function) {
					if m[h] == nil {
						m[h] = map[*ssa.Function]bool{}
					}
					m[h][fn] = true
				}
				for _, fn := range p.SrcFuncs() {
					if strings.HasSuffix(p.File(fn.Pos()), "_test.go") {
						continue
					}
					for _, b := range fn.Blocks {
						for _, in := range b.Instrs {
							switch x := in.(type) {
							case ssa.CallInstruction:
								cal := x.Common().StaticCallee()
								if cal == nil || len(x.Common().Args) == 0 {
									continue
								}
								h := innerField(x.Common().Args[0])
								if h == nil {
									continue
								}
								if isSetter[cal] {
									add(setVia, h, fn)
								} else if readers[cal] {
									add(readVia, h, fn)
								}
							case *ssa.Store:
								if fa, ok := x.Addr.(*ssa.FieldAddr); ok && innerField(fa) == F && !isSetter[fn] {
									if h := innerField(fa.X); h != nil {
										add(setVia, h, fn)
									}
								}
							case *ssa.UnOp:
								if x.Op == token.MUL {
									if fa, ok := x.X.(*ssa.FieldAddr); ok && innerField(fa) == F && !readers[fn] {
										if h := innerField(fa.X); h != nil {
											add(readVia, h, fn)
										}
									}
								}
							}
						}
					}
				}
				var holders []*types.Var
				for h := range setVia {
					holders = append(holders, h)
				}
				sort.Slice(holders, func(i, j int) bool { return holders[i].Name() < holders[j].Name() })
				for _, H := range holders {
					if len(readVia[H]) == 0 {
						continue
					}
					reachSet := reach(setVia[H])
					reachRead := reach(readVia[H])
					// owner types: receiver types with an exported method that sets via H directly
					owners := map[*types.Named]bool{}
					for fn := range setVia[H] {
						if fn.Signature.Recv() != nil && fn.Object() != nil && fn.Object().Exported() {
							if n := namedOfType(fn.Signature.Recv().Type()); n != nil && n != stateType {
								owners[n] = true
							}
						}
					}
					var ms []*ssa.Function
					for fn := range reachRead {
						if fn.Signature.Recv() == nil || fn.Object() == nil || !fn.Object().Exported() {
							continue
						}
						if n := namedOfType(fn.Signature.Recv().Type()); n == nil || !owners[n] {
							continue
						}
						ms = append(ms, fn)
					}
					sort.Slice(ms, func(i, j int) bool { return core.FuncName(ms[i]) < core.FuncName(ms[j]) })
					for _, m := range ms {
						o := core.Obligation{Key: "R-ENTRYCONFIG|" + core.FuncName(m) + "|establishes " + H.Name() + "." + F.Name(), Pos: p.Pos(m.Pos()), Nontrivial: true}
						if reachSet[m] {
							o.Status = core.Discharged
							o.Detail = "reaches a setter of " + H.Name() + "." + F.Name()
						} else if why := entryConfigExempt[H.Name()+"."+F.Name()+"|"+m.Name()]; why != "" {
							o.Status = core.Discharged
							o.Detail = "exempt: " + why
						} else if why := entryConfigExempt[H.Name()+"."+F.Name()+"|*"]; why != "" {
							o.Status = core.Discharged
							o.Detail = "exempt: " + why
						} else {
							o.Status = core.Violated
							o.Detail = fmt.Sprintf("%s reads the per-search mode %s.%s but no code it reaches sets it: it runs with whatever width/mode the previous call on the same recycled state left behind", m.Name(), H.Name(), F.Name())
						}
						res.Obligations = append(res.Obligations, o)
					}
					res.Notes = append(res.Notes, fmt.Sprintf("mode %s.%s: %d entries checked", H.Name(), F.Name(), len(ms)))
				}
			}
			return res
		},
	})
}

// entryConfigExempt: (holder.field|entry) pairs that legitimately do not re-establish the mode, with the reason.
var entryConfigExempt = map[string]string{
	"boundedBacktracker.Longest|*": "BoundedBacktracker.SetLongest configures the engine-level internalState used only by the non-WithState methods (listed under R-SHARED); the pooled BacktrackerState.Longest that the WithState methods read is stored by getSearchState on every acquisition (the holder analysis cannot tell the two state objects apart)",
	"NextSlotTable.activeSlots|SearchWithSlotTable":   "the non-capturing entries set SlotTable's width to <= 2 and NextSlotTable is consulted only under SlotTable.ActiveSlots() > 2",
	"NextSlotTable.activeSlots|SearchWithSlotTableAt": "the non-capturing entries set SlotTable's width to <= 2 and NextSlotTable is consulted only under SlotTable.ActiveSlots() > 2",
}

func ownerOfField(p *core.Prog, f *types.Var) *types.Named {
	for _, pk := range p.Pkgs {
		sc := pk.Types.Scope()
		for _, nm := range sc.Names() {
			tn, ok := sc.Lookup(nm).(*types.TypeName)
			if !ok {
				continue
			}
			n, ok := tn.Type().(*types.Named)
			if !ok {
				continue
			}
			st, ok := n.Underlying().(*types.Struct)
			if !ok {
				continue
			}
			for i := 0; i < st.NumFields(); i++ {
				if st.Field(i) == f {
					return n
				}
			}
		}
	}
	return nil
}
