package rules

import (
	"fmt"
	"sort"
	"strings"

	"verif/internal/core"
	"verif/internal/own"
)

var ownCache = map[*core.Prog]*own.Analysis{}

// OwnAnalysis runs (once per program) the ownership-class analysis from the search roots.
func OwnAnalysis(p *core.Prog) *own.Analysis {
	if a, ok := ownCache[p]; ok {
		return a
	}
	a := own.New(p)
	a.AsmWrites = asmWriteSummary(p)
	a.SetupSearchRoots()
	a.Run()
	ownCache[p] = a
	return a
}

func ownNotes(a *own.Analysis) []string {
	cont, per := a.ContainerNames()
	var std []string
	for k, v := range a.StdlibSeen {
		std = append(std, k+" => "+v)
	}
	sort.Strings(std)
	return []string{
		fmt.Sprintf("roots=%d functions_reached=%d contexts=%d fixpoint_rounds=%d", len(a.Roots), len(a.Reached), a.Contexts, a.Rounds),
		"shared-only container types: " + strings.Join(cont, ", "),
		"per-search (allocated on search paths) types: " + strings.Join(per, ", "),
		"stdlib callees on search paths: " + strings.Join(std, "; "),
	}
}

func ownRule(rule string, want string, classFilter func(e *own.Event) bool) func(p *core.Prog) *core.RuleResult {
	return func(p *core.Prog) *core.RuleResult {
		a := OwnAnalysis(p)
		res := &core.RuleResult{Notes: ownNotes(a)}
		kc := core.NewKeyCounter()
		for _, e := range a.Events() {
			if !classFilter(e) {
				continue
			}
			o := core.Obligation{
				Key: kc.Key(rule, core.FuncName(e.Fn), e.Desc),
				Pos: p.Pos(e.Instr.Pos()), Nontrivial: true,
			}
			if o.Pos == "-" {
				o.Pos = p.Pos(e.Fn.Pos())
			}
			switch {
			case e.Viol == want:
				o.Status = core.Violated
				o.Detail = e.Detail
				if e.Deep != "" {
					o.Detail += "; store happens in " + e.Deep
				}
				o.Path = e.Path
			case e.Viol == "UNDECIDED":
				o.Status = core.Undecided
				o.Detail = e.Detail
				o.Path = e.Path
			default:
				o.Status = core.Discharged
				o.Detail = "written memory has class " + e.Class.String()
			}
			res.Obligations = append(res.Obligations, o)
		}
		return res
	}
}

func init() {
	core.Register(&core.Rule{
		Name: "R-SHARED",
		Doc: "No write event (store, map update, append/copy destination, known stdlib writer, assembly out-parameter) reachable from a search root may target memory of class SHARED (reachable from the compiled Regex/Engine or a package variable), except sync/atomic and sync.Pool operations. Necessary for C06 (two concurrent calls executing the same store race) and C13 (shared scratch carries history). A violation is attributed to the frame where the written object is picked out of a shared-only container.",
		Min:     600, NeedSSA: true,
		ThoroughArchs: []string{"arm64", "386"},
		Run: ownRule("R-SHARED", "SHARED", func(e *own.Event) bool { return e.Kind != "go" }),
	})
	core.Register(&core.Rule{
		Name: "R-RO",
		Doc: "No write event reachable from a search root targets memory of class INPUT (the caller's haystack, pattern, template or replacement bytes, including strings viewed through stringToBytes). Necessary for C07: the haystack is never modified, and writing through a string's bytes is memory-unsafe.",
		Min:     600, NeedSSA: true,
		ThoroughArchs: []string{"arm64", "386"},
		Run: ownRule("R-RO", "INPUT", func(e *own.Event) bool { return e.Kind != "go" }),
	})
	core.Register(&core.Rule{
		Name: "R-NOGO",
		Doc: "No go statement is reachable from a search root (the library starts no goroutines; this is a premise of the class analysis: memory becomes visible to another goroutine only through the receiver, a package variable or the haystack).",
		Min:     0, NeedSSA: true,
		Run: func(p *core.Prog) *core.RuleResult {
			a := OwnAnalysis(p)
			res := &core.RuleResult{}
			kc := core.NewKeyCounter()
			for _, e := range a.Events() {
				if e.Kind != "go" {
					continue
				}
				res.Obligations = append(res.Obligations, core.Obligation{Key: kc.Key("R-NOGO", core.FuncName(e.Fn), "go"), Pos: p.Pos(e.Instr.Pos()), Status: core.Violated, Detail: e.Detail, Path: e.Path, Nontrivial: true})
			}
			res.Notes = append(res.Notes, fmt.Sprintf("functions reached from search roots: %d; go statements found: %d", len(a.Reached), len(res.Obligations)))
			// one summarising obligation so the rule is never vacuous
			res.Obligations = append(res.Obligations, core.Obligation{Key: "R-NOGO|all-search-paths|no-go-statement", Pos: "-", Status: statusIf(len(res.Obligations) == 0), Detail: fmt.Sprintf("%d functions reachable from search roots scanned", len(a.Reached)), Nontrivial: true})
			return res
		},
	})
}

func statusIf(ok bool) core.Status {
	if ok {
		return core.Discharged
	}
	return core.Violated
}
