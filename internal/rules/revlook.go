package rules

import (
	"fmt"
	"go/constant"
	"go/types"
	"sort"
	"strings"

	"golang.org/x/tools/go/ssa"

	"verif/internal/core"
)

// revLookExempt: reverse-NFA constructions that are not guarded locally, with the reason.
var revLookExempt = map[string]string{
	"meta.NewReverseAnchoredSearcher":       "built only for strategy UseReverseAnchored, whose selection is an obligation of this rule (guarded by reverseDropsAssertion since fix 5b65536)",
	"meta.NewReverseSuffixSearcher":         "built only for strategy UseReverseSuffix, whose selection is an obligation of this rule (line anchors, leading ones since fix 96f46aa); word-boundary patterns are routed to UseNFA/UseBoth before (probed, not decided)",
	"meta.NewReverseSuffixSetSearcher":      "strategy UseReverseSuffixSet: same predicate",
	"meta.NewReverseInnerSearcher":          "strategy UseReverseInner: selection is an obligation of this rule",
	"meta.NewMultilineReverseSuffixSearcher": "strategy UseMultilineReverseSuffix: handles (?m)^ itself; known finding of R-DISTINGUISH",
}

func init() {
	core.Register(&core.Rule{
		Name: "R-REVLOOK",
		Doc: "A reverse automaton is built only for patterns it can represent. The reverse NFA constructors of package nfa (Reverse, ReverseAnchored) turn every look-around assertion into an epsilon edge, so a reverse scan accepts positions an assertion rules out. Every call of one of them in package meta is therefore dominated by a branch on a predicate over the syntax tree whose family (the predicate and the module functions it reaches) compares node operators with all of OpWordBoundary, OpNoWordBoundary, OpBeginLine and OpEndLine - or is exempt by name because the searcher belongs to a reverse strategy, and then the selection of that strategy is the obligation: every return of a UseReverse* strategy constant has, on its dominator chain, a call of a predicate whose family compares with OpBeginLine and OpEndLine (word boundaries are routed away earlier: probed, not decided). (c) The literal-engine strategies (UseTeddy, UseAhoCorasick) report literal occurrences only: each return of their constant is dominated by a branch on a value derived - possibly through a struct field stored from such a call - from a detector whose family compares with the word-boundary operators. Pinned tree: the two ReverseAnchored calls of the bidirectional DFA were unguarded: \\bfoo.*bar on \"xfoo foo bar\" gave [1 12] (regexp [5 12]) ⇒ fixed. Necessary for C02 (leftmost start) and C14 (the reverse DFA is exact for what it is asked).",
		Min: 11, NeedSSA: true,
		Run: func(p *core.Prog) *core.RuleResult {
			res := &core.RuleResult{}
			kc := core.NewKeyCounter()
			mpk := p.SSAPkg("meta")
			npk := p.SSAPkg("nfa")
			sp := p.SSA.ImportedPackage("regexp/syntax")
			if mpk == nil || npk == nil || sp == nil {
				res.Fatal = append(res.Fatal, "packages meta/nfa/regexp/syntax not found")
				return res
			}
			want := map[int64]string{}
			for _, n := range []string{"OpWordBoundary", "OpNoWordBoundary", "OpBeginLine", "OpEndLine"} {
				if c, ok := sp.Members[n].(*ssa.NamedConst); ok {
					if v, ok := constant.Int64Val(c.Value.Value); ok {
						want[v] = n
					}
				}
			}
			if len(want) != 4 {
				res.Fatal = append(res.Fatal, "assertion operators not found in regexp/syntax")
				return res
			}
			// functions whose family compares with all four assertion operators
			direct := map[*ssa.Function]map[string]bool{}
			for _, fn := range p.SrcFuncs() {
				for _, b := range fn.Blocks {
					for _, in := range b.Instrs {
						bo, ok := in.(*ssa.BinOp)
						if !ok {
							continue
						}
						for _, v := range []ssa.Value{bo.X, bo.Y} {
							if c, ok := v.(*ssa.Const); ok && c.Value != nil && strings.HasSuffix(c.Type().String(), "syntax.Op") {
								if i, ok := constant.Int64Val(c.Value); ok && want[i] != "" {
									if direct[fn] == nil {
										direct[fn] = map[string]bool{}
									}
									direct[fn][want[i]] = true
								}
							}
						}
					}
				}
			}
			cg := p.CallGraph()
			family := func(root *ssa.Function) map[string]bool {
				seen := map[*ssa.Function]bool{}
				got := map[string]bool{}
				var walk func(f *ssa.Function, d int)
				walk = func(f *ssa.Function, d int) {
					if f == nil || seen[f] || d > 6 {
						return
					}
					seen[f] = true
					for k := range direct[f] {
						got[k] = true
					}
					if n := cg.Nodes[f]; n != nil {
						for _, e := range n.Out {
							if e.Callee.Func.Pkg != nil && p.InModule(e.Callee.Func.Pkg.Pkg) {
								walk(e.Callee.Func, d+1)
							}
						}
					}
				}
				walk(root, 0)
				return got
			}
			for _, fn := range p.SrcFuncs() {
				if fn.Pkg != mpk || strings.HasSuffix(p.File(fn.Pos()), "_test.go") {
					continue
				}
				for _, b := range fn.Blocks {
					for _, in := range b.Instrs {
						call, ok := in.(*ssa.Call)
						if !ok {
							continue
						}
						g := call.Call.StaticCallee()
						if g == nil || g.Pkg != npk || !strings.HasPrefix(g.Name(), "Reverse") || !strings.HasSuffix(g.Signature.Results().String(), "nfa.NFA)") {
							continue
						}
						o := core.Obligation{Key: kc.Key("R-REVLOOK", core.FuncName(fn), "reverse NFA built only for assertion-free patterns"), Pos: p.Pos(call.Pos()), Nontrivial: true}
						guarded := ""
						for d := b; d != nil && guarded == ""; d = d.Idom() {
							id := d.Idom()
							if id == nil || len(id.Instrs) == 0 || len(d.Preds) != 1 {
								continue
							}
							iff, isIf := id.Instrs[len(id.Instrs)-1].(*ssa.If)
							if !isIf {
								continue
							}
							// the condition (or a phi/negation of it) derives from a call of a detector
							var calls []*ssa.Call
							var collect func(v ssa.Value, n int)
							collect = func(v ssa.Value, n int) {
								if n > 6 {
									return
								}
								switch x := v.(type) {
								case *ssa.Call:
									calls = append(calls, x)
								case *ssa.UnOp:
									collect(x.X, n+1)
								case *ssa.BinOp:
									collect(x.X, n+1)
									collect(x.Y, n+1)
								case *ssa.Phi:
									for _, e := range x.Edges {
										collect(e, n+1)
									}
								}
							}
							collect(iff.Cond, 0)
							// short-circuit conditions: also look at the ifs of the predecessors feeding a phi
							for _, c := range calls {
								if f := c.Call.StaticCallee(); f != nil {
									if fam := family(f); len(fam) == 4 {
										guarded = core.FuncName(f)
									}
								}
							}
						}
						switch {
						case guarded != "":
							o.Status = core.Discharged
							o.Detail = "dominated by a branch on " + guarded + ", whose family compares with all four assertion operators"
						case revLookExempt[core.FuncName(fn)] != "":
							o.Status = core.Discharged
							o.Nontrivial = false
							o.Detail = "exempt: " + revLookExempt[core.FuncName(fn)]
						default:
							o.Status = core.Violated
							o.Detail = fmt.Sprintf("%s builds a reverse NFA (which drops look-around assertions) without a dominating test that the pattern has none", core.FuncName(fn))
						}
						res.Obligations = append(res.Obligations, o)
					}
				}
			}
			// the selection of each reverse strategy is guarded by a detector of line anchors at least
			strat := p.LookupType("meta", "Strategy")
			if strat != nil {
				names := map[int64]string{}
				for n, c := range enumConsts(strat) {
					if strings.HasPrefix(n, "UseReverse") || n == "UseMultilineReverseSuffix" {
						if v, ok := constant.Int64Val(c.Val()); ok {
							names[v] = n
						}
					}
				}
				for _, fn := range p.SrcFuncs() {
					if fn.Pkg != mpk || strings.HasSuffix(p.File(fn.Pos()), "_test.go") {
						continue
					}
					for _, b := range fn.Blocks {
						for _, in := range b.Instrs {
							r, ok := in.(*ssa.Return)
							if !ok || len(r.Results) != 1 {
								continue
							}
							c, ok := r.Results[0].(*ssa.Const)
							if !ok || c.Value == nil || !strings.HasSuffix(c.Type().String(), "meta.Strategy") {
								continue
							}
							v, _ := constant.Int64Val(c.Value)
							name := names[v]
							if name == "" || name == "UseMultilineReverseSuffix" {
								continue // the multiline searcher handles (?m)^ itself (known finding of R-DISTINGUISH)
							}
							o := core.Obligation{Key: kc.Key("R-REVLOOK", core.FuncName(fn), "selection of "+name+" guarded by an anchor detector"), Pos: p.Pos(r.Pos()), Nontrivial: true}
							guard := ""
							for d := b; d != nil && guard == ""; d = d.Idom() {
								for _, in2 := range d.Instrs {
									if c2, ok := in2.(*ssa.Call); ok {
										if f := c2.Call.StaticCallee(); f != nil && f.Pkg == mpk {
											fam := family(f)
											if fam["OpBeginLine"] && fam["OpEndLine"] {
												// the call must decide a branch on the way here
												if d != b || true {
													guard = core.FuncName(f)
												}
											}
										}
									}
								}
							}
							if guard != "" {
								o.Status = core.Discharged
								o.Detail = "on the way to this return " + guard + " is consulted; its family compares node operators with OpBeginLine and OpEndLine"
							} else {
								o.Status = core.Violated
								o.Detail = "a strategy that searches backwards with a reverse NFA is selected without any detector of line anchors on the way"
							}
							res.Obligations = append(res.Obligations, o)
						}
					}
				}
			}
			// (c) the literal engines (Teddy, Aho-Corasick) report literal occurrences and nothing else: the return of
			// their strategy constant is dominated by a branch whose condition derives - directly or through a field
			// that is stored from such a call - from a detector whose family compares with the word-boundary operators
			if strat != nil {
				lit := map[int64]string{}
				for n, c := range enumConsts(strat) {
					if n == "UseTeddy" || n == "UseAhoCorasick" {
						if v, ok := constant.Int64Val(c.Val()); ok {
							lit[v] = n
						}
					}
				}
				// values stored into struct fields of package meta, by field name
				fieldStores := map[string][]ssa.Value{}
				for _, fn := range p.SrcFuncs() {
					if fn.Pkg != mpk {
						continue
					}
					for _, b := range fn.Blocks {
						for _, in := range b.Instrs {
							if st, ok := in.(*ssa.Store); ok {
								if fa, ok := st.Addr.(*ssa.FieldAddr); ok {
									fieldStores[fieldNameOf(fa)] = append(fieldStores[fieldNameOf(fa)], st.Val)
								}
							}
						}
					}
				}
				var detectors func(v ssa.Value, n int, seen map[ssa.Value]bool) []*ssa.Function
				detectors = func(v ssa.Value, n int, seen map[ssa.Value]bool) []*ssa.Function {
					if v == nil || n > 8 || seen[v] {
						return nil
					}
					seen[v] = true
					var out []*ssa.Function
					switch x := v.(type) {
					case *ssa.Call:
						if f := x.Call.StaticCallee(); f != nil {
							out = append(out, f)
						}
					case *ssa.UnOp:
						out = append(out, detectors(x.X, n+1, seen)...)
					case *ssa.BinOp:
						out = append(out, detectors(x.X, n+1, seen)...)
						out = append(out, detectors(x.Y, n+1, seen)...)
					case *ssa.Phi:
						for _, e := range x.Edges {
							out = append(out, detectors(e, n+1, seen)...)
						}
					case *ssa.Field:
						name := ""
						if stt, ok := x.X.Type().Underlying().(*types.Struct); ok && x.Field < stt.NumFields() {
							name = stt.Field(x.Field).Name()
						}
						for _, sv := range fieldStores[name] {
							out = append(out, detectors(sv, n+1, seen)...)
						}
					case *ssa.FieldAddr:
						for _, sv := range fieldStores[fieldNameOf(x)] {
							out = append(out, detectors(sv, n+1, seen)...)
						}
					}
					return out
				}
				for _, fn := range p.SrcFuncs() {
					if fn.Pkg != mpk || strings.HasSuffix(p.File(fn.Pos()), "_test.go") {
						continue
					}
					for _, b := range fn.Blocks {
						for _, in := range b.Instrs {
							r, ok := in.(*ssa.Return)
							if !ok || len(r.Results) != 1 {
								continue
							}
							c, ok := r.Results[0].(*ssa.Const)
							if !ok || c.Value == nil || !strings.HasSuffix(c.Type().String(), "meta.Strategy") {
								continue
							}
							v, _ := constant.Int64Val(c.Value)
							name := lit[v]
							if name == "" {
								continue
							}
							o := core.Obligation{Key: kc.Key("R-REVLOOK", core.FuncName(fn), "selection of "+name+" guarded by an assertion detector"), Pos: p.Pos(r.Pos()), Nontrivial: true}
							guard := ""
							for d := b; d != nil && guard == ""; d = d.Idom() {
								id := d.Idom()
								if id == nil || len(id.Instrs) == 0 || len(d.Preds) != 1 {
									continue
								}
								iff, isIf := id.Instrs[len(id.Instrs)-1].(*ssa.If)
								if !isIf {
									continue
								}
								for _, f := range detectors(iff.Cond, 0, map[ssa.Value]bool{}) {
									fam := family(f)
									if fam["OpWordBoundary"] && fam["OpNoWordBoundary"] {
										guard = core.FuncName(f)
									}
								}
							}
							if guard != "" {
								o.Status = core.Discharged
								o.Detail = "a dominating branch tests a value that comes from " + guard + ", whose family compares with the word-boundary operators"
							} else {
								o.Status = core.Violated
								o.Detail = name + " answers with literal occurrences only; its selection is not dominated by any test derived from a detector of word boundaries: a pattern such as \\d\\d\\b (complete literals) would match where the assertion fails"
							}
							res.Obligations = append(res.Obligations, o)
						}
					}
				}
			}
			var ex []string
			for k := range revLookExempt {
				ex = append(ex, k)
			}
			sort.Strings(ex)
			res.Notes = append(res.Notes, "named exemptions: "+strings.Join(ex, ", "))
			return res
		},
	})
}
