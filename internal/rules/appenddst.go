package rules

import (
	"fmt"
	"go/types"
	"strings"

	"golang.org/x/tools/go/ssa"

	"verif/internal/core"
)

// truncatesParam: fn re-slices parameter i to length 0 (p[:0]) or overwrites it with a fresh slice without appending to it,
// directly or by passing it on to a module callee that does.
func truncatesParam(p *core.Prog, fn *ssa.Function, idx int, depth int, seen map[*ssa.Function]bool) (bool, string) {
	if fn == nil || fn.Blocks == nil || depth > 4 || seen[fn] || idx >= len(fn.Params) {
		return false, ""
	}
	seen[fn] = true
	prm := fn.Params[idx]
	for _, b := range fn.Blocks {
		for _, in := range b.Instrs {
			switch x := in.(type) {
			case *ssa.Slice:
				if x.X == ssa.Value(prm) && x.Low == nil && x.High != nil {
					if c, ok := constInt(x.High); ok && c == 0 {
						return true, fmt.Sprintf("%s re-slices it to length 0 at %s", core.FuncName(fn), p.Pos(x.Pos()))
					}
				}
			case *ssa.Call:
				cal := x.Call.StaticCallee()
				if cal == nil || !p.InModule(ownPkg(cal)) {
					continue
				}
				for k, a := range x.Call.Args {
					if a == ssa.Value(prm) {
						if ok, why := truncatesParam(p, cal, k, depth+1, seen); ok {
							return true, why
						}
					}
				}
			}
		}
	}
	return false, ""
}

func init() {
	core.Register(&core.Rule{
		Name: "R-APPENDDST",
		Doc: "Append-style APIs keep what the caller's buffer holds: for every exported method of coregex.Regex whose name begins with Append and whose first parameter dst is a slice of the result type, (1) every returned value is computed from dst (dst itself, an append to it, or the result of a callee that was given dst or a tail view of it) - a constant nil for n == 0 drops the caller's elements; (2) dst is handed to a callee that re-slices its parameter to length 0 only as the zero-length tail view dst[len(dst):] - otherwise the callee overwrites the elements dst already holds. Necessary for C04 (AppendAllIndex(dst, h, n) == dst ++ the match sequence).",
		Min: 2, NeedSSA: true,
		Run: func(p *core.Prog) *core.RuleResult {
			res := &core.RuleResult{}
			for _, fn := range p.SrcFuncs() {
				if strings.HasSuffix(p.File(fn.Pos()), "_test.go") || fn.Signature.Recv() == nil || fn.Object() == nil || !fn.Object().Exported() || !strings.HasPrefix(fn.Name(), "Append") {
					continue
				}
				if pk := ownPkg(fn); pk == nil || pk.Path() != core.ModPath {
					continue
				}
				if len(fn.Params) < 2 || fn.Signature.Results().Len() != 1 {
					continue
				}
				dst := fn.Params[1]
				if _, ok := dst.Type().Underlying().(*types.Slice); !ok || !types.Identical(dst.Type(), fn.Signature.Results().At(0).Type()) {
					continue
				}
				// (1) every return depends on dst
				o1 := core.Obligation{Key: "R-APPENDDST|" + core.FuncName(fn) + "|every result is built from dst", Pos: p.Pos(fn.Pos()), Nontrivial: true, Status: core.Discharged, Detail: "every returned value is computed from dst"}
				for _, b := range fn.Blocks {
					for _, in := range b.Instrs {
						r, ok := in.(*ssa.Return)
						if !ok {
							continue
						}
						if !dependsOn(r.Results[0], dst, map[ssa.Value]bool{}) {
							o1.Status = core.Violated
							o1.Detail = fmt.Sprintf("the value returned at %s (%s) does not depend on dst: the elements the caller's buffer already holds are dropped", p.Pos(r.Pos()), r.Results[0].String())
						}
					}
				}
				res.Obligations = append(res.Obligations, o1)
				// (2) dst passed whole to a truncating callee
				o2 := core.Obligation{Key: "R-APPENDDST|" + core.FuncName(fn) + "|dst is not handed to a callee that truncates it", Pos: p.Pos(fn.Pos()), Nontrivial: true, Status: core.Discharged, Detail: "dst reaches truncating callees only as the zero-length tail view dst[len(dst):] (or not at all)"}
				for _, b := range fn.Blocks {
					for _, in := range b.Instrs {
						c, ok := in.(*ssa.Call)
						if !ok {
							continue
						}
						cal := c.Call.StaticCallee()
						if cal == nil || !p.InModule(ownPkg(cal)) {
							continue
						}
						for k, a := range c.Call.Args {
							if a != ssa.Value(dst) {
								continue
							}
							// the same Append-style contract one level down is fine (AppendAllStringIndex -> AppendAllIndex)
							if strings.HasPrefix(cal.Name(), "Append") && cal.Signature.Recv() != nil {
								continue
							}
							if ok, why := truncatesParam(p, cal, k, 0, map[*ssa.Function]bool{}); ok {
								o2.Status = core.Violated
								o2.Detail = "dst is passed whole to " + cal.Name() + " and " + why + ": what the caller's buffer held is overwritten"
							}
						}
					}
				}
				res.Obligations = append(res.Obligations, o2)
			}
			return res
		},
	})
}
