package rules

import (
	"fmt"
	"go/types"
	"strings"

	"golang.org/x/tools/go/ssa"

	"verif/internal/core"
)

// looparg exemptions: (function|callee) pairs where searching a re-sliced haystack is sound, with the reason.
var loopArgExempt = map[string]string{
	"(*meta.Engine).findIndicesBoundedBacktrackerAt|Search":                   btWhy,
	"(*meta.Engine).findIndicesBoundedBacktrackerAt|SearchWithState":          btWhy,
	"(*meta.Engine).findIndicesBoundedBacktrackerAtWithState|Search":          btWhy,
	"(*meta.Engine).findIndicesBoundedBacktrackerAtWithState|SearchWithState": btWhy,
}

const btWhy = "UseBoundedBacktracker is selected only for start-anchored patterns (FindIndicesAt answers at>0 before dispatching) and for isSimpleCharClass patterns, which contain no assertions; a re-sliced haystack loses no look-behind context for them"


func init() {
	core.Register(&core.Rule{
		Name: "R-LOOPARG",
		Doc: "Searches resumed at an offset receive the full haystack: in a function of meta or the root package that takes a haystack (with or without a resume offset), a call of a matching engine (any module method or function with a []byte parameter outside the byte-search packages simd/prefilter) must pass the function's own haystack parameter, not haystack[at:] or another re-slice whose low bound is not 0: zero-width assertions (^, (?m)^, \\b, \\B) at the resume position must see the bytes before it. Re-slicing is sound only for engines whose patterns cannot contain look-behind assertions; such sites are exempted by name with that reason. (A window cut at a prefilter candidate has a second problem: an unanchored engine call finds the rest of the pattern anywhere in the window, not at the candidate - ReverseInner's suffix check, repaired.) Necessary for C04 (look-behind assertions see the bytes before the resume position) and C08 (replace loops).",
		Min: 400, NeedSSA: true,
		Run: func(p *core.Prog) *core.RuleResult {
			res := &core.RuleResult{}
			kc := core.NewKeyCounter()
			for _, fn := range p.SrcFuncs() {
				if strings.HasSuffix(p.File(fn.Pos()), "_test.go") {
					continue
				}
				pk := ownPkg(fn)
				if pk == nil || !(strings.HasSuffix(pk.Path(), "/meta") || pk.Path() == core.ModPath) {
					continue
				}
				var hay, at *ssa.Parameter
				for _, prm := range fn.Params {
					if isByteSlice(prm.Type()) && hay == nil {
						hay = prm
					}
					if bt, ok := prm.Type().Underlying().(*types.Basic); ok && bt.Kind() == types.Int && hay != nil && at == nil {
						at = prm
					}
				}
				if hay == nil {
					continue
				}
				// functions without a resume offset (Find(haystack), IsMatch(haystack)) are subject too: a window
				// cut at a candidate position loses the same context, and an unanchored engine call on it
				// finds the rest of the pattern anywhere in the window, not at the candidate
				for _, b := range fn.Blocks {
					for _, in := range b.Instrs {
						c, ok := in.(*ssa.Call)
						if !ok {
							continue
						}
						cal := c.Call.StaticCallee()
						if cal == nil || cal.Blocks == nil && cal.Pkg == nil {
							continue
						}
						cpk := ownPkg(cal)
						if cpk == nil || !p.InModule(cpk) || strings.HasSuffix(cpk.Path(), "/simd") || strings.HasSuffix(cpk.Path(), "/prefilter") {
							continue
						}
						// context-dropping callee in another package: it re-slices haystack[start:] itself, so it may only be
						// given a start of 0 (constant, or under an `at == 0` test)
						if di, dropping := contextDropping(cal); dropping && ownPkg(cal) != pk && di < len(c.Call.Args) {
							startArg := c.Call.Args[di]
							o := core.Obligation{Key: kc.Key("R-LOOPARG", core.FuncName(fn), "start passed to context-dropping "+cal.Name()), Pos: p.Pos(c.Pos()), Nontrivial: true}
							if cst, ok := constInt(startArg); ok && cst == 0 {
								o.Status = core.Discharged
								o.Detail = "called with start 0"
							} else if guardedZero(fn, b, startArg) {
								o.Status = core.Discharged
								o.Detail = "called under a start == 0 test"
							} else {
								o.Status = core.Violated
								o.Detail = fmt.Sprintf("%s searches haystack[start:] as if it were the whole text; it is called with a start that is not known to be 0, so assertions at the resume position lose their look-behind context", cal.Name())
							}
							res.Obligations = append(res.Obligations, o)
						}
						for _, a := range c.Call.Args {
							if !isByteSlice(a.Type()) {
								continue
							}
							// is a derived from hay?
							base := a
							lowFromAt := false
							resliced := false
							for i := 0; i < 4; i++ {
								sl, ok := base.(*ssa.Slice)
								if !ok {
									break
								}
								if sl.Low != nil {
									resliced = true
									if at != nil && dependsOn(sl.Low, at, map[ssa.Value]bool{}) {
										lowFromAt = true
									}
								}
								base = sl.X
							}
							if base != ssa.Value(hay) {
								continue
							}
							o := core.Obligation{Key: kc.Key("R-LOOPARG", core.FuncName(fn), "haystack passed to "+cal.Name()), Pos: p.Pos(c.Pos()), Nontrivial: true}
							switch {
							case !resliced:
								o.Status = core.Discharged
								o.Detail = "the callee receives the full haystack (or a high-truncated view of it)"
							case loopArgExempt[core.FuncName(fn)+"|"+cal.Name()] != "":
								o.Status = core.Discharged
								o.Detail = "exempt: " + loopArgExempt[core.FuncName(fn)+"|"+cal.Name()]
							default:
								o.Status = core.Violated
								what := "a re-slice with a non-zero low bound"
								if lowFromAt {
									what = "haystack[at:]"
								}
								o.Detail = fmt.Sprintf("%s is passed %s instead of the full haystack: a ^, (?m)^, \\b or \\B at the resume position sees no preceding byte", cal.Name(), what)
							}
							res.Obligations = append(res.Obligations, o)
						}
					}
				}
			}
			return res
		},
	})
}

// contextDropping: fn has (haystack []byte, start int) parameters and passes haystack[start:] on to a callee.
func contextDropping(fn *ssa.Function) (startIdx int, ok bool) {
	if fn == nil || fn.Blocks == nil {
		return 0, false
	}
	var hay, start *ssa.Parameter
	si := -1
	for i, prm := range fn.Params {
		if isByteSlice(prm.Type()) && hay == nil {
			hay = prm
		}
		if bt, isB := prm.Type().Underlying().(*types.Basic); isB && bt.Kind() == types.Int && hay != nil && start == nil {
			start = prm
			si = i
		}
	}
	if hay == nil || start == nil {
		return 0, false
	}
	for _, b := range fn.Blocks {
		for _, in := range b.Instrs {
			c, isCall := in.(*ssa.Call)
			if !isCall || c.Call.StaticCallee() == nil {
				continue
			}
			for _, a := range c.Call.Args {
				if sl, isSl := a.(*ssa.Slice); isSl && sl.X == ssa.Value(hay) && sl.Low != nil && dependsOn(sl.Low, start, map[ssa.Value]bool{}) {
					return si, true
				}
			}
		}
	}
	return 0, false
}

// guardedZero: block b is dominated by the true edge of v == 0.
func guardedZero(fn *ssa.Function, b *ssa.BasicBlock, v ssa.Value) bool {
	for _, blk := range fn.Blocks {
		if len(blk.Instrs) == 0 {
			continue
		}
		iff, isIf := blk.Instrs[len(blk.Instrs)-1].(*ssa.If)
		if !isIf {
			continue
		}
		bo, isBo := iff.Cond.(*ssa.BinOp)
		if !isBo || !((bo.X == v && isZeroConst(bo.Y)) || (bo.Y == v && isZeroConst(bo.X))) {
			continue
		}
		var edge *ssa.BasicBlock
		switch bo.Op.String() {
		case "==":
			edge = blk.Succs[0]
		case "!=":
			edge = blk.Succs[1]
		default:
			continue
		}
		if len(edge.Preds) == 1 && (edge == b || edge.Dominates(b)) {
			return true
		}
		// conjunctions: at == 0 && other: any block dominated through the true chain
		if edge.Dominates(b) {
			return true
		}
	}
	return false
}
