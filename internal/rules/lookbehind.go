package rules

import (
	"go/token"
	"strings"

	"golang.org/x/tools/go/ssa"

	"verif/internal/core"
)

func init() {
	core.Register(&core.Rule{
		Name: "R-LOOKBEHIND",
		Doc: "The text starts at offset 0, not at the search offset. A read of the byte before a position, h[x-1] on a []byte value, decides a look-behind condition (line start, word boundary, start kind of the DFA); the comparison that guards it - and that answers the condition without the read when x is at the edge - must compare x with the constant 0 (x == 0, x > 0, x != 0, x >= 1), never with another variable such as the start offset of a resumed search: 'x == start' treats the first byte of the window as the first byte of the text, so a literal that begins exactly at the resume position is taken for a line start ((?m)^foo finds the second foo of \"foofoo\"). For every such read in the module, the nearest dominating branch whose condition mentions x is located; it must compare x with a constant. Necessary for C16 (the line-anchor wrapper is exact), C04 (resumed searches see the bytes before the resume position) and C02.",
		Min: 5, NeedSSA: true,
		Run: func(p *core.Prog) *core.RuleResult {
			res := &core.RuleResult{}
			kc := core.NewKeyCounter()
			for _, fn := range p.SrcFuncs() {
				if strings.HasSuffix(p.File(fn.Pos()), "_test.go") || !p.InModule(ownPkg(fn)) {
					continue
				}
				for _, b := range fn.Blocks {
					for _, in := range b.Instrs {
						ia, ok := in.(*ssa.IndexAddr)
						if !ok || !isByteSeq(ia.X.Type()) {
							continue
						}
						sub, ok := stripConv(ia.Index).(*ssa.BinOp)
						if !ok || sub.Op != token.SUB {
							continue
						}
						if c, ok := constInt(sub.Y); !ok || c != 1 {
							continue
						}
						// a decremented cursor (at--; h[at]) also reads h[at-1], but there the difference is the new
						// position and has other uses; a look-behind read uses x-1 for this one read only
						if refs := sub.Referrers(); refs == nil || len(*refs) != 1 {
							continue
						}
						x := stripConv(sub.X)
						// only positions: parameters, phis, call results, arithmetic - not len()-1 style last-element reads
						if call, ok := x.(*ssa.Call); ok {
							if bi, ok := call.Call.Value.(*ssa.Builtin); ok && bi.Name() == "len" {
								continue
							}
						}
						// the operand must be a haystack-like value: a []byte parameter, a field load, or a re-slice of one
						o := core.Obligation{Key: kc.Key("R-LOOKBEHIND", core.FuncName(fn), "guard of the byte-before read"), Pos: p.Pos(ia.Pos()), Nontrivial: true}
						found := false
						for d := b; d != nil && !found; d = d.Idom() {
							id := d.Idom()
							if id == nil || len(id.Instrs) == 0 {
								continue
							}
							iff, ok := id.Instrs[len(id.Instrs)-1].(*ssa.If)
							if !ok {
								continue
							}
							cmp, ok := iff.Cond.(*ssa.BinOp)
							if !ok {
								continue
							}
							var other ssa.Value
							switch {
							case stripConv(cmp.X) == x:
								other = cmp.Y
							case stripConv(cmp.Y) == x:
								other = cmp.X
							default:
								continue
							}
							switch cmp.Op {
							case token.EQL, token.NEQ, token.LSS, token.LEQ, token.GTR, token.GEQ:
							default:
								continue
							}
							found = true
							if _, ok := constInt(other); ok {
								o.Status = core.Discharged
								o.Detail = "guarded by a comparison of the position with a constant (" + p.Pos(cmp.Pos()) + ")"
							} else {
								o.Status = core.Violated
								o.Detail = "the comparison that guards the byte-before read (" + p.Pos(cmp.Pos()) + ") compares the position with " + other.Name() + " (" + other.String() + "), not with the constant 0: the edge of a search window is taken for the edge of the text"
							}
						}
						if !found {
							// no guard on x at all: the index cannot be 0 for another reason (e.g. x = i+1); not a look-behind decision
							continue
						}
						res.Obligations = append(res.Obligations, o)
					}
				}
			}
			return res
		},
	})
}
