package rules

import (
	"go/ast"
	"go/token"
	"go/types"
	"sort"
	"strings"

	"golang.org/x/tools/go/ssa"

	"verif/internal/core"
)

// universalSinks: calls that turn a property of SOME part of the pattern into a check applied to EVERY candidate.
// The value is what must hold for every alternative of the pattern.
var universalSinks = map[string]string{
	"prefilter.WrapLineAnchor": "every match begins at a (?m)^ position: the wrapper rejects every candidate that is not at a line start",
}

// universalArgSinks: boolean arguments that make a callee skip a verification for EVERY candidate; the
// argument must be computed from a universal predicate (conjunctions allowed).
var universalArgSinks = map[string]struct {
	arg int
	why string
}{
	"meta.NewReverseSuffixSetSearcher": {3, "matchStartZero: a suffix occurrence is taken for a match from the line start without a reverse scan, which is right only if EVERY element after the leading .* is a literal"},
}

// universalFieldSinks: boolean fields that make a scan skip start positions after EVERY failed attempt; the stored
// value must be computed from a predicate that quantifies over every later element of the sequence.
var universalFieldSinks = map[string]string{
	"nfa.CompositeSequenceDFA.skipSafe": "skipSafe: after a failed attempt the scan resumes where the automaton died, which is right only if NO later part of the sequence shares a byte with the first one ([a-z]+[0-9]+[a-z]+[A-Z]+ has a match starting inside a failed attempt)",
}

// universalSlicePredicates finds bool functions that quantify universally over a slice parameter: a loop
// `for ... := range s` or `range s[k:]` over the parameter whose body (at any depth) returns false, with
// `return true` as the function's last statement.
func universalSlicePredicates(p *core.Prog) map[*types.Func]bool {
	out := map[*types.Func]bool{}
	for _, pk := range p.Pkgs {
		for _, f := range pk.Syntax {
			if strings.HasSuffix(p.Fset.Position(f.Pos()).Filename, "_test.go") {
				continue
			}
			for _, d := range f.Decls {
				fd, ok := d.(*ast.FuncDecl)
				if !ok || fd.Body == nil || len(fd.Body.List) == 0 {
					continue
				}
				obj, _ := pk.TypesInfo.Defs[fd.Name].(*types.Func)
				if obj == nil {
					continue
				}
				sig := obj.Type().(*types.Signature)
				if sig.Results().Len() != 1 {
					continue
				}
				if b, ok := sig.Results().At(0).Type().Underlying().(*types.Basic); !ok || b.Kind() != types.Bool {
					continue
				}
				last, ok := fd.Body.List[len(fd.Body.List)-1].(*ast.ReturnStmt)
				if !ok || len(last.Results) != 1 || !isIdentNamed(last.Results[0], "true") {
					continue
				}
				sliceParams := map[types.Object]bool{}
				for i := 0; i < sig.Params().Len(); i++ {
					if _, isSl := sig.Params().At(i).Type().Underlying().(*types.Slice); isSl {
						sliceParams[sig.Params().At(i)] = true
					}
				}
				for _, st := range fd.Body.List {
					rs, ok := st.(*ast.RangeStmt)
					if !ok {
						continue
					}
					rx := rs.X
					if sl, ok := rx.(*ast.SliceExpr); ok && sl.High == nil {
						rx = sl.X // every element after a fixed head
					}
					id, ok := rx.(*ast.Ident)
					if !ok || !sliceParams[pk.TypesInfo.Uses[id]] {
						continue
					}
					returnsFalse := false
					ast.Inspect(rs.Body, func(n ast.Node) bool {
						if r, ok := n.(*ast.ReturnStmt); ok && len(r.Results) == 1 && isIdentNamed(r.Results[0], "false") {
							returnsFalse = true
						}
						return true
					})
					if returnsFalse {
						out[obj] = true
					}
				}
			}
		}
	}
	return out
}

// universalPredicates finds bool functions over *syntax.Regexp that quantify universally over the children of a node:
// a loop `for _, sub := range x.Sub { if !f(sub) { return false } }` with f the function itself.
func universalPredicates(p *core.Prog) map[*types.Func]bool {
	out := map[*types.Func]bool{}
	for _, pk := range p.Pkgs {
		for _, f := range pk.Syntax {
			if strings.HasSuffix(p.Fset.Position(f.Pos()).Filename, "_test.go") {
				continue
			}
			for _, d := range f.Decls {
				fd, ok := d.(*ast.FuncDecl)
				if !ok || fd.Body == nil {
					continue
				}
				obj, _ := pk.TypesInfo.Defs[fd.Name].(*types.Func)
				if obj == nil {
					continue
				}
				sig := obj.Type().(*types.Signature)
				if sig.Results().Len() != 1 {
					continue
				}
				if b, ok := sig.Results().At(0).Type().Underlying().(*types.Basic); !ok || b.Kind() != types.Bool {
					continue
				}
				hasRe := false
				for i := 0; i < sig.Params().Len(); i++ {
					if isSyntaxRegexpPtr(sig.Params().At(i).Type()) {
						hasRe = true
					}
				}
				if !hasRe {
					continue
				}
				ast.Inspect(fd.Body, func(n ast.Node) bool {
					rs, ok := n.(*ast.RangeStmt)
					if !ok {
						return true
					}
					rx := rs.X
					if sl, ok := rx.(*ast.SliceExpr); ok {
						rx = sl.X // range over x.Sub[k:]: every element after a fixed head
					}
					sel, ok := rx.(*ast.SelectorExpr)
					if !ok || sel.Sel.Name != "Sub" {
						return true
					}
					for _, st := range rs.Body.List {
						ifs, ok := st.(*ast.IfStmt)
						if !ok {
							continue
						}
						un, ok := ifs.Cond.(*ast.UnaryExpr)
						if !ok || un.Op != token.NOT {
							continue
						}
						call, ok := un.X.(*ast.CallExpr)
						if !ok {
							continue
						}
						// the element predicate: the function itself (recursive quantification) or another
						// module predicate over a sub-expression
						if co := calleeObj(pk, call); co != obj {
							cf, isF := co.(*types.Func)
							if !isF || cf.Pkg() == nil || !strings.HasPrefix(cf.Pkg().Path(), core.ModPath) {
								continue
							}
						}
						if len(ifs.Body.List) == 1 {
							if r, ok := ifs.Body.List[0].(*ast.ReturnStmt); ok && len(r.Results) == 1 && isIdentNamed(r.Results[0], "false") {
								out[obj] = true
							}
						}
					}
					return true
				})
			}
		}
	}
	return out
}

func init() {
	core.Register(&core.Rule{
		Name: "R-UNIVGUARD",
		Doc: "A rewrite that checks a condition for every candidate needs a universal guard: every call of prefilter.WrapLineAnchor (the wrapper rejects each literal candidate that is not at a line start) must be dominated by the true edge of a predicate over the pattern that quantifies over ALL alternatives (a bool function over *syntax.Regexp with `for _, sub := range re.Sub { if !f(sub) { return false } }`). An existential detector ('the pattern contains (?m)^ somewhere') is not enough: for (?m)^foo|bar the branch bar matches anywhere, and the wrapper silently drops those matches. The same holds for a boolean argument that makes a searcher skip a verification for every candidate (the matchStartZero flag of the reverse suffix set searcher: .*[a-z]+\\.(txt|log) must not be told that a suffix occurrence is a match): the argument is computed from a universal predicate. And for a boolean field that lets a scan skip start positions after every failed attempt (skipSafe of the composite sequence DFA): the stored value comes from a bool function that ranges over its whole slice parameter (or a tail s[k:]) and returns false on a counter-example; testing only the neighbouring part is the existential mistake in another form ([a-z]+[0-9]+[a-z]+[A-Z]+ on 'ab1cd2efX': no match found). Necessary for C16 (complete prefilters report exactly the matches) and C01/C02.",
		Min: 3, NeedSSA: true,
		Run: func(p *core.Prog) *core.RuleResult {
			res := &core.RuleResult{}
			univ := universalPredicates(p)
			var names []string
			for f := range univ {
				names = append(names, core.ObjName(f))
			}
			sort.Strings(names)
			res.Notes = append(res.Notes, "universal predicates over the syntax tree: "+strings.Join(names, ", "))
			kc := core.NewKeyCounter()
			univSlice := universalSlicePredicates(p)
			for _, fn := range p.SrcFuncs() {
				if strings.HasSuffix(p.File(fn.Pos()), "_test.go") {
					continue
				}
				for _, b := range fn.Blocks {
					for _, in := range b.Instrs {
						if st, ok := in.(*ssa.Store); ok {
							fa, ok := st.Addr.(*ssa.FieldAddr)
							if !ok {
								continue
							}
							f := innerField(fa)
							pt, _ := fa.X.Type().Underlying().(*types.Pointer)
							if f == nil || pt == nil {
								continue
							}
							nm, _ := pt.Elem().(*types.Named)
							if nm == nil || nm.Obj().Pkg() == nil {
								continue
							}
							why := universalFieldSinks[nm.Obj().Pkg().Name()+"."+nm.Obj().Name()+"."+f.Name()]
							if why == "" {
								continue
							}
							if k, isC := st.Val.(*ssa.Const); isC && k.Value != nil && k.Value.String() == "false" {
								continue // switching the shortcut off needs no justification
							}
							o := core.Obligation{Key: kc.Key("R-UNIVGUARD", core.FuncName(fn), "field "+f.Name()+" computed from a universal predicate"), Pos: p.Pos(st.Pos()), Nontrivial: true}
							found := ""
							var walkV func(v ssa.Value, d int)
							walkV = func(v ssa.Value, d int) {
								if v == nil || d > 6 || found != "" {
									return
								}
								switch x := v.(type) {
								case *ssa.Call:
									if g := x.Call.StaticCallee(); g != nil {
										if obj, _ := g.Object().(*types.Func); obj != nil && univSlice[obj] {
											found = g.Name()
										}
									}
								case *ssa.BinOp:
									walkV(x.X, d+1)
									walkV(x.Y, d+1)
								case *ssa.Phi:
									for _, e := range x.Edges {
										walkV(e, d+1)
									}
									for _, pred := range x.Block().Preds {
										if len(pred.Instrs) > 0 {
											if iff, ok := pred.Instrs[len(pred.Instrs)-1].(*ssa.If); ok {
												walkV(iff.Cond, d+1)
											}
										}
									}
								}
							}
							walkV(st.Val, 0)
							if found != "" {
								o.Status = core.Discharged
								o.Detail = "the stored value includes the predicate " + found + ", which ranges over every element of its slice argument and fails on the first counter-example"
							} else {
								o.Status = core.Violated
								o.Detail = "the stored value is not computed from a predicate that ranges over every later element (" + why + ")"
							}
							res.Obligations = append(res.Obligations, o)
							continue
						}
						c, ok := in.(*ssa.Call)
						if !ok {
							continue
						}
						cal := c.Call.StaticCallee()
						if cal == nil || cal.Pkg == nil {
							continue
						}
						if as, ok := universalArgSinks[cal.Pkg.Pkg.Name()+"."+cal.Name()]; ok && as.arg < len(c.Call.Args) {
							o := core.Obligation{Key: kc.Key("R-UNIVGUARD", core.FuncName(fn), "argument of "+cal.Name()+" computed from a universal predicate"), Pos: p.Pos(c.Pos()), Nontrivial: true}
							found := ""
							seen := map[ssa.Value]bool{}
							var walk func(v ssa.Value, d int)
							walk = func(v ssa.Value, d int) {
								if v == nil || d > 8 || seen[v] || found != "" {
									return
								}
								seen[v] = true
								switch x := v.(type) {
								case *ssa.Call:
									if f := x.Call.StaticCallee(); f != nil {
										if obj, _ := f.Object().(*types.Func); obj != nil && univ[obj] {
											found = f.Name()
										}
									}
								case *ssa.BinOp:
									walk(x.X, d+1)
									walk(x.Y, d+1)
								case *ssa.UnOp:
									walk(x.X, d+1)
								case *ssa.Phi:
									// a && b: the phi merges the constant false with the later operand; every
									// predecessor's branch condition is part of the conjunction
									for _, e := range x.Edges {
										walk(e, d+1)
									}
									for _, pred := range x.Block().Preds {
										if len(pred.Instrs) > 0 {
											if iff, ok := pred.Instrs[len(pred.Instrs)-1].(*ssa.If); ok {
												walk(iff.Cond, d+1)
											}
										}
									}
								}
							}
							walk(c.Call.Args[as.arg], 0)
							if found != "" {
								o.Status = core.Discharged
								o.Detail = "the argument is a conjunction that includes the universal predicate " + found
							} else {
								o.Status = core.Violated
								o.Detail = "the argument is not computed from a predicate that holds for every element of the pattern (" + as.why + ")"
							}
							res.Obligations = append(res.Obligations, o)
						}
						why := universalSinks[cal.Pkg.Pkg.Name()+"."+cal.Name()]
						if why == "" {
							continue
						}
						o := core.Obligation{Key: kc.Key("R-UNIVGUARD", core.FuncName(fn), "call "+cal.Name()+" under a universal guard"), Pos: p.Pos(c.Pos()), Nontrivial: true}
						guards := guardingCalls(fn, b, func(f *ssa.Function) bool {
							obj, _ := f.Object().(*types.Func)
							return obj != nil && univ[obj]
						})
						if len(guards) > 0 {
							o.Status = core.Discharged
							o.Detail = "dominated by the true edge of universal predicate " + guards[0].Call.StaticCallee().Name()
						} else {
							o.Status = core.Violated
							o.Detail = "the call is not guarded by a predicate that holds for every alternative of the pattern (" + why + "); an existential test lets patterns through whose other branches are then never matched"
						}
						res.Obligations = append(res.Obligations, o)
					}
				}
			}
			return res
		},
	})
}
