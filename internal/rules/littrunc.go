package rules

import (
	"fmt"
	"go/token"
	"go/types"
	"strings"

	"golang.org/x/tools/go/ssa"

	"verif/internal/core"
)

// pathWalker explores CFG paths from a starting point, tracking boolean SSA values fixed by the
// path taken (phi inputs that are constants, branch conditions already decided), so that
// `flag := false; if c { flag = true; break }; ...; if flag { mark }` is followed precisely.
type pathWalker struct {
	goal    func(in ssa.Instruction) bool // reaching it discharges the path
	isExit  func(in ssa.Instruction) (exit bool, ok bool) // exit reached: ok tells whether acceptable without goal
	budget  int
	failure string
	p       *core.Prog
}

type boolEnv map[ssa.Value]bool

func (e boolEnv) clone() boolEnv {
	n := boolEnv{}
	for k, v := range e {
		n[k] = v
	}
	return n
}

func evalBool(v ssa.Value, env boolEnv) (val bool, known bool) {
	if c, ok := v.(*ssa.Const); ok && c.Value != nil {
		switch c.Value.String() {
		case "true":
			return true, true
		case "false":
			return false, true
		}
	}
	if b, ok := env[v]; ok {
		return b, true
	}
	if u, ok := v.(*ssa.UnOp); ok && u.Op == token.NOT {
		if b, ok := evalBool(u.X, env); ok {
			return !b, true
		}
	}
	return false, false
}

func (w *pathWalker) walk(b *ssa.BasicBlock, i int, env boolEnv, visited map[string]bool) {
	for {
		if w.failure != "" || w.budget <= 0 {
			if w.budget <= 0 && w.failure == "" {
				w.failure = "path exploration budget exhausted"
			}
			return
		}
		w.budget--
		for ; i < len(b.Instrs); i++ {
			in := b.Instrs[i]
			if w.goal(in) {
				return
			}
			if exit, ok := w.isExit(in); exit {
				if !ok {
					w.failure = "path reaches " + w.p.Pos(in.Pos())
				}
				return
			}
		}
		if len(b.Succs) == 0 {
			return
		}
		next := func(from, to *ssa.BasicBlock, env boolEnv) {
			// bind phis of `to` for the edge from->to
			idx := -1
			for k, pr := range to.Preds {
				if pr == from {
					idx = k
				}
			}
			ne := env
			for _, in := range to.Instrs {
				ph, ok := in.(*ssa.Phi)
				if !ok {
					break
				}
				if idx >= 0 {
					if bv, known := evalBool(ph.Edges[idx], env); known {
						if ne2 := ne; true {
							if &ne2 == &env || true {
								ne = ne.clone()
							}
						}
						ne[ph] = bv
					} else {
						if _, had := ne[ph]; had {
							ne = ne.clone()
							delete(ne, ph)
						}
					}
				}
			}
			key := fmt.Sprintf("%d|%v", to.Index, envKey(ne))
			if visited[key] {
				return
			}
			visited[key] = true
			w.walk(to, 0, ne, visited)
		}
		if len(b.Succs) == 1 {
			next(b, b.Succs[0], env)
			return
		}
		iff := b.Instrs[len(b.Instrs)-1].(*ssa.If)
		if bv, known := evalBool(iff.Cond, env); known {
			if bv {
				next(b, b.Succs[0], env)
			} else {
				next(b, b.Succs[1], env)
			}
			return
		}
		et := env.clone()
		et[iff.Cond] = true
		ef := env.clone()
		ef[iff.Cond] = false
		next(b, b.Succs[0], et)
		next(b, b.Succs[1], ef)
		return
	}
}

func envKey(e boolEnv) string {
	var parts []string
	for k, v := range e {
		parts = append(parts, fmt.Sprintf("%s=%v", k.Name(), v))
	}
	return strings.Join(sortedStrs(parts), ",")
}

func isNamedStructField(addr ssa.Value, typeName, fieldName string) (base ssa.Value, ok bool) {
	fa, ok2 := addr.(*ssa.FieldAddr)
	if !ok2 {
		return nil, false
	}
	pt, ok2 := fa.X.Type().Underlying().(*types.Pointer)
	if !ok2 {
		return nil, false
	}
	n := namedOfType(pt.Elem())
	if n == nil || n.Obj().Name() != typeName {
		return nil, false
	}
	st := n.Underlying().(*types.Struct)
	if st.Field(fa.Field).Name() != fieldName {
		return nil, false
	}
	return fa.X, true
}

func isLiteralSlice(t types.Type) bool {
	sl, ok := t.Underlying().(*types.Slice)
	if !ok {
		return false
	}
	n := namedOfType(sl.Elem())
	return n != nil && n.Obj().Name() == "Literal" && n.Obj().Pkg() != nil && strings.HasSuffix(n.Obj().Pkg().Path(), "/literal")
}

func isByteSlice(t types.Type) bool {
	sl, ok := t.Underlying().(*types.Slice)
	if !ok {
		return false
	}
	b, ok := sl.Elem().Underlying().(*types.Basic)
	return ok && b.Kind() == types.Uint8
}

func init() {
	core.Register(&core.Rule{
		Name: "R-LITTRUNC",
		Doc: "Package literal: (b1) every store that shortens a Seq's literal list (s.literals = s.literals[:n]) is followed on every path to return by s.partialCoverage = true (paths are followed with boolean phi/branch tracking); (b2) no return inside a collection loop hands back a non-empty partial collection (return NewSeq(collected...)); (a) every shortening slice of literal bytes that flows into a Literal (NewLiteral argument or Literal.Bytes store) comes with Complete == false on that path (constant false, a phi whose input on the truncating edge is false, or a Complete=false store in the same block). Necessary for C17 (a dropped literal makes the set non-covering; a truncated 'complete' literal is not a whole match), hence for C16 and C12 (limits may only change speed).",
		Min: 15, NeedSSA: true,
		Run: func(p *core.Prog) *core.RuleResult {
			res := &core.RuleResult{}
			pk := p.SSAPkg("literal")
			if pk == nil {
				res.Fatal = append(res.Fatal, "package literal not found")
				return res
			}
			kc := core.NewKeyCounter()
			nb1, nb2, na := 0, 0, 0
			for _, fn := range p.SrcFuncs() {
				if fn.Pkg != pk || strings.HasSuffix(p.File(fn.Pos()), "_test.go") {
					continue
				}
				comp, cyclic := blockSCCs(fn)
				for _, b := range fn.Blocks {
					for i, in := range b.Instrs {
						switch x := in.(type) {
						case *ssa.Store:
							// (b1) list truncation
							if base, ok := isNamedStructField(x.Addr, "Seq", "literals"); ok {
								if sl, ok := x.Val.(*ssa.Slice); ok && sl.High != nil && isLiteralSlice(sl.Type()) {
									nb1++
									o := core.Obligation{Key: kc.Key("R-LITTRUNC", core.FuncName(fn), "list truncation []Literal"), Pos: p.Pos(x.Pos()), Nontrivial: true}
									w := &pathWalker{p: p, budget: 4000,
										goal: func(in ssa.Instruction) bool {
											st, ok := in.(*ssa.Store)
											if !ok {
												return false
											}
											b2, ok := isNamedStructField(st.Addr, "Seq", "partialCoverage")
											if !ok || b2 != base {
												return false
											}
											v, known := evalBool(st.Val, nil)
											return known && v
										},
										isExit: func(in ssa.Instruction) (bool, bool) {
											if _, ok := in.(*ssa.Return); ok {
												return true, false
											}
											return false, false
										}}
									w.walk(b, i+1, boolEnv{}, map[string]bool{})
									if w.failure == "" {
										o.Status = core.Discharged
										o.Detail = "every path from the truncation to return sets partialCoverage = true on the same Seq"
									} else {
										o.Status = core.Violated
										o.Detail = "literal list shortened but a " + w.failure + " (return) without partialCoverage = true: the set silently stops covering every branch"
									}
									res.Obligations = append(res.Obligations, o)
								}
							}
							// (a) store into Literal.Bytes of a shortening slice
							if _, ok := isNamedStructField(x.Addr, "Literal", "Bytes"); ok {
								if sl, ok := x.Val.(*ssa.Slice); ok && (sl.High != nil || sl.Low != nil) && isByteSlice(sl.Type()) {
									na++
									o := core.Obligation{Key: kc.Key("R-LITTRUNC", core.FuncName(fn), "byte truncation stored to Literal.Bytes"), Pos: p.Pos(x.Pos()), Nontrivial: true}
									ok2 := false
									for j := i + 1; j < len(b.Instrs); j++ {
										if st, ok := b.Instrs[j].(*ssa.Store); ok {
											if _, ok := isNamedStructField(st.Addr, "Literal", "Complete"); ok {
												if v, known := evalBool(st.Val, nil); known && !v {
													ok2 = true
												}
											}
										}
									}
									if ok2 {
										o.Status = core.Discharged
										o.Detail = "Complete = false is stored in the same block"
									} else {
										o.Status = core.Violated
										o.Detail = "literal bytes are shortened in place but Complete is not cleared"
									}
									res.Obligations = append(res.Obligations, o)
								}
							}
						case *ssa.Return:
							// (b2) return of a partial collection from inside a loop
							if len(x.Results) == 0 || !returnsFromLoopBody(b, comp, cyclic) {
								continue
							}
							c, ok := x.Results[0].(*ssa.Call)
							if !ok {
								continue
							}
							cal := c.Call.StaticCallee()
							if cal == nil || cal.Name() != "NewSeq" || cal.Pkg != pk {
								continue
							}
							nb2++
							o := core.Obligation{Key: kc.Key("R-LITTRUNC", core.FuncName(fn), "return inside collection loop"), Pos: p.Pos(x.Pos()), Nontrivial: true}
							if len(c.Call.Args) == 1 && !isNilConst(c.Call.Args[0]) && !appendAccumulated(c.Call.Args[0], 0) {
								// a fully built slice (make + indexed stores), not a collection still being accumulated
								nb2--
								continue
							}
							if len(c.Call.Args) == 1 && isNilConst(c.Call.Args[0]) {
								o.Status = core.Discharged
								o.Detail = "returns the empty sequence (no information)"
							} else {
								o.Status = core.Violated
								o.Detail = "returns the literals collected so far from inside the collection loop: the remaining alternatives are dropped without partial-coverage marking"
							}
							res.Obligations = append(res.Obligations, o)
						case *ssa.Call:
							// (a) NewLiteral(bytes, complete) where bytes may be a shortening slice
							cal := x.Call.StaticCallee()
							if cal == nil || cal.Name() != "NewLiteral" || cal.Pkg != pk || len(x.Call.Args) != 2 {
								continue
							}
							trunc, how := truncatedBytes(x.Call.Args[0], x.Call.Args[1])
							if trunc == 0 {
								continue
							}
							na++
							o := core.Obligation{Key: kc.Key("R-LITTRUNC", core.FuncName(fn), "byte truncation into NewLiteral"), Pos: p.Pos(x.Pos()), Nontrivial: true}
							if trunc == 1 {
								o.Status = core.Discharged
								o.Detail = how
							} else {
								o.Status = core.Violated
								o.Detail = how
							}
							res.Obligations = append(res.Obligations, o)
						}
					}
				}
			}
			res.Notes = append(res.Notes, fmt.Sprintf("list truncations=%d returns-in-collection-loops=%d byte truncations=%d", nb1, nb2, na))
			return res
		},
	})
}

// truncatedBytes: 0 = bytes is not a (possibly) shortened slice; 1 = shortened and complete is false on that path; 2 = violation.
func truncatedBytes(bytesV, completeV ssa.Value) (int, string) {
	isTrunc := func(v ssa.Value) bool {
		sl, ok := v.(*ssa.Slice)
		return ok && (sl.High != nil || sl.Low != nil) && isByteSlice(sl.Type())
	}
	if isTrunc(bytesV) {
		if v, known := evalBool(completeV, nil); known && !v {
			return 1, "shortened bytes with constant Complete=false"
		}
		return 2, "literal bytes are shortened unconditionally but Complete is not constant false"
	}
	ph, ok := bytesV.(*ssa.Phi)
	if !ok {
		return 0, ""
	}
	any := false
	for k, e := range ph.Edges {
		if !isTrunc(e) {
			continue
		}
		any = true
		// complete must be false on the same incoming edge
		if v, known := evalBool(completeV, nil); known {
			if v {
				return 2, "literal bytes are shortened on one path but Complete is constant true: a truncated literal is reported as a whole match"
			}
			continue
		}
		cph, ok := completeV.(*ssa.Phi)
		if !ok || cph.Block() != ph.Block() {
			return 2, "literal bytes are shortened on one path but Complete does not depend on that path"
		}
		if v, known := evalBool(cph.Edges[k], nil); !known || v {
			return 2, "literal bytes are shortened on one path and Complete is not false on that path"
		}
	}
	if !any {
		return 0, ""
	}
	return 1, "Complete is false on every path that shortens the bytes"
}

// returnsFromLoopBody: the block is inside a loop, or is entered from a loop block that is not the
// loop's header (i.e. the return leaves the loop from its body, not through the normal exit test).
func returnsFromLoopBody(b *ssa.BasicBlock, comp []int, cyclic map[int]bool) bool {
	if cyclic[comp[b.Index]] {
		return true
	}
	for _, pr := range b.Preds {
		c := comp[pr.Index]
		if !cyclic[c] {
			continue
		}
		header := false
		for _, pp := range pr.Preds {
			if comp[pp.Index] != c {
				header = true
			}
		}
		if !header {
			return true
		}
	}
	return false
}

// appendAccumulated: the slice value is (a phi over) results of append, i.e. a collection under construction.
func appendAccumulated(v ssa.Value, depth int) bool {
	if depth > 4 {
		return false
	}
	switch x := v.(type) {
	case *ssa.Call:
		return isAppendCall(x)
	case *ssa.Phi:
		for _, e := range x.Edges {
			if appendAccumulated(e, depth+1) {
				return true
			}
		}
	case *ssa.Slice:
		return appendAccumulated(x.X, depth+1)
	}
	return false
}
