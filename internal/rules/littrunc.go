package rules

import (
	"fmt"
	"go/token"
	"go/types"
	"strings"

	"golang.org/x/tools/go/ssa"

	"verif/internal/core"
	"verif/internal/own"
)

// pathWalker explores CFG paths from a starting point, tracking boolean SSA values fixed by the
// path taken (phi inputs that are constants, branch conditions already decided), so that
// `flag := false; if c { flag = true; break }; ...; if flag { mark }` is followed precisely.
type pathWalker struct {
	goal    func(in ssa.Instruction) bool // reaching it discharges the path
	isExit  func(in ssa.Instruction) (exit bool, ok bool) // exit reached: ok tells whether acceptable without goal
	budget  int
	failure string
	p       *core.Prog
}

type boolEnv map[ssa.Value]bool

func (e boolEnv) clone() boolEnv {
	n := boolEnv{}
	for k, v := range e {
		n[k] = v
	}
	return n
}

func evalBool(v ssa.Value, env boolEnv) (val bool, known bool) {
	if c, ok := v.(*ssa.Const); ok && c.Value != nil {
		switch c.Value.String() {
		case "true":
			return true, true
		case "false":
			return false, true
		}
	}
	if b, ok := env[v]; ok {
		return b, true
	}
	if u, ok := v.(*ssa.UnOp); ok && u.Op == token.NOT {
		if b, ok := evalBool(u.X, env); ok {
			return !b, true
		}
	}
	return false, false
}

func (w *pathWalker) walk(b *ssa.BasicBlock, i int, env boolEnv, visited map[string]bool) {
	for {
		if w.failure != "" || w.budget <= 0 {
			if w.budget <= 0 && w.failure == "" {
				w.failure = "path exploration budget exhausted"
			}
			return
		}
		w.budget--
		for ; i < len(b.Instrs); i++ {
			in := b.Instrs[i]
			if w.goal(in) {
				return
			}
			if exit, ok := w.isExit(in); exit {
				if !ok {
					w.failure = "path reaches " + w.p.Pos(in.Pos())
				}
				return
			}
		}
		if len(b.Succs) == 0 {
			return
		}
		next := func(from, to *ssa.BasicBlock, env boolEnv) {
			// bind phis of `to` for the edge from->to
			idx := -1
			for k, pr := range to.Preds {
				if pr == from {
					idx = k
				}
			}
			ne := env
			for _, in := range to.Instrs {
				ph, ok := in.(*ssa.Phi)
				if !ok {
					break
				}
				if idx >= 0 {
					if bv, known := evalBool(ph.Edges[idx], env); known {
						if ne2 := ne; true {
							if &ne2 == &env || true {
								ne = ne.clone()
							}
						}
						ne[ph] = bv
					} else {
						if _, had := ne[ph]; had {
							ne = ne.clone()
							delete(ne, ph)
						}
					}
				}
			}
			key := fmt.Sprintf("%d|%v", to.Index, envKey(ne))
			if visited[key] {
				return
			}
			visited[key] = true
			w.walk(to, 0, ne, visited)
		}
		if len(b.Succs) == 1 {
			next(b, b.Succs[0], env)
			return
		}
		iff := b.Instrs[len(b.Instrs)-1].(*ssa.If)
		if bv, known := evalBool(iff.Cond, env); known {
			if bv {
				next(b, b.Succs[0], env)
			} else {
				next(b, b.Succs[1], env)
			}
			return
		}
		et := env.clone()
		et[iff.Cond] = true
		ef := env.clone()
		ef[iff.Cond] = false
		next(b, b.Succs[0], et)
		next(b, b.Succs[1], ef)
		return
	}
}

func envKey(e boolEnv) string {
	var parts []string
	for k, v := range e {
		parts = append(parts, fmt.Sprintf("%s=%v", k.Name(), v))
	}
	return strings.Join(sortedStrs(parts), ",")
}

func isNamedStructField(addr ssa.Value, typeName, fieldName string) (base ssa.Value, ok bool) {
	fa, ok2 := addr.(*ssa.FieldAddr)
	if !ok2 {
		return nil, false
	}
	pt, ok2 := fa.X.Type().Underlying().(*types.Pointer)
	if !ok2 {
		return nil, false
	}
	n := namedOfType(pt.Elem())
	if n == nil || n.Obj().Name() != typeName {
		return nil, false
	}
	st := n.Underlying().(*types.Struct)
	if st.Field(fa.Field).Name() != fieldName {
		return nil, false
	}
	return fa.X, true
}

func isLiteralSlice(t types.Type) bool {
	sl, ok := t.Underlying().(*types.Slice)
	if !ok {
		return false
	}
	n := namedOfType(sl.Elem())
	return n != nil && n.Obj().Name() == "Literal" && n.Obj().Pkg() != nil && strings.HasSuffix(n.Obj().Pkg().Path(), "/literal")
}

func isByteSlice(t types.Type) bool {
	sl, ok := t.Underlying().(*types.Slice)
	if !ok {
		return false
	}
	b, ok := sl.Elem().Underlying().(*types.Basic)
	return ok && b.Kind() == types.Uint8
}

func init() {
	core.Register(&core.Rule{
		Name: "R-LITTRUNC",
		Doc: "Package literal: (b1) every store that shortens a Seq's literal list (s.literals = s.literals[:n]) is followed on every path to return by s.partialCoverage = true (paths are followed with boolean phi/branch tracking); (b2) no return inside a collection loop hands back a non-empty partial collection (return NewSeq(collected...)); (b3) a rebuild of the list by appends that an iteration over the old list can skip (s.literals = kept) drops literals: if the function is reachable from a compile root, either every skip is decided by an exact-duplicate test only (map lookup on the literal's bytes, bytes.Equal), or partialCoverage = true follows on every path - dropping a literal in favour of its proper prefix (Minimize) keeps the candidates but the survivor no longer stands for a whole match of the dropped alternative; (a) every shortening slice of literal bytes that flows into a Literal (NewLiteral argument or Literal.Bytes store) comes with Complete == false on that path (constant false, a phi whose input on the truncating edge is false, or a Complete=false store in the same block). Necessary for C17 (a dropped literal makes the set non-covering; a truncated 'complete' literal is not a whole match), hence for C16 and C12 (limits may only change speed).",
		Min: 15, NeedSSA: true,
		Run: func(p *core.Prog) *core.RuleResult {
			res := &core.RuleResult{}
			pk := p.SSAPkg("literal")
			if pk == nil {
				res.Fatal = append(res.Fatal, "package literal not found")
				return res
			}
			kc := core.NewKeyCounter()
			nb1, nb2, nb3, na := 0, 0, 0, 0
			for _, fn := range p.SrcFuncs() {
				if fn.Pkg != pk || strings.HasSuffix(p.File(fn.Pos()), "_test.go") {
					continue
				}
				comp, cyclic := blockSCCs(fn)
				for _, b := range fn.Blocks {
					for i, in := range b.Instrs {
						switch x := in.(type) {
						case *ssa.Store:
							// (b1) list truncation
							if base, ok := isNamedStructField(x.Addr, "Seq", "literals"); ok {
								if sl, ok := x.Val.(*ssa.Slice); ok && sl.High != nil && isLiteralSlice(sl.Type()) {
									nb1++
									o := core.Obligation{Key: kc.Key("R-LITTRUNC", core.FuncName(fn), "list truncation []Literal"), Pos: p.Pos(x.Pos()), Nontrivial: true}
									w := &pathWalker{p: p, budget: 4000,
										goal: func(in ssa.Instruction) bool {
											st, ok := in.(*ssa.Store)
											if !ok {
												return false
											}
											b2, ok := isNamedStructField(st.Addr, "Seq", "partialCoverage")
											if !ok || b2 != base {
												return false
											}
											v, known := evalBool(st.Val, nil)
											return known && v
										},
										isExit: func(in ssa.Instruction) (bool, bool) {
											if _, ok := in.(*ssa.Return); ok {
												return true, false
											}
											return false, false
										}}
									w.walk(b, i+1, boolEnv{}, map[string]bool{})
									if w.failure == "" {
										o.Status = core.Discharged
										o.Detail = "every path from the truncation to return sets partialCoverage = true on the same Seq"
									} else {
										o.Status = core.Violated
										o.Detail = "literal list shortened but a " + w.failure + " (return) without partialCoverage = true: the set silently stops covering every branch"
									}
									res.Obligations = append(res.Obligations, o)
								}
							}
							// (b3) filtered rebuild: s.literals = kept, where kept is accumulated by appends that an iteration can skip
							if base, ok := isNamedStructField(x.Addr, "Seq", "literals"); ok && appendAccumulated(x.Val, 0) {
								if _, isSl := x.Val.(*ssa.Slice); !isSl {
									if o, found := filteredRebuild(p, fn, x, base, comp, cyclic, kc, compileReach(p)); found {
										nb3++
										res.Obligations = append(res.Obligations, o)
									}
								}
							}
							// (a) store into Literal.Bytes of a shortening slice
							if _, ok := isNamedStructField(x.Addr, "Literal", "Bytes"); ok {
								if sl, ok := x.Val.(*ssa.Slice); ok && (sl.High != nil || sl.Low != nil) && isByteSlice(sl.Type()) {
									na++
									o := core.Obligation{Key: kc.Key("R-LITTRUNC", core.FuncName(fn), "byte truncation stored to Literal.Bytes"), Pos: p.Pos(x.Pos()), Nontrivial: true}
									ok2 := false
									for j := i + 1; j < len(b.Instrs); j++ {
										if st, ok := b.Instrs[j].(*ssa.Store); ok {
											if _, ok := isNamedStructField(st.Addr, "Literal", "Complete"); ok {
												if v, known := evalBool(st.Val, nil); known && !v {
													ok2 = true
												}
											}
										}
									}
									if ok2 {
										o.Status = core.Discharged
										o.Detail = "Complete = false is stored in the same block"
									} else {
										o.Status = core.Violated
										o.Detail = "literal bytes are shortened in place but Complete is not cleared"
									}
									res.Obligations = append(res.Obligations, o)
								}
							}
						case *ssa.Return:
							// (b2) return of a partial collection from inside a loop
							if len(x.Results) == 0 || !returnsFromLoopBody(b, comp, cyclic) {
								continue
							}
							c, ok := x.Results[0].(*ssa.Call)
							if !ok {
								continue
							}
							cal := c.Call.StaticCallee()
							if cal == nil || cal.Name() != "NewSeq" || cal.Pkg != pk {
								continue
							}
							nb2++
							o := core.Obligation{Key: kc.Key("R-LITTRUNC", core.FuncName(fn), "return inside collection loop"), Pos: p.Pos(x.Pos()), Nontrivial: true}
							if len(c.Call.Args) == 1 && !isNilConst(c.Call.Args[0]) && !appendAccumulated(c.Call.Args[0], 0) {
								// a fully built slice (make + indexed stores), not a collection still being accumulated
								nb2--
								continue
							}
							if len(c.Call.Args) == 1 && isNilConst(c.Call.Args[0]) {
								o.Status = core.Discharged
								o.Detail = "returns the empty sequence (no information)"
							} else {
								o.Status = core.Violated
								o.Detail = "returns the literals collected so far from inside the collection loop: the remaining alternatives are dropped without partial-coverage marking"
							}
							res.Obligations = append(res.Obligations, o)
						case *ssa.Call:
							// (a) NewLiteral(bytes, complete) where bytes may be a shortening slice
							cal := x.Call.StaticCallee()
							if cal == nil || cal.Name() != "NewLiteral" || cal.Pkg != pk || len(x.Call.Args) != 2 {
								continue
							}
							trunc, how := truncatedBytes(x.Call.Args[0], x.Call.Args[1])
							if trunc == 0 {
								continue
							}
							na++
							o := core.Obligation{Key: kc.Key("R-LITTRUNC", core.FuncName(fn), "byte truncation into NewLiteral"), Pos: p.Pos(x.Pos()), Nontrivial: true}
							if trunc == 1 {
								o.Status = core.Discharged
								o.Detail = how
							} else {
								o.Status = core.Violated
								o.Detail = how
							}
							res.Obligations = append(res.Obligations, o)
						}
					}
				}
			}
			res.Notes = append(res.Notes, fmt.Sprintf("list truncations=%d returns-in-collection-loops=%d filtered rebuilds=%d byte truncations=%d", nb1, nb2, nb3, na))
			return res
		},
	})
}

// truncatedBytes: 0 = bytes is not a (possibly) shortened slice; 1 = shortened and complete is false on that path; 2 = violation.
func truncatedBytes(bytesV, completeV ssa.Value) (int, string) {
	isTrunc := func(v ssa.Value) bool {
		sl, ok := v.(*ssa.Slice)
		return ok && (sl.High != nil || sl.Low != nil) && isByteSlice(sl.Type())
	}
	if isTrunc(bytesV) {
		if v, known := evalBool(completeV, nil); known && !v {
			return 1, "shortened bytes with constant Complete=false"
		}
		return 2, "literal bytes are shortened unconditionally but Complete is not constant false"
	}
	ph, ok := bytesV.(*ssa.Phi)
	if !ok {
		return 0, ""
	}
	any := false
	for k, e := range ph.Edges {
		if !isTrunc(e) {
			continue
		}
		any = true
		// complete must be false on the same incoming edge
		if v, known := evalBool(completeV, nil); known {
			if v {
				return 2, "literal bytes are shortened on one path but Complete is constant true: a truncated literal is reported as a whole match"
			}
			continue
		}
		cph, ok := completeV.(*ssa.Phi)
		if !ok || cph.Block() != ph.Block() {
			return 2, "literal bytes are shortened on one path but Complete does not depend on that path"
		}
		if v, known := evalBool(cph.Edges[k], nil); !known || v {
			return 2, "literal bytes are shortened on one path and Complete is not false on that path"
		}
	}
	if !any {
		return 0, ""
	}
	return 1, "Complete is false on every path that shortens the bytes"
}

// returnsFromLoopBody: the block is inside a loop, or is entered from a loop block that is not the
// loop's header (i.e. the return leaves the loop from its body, not through the normal exit test).
func returnsFromLoopBody(b *ssa.BasicBlock, comp []int, cyclic map[int]bool) bool {
	if cyclic[comp[b.Index]] {
		return true
	}
	for _, pr := range b.Preds {
		c := comp[pr.Index]
		if !cyclic[c] {
			continue
		}
		header := false
		for _, pp := range pr.Preds {
			if comp[pp.Index] != c {
				header = true
			}
		}
		if !header {
			return true
		}
	}
	return false
}

// appendAccumulated: the slice value is (a phi over) results of append, i.e. a collection under construction.
func appendAccumulated(v ssa.Value, depth int) bool {
	if depth > 4 {
		return false
	}
	switch x := v.(type) {
	case *ssa.Call:
		return isAppendCall(x)
	case *ssa.Phi:
		for _, e := range x.Edges {
			if appendAccumulated(e, depth+1) {
				return true
			}
		}
	case *ssa.Slice:
		return appendAccumulated(x.X, depth+1)
	}
	return false
}


var compileReachMemo map[*core.Prog]map[*ssa.Function]bool

// compileReach: functions reachable in the call graph from the compile roots (non-test code only).
func compileReach(p *core.Prog) map[*ssa.Function]bool {
	if compileReachMemo == nil {
		compileReachMemo = map[*core.Prog]map[*ssa.Function]bool{}
	}
	if m := compileReachMemo[p]; m != nil {
		return m
	}
	cg := p.CallGraph()
	reach := map[*ssa.Function]bool{}
	var work []*ssa.Function
	for _, fn := range p.SrcFuncs() {
		if own.IsCompileRoot(fn) && !strings.HasSuffix(p.File(fn.Pos()), "_test.go") {
			reach[fn] = true
			work = append(work, fn)
		}
	}
	for len(work) > 0 {
		f := work[0]
		work = work[1:]
		if n := cg.Nodes[f]; n != nil {
			for _, e := range n.Out {
				c := e.Callee.Func
				if !reach[c] && !strings.HasSuffix(p.File(c.Pos()), "_test.go") {
					reach[c] = true
					work = append(work, c)
				}
			}
		}
	}
	compileReachMemo[p] = reach
	return reach
}

// filteredRebuildExempt: (function) -> reason why its skipping iteration paths drop nothing.
var filteredRebuildExempt = map[string]string{
	"(*literal.Seq).CrossForward": "each left literal is either kept as it is (inexact) or replaced by its products with every literal of other, and other is non-empty (tested at entry): no iteration drops its literal",
}

// filteredRebuild decides clause (b3) for the store st of an append-accumulated slice into base.literals.
func filteredRebuild(p *core.Prog, fn *ssa.Function, st *ssa.Store, base ssa.Value, comp []int, cyclic map[int]bool, kc *core.KeyCounter, reach map[*ssa.Function]bool) (core.Obligation, bool) {
	// the appends that build the stored value
	web := map[ssa.Value]bool{}
	var collect func(v ssa.Value, d int)
	collect = func(v ssa.Value, d int) {
		if d > 8 || web[v] {
			return
		}
		switch x := v.(type) {
		case *ssa.Call:
			if isAppendCall(x) {
				web[x] = true
				collect(x.Call.Args[0], d+1)
			}
		case *ssa.Phi:
			web[x] = true
			for _, e := range x.Edges {
				collect(e, d+1)
			}
		}
	}
	collect(st.Val, 0)
	appendBlocks := map[*ssa.BasicBlock]bool{}
	loopSCC := -1
	for v := range web {
		if c, ok := v.(*ssa.Call); ok && cyclic[comp[c.Block().Index]] {
			appendBlocks[c.Block()] = true
		}
	}
	if len(appendBlocks) == 0 {
		return core.Obligation{}, false
	}
	// outermost loop: the SCC of the loop-carried phi of the web that has an edge from outside its SCC
	var header *ssa.BasicBlock
	for v := range web {
		ph, ok := v.(*ssa.Phi)
		if !ok || !cyclic[comp[ph.Block().Index]] {
			continue
		}
		fromOutside := false
		for _, pr := range ph.Block().Preds {
			if comp[pr.Index] != comp[ph.Block().Index] {
				fromOutside = true
			}
		}
		if fromOutside && (header == nil || ph.Block().Dominates(header)) {
			header = ph.Block()
		}
	}
	if header == nil {
		return core.Obligation{}, false
	}
	loopSCC = comp[header.Index]
	// does the loop range over the old list of the same Seq?
	overOld := false
	for _, b := range fn.Blocks {
		if comp[b.Index] != loopSCC && !header.Dominates(b) {
			continue
		}
		for _, in := range b.Instrs {
			if ia, ok := in.(*ssa.IndexAddr); ok {
				if u, ok := ia.X.(*ssa.UnOp); ok {
					if b2, ok := isNamedStructField(u.X, "Seq", "literals"); ok && sameExpr(b2, base, 0) {
						overOld = true
					}
				}
			}
		}
	}
	for _, in := range header.Instrs {
		_ = in
	}
	if !overOld {
		// also: `for _, lit := range s.literals` loads the field before the loop
		for _, b := range fn.Blocks {
			for _, in := range b.Instrs {
				if u, ok := in.(*ssa.UnOp); ok {
					if b2, ok := isNamedStructField(u.X, "Seq", "literals"); ok && sameExpr(b2, base, 0) {
						for _, r := range *u.Referrers() {
							if ia, ok := r.(*ssa.IndexAddr); ok && (comp[ia.Block().Index] == loopSCC) {
								overOld = true
							}
						}
					}
				}
			}
		}
	}
	if !overOld {
		return core.Obligation{}, false
	}
	// a path through one iteration (header -> latch) that avoids every append; nested loops (other SCC members dominated
	// by the header) are part of the iteration
	inIter := func(b *ssa.BasicBlock) bool { return comp[b.Index] == loopSCC }
	seen := map[*ssa.BasicBlock]bool{}
	var skipPath bool
	var dfs func(b *ssa.BasicBlock)
	dfs = func(b *ssa.BasicBlock) {
		if seen[b] || !inIter(b) || appendBlocks[b] {
			return
		}
		seen[b] = true
		for _, sc := range b.Succs {
			if sc == header {
				skipPath = true
				return
			}
			dfs(sc)
		}
	}
	dfs(header)
	o := core.Obligation{Key: kc.Key("R-LITTRUNC", core.FuncName(fn), "filtered rebuild of []Literal"), Pos: p.Pos(st.Pos()), Nontrivial: true}
	if !skipPath {
		o.Status = core.Discharged
		o.Detail = "every iteration over the old list appends to the new one: nothing is dropped"
		return o, true
	}
	if why := filteredRebuildExempt[core.FuncName(fn)]; why != "" {
		o.Status = core.Discharged
		o.Detail = "exempt: " + why
		return o, true
	}
	if !reach[fn] {
		o.Status = core.Discharged
		o.Nontrivial = false
		o.Detail = "the function drops literals but is not reachable from a compile root (not used when a pattern is compiled)"
		return o, true
	}
	// are the skips decided by exact-duplicate tests only?
	dupOnly := true
	var offending string
	var leafOK func(v ssa.Value, d int, seenV map[ssa.Value]bool) bool
	leafOK = func(v ssa.Value, d int, seenV map[ssa.Value]bool) bool {
		if d > 10 || seenV[v] {
			return true
		}
		seenV[v] = true
		switch x := v.(type) {
		case *ssa.Const:
			return true
		case *ssa.UnOp:
			if x.Op == token.NOT {
				return leafOK(x.X, d+1, seenV)
			}
			return false
		case *ssa.Phi:
			for _, e := range x.Edges {
				if !leafOK(e, d+1, seenV) {
					return false
				}
			}
			return true
		case *ssa.Extract:
			if lk, ok := x.Tuple.(*ssa.Lookup); ok && lk.CommaOk {
				return true
			}
			return false
		case *ssa.BinOp:
			// loop bookkeeping (i < n) is not a filter
			if isIntType(x.X.Type()) && isIntType(x.Y.Type()) {
				return true
			}
			return false
		case *ssa.Call:
			if cal := x.Call.StaticCallee(); cal != nil && cal.Pkg != nil && cal.Pkg.Pkg.Path() == "bytes" && cal.Name() == "Equal" {
				return true
			}
			return false
		}
		return false
	}
	for _, b := range fn.Blocks {
		if !inIter(b) || len(b.Instrs) == 0 {
			continue
		}
		iff, ok := b.Instrs[len(b.Instrs)-1].(*ssa.If)
		if !ok {
			continue
		}
		// every branch inside the iteration takes part in deciding whether the literal is kept (a skip flag set in an
		// inner loop reaches the deciding branch as a phi of constants), so all of them must be duplicate tests or loop bookkeeping
		if !leafOK(iff.Cond, 0, map[ssa.Value]bool{}) {
			dupOnly = false
			offending = p.Pos(iff.Cond.Pos())
		}
	}
	if dupOnly {
		o.Status = core.Discharged
		o.Detail = "literals are skipped only when an equal literal was already kept (exact-duplicate test)"
		return o, true
	}
	// partialCoverage = true on every path after the store?
	w := &pathWalker{p: p, budget: 4000,
		goal: func(in ssa.Instruction) bool {
			s2, ok := in.(*ssa.Store)
			if !ok {
				return false
			}
			b2, ok := isNamedStructField(s2.Addr, "Seq", "partialCoverage")
			if !ok || !sameExpr(b2, base, 0) {
				return false
			}
			v, known := evalBool(s2.Val, nil)
			return known && v
		},
		isExit: func(in ssa.Instruction) (bool, bool) {
			if _, ok := in.(*ssa.Return); ok {
				return true, false
			}
			return false, false
		}}
	idx := 0
	for i, in := range st.Block().Instrs {
		if in == ssa.Instruction(st) {
			idx = i
		}
	}
	w.walk(st.Block(), idx+1, boolEnv{}, map[string]bool{})
	if w.failure == "" {
		o.Status = core.Discharged
		o.Detail = "the rebuild drops literals and marks the set partial on every path"
		return o, true
	}
	o.Status = core.Violated
	o.Detail = fmt.Sprintf("the literal list is rebuilt with some literals left out (skip decided at %s by something other than an exact-duplicate test) on a path used when compiling a pattern, and the set is not marked partial: a literal dropped in favour of its prefix leaves a survivor that still claims to be a complete match, so a 'complete' prefilter reports the shorter alternative's span", offending)
	return o, true
}
