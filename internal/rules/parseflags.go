package rules

import (
	"fmt"
	"go/constant"
	"go/token"
	"sort"
	"strings"

	"golang.org/x/tools/go/ssa"

	"verif/internal/core"
)

// constFold resolves v to an integer constant under the parameter binding env (constants, parameters bound to
// constants, conversions and bit operations of those); ok=false when it is not a constant.
func constFold(v ssa.Value, env map[*ssa.Parameter]int64, d int) (int64, bool) {
	if d > 6 || v == nil {
		return 0, false
	}
	switch x := v.(type) {
	case *ssa.Const:
		if x.Value == nil || x.Value.Kind() != constant.Int {
			return 0, false
		}
		return constant.Int64Val(x.Value)
	case *ssa.Parameter:
		k, ok := env[x]
		return k, ok
	case *ssa.Convert:
		return constFold(x.X, env, d+1)
	case *ssa.ChangeType:
		return constFold(x.X, env, d+1)
	case *ssa.BinOp:
		a, ok1 := constFold(x.X, env, d+1)
		b, ok2 := constFold(x.Y, env, d+1)
		if !ok1 || !ok2 {
			return 0, false
		}
		switch x.Op {
		case token.OR:
			return a | b, true
		case token.AND:
			return a & b, true
		case token.AND_NOT:
			return a &^ b, true
		case token.XOR:
			return a ^ b, true
		case token.ADD:
			return a + b, true
		}
	}
	return 0, false
}

type parseFlagSet struct {
	consts  map[int64]bool
	unknown []string // positions of Parse calls whose flags are not constant under the binding
	sites   int
	fam     map[*ssa.Function]bool
}

// parseFlagsFrom walks the static calls from root (module functions, 8 deep) with constant parameter binding and
// collects what reaches the flags argument of regexp/syntax.Parse.
func parseFlagsFrom(p *core.Prog, root *ssa.Function) *parseFlagSet {
	out := &parseFlagSet{consts: map[int64]bool{}, fam: map[*ssa.Function]bool{}}
	seen := map[string]bool{}
	var walk func(f *ssa.Function, env map[*ssa.Parameter]int64, d int)
	walk = func(f *ssa.Function, env map[*ssa.Parameter]int64, d int) {
		var ks []string
		for prm, k := range env {
			ks = append(ks, fmt.Sprintf("%s=%d", prm.Name(), k))
		}
		sort.Strings(ks)
		key := core.FuncName(f) + "|" + strings.Join(ks, ",")
		if seen[key] || d > 8 {
			return
		}
		seen[key] = true
		out.fam[f] = true
		for _, b := range f.Blocks {
			for _, in := range b.Instrs {
				// a module function used as a value (compile := CompilePOSIX; compile(text)) may be called through it:
				// it belongs to the family, without parameter binding
				for _, op := range in.Operands(nil) {
					if fv, ok := (*op).(*ssa.Function); ok && fv.Blocks != nil && p.InModule(ownPkg(fv)) {
						if ci, isCall := in.(ssa.CallInstruction); !isCall || ci.Common().Value != ssa.Value(fv) {
							walk(fv, map[*ssa.Parameter]int64{}, d+1)
						}
					}
				}
				c, ok := in.(ssa.CallInstruction)
				if !ok {
					continue
				}
				g := c.Common().StaticCallee()
				if g == nil {
					continue
				}
				if g.Pkg != nil && g.Pkg.Pkg.Path() == "regexp/syntax" && g.Name() == "Parse" && len(c.Common().Args) == 2 {
					out.sites++
					if k, ok := constFold(c.Common().Args[1], env, 0); ok {
						out.consts[k] = true
					} else {
						out.unknown = append(out.unknown, p.Pos(in.Pos()))
					}
					continue
				}
				if g.Blocks == nil || !p.InModule(ownPkg(g)) {
					continue
				}
				ne := map[*ssa.Parameter]int64{}
				args := c.Common().Args
				for i, prm := range g.Params {
					if i < len(args) {
						if k, ok := constFold(args[i], env, 0); ok {
							ne[prm] = k
						}
					}
				}
				walk(g, ne, d+1)
			}
		}
	}
	walk(root, map[*ssa.Parameter]int64{}, 0)
	return out
}

func init() {
	core.Register(&core.Rule{
		Name: "R-PARSEFLAGS",
		Doc: "CompilePOSIX accepts another language than Compile (no \\d, \\pL, (?i), lazy operators, \\z; ^ and $ are line anchors), so the two must hand the parser different flags: distinguishability, as in R-DISTINGUISH. The flags argument of every regexp/syntax.Parse call reached from the entry point through static calls of the module is resolved under constant parameter binding. CompilePOSIX and MustCompilePOSIX must reach a Parse call with the value of syntax.POSIX and none with syntax.Perl; Compile and MustCompile must reach one with syntax.Perl. Where a flags argument is not a constant under the binding (a configuration field), the weaker form decides: a constant of type syntax.Flags with the value of syntax.POSIX occurs in the POSIX entry point's family and not in Compile's. Both constants are read from regexp/syntax. Decoding: (*Regex).UnmarshalText reaches no Parse call with syntax.POSIX - regexp.UnmarshalText always compiles with Compile, whatever the receiver held before (seed C09-18 mirrored Copy and re-used the receiver's POSIX mode). Necessary for C09 (CompilePOSIX succeeds on exactly the patterns regexp.CompilePOSIX accepts) and C10 (POSIX expressions mean what regexp's mean).",
		Min: 4, NeedSSA: true, ThoroughArchs: []string{},
		Run: func(p *core.Prog) *core.RuleResult {
			res := &core.RuleResult{}
			sp := p.SSA.ImportedPackage("regexp/syntax")
			if sp == nil {
				res.Fatal = append(res.Fatal, "package regexp/syntax not found")
				return res
			}
			val := func(n string) (int64, bool) {
				c, ok := sp.Members[n].(*ssa.NamedConst)
				if !ok {
					return 0, false
				}
				return constant.Int64Val(c.Value.Value)
			}
			perl, ok1 := val("Perl")
			posix, ok2 := val("POSIX")
			if !ok1 || !ok2 {
				res.Fatal = append(res.Fatal, "syntax.Perl / syntax.POSIX not found")
				return res
			}
			mentionsPosix := func(fam map[*ssa.Function]bool) bool {
				for f := range fam {
					for _, b := range f.Blocks {
						for _, in := range b.Instrs {
							for _, op := range in.Operands(nil) {
								if c, ok := (*op).(*ssa.Const); ok && c.Value != nil && c.Value.Kind() == constant.Int && strings.HasSuffix(c.Type().String(), "syntax.Flags") {
									if k, ok := constant.Int64Val(c.Value); ok && k == posix {
										return true
									}
								}
							}
						}
					}
				}
				return false
			}
			var perlFam map[*ssa.Function]bool
			for _, ep := range []struct {
				name  string
				posix bool
			}{{"Compile", false}, {"MustCompile", false}, {"CompilePOSIX", true}, {"MustCompilePOSIX", true}} {
				f := p.SSAFunc(p.LookupFunc("", ep.name))
				if f == nil {
					res.Notes = append(res.Notes, "entry point "+ep.name+" not found")
					continue
				}
				fs := parseFlagsFrom(p, f)
				if ep.name == "Compile" {
					perlFam = fs.fam
				}
				var ks []string
				for k := range fs.consts {
					ks = append(ks, fmt.Sprintf("%d", k))
				}
				sort.Strings(ks)
				o := core.Obligation{Key: "R-PARSEFLAGS|coregex." + ep.name + "|parser flags of the entry point", Pos: p.Pos(f.Pos()), Nontrivial: true}
				desc := fmt.Sprintf("%d syntax.Parse call(s) reached; constant flags {%s}; non-constant at %v (syntax.Perl=%d, syntax.POSIX=%d)", fs.sites, strings.Join(ks, ","), fs.unknown, perl, posix)
				switch {
				case fs.sites == 0:
					o.Status = core.Undecided
					o.Detail = "no syntax.Parse call reached through static calls: " + desc
				case !ep.posix:
					if fs.consts[perl] || len(fs.unknown) > 0 {
						o.Status = core.Discharged
						o.Detail = desc
					} else {
						o.Status = core.Violated
						o.Detail = "the Perl entry point never parses with syntax.Perl: " + desc
					}
				case len(fs.unknown) == 0:
					if fs.consts[posix] && !fs.consts[perl] {
						o.Status = core.Discharged
						o.Detail = desc
					} else {
						o.Status = core.Violated
						o.Detail = "the POSIX entry point hands the parser the flags of Compile: every Perl extension (\\d, \\pL, (?i), x*?, \\z) is accepted and ^/$ are text anchors, regexp.CompilePOSIX rejects the former and treats the latter as line anchors: " + desc
					}
				default:
					if mentionsPosix(fs.fam) && !mentionsPosix(perlFam) {
						o.Status = core.Discharged
						o.Detail = "flags travel through memory; the constant syntax.POSIX occurs in this entry point's family and not in Compile's: " + desc
					} else {
						o.Status = core.Violated
						o.Detail = "flags travel through memory and nothing in the POSIX entry point's family tells it from Compile's (no syntax.POSIX constant of its own): " + desc
					}
				}
				res.Obligations = append(res.Obligations, o)
			}
			// decoding: regexp's UnmarshalText always compiles with Compile, whatever the receiver held before
			for _, f := range p.SrcFuncs() {
				if f.Name() != "UnmarshalText" || f.Signature.Recv() == nil || f.Pkg == nil || f.Pkg.Pkg.Path() != core.ModPath || strings.HasSuffix(p.File(f.Pos()), "_test.go") {
					continue
				}
				fs := parseFlagsFrom(p, f)
				var ks []string
				for k := range fs.consts {
					ks = append(ks, fmt.Sprintf("%d", k))
				}
				sort.Strings(ks)
				o := core.Obligation{Key: "R-PARSEFLAGS|" + core.FuncName(f) + "|decoding parses Perl syntax only", Pos: p.Pos(f.Pos()), Nontrivial: true}
				desc := fmt.Sprintf("%d syntax.Parse call(s) reached; constant flags {%s}; non-constant at %v (syntax.Perl=%d, syntax.POSIX=%d)", fs.sites, strings.Join(ks, ","), fs.unknown, perl, posix)
				switch {
				case fs.sites == 0:
					o.Status = core.Undecided
					o.Detail = "no syntax.Parse call reached through static calls: " + desc
				case fs.consts[posix]:
					o.Status = core.Violated
					o.Detail = "UnmarshalText can parse the text as POSIX ERE (it reaches a Parse call with syntax.POSIX): regexp.UnmarshalText always uses Compile, so a receiver that held a POSIX expression rejects \\d and (?i) and gives x|xy leftmost-longest meaning after decoding: " + desc
				case fs.consts[perl] || len(fs.unknown) > 0:
					o.Status = core.Discharged
					o.Detail = desc
				default:
					o.Status = core.Violated
					o.Detail = "UnmarshalText never parses with syntax.Perl: " + desc
				}
				res.Obligations = append(res.Obligations, o)
			}
			return res
		},
	})
}
