package rules

import (
	"fmt"
	"go/token"
	"strings"

	"golang.org/x/tools/go/ssa"

	"verif/internal/asm"
	"verif/internal/core"
)

func init() {
	core.Register(&core.Rule{
		Name: "R-ROOMEXIT",
		Doc: "A finder gives up for lack of room only when there is none. In the candidate finders of packages prefilter and simd (functions over a haystack that return a position), a branch that compares the room left in the haystack with a symbolic length - len(haystack) against a position plus a length quantity (the needle's length, the shortest literal, the distance from the rare byte to the needle's end) - and whose taken edge returns the constant -1 straight away must establish room < length, not room <= length: written as `len(haystack) - pos - L + k <= 0` over the linear domain (unit coefficients, L one or more symbols), k >= 1. With k = 0 the finder declines when exactly enough bytes remain, so an occurrence that ends with the haystack is never reported - the last candidate of every search, which the reverse-suffix and end-anchored strategies depend on (`.*@example\\.com` on a haystack ending in the literal). Exits that compare with constants only are not decided (the length is folded into the constant). Necessary for C16 and C18 (each primitive returns the index of its scalar definition), hence C01. Chosen independently by two seeding agents of round 8.",
		Min: 3, NeedSSA: true,
		Run: func(p *core.Prog) *core.RuleResult {
			res := &core.RuleResult{}
			kc := core.NewKeyCounter()
			for _, fn := range p.SrcFuncs() {
				pk := ownPkg(fn)
				if pk == nil || !(strings.HasSuffix(pk.Path(), "/prefilter") || strings.HasSuffix(pk.Path(), "/simd")) || strings.HasSuffix(p.File(fn.Pos()), "_test.go") {
					continue
				}
				if fn.Signature.Results().Len() == 0 || !isIntType(fn.Signature.Results().At(0).Type()) {
					continue
				}
				var hay *ssa.Parameter
				for _, prm := range fn.Params {
					if isByteSlice(prm.Type()) && hay == nil {
						hay = prm
					}
				}
				if hay == nil {
					continue
				}
				lenSym := "len:go:" + hay.Name()
				for _, b := range fn.Blocks {
					if len(b.Instrs) == 0 {
						continue
					}
					if _, ok := b.Instrs[len(b.Instrs)-1].(*ssa.If); !ok {
						continue
					}
					for _, succ := range b.Succs {
						if !givesUp(succ) {
							continue
						}
						iff := b.Instrs[len(b.Instrs)-1].(*ssa.If)
					cmp, ok := iff.Cond.(*ssa.BinOp)
					if !ok || !isIntType(cmp.X.Type()) {
						continue
					}
					// a length takes part in the comparison: len() of a slice other than the haystack, or a struct
					// field that says it is one (minLen, patternLen); distances and positions alone are not decided
					if lengthAtoms(cmp.X, hay, 0)+lengthAtoms(cmp.Y, hay, 0) == 0 {
						continue
					}
					op := cmp.Op
					if b.Succs[1] == succ {
						neg := map[token.Token]token.Token{token.LSS: token.GEQ, token.LEQ: token.GTR, token.GTR: token.LEQ, token.GEQ: token.LSS}
						var known bool
						if op, known = neg[op]; !known {
							continue
						}
					}
					// positions are kept whole (with whatever constants they were computed from): only expressions
					// built from len(haystack) or a length are taken apart
					x, y := roomLin(cmp.X, hay), roomLin(cmp.Y, hay)
					var f asm.Lin // f <= 0 holds on the edge
					switch op {
					case token.LSS:
						f = x.Plus(y, -1).Plus(asm.Const(1), 1)
					case token.LEQ:
						f = x.Plus(y, -1)
					case token.GTR:
						f = y.Plus(x, -1).Plus(asm.Const(1), 1)
					case token.GEQ:
						f = y.Plus(x, -1)
					default:
						continue
					}
					if f.Coef(lenSym) != 1 {
						continue
					}
					npos, other := 0, false
					for _, s := range f.Symbols() {
						if s == lenSym {
							continue
						}
						isPos := strings.HasPrefix(s, "pos:") || strings.HasPrefix(s, "go:")
						switch {
						case isPos && f.Coef(s) == -1:
							npos++ // a position: a computed value or a parameter (start)
						case strings.HasPrefix(s, "go:") && f.Coef(s) == 1:
							// a parameter taken off a length (needleLen - rareIdx): part of the length term
						case isPos:
							other = true
						}
					}
					if other || npos != 1 {
						continue // not of the form room-left against length
					}
					k := f.ConstPart()
						o := core.Obligation{Key: kc.Key("R-ROOMEXIT", core.FuncName(fn), "gives up only when the room left is smaller than the length"), Pos: p.Pos(cmp.Pos()), Nontrivial: true}
						if k >= 1 {
							o.Status = core.Discharged
							o.Detail = fmt.Sprintf("on the edge to 'return -1': %s <= 0, i.e. the room left is at most the length minus %d", f.String(), k)
						} else {
							o.Status = core.Violated
							o.Detail = fmt.Sprintf("on the edge to 'return -1' only %s <= 0 holds: the finder gives up when the room left EQUALS the length, so an occurrence that ends exactly at the end of the haystack is not reported", f.String())
						}
						res.Obligations = append(res.Obligations, o)
					}
				}
			}
			return res
		},
	})
}

// roomLin linearises an integer expression for R-ROOMEXIT: len(haystack) and the length quantities are symbols,
// sums and differences that contain one of them are taken apart, everything else is one opaque position.
func roomLin(v ssa.Value, hay *ssa.Parameter) asm.Lin {
	if k, ok := constInt(v); ok {
		return asm.Const(k)
	}
	has := func(x ssa.Value) bool { return lengthAtoms(x, hay, 0) > 0 || mentionsLenOf(x, hay, 0) }
	switch x := v.(type) {
	case *ssa.Convert:
		if isIntType(x.X.Type()) {
			return roomLin(x.X, hay)
		}
	case *ssa.BinOp:
		if (x.Op == token.ADD || x.Op == token.SUB) && has(x) {
			sign := int64(1)
			if x.Op == token.SUB {
				sign = -1
			}
			return roomLin(x.X, hay).Plus(roomLin(x.Y, hay), sign)
		}
	case *ssa.Call:
		if bi, ok := x.Call.Value.(*ssa.Builtin); ok && bi.Name() == "len" && len(x.Call.Args) == 1 {
			if x.Call.Args[0] == ssa.Value(hay) {
				return asm.Sym("len:go:" + hay.Name())
			}
			if lengthAtoms(x, hay, 0) > 0 {
				return asm.Sym("L:" + valueKey(x.Call.Args[0]))
			}
		}
	case *ssa.UnOp:
		if lengthAtoms(x, hay, 0) > 0 {
			return asm.Sym("L:" + x.Name())
		}
	}
	if _, isPrm := v.(*ssa.Parameter); isPrm {
		return asm.Sym("go:" + v.Name())
	}
	return asm.Sym("pos:" + v.Name())
}

func mentionsLenOf(v ssa.Value, hay *ssa.Parameter, depth int) bool {
	if v == nil || depth > 6 {
		return false
	}
	switch x := v.(type) {
	case *ssa.BinOp:
		return mentionsLenOf(x.X, hay, depth+1) || mentionsLenOf(x.Y, hay, depth+1)
	case *ssa.Convert:
		return mentionsLenOf(x.X, hay, depth+1)
	case *ssa.Call:
		if bi, ok := x.Call.Value.(*ssa.Builtin); ok && bi.Name() == "len" && len(x.Call.Args) == 1 {
			return x.Call.Args[0] == ssa.Value(hay)
		}
	}
	return false
}

// lengthAtoms counts the length quantities an integer expression is built from (through + and -).
func lengthAtoms(v ssa.Value, hay *ssa.Parameter, depth int) int {
	if v == nil || depth > 6 {
		return 0
	}
	switch x := v.(type) {
	case *ssa.BinOp:
		return lengthAtoms(x.X, hay, depth+1) + lengthAtoms(x.Y, hay, depth+1)
	case *ssa.Convert:
		return lengthAtoms(x.X, hay, depth+1)
	case *ssa.Call:
		if bi, ok := x.Call.Value.(*ssa.Builtin); ok && bi.Name() == "len" && len(x.Call.Args) == 1 {
			if a := x.Call.Args[0]; a != ssa.Value(hay) && (isByteSlice(a.Type()) || isByteSeq(a.Type())) {
				if sl, isSl := a.(*ssa.Slice); isSl && sliceRootIs(sl, hay) {
					return 0 // a window of the haystack: room, not a length
				}
				return 1
			}
		}
	case *ssa.UnOp:
		if fa, ok := x.X.(*ssa.FieldAddr); ok && isIntType(x.Type()) {
			if n := strings.ToLower(fieldNameOf(fa)); strings.HasSuffix(n, "len") {
				return 1
			}
		}
	}
	return 0
}

func sliceRootIs(sl *ssa.Slice, hay *ssa.Parameter) bool {
	v := ssa.Value(sl)
	for d := 0; d < 6; d++ {
		s2, ok := v.(*ssa.Slice)
		if !ok {
			return v == ssa.Value(hay)
		}
		v = s2.X
	}
	return false
}

// givesUp: the block does nothing but return the constant -1 as its first result.
func givesUp(b *ssa.BasicBlock) bool {
	for _, in := range b.Instrs {
		switch x := in.(type) {
		case *ssa.Return:
			if len(x.Results) == 0 {
				return false
			}
			k, ok := constInt(x.Results[0])
			return ok && k == -1
		case ssa.CallInstruction:
			return false
		case *ssa.Store:
			return false
		}
	}
	return false
}

