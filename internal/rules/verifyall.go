package rules

import (
	"fmt"
	"strings"

	"golang.org/x/tools/go/ssa"

	"verif/internal/core"
)

func init() {
	core.Register(&core.Rule{
		Name: "R-VERIFYALL",
		Doc: "Every literal of a candidate is tried. In package prefilter, a loop that verifies the literals filed under one candidate (its body compares a window of the haystack with a pattern through bytes.Equal) is left only when its list is exhausted (at the loop header) or by a return from inside: no other edge leads from the body to the code behind the loop. A `break` on the first literal that does not fit the rest of the haystack, or does not compare equal, ends the bucket there: shorter or later literals of the same bucket that do occur at the position are never compared, and since the Teddy prefilters report themselves complete nothing re-checks the position (patterns 'abcdef' and 'abc' in one bucket, haystack ending in 'abc'). Necessary for C16 (Find returns the smallest position where a literal occurs) and C01.",
		Min: 4, NeedSSA: true,
		Run: func(p *core.Prog) *core.RuleResult {
			res := &core.RuleResult{}
			kc := core.NewKeyCounter()
			for _, fn := range p.SrcFuncs() {
				pk := ownPkg(fn)
				if pk == nil || !strings.HasSuffix(pk.Path(), "/prefilter") || strings.HasSuffix(p.File(fn.Pos()), "_test.go") {
					continue
				}
				comp, cyclic := blockSCCs(fn)
				done := map[*ssa.BasicBlock]bool{}
				for _, b := range fn.Blocks {
					if !cyclic[comp[b.Index]] {
						continue
					}
					for _, in := range b.Instrs {
						c, ok := in.(*ssa.Call)
						if !ok {
							continue
						}
						cal := c.Call.StaticCallee()
						if cal == nil || cal.Pkg == nil || cal.Pkg.Pkg.Path() != "bytes" || cal.Name() != "Equal" {
							continue
						}
						h, body := innermostLoop(fn, b, comp)
						if h == nil || done[h] {
							continue
						}
						done[h] = true
						// the code behind the loop: where the header goes when the list is exhausted
						var exit *ssa.BasicBlock
						for _, s := range h.Succs {
							if !body[s] {
								exit = s
							}
						}
						o := core.Obligation{Key: kc.Key("R-VERIFYALL", core.FuncName(fn), "verification loop is left only exhausted or by a return"), Pos: p.Pos(c.Pos()), Nontrivial: true, Status: core.Discharged}
						o.Detail = "the body has no edge to the code behind the loop"
						for x := range body {
							if x == h {
								continue
							}
							for _, s := range x.Succs {
								if body[s] {
									continue
								}
								_, isRet := s.Instrs[len(s.Instrs)-1].(*ssa.Return)
								if s == exit || !isRet || len(s.Preds) > 1 {
									o.Status = core.Violated
									at := "-"
									for k := len(x.Instrs) - 1; k >= 0 && at == "-"; k-- {
										if x.Instrs[k].Pos().IsValid() {
											at = p.Pos(x.Instrs[k].Pos())
										}
									}
									o.Detail = fmt.Sprintf("the loop body leaves the loop behind %s without returning a verified literal: the remaining literals of the candidate are never compared", at)
								}
							}
						}
						res.Obligations = append(res.Obligations, o)
					}
				}
			}
			return res
		},
	})
}
