package rules

import (
	"fmt"
	"go/types"
	"sort"
	"strings"

	"golang.org/x/tools/go/ssa"

	"verif/internal/core"
)

// dependsOnIntParam: v is computed from an int parameter of fn (through arithmetic, conversions, phis).
func dependsOnIntParam(v ssa.Value, seen map[ssa.Value]bool, d int) bool {
	if v == nil || d > 8 || seen[v] {
		return false
	}
	seen[v] = true
	switch x := v.(type) {
	case *ssa.Parameter:
		return isIntType(x.Type())
	case *ssa.BinOp:
		return dependsOnIntParam(x.X, seen, d+1) || dependsOnIntParam(x.Y, seen, d+1)
	case *ssa.Convert:
		return dependsOnIntParam(x.X, seen, d+1)
	case *ssa.Phi:
		for _, e := range x.Edges {
			if dependsOnIntParam(e, seen, d+1) {
				return true
			}
		}
	}
	return false
}

type hbField struct {
	owner string
	name  string
}

func hbFieldOf(fa *ssa.FieldAddr) hbField {
	t := fa.X.Type()
	if pt, ok := t.Underlying().(*types.Pointer); ok {
		t = pt.Elem()
	}
	return hbField{types.TypeString(t, nil), fieldNameOf(fa)}
}

// sliceFieldOf: v is a load of a slice field (possibly re-sliced): returns the field.
func sliceFieldOf(v ssa.Value) (hbField, bool) {
	for d := 0; d < 4; d++ {
		switch x := v.(type) {
		case *ssa.Slice:
			v = x.X
			continue
		case *ssa.UnOp:
			if fa, ok := x.X.(*ssa.FieldAddr); ok {
				return hbFieldOf(fa), true
			}
		}
		break
	}
	return hbField{}, false
}

func init() {
	core.Register(&core.Rule{
		Name: "R-HANDBACK",
		Doc: "Handing the per-search state back costs nothing that grows with earlier haystacks. Input-sized tables are found structurally: a slice field of a module struct into which some function stores a make([]T, n) whose n is computed from an int parameter of that function, on an object the function was handed (re-dimensioned per search, not sized once by a constructor: the bounded backtracker's visited table, dimensioned states x haystack length by reset). The hand-back path is (*meta.SearchState).reset - called by putSearchState for every search - and the module functions it calls. On that path no loop stores into the elements of an input-sized table and no clear() is applied to one: such a fill runs over the table's capacity, which is that of the longest haystack the state ever served, so every later search - however short - pays for it (seed C05-16: 2000 Match calls on 4 bytes take 492 ms after one 768 KB search, 109 us before). The work of one search is then not bounded by its own haystack (C05), and it depends on what the Regex was used for before (C13).",
		Min: 1, NeedSSA: true,
		Run: func(p *core.Prog) *core.RuleResult {
			res := &core.RuleResult{}
			// input-sized fields
			sized := map[hbField]string{}
			for _, fn := range p.SrcFuncs() {
				if strings.HasSuffix(p.File(fn.Pos()), "_test.go") || !p.InModule(ownPkg(fn)) {
					continue
				}
				for _, b := range fn.Blocks {
					for _, in := range b.Instrs {
						st, ok := in.(*ssa.Store)
						if !ok {
							continue
						}
						fa, ok := st.Addr.(*ssa.FieldAddr)
						if !ok {
							continue
						}
						mk, ok := st.Val.(*ssa.MakeSlice)
						if !ok || !dependsOnIntParam(mk.Len, map[ssa.Value]bool{}, 0) {
							continue
						}
						// re-dimensioned on an existing object (a parameter), not dimensioned once by its constructor
						if _, isParam := fa.X.(*ssa.Parameter); !isParam {
							continue
						}
						sized[hbFieldOf(fa)] = core.FuncName(fn)
					}
				}
			}
			var names []string
			for k, f := range sized {
				names = append(names, k.owner+"."+k.name+" (dimensioned by "+f+")")
			}
			sort.Strings(names)
			res.Notes = append(res.Notes, "input-sized tables (computed): "+strings.Join(names, ", "))
			var root *ssa.Function
			for _, fn := range p.SrcFuncs() {
				if fn.Name() == "reset" && fn.Signature.Recv() != nil && strings.HasSuffix(fn.Signature.Recv().Type().String(), "meta.SearchState") {
					root = fn
				}
			}
			if root == nil {
				res.Notes = append(res.Notes, "(*meta.SearchState).reset not found under that name: no hand-back path to examine")
				return res
			}
			fam := map[*ssa.Function]bool{}
			var walk func(f *ssa.Function, d int)
			walk = func(f *ssa.Function, d int) {
				if fam[f] || d > 4 || len(f.Blocks) == 0 || !p.InModule(ownPkg(f)) {
					return
				}
				fam[f] = true
				for _, b := range f.Blocks {
					for _, in := range b.Instrs {
						if c, ok := in.(ssa.CallInstruction); ok {
							if g := c.Common().StaticCallee(); g != nil {
								walk(g, d+1)
							}
						}
					}
				}
			}
			walk(root, 0)
			var fns []*ssa.Function
			for f := range fam {
				fns = append(fns, f)
			}
			sort.Slice(fns, func(i, j int) bool { return core.FuncName(fns[i]) < core.FuncName(fns[j]) })
			for _, f := range fns {
				comp, cyclic := blockSCCs(f)
				o := core.Obligation{Key: "R-HANDBACK|" + core.FuncName(f) + "|no fill of an input-sized table on the hand-back path", Pos: p.Pos(f.Pos()), Nontrivial: true, Status: core.Discharged}
				o.Detail = fmt.Sprintf("no loop store into, and no clear() of, any of the %d input-sized tables", len(sized))
				for _, b := range f.Blocks {
					for _, in := range b.Instrs {
						switch x := in.(type) {
						case *ssa.Store:
							ia, ok := x.Addr.(*ssa.IndexAddr)
							if !ok || !cyclic[comp[b.Index]] {
								continue
							}
							if k, ok := sliceFieldOf(ia.X); ok && sized[k] != "" {
								o.Status = core.Violated
								o.Pos = p.Pos(x.Pos())
								o.Detail = "a loop on the hand-back path stores into the elements of " + k.owner + "." + k.name + ", which " + sized[k] + " dimensions by the haystack length: the fill runs over what the longest earlier haystack left behind, on every hand-back"
							}
						case *ssa.Call:
							if bi, ok := x.Call.Value.(*ssa.Builtin); ok && bi.Name() == "clear" && len(x.Call.Args) == 1 {
								if k, ok := sliceFieldOf(x.Call.Args[0]); ok && sized[k] != "" {
									o.Status = core.Violated
									o.Pos = p.Pos(x.Pos())
									o.Detail = "clear() of " + k.owner + "." + k.name + " on the hand-back path: the table is dimensioned by the haystack length (" + sized[k] + ")"
								}
							}
						}
					}
				}
				res.Obligations = append(res.Obligations, o)
			}
			return res
		},
	})
}
