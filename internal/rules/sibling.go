package rules

import (
	"fmt"
	"go/types"
	"sort"
	"strings"

	"golang.org/x/tools/go/ssa"

	"verif/internal/core"
)

// siblingBase strips the position/state suffixes of the per-strategy helper variants.
func siblingBase(name string) string {
	for _, suf := range []string{"AtWithState", "WithState", "At"} {
		if strings.HasSuffix(name, suf) && len(name) > len(suf) {
			return strings.TrimSuffix(name, suf)
		}
	}
	return name
}

// siblingExempt: (family, field) pairs where a variant legitimately does not read the flag, with the reason.
var siblingExempt = map[string]string{
	"enumeration loops|isStartAnchored": "only findAllIndicesLoop sizes a result buffer (at most one match for a start-anchored pattern); Count has none",
	"strategy NFA|prefilterPartialCoverage": "since fix 1a675b8 a partial-coverage literal set never builds e.prefilter (R-GATE), so the test the span views still carry is redundant",
	"strategy NFA|canMatchEmpty":            "the span views avoid the bounded backtracker for patterns that can match empty because its greedy semantics pick a different empty-match POSITION; whether a match exists is not affected, so isMatchNFA may use it",
	"findIndicesDFA|prefilterPartialCoverage": "since fix 1a675b8 a partial-coverage literal set never builds e.prefilter (enforced by R-GATE at construction), so the flag test that only findIndicesDFA still carries is redundant, not a missing guard in its siblings",
}

// crossAPIExempt: flags that concern spans only, so the boolean view of a strategy need not read them.
var crossAPIExempt = map[string]string{
	"longest": "whether a match exists does not depend on the leftmost-first / leftmost-longest mode",
}

func init() {
	core.Register(&core.Rule{
		Name: "R-SIBLING",
		Doc: "Sibling agreement on guard flags: the variants of one per-strategy helper of the meta engine (X, XAt, XAtWithState: the same algorithm at offset 0, at an offset, and with caller-provided state) must consult the same boolean fields of the Engine (match-mode, partial-coverage, run-skip-safety, can-match-empty ... flags). A flag that guards an operation in one variant and is not even read in another is a one-sided check: the unguarded variant performs the operation for patterns/modes where it is unsound, so FindAll/Count (which use the At/WithState variants) disagree with Find/Match. The same holds across the API views of one strategy: a safety flag that every span view findIndices<X>[At][WithState] consults must be consulted by the boolean view isMatch<X> too (mode flags that concern spans only are exempt by name). The enumeration loops behind FindAll* and Count (findAllIndicesLoop, Count) are compared the same way: a flag that decides in one of them whether an empty match next to the previous match is dropped, and is not read by the other, makes Count disagree with len(FindAll). Necessary for C11 (all views agree), C04 and C12 (configuration-independence).",
		Min: 20, NeedSSA: true,
		Run: func(p *core.Prog) *core.RuleResult {
			res := &core.RuleResult{}
			eng := p.LookupType("meta", "Engine")
			if eng == nil {
				res.Fatal = append(res.Fatal, "meta.Engine not found")
				return res
			}
			st := eng.Underlying().(*types.Struct)
			boolField := map[int]string{}
			for i := 0; i < st.NumFields(); i++ {
				if types.Identical(st.Field(i).Type().Underlying(), types.Typ[types.Bool]) {
					boolField[i] = st.Field(i).Name()
				}
			}
			fams := map[string][]*ssa.Function{}
			for _, fn := range p.SrcFuncs() {
				if fn.Signature.Recv() == nil || namedOfType(fn.Signature.Recv().Type()) != eng || fn.Parent() != nil {
					continue
				}
				if strings.HasSuffix(p.File(fn.Pos()), "_test.go") {
					continue
				}
				b := siblingBase(fn.Name())
				fams[b] = append(fams[b], fn)
			}
			// the enumeration loops behind FindAll* and Count are one algorithm written twice
			for _, fn := range p.SrcFuncs() {
				if fn.Signature.Recv() == nil || namedOfType(fn.Signature.Recv().Type()) != eng || fn.Parent() != nil || strings.HasSuffix(p.File(fn.Pos()), "_test.go") {
					continue
				}
				if fn.Name() == "Count" || fn.Name() == "findAllIndicesLoop" {
					fams["enumeration loops"] = append(fams["enumeration loops"], fn)
				}
			}
			var bases []string
			for b, ms := range fams {
				if len(ms) >= 2 {
					bases = append(bases, b)
				}
			}
			sort.Strings(bases)
			reads := func(fn *ssa.Function) map[string]bool {
				out := map[string]bool{}
				if len(fn.Params) == 0 {
					return out
				}
				recv := fn.Params[0]
				for _, b := range fn.Blocks {
					for _, in := range b.Instrs {
						if fa, ok := in.(*ssa.FieldAddr); ok && fa.X == ssa.Value(recv) {
							if nm, ok := boolField[fa.Field]; ok {
								out[nm] = true
							}
						}
					}
				}
				return out
			}
			for _, base := range bases {
				ms := fams[base]
				sort.Slice(ms, func(i, j int) bool { return ms[i].Name() < ms[j].Name() })
				all := map[string]bool{}
				per := map[*ssa.Function]map[string]bool{}
				inFam := map[*ssa.Function]bool{}
				for _, m := range ms {
					inFam[m] = true
					per[m] = reads(m)
				}
				// a variant that hands the work to a sibling on its own receiver (XAt = XAtWithState(h, at, nil))
				// consults what the sibling consults: reads are inherited along such calls, to a fixpoint
				for changed := true; changed; {
					changed = false
					for _, m := range ms {
						for _, b := range m.Blocks {
							for _, in := range b.Instrs {
								c, ok := in.(ssa.CallInstruction)
								if !ok {
									continue
								}
								g := c.Common().StaticCallee()
								if g == nil || g == m || !inFam[g] || len(c.Common().Args) == 0 || len(m.Params) == 0 || c.Common().Args[0] != ssa.Value(m.Params[0]) {
									continue
								}
								for f := range per[g] {
									if !per[m][f] {
										per[m][f] = true
										changed = true
									}
								}
							}
						}
					}
				}
				for _, m := range ms {
					for f := range per[m] {
						all[f] = true
					}
				}
				var flags []string
				for f := range all {
					flags = append(flags, f)
				}
				sort.Strings(flags)
				if len(flags) == 0 {
					res.Obligations = append(res.Obligations, core.Obligation{Key: "R-SIBLING|" + base + "|no guard flags", Pos: p.Pos(ms[0].Pos()), Status: core.Discharged, Detail: fmt.Sprintf("%d variants, none reads a boolean engine flag", len(ms))})
					continue
				}
				for _, f := range flags {
					var with, without []string
					for _, m := range ms {
						if per[m][f] {
							with = append(with, m.Name())
						} else {
							without = append(without, m.Name())
						}
					}
					o := core.Obligation{Key: "R-SIBLING|" + base + "|flag " + f, Pos: p.Pos(ms[0].Pos()), Nontrivial: true}
					switch {
					case len(without) == 0:
						o.Status = core.Discharged
						o.Detail = fmt.Sprintf("all %d variants read e.%s", len(ms), f)
					case siblingExempt[base+"|"+f] != "":
						o.Status = core.Discharged
						o.Detail = "exempt: " + siblingExempt[base+"|"+f]
					default:
						o.Status = core.Violated
						o.Detail = fmt.Sprintf("e.%s is consulted by %v but not by %v: the unguarded variant runs the guarded operation unconditionally (or skips a mode check), so it can disagree with its siblings", f, with, without)
					}
					res.Obligations = append(res.Obligations, o)
				}
			}
			// cross-API agreement: the boolean view (isMatch<X>) of a strategy skips candidates under the same safety flags
			// as its zero-allocation span twins (findIndices<X>, ...At, ...AtWithState; the Match-returning find<X> helpers are an older, separate implementation and are not compared). Only flags that the isMatch variant or ALL span variants read are
			// compared (mode flags such as longest concern spans only and are exempted by name below).
			strat := map[string]map[string][]*ssa.Function{} // X -> api -> functions
			for _, ms := range fams {
				for _, m := range ms {
					name := siblingBase(m.Name())
					for _, pre := range []string{"isMatch", "findIndices"} {
						if strings.HasPrefix(name, pre) && len(name) > len(pre) {
							x := strings.TrimPrefix(name, pre)
							if strat[x] == nil {
								strat[x] = map[string][]*ssa.Function{}
							}
							api := "span"
							if pre == "isMatch" {
								api = "bool"
							}
							strat[x][api] = append(strat[x][api], m)
							break
						}
					}
				}
			}
			var xs []string
			for x, m := range strat {
				if len(m["bool"]) > 0 && len(m["span"]) > 0 {
					xs = append(xs, x)
				}
			}
			sort.Strings(xs)
			for _, x := range xs {
				boolReads := map[string]bool{}
				for _, m := range strat[x]["bool"] {
					for f := range reads(m) {
						boolReads[f] = true
					}
				}
				// flags read by every span variant that reads any flag at all
				spanAll := map[string]int{}
				nspan := 0
				for _, m := range strat[x]["span"] {
					r := reads(m)
					if len(r) == 0 {
						continue
					}
					nspan++
					for f := range r {
						spanAll[f]++
					}
				}
				var flags []string
				for f, n := range spanAll {
					if n == nspan && nspan > 0 {
						flags = append(flags, f)
					}
				}
				sort.Strings(flags)
				for _, f := range flags {
					o := core.Obligation{Key: "R-SIBLING|strategy " + x + "|isMatch reads flag " + f, Pos: p.Pos(strat[x]["bool"][0].Pos()), Nontrivial: true}
					switch {
					case boolReads[f]:
						o.Status = core.Discharged
						o.Detail = "the boolean view consults e." + f + " like every span view of the strategy"
					case crossAPIExempt[f] != "":
						o.Status = core.Discharged
						o.Detail = "exempt: " + crossAPIExempt[f]
					case siblingExempt["strategy "+x+"|"+f] != "":
						o.Status = core.Discharged
						o.Detail = "exempt: " + siblingExempt["strategy "+x+"|"+f]
					default:
						o.Status = core.Violated
						o.Detail = fmt.Sprintf("every span view of strategy %s consults e.%s but isMatch%s does not: Match can skip candidates (or take a shortcut) that Find does not, so Match and FindIndex disagree", x, f, x)
					}
					res.Obligations = append(res.Obligations, o)
				}
			}
			res.Notes = append(res.Notes, fmt.Sprintf("sibling families of (*meta.Engine) helpers: %d; strategies with boolean and span views: %d", len(bases), len(xs)))
			return res
		},
	})
}
