package rules

import (
	"fmt"
	"go/token"
	"go/types"
	"strings"

	"golang.org/x/tools/go/ssa"

	"verif/internal/asm"
	"verif/internal/core"
)

const (
	swarLo = 0x0101010101010101
	swarHi = 0x8080808080808080
)

func constU64(v ssa.Value) (uint64, bool) {
	c, ok := v.(*ssa.Const)
	if !ok || c.Value == nil {
		return 0, false
	}
	if b, ok := c.Type().Underlying().(*types.Basic); !ok || b.Info()&types.IsInteger == 0 {
		return 0, false
	}
	return c.Uint64(), true
}

// swarKind classifies a uint64 value as a zero-byte marker mask.
//
//	0: not a mask
//	1: exact-lowest: the lowest marker bit is genuine (one haszero computation, or an OR of such)
//	2: inexact: an AND of several haszero masks, or a mask with bits cleared - its lowest marker
//	   bit may be a borrow artefact of one component
//
// n is the number of haszero components ANDed together (the bytes a candidate must be verified against).
func swarKind(v ssa.Value, seen map[ssa.Value]bool) (kind, n int) {
	if seen[v] {
		return 0, 0
	}
	seen[v] = true
	defer delete(seen, v)
	switch x := v.(type) {
	case *ssa.BinOp:
		switch x.Op {
		case token.AND:
			if isZeroByteDetector(x) {
				return 1, 1
			}
			k1, n1 := swarKind(x.X, seen)
			k2, n2 := swarKind(x.Y, seen)
			if k1 != 0 && k2 != 0 {
				return 2, n1 + n2
			}
		case token.OR:
			k1, n1 := swarKind(x.X, seen)
			k2, n2 := swarKind(x.Y, seen)
			if k1 == 0 || k2 == 0 {
				return 0, 0
			}
			if k1 == 1 && k2 == 1 {
				return 1, 1
			}
			if n2 > n1 {
				n1 = n2
			}
			return 2, n1
		case token.AND_NOT:
			k, m := swarKind(x.X, seen)
			if k != 0 {
				return 2, m
			}
		}
	case *ssa.Phi:
		kind, n = 0, 0
		for _, e := range x.Edges {
			if e == ssa.Value(x) {
				continue
			}
			k, m := swarKind(e, seen)
			if k == 0 {
				// the loop-carried edge refers back to the phi
				if b, ok := e.(*ssa.BinOp); ok && (b.Op == token.AND_NOT || b.Op == token.AND) && b.X == ssa.Value(x) {
					kind = 2
					continue
				}
				return 0, 0
			}
			if k > kind {
				kind = k
			}
			if m > n {
				n = m
			}
		}
		return kind, n
	}
	return 0, 0
}

// isZeroByteDetector: ((w - 0x01..01) & ^w) & 0x80..80 with the operands of each AND in any order.
func isZeroByteDetector(b *ssa.BinOp) bool {
	if b.Op != token.AND {
		return false
	}
	var inner ssa.Value
	if c, ok := constU64(b.Y); ok && c == swarHi {
		inner = b.X
	} else if c, ok := constU64(b.X); ok && c == swarHi {
		inner = b.Y
	} else {
		return false
	}
	ib, ok := inner.(*ssa.BinOp)
	if !ok || ib.Op != token.AND {
		return false
	}
	match := func(sub, not ssa.Value) bool {
		sb, ok := sub.(*ssa.BinOp)
		if !ok || sb.Op != token.SUB {
			return false
		}
		if c, ok := constU64(sb.Y); !ok || c != swarLo {
			return false
		}
		nu, ok := not.(*ssa.UnOp)
		return ok && nu.Op == token.XOR && nu.X == sb.X
	}
	return match(ib.X, ib.Y) || match(ib.Y, ib.X)
}

// detectorWords: the words w of the zero-byte detectors ((w - lo) & ^w & hi) that make up mask v.
func detectorWords(v ssa.Value, seen map[ssa.Value]bool, out *[]ssa.Value) {
	if v == nil || seen[v] {
		return
	}
	seen[v] = true
	switch x := v.(type) {
	case *ssa.BinOp:
		if isZeroByteDetector(x) {
			inner := x.X
			if c, ok := constU64(x.X); ok && c == swarHi {
				inner = x.Y
			}
			ib := inner.(*ssa.BinOp)
			for _, side := range []ssa.Value{ib.X, ib.Y} {
				if sb, ok := side.(*ssa.BinOp); ok && sb.Op == token.SUB {
					*out = append(*out, sb.X)
				}
			}
			return
		}
		detectorWords(x.X, seen, out)
		detectorWords(x.Y, seen, out)
	case *ssa.Phi:
		for _, e := range x.Edges {
			detectorWords(e, seen, out)
		}
	}
}

// foreignWordSource: the word examined by a detector is assembled by something other than a plain 8-byte load
// of the haystack (encoding/binary's Uint64 on a slice) combined with constants and needle masks: the first
// call found in its expression that is not such a load.
func foreignWordSource(w ssa.Value, seen map[ssa.Value]bool) *ssa.Call {
	if w == nil || seen[w] {
		return nil
	}
	seen[w] = true
	switch x := w.(type) {
	case *ssa.BinOp:
		if c := foreignWordSource(x.X, seen); c != nil {
			return c
		}
		return foreignWordSource(x.Y, seen)
	case *ssa.UnOp:
		return foreignWordSource(x.X, seen)
	case *ssa.Convert:
		return foreignWordSource(x.X, seen)
	case *ssa.Phi:
		for _, e := range x.Edges {
			if c := foreignWordSource(e, seen); c != nil {
				return c
			}
		}
	case *ssa.Call:
		if x.Call.IsInvoke() {
			return x
		}
		cal := x.Call.StaticCallee()
		if cal != nil && cal.Pkg != nil && cal.Pkg.Pkg.Path() == "encoding/binary" && strings.HasPrefix(cal.Name(), "Uint") {
			return nil
		}
		return x
	}
	return nil
}

// wordLoadOffset: the low bound of the haystack slice a detector's word was loaded from (h[low:] handed to
// encoding/binary's Uint64); ok=false if the word has no single such load.
func wordLoadOffset(w ssa.Value, seen map[ssa.Value]bool) (low ssa.Value, zero bool, ok bool) {
	if w == nil || seen[w] {
		return nil, false, false
	}
	seen[w] = true
	switch x := w.(type) {
	case *ssa.BinOp:
		if l, z, k := wordLoadOffset(x.X, seen); k {
			return l, z, true
		}
		return wordLoadOffset(x.Y, seen)
	case *ssa.UnOp:
		return wordLoadOffset(x.X, seen)
	case *ssa.Convert:
		return wordLoadOffset(x.X, seen)
	case *ssa.Call:
		cal := x.Call.StaticCallee()
		if cal == nil || cal.Pkg == nil || cal.Pkg.Pkg.Path() != "encoding/binary" {
			return nil, false, false
		}
		for _, a := range x.Call.Args {
			if !isByteSlice(a.Type()) {
				continue
			}
			if sl, isSl := a.(*ssa.Slice); isSl {
				if sl.Low == nil {
					return nil, true, true
				}
				return sl.Low, false, true
			}
			return nil, true, true
		}
	}
	return nil, false, false
}

// swarOffsetMismatch: for an exact mask, every returned position that depends on the trailing-zero count is
// (offset the word was loaded from) + count/8. Returns a description of the first return for which the linear
// form of the result differs from that.
func swarOffsetMismatch(fn *ssa.Function, tz *ssa.Call, words []ssa.Value) string {
	nonneg := map[string]bool{}
	var base asm.Lin
	have := false
	for _, w := range words {
		low, zero, ok := wordLoadOffset(w, map[ssa.Value]bool{})
		if !ok {
			return ""
		}
		l := asm.Const(0)
		if !zero {
			l = ssaLin(low, nonneg, 0)
		}
		if have && l.Plus(base, -1).String() != asm.Const(0).String() {
			return "" // words of different loads: not this clause's business
		}
		base, have = l, true
	}
	if !have {
		return ""
	}
	// the count/8 value
	var quo ssa.Value
	if tz.Referrers() != nil {
		for _, r := range *tz.Referrers() {
			if bo, ok := r.(*ssa.BinOp); ok && (bo.Op == token.QUO || bo.Op == token.SHR) && bo.X == ssa.Value(tz) {
				quo = bo
			}
		}
	}
	if quo == nil {
		return ""
	}
	for _, b := range fn.Blocks {
		for _, in := range b.Instrs {
			ret, ok := in.(*ssa.Return)
			if !ok {
				continue
			}
			for _, r := range ret.Results {
				if !isIntType(r.Type()) || !swarDependsOn(r, tz, map[ssa.Value]bool{}) {
					continue
				}
				if _, isPhi := r.(*ssa.Phi); isPhi {
					continue
				}
				diff := ssaLin(r, nonneg, 0).Plus(base, -1).Plus(ssaLin(quo, nonneg, 0), -1)
				if diff.String() != asm.Const(0).String() {
					return fmt.Sprintf("the word was loaded at offset %s, but the position returned for a marker in it is off by %s: a hit in this word is reported at another word's offset and the real first occurrence is skipped", base.String(), diff.String())
				}
			}
		}
	}
	return ""
}

func flattenAnd(b *ssa.BinOp) []ssa.Value {
	var out []ssa.Value
	var walk func(v ssa.Value)
	walk = func(v ssa.Value) {
		if x, ok := v.(*ssa.BinOp); ok && x.Op == token.AND {
			walk(x.X)
			walk(x.Y)
			return
		}
		out = append(out, v)
	}
	walk(b)
	return out
}

// dependsOn: v is data-dependent on src (through arithmetic, conversions, phis).
func swarDependsOn(v, src ssa.Value, seen map[ssa.Value]bool) bool {
	if v == src {
		return true
	}
	if seen[v] {
		return false
	}
	seen[v] = true
	switch x := v.(type) {
	case *ssa.BinOp:
		return swarDependsOn(x.X, src, seen) || swarDependsOn(x.Y, src, seen)
	case *ssa.UnOp:
		return swarDependsOn(x.X, src, seen)
	case *ssa.Convert:
		return swarDependsOn(x.X, src, seen)
	case *ssa.Phi:
		for _, e := range x.Edges {
			if swarDependsOn(e, src, seen) {
				return true
			}
		}
	case *ssa.IndexAddr:
		return swarDependsOn(x.Index, src, seen)
	}
	return false
}

func init() {
	core.Register(&core.Rule{
		Name: "R-SWAR",
		Doc: "Word-at-a-time (SWAR) scans report only genuine positions and skip none. The zero-byte detector (w-0x01..01) & ^w & 0x80..80 can set spurious marker bits, but only above a genuine one, so the lowest marker of one detector - and of an OR of detectors - is exact. The lowest marker of an AND of detectors (byte pair search: byte1 at i and byte2 at i+offset) may be an artefact of one component, and so may any marker that remains after the lowest was cleared. For every bits.TrailingZeros64 applied to a marker mask in package simd: (a) if the mask is exact-lowest the position may be returned as is; (b) if it is inexact, every return that depends on the position is dominated by one byte comparison per ANDed detector between the haystack at that position and a needle; and (c) the mask is iterated - it is a loop-carried value reduced by clearing the examined marker - so a failed verification moves on to the next marker of the same word instead of skipping the rest of it. Necessary for C18 (the generic fallbacks equal their scalar definitions) and C16 (the rare-byte pair search behind Memmem never skips an occurrence). (d) The word a detector examines is a plain 8-byte load of the haystack (encoding/binary Uint64) combined with constants and needle masks; a word assembled by a helper (zero-padded tail) contains bytes that are not haystack bytes. (e) For an exact mask the returned position equals (offset the word was loaded from) + count/8 in the linear domain: in an unrolled loop a hit in the word loaded at idx+16 must not be reported at idx+24. A position taken from a word of any other construction is undecided (a per-byte addition on a packed word carries between bytes). Four seeding agents removed or weakened the verification, one introduced an unmasked range test.",
		Min: 4, NeedSSA: true,
		Run: func(p *core.Prog) *core.RuleResult {
			res := &core.RuleResult{}
			kc := core.NewKeyCounter()
			pk := p.SSAPkg("simd")
			if pk == nil {
				res.Fatal = append(res.Fatal, "package simd not found")
				return res
			}
			for _, fn := range p.SrcFuncs() {
				if fn.Pkg != pk || strings.HasSuffix(p.File(fn.Pos()), "_test.go") {
					continue
				}
				for _, b := range fn.Blocks {
					for _, in := range b.Instrs {
						call, ok := in.(*ssa.Call)
						if !ok {
							continue
						}
						cal := call.Call.StaticCallee()
						if cal == nil || cal.Pkg == nil || cal.Pkg.Pkg.Path() != "math/bits" || !strings.HasPrefix(cal.Name(), "TrailingZeros") || len(call.Call.Args) != 1 {
							continue
						}
						m := call.Call.Args[0]
						kind, n := swarKind(m, map[ssa.Value]bool{})
						if kind == 0 {
							// a mask of a form the rule does not know: if a returned position depends on it, its
							// exactness is undecided - byte-wise additions without masking the high bits carry
							// into the neighbouring byte (digit test: a byte >= 0x80 in front of '9' hides it)
							dep := false
							for _, rb := range fn.Blocks {
								for _, rin := range rb.Instrs {
									if ret, ok := rin.(*ssa.Return); ok {
										for _, r := range ret.Results {
											if swarDependsOn(r, call, map[ssa.Value]bool{}) {
												dep = true
											}
										}
									}
								}
							}
							if dep {
								res.Obligations = append(res.Obligations, core.Obligation{Key: kc.Key("R-SWAR", core.FuncName(fn), "position from marker mask"), Pos: p.Pos(call.Pos()), Nontrivial: true, Status: core.Undecided,
									Detail: "a returned position is computed from the trailing zeros of a word that is not built from the zero-byte detector (w-0x01..01) & ^w & 0x80..80: whether its lowest set bit marks a genuine byte cannot be decided (per-byte arithmetic on a packed word carries between bytes unless the high bits are masked first)"})
							}
							continue
						}
						o := core.Obligation{Key: kc.Key("R-SWAR", core.FuncName(fn), "position from marker mask"), Pos: p.Pos(call.Pos()), Nontrivial: true}
						// (d) the examined word consists of haystack bytes only
						var words []ssa.Value
						detectorWords(m, map[ssa.Value]bool{}, &words)
						foreign := ""
						for _, w := range words {
							if c := foreignWordSource(w, map[ssa.Value]bool{}); c != nil {
								foreign = p.Pos(c.Pos())
							}
						}
						if foreign != "" {
							o.Status = core.Undecided
							o.Detail = "the word the detector examines is not a plain 8-byte load of the haystack (call at " + foreign + "): bytes that are not haystack bytes - padding of a partial word - can match a needle (0x00 matches zero padding) and the reported position lies outside the haystack"
							res.Obligations = append(res.Obligations, o)
							continue
						}
						if kind == 1 {
							o.Status = core.Discharged
							o.Detail = "the mask is one zero-byte detector or an OR of detectors: its lowest marker is exact"
							// (e) the position is reported relative to where the examined word was loaded from
							if why := swarOffsetMismatch(fn, call, words); why != "" {
								o.Status = core.Violated
								o.Detail = why
							}
							res.Obligations = append(res.Obligations, o)
							continue
						}
						// (c) iterated mask
						iterated := false
						if ph, ok := m.(*ssa.Phi); ok {
							for _, e := range ph.Edges {
								if bo, ok := e.(*ssa.BinOp); ok && bo.Op == token.AND_NOT && bo.X == ssa.Value(ph) {
									iterated = true
								}
							}
						}
						// (b) returns depending on the position are dominated by n byte comparisons at the position
						bad := ""
						rets := 0
						for _, rb := range fn.Blocks {
							for _, rin := range rb.Instrs {
								ret, ok := rin.(*ssa.Return)
								if !ok {
									continue
								}
								dep := false
								for _, r := range ret.Results {
									if swarDependsOn(r, call, map[ssa.Value]bool{}) {
										dep = true
									}
								}
								if !dep {
									continue
								}
								rets++
								cmps := 0
								for d := rb; d != nil; d = d.Idom() {
									id := d.Idom()
									if id == nil || len(id.Instrs) == 0 {
										continue
									}
									iff, ok := id.Instrs[len(id.Instrs)-1].(*ssa.If)
									if !ok || id.Succs[0] != d || len(d.Preds) != 1 {
										continue
									}
									bo, ok := iff.Cond.(*ssa.BinOp)
									if !ok || bo.Op != token.EQL {
										continue
									}
									for _, side := range []ssa.Value{bo.X, bo.Y} {
										ld, ok := side.(*ssa.UnOp)
										if !ok || ld.Op != token.MUL {
											continue
										}
										ia, ok := ld.X.(*ssa.IndexAddr)
										if !ok || !isByteSeq(ia.X.Type()) {
											continue
										}
										if swarDependsOn(ia.Index, call, map[ssa.Value]bool{}) {
											cmps++
										}
									}
								}
								if cmps < n {
									bad = fmt.Sprintf("the return at %s is dominated by %d byte comparison(s) at the reported position, %d needed (one per ANDed detector)", p.Pos(ret.Pos()), cmps, n)
								}
							}
						}
						switch {
						case bad != "":
							o.Status = core.Violated
							o.Detail = "the mask is an AND of " + fmt.Sprint(n) + " zero-byte detectors (or has had markers cleared): its lowest marker may be a borrow artefact; " + bad
						case !iterated:
							o.Status = core.Violated
							o.Detail = "the mask is inexact and is not iterated (no loop-carried mask reduced by clearing the examined marker): when the first candidate fails verification the remaining markers of the word are skipped"
						default:
							o.Status = core.Discharged
							o.Detail = fmt.Sprintf("inexact mask (%d detectors): %d dependent return(s) verified byte-wise; mask iterated marker by marker", n, rets)
						}
						res.Obligations = append(res.Obligations, o)
					}
				}
			}
			return res
		},
	})
}
