package rules

import (
	"go/token"
	"go/types"
	"strings"

	"golang.org/x/tools/go/ssa"

	"verif/internal/core"
)

func init() {
	core.Register(&core.Rule{
		Name: "R-DSTFRESH",
		Doc: "A caller's result buffer is replaced only when there is none. In packages meta and the root package, a function that takes a slice parameter of the type it returns (a results buffer: findAllIndicesLoop(haystack, n, results) [][2]int, the Append* family) allocates a fresh slice of that type for the returned value only under the test 'parameter == nil' (the allocation is dominated by the true edge of that comparison). The documented contract is zero allocation into a sufficient buffer; a size heuristic over the haystack ('cap(results) < len(haystack)/100') judges sufficiency by the wrong quantity, allocates although the buffer would have held every match, and returns another backing array than the caller's (C20; AppendAllIndex with a 64-slot buffer and 3 matches in 8 KB: 1 alloc/op).",
		Min: 1, NeedSSA: true,
		Run: func(p *core.Prog) *core.RuleResult {
			res := &core.RuleResult{}
			kc := core.NewKeyCounter()
			for _, fn := range p.SrcFuncs() {
				if strings.HasSuffix(p.File(fn.Pos()), "_test.go") || fn.Blocks == nil {
					continue
				}
				pk := ownPkg(fn)
				if pk == nil || !(strings.HasSuffix(pk.Path(), "/meta") || pk.Path() == core.ModPath) {
					continue
				}
				rs := fn.Signature.Results()
				for _, prm := range fn.Params {
					if _, ok := prm.Type().Underlying().(*types.Slice); !ok || isByteSlice(prm.Type()) {
						continue
					}
					same := false
					for i := 0; i < rs.Len(); i++ {
						if types.Identical(rs.At(i).Type(), prm.Type()) {
							same = true
						}
					}
					if !same {
						continue
					}
					// blocks dominated by the true edge of prm == nil
					var nilEdges []*ssa.BasicBlock
					for _, b := range fn.Blocks {
						if len(b.Instrs) == 0 {
							continue
						}
						iff, ok := b.Instrs[len(b.Instrs)-1].(*ssa.If)
						if !ok {
							continue
						}
						bo, ok := iff.Cond.(*ssa.BinOp)
						if !ok || (bo.Op != token.EQL && bo.Op != token.NEQ) {
							continue
						}
						isNil := func(v ssa.Value) bool { k, ok := v.(*ssa.Const); return ok && k.Value == nil }
						if !((bo.X == ssa.Value(prm) && isNil(bo.Y)) || (bo.Y == ssa.Value(prm) && isNil(bo.X))) {
							continue
						}
						t := b.Succs[0]
						if bo.Op == token.NEQ {
							t = b.Succs[1]
						}
						if len(t.Preds) == 1 {
							nilEdges = append(nilEdges, t)
						}
					}
					for _, b := range fn.Blocks {
						for _, in := range b.Instrs {
							mk, ok := in.(*ssa.MakeSlice)
							if !ok || !types.Identical(mk.Type(), prm.Type()) {
								continue
							}
							// does it reach a return?
							reaches := false
							seen := map[ssa.Value]bool{}
							var follow func(v ssa.Value, d int)
							follow = func(v ssa.Value, d int) {
								if reaches || seen[v] || d > 40 || v.Referrers() == nil {
									return
								}
								seen[v] = true
								for _, r := range *v.Referrers() {
									switch x := r.(type) {
									case *ssa.Return:
										reaches = true
									case *ssa.Phi:
										follow(x, d+1)
									case *ssa.Slice:
										follow(x, d+1)
									case *ssa.Store:
										// a named result kept in a cell (functions with defer): follow its loads
										if al, ok := x.Addr.(*ssa.Alloc); ok && x.Val == v && al.Referrers() != nil {
											for _, r2 := range *al.Referrers() {
												if ld, ok := r2.(*ssa.UnOp); ok && ld.Op == token.MUL {
													follow(ld, d+1)
												}
											}
										}
									case *ssa.Call:
										if bi, ok := x.Call.Value.(*ssa.Builtin); ok && bi.Name() == "append" && len(x.Call.Args) > 0 && x.Call.Args[0] == v {
											follow(x, d+1)
										} else if cal := x.Call.StaticCallee(); cal != nil && types.Identical(x.Type(), prm.Type()) {
											follow(x, d+1)
										}
									}
								}
							}
							follow(mk, 0)
							if !reaches {
								continue
							}
							o := core.Obligation{Key: kc.Key("R-DSTFRESH", core.FuncName(fn), "fresh "+prm.Name()+" only when none was given"), Pos: p.Pos(mk.Pos()), Nontrivial: true}
							ok2 := false
							for _, t := range nilEdges {
								if t == b || t.Dominates(b) {
									ok2 = true
								}
							}
							if ok2 {
								o.Status = core.Discharged
								o.Detail = "the allocation is only reached when " + prm.Name() + " == nil"
							} else {
								o.Status = core.Violated
								o.Detail = "a fresh slice replaces the caller's " + prm.Name() + " on a path where it is not nil: the call allocates although the buffer may hold every result, and the caller's backing array is not the one returned"
							}
							res.Obligations = append(res.Obligations, o)
						}
					}
				}
			}
			return res
		},
	})
}
