package rules

import (
	"fmt"
	"go/token"
	"go/types"
	"sort"
	"strings"
	"sync"

	"golang.org/x/tools/go/ssa"

	"verif/internal/asm"
	"verif/internal/core"
)

// asmPre: what a TEXT block may assume about its scalar arguments. Every entry is an obligation of
// its own: it must be established by the branch conditions that dominate each Go call site.
var asmPre = map[string][]string{
	"simd.memchrPairAVX2": {"param:offset >= 0"},
}

// asmLoadExempt: accesses the bounds analysis cannot decide, one reason each. Keyed by function and
// instruction text (whitespace-normalised).
var asmLoadExempt = map[string]string{
	"prefilter.fatTeddyAVX2_2|MOVBLZX (SP)(BX*1), R12": "the index is a bit scan of x|x>>16, bounded by 15 only for x != 0; that x != 0 follows from the VPTEST Y6,Y6 / JNZ that guards the block (a vector flag the integer domain does not track)",
	"prefilter.fatTeddyAVX2_2|MOVBLZX (SP)(BX*1), R13": "same index plus 16, same reason (frame is 32 bytes)",
}

func normInstr(s string) string { return strings.Join(strings.Fields(s), " ") }

// ssaLin expresses an integer SSA value as a linear expression over symbols: parameters, len(x),
// opaque values.
func ssaLin(v ssa.Value, nonneg map[string]bool, depth int) asm.Lin {
	if depth > 8 {
		return asm.Sym("v:" + v.Name())
	}
	switch v := v.(type) {
	case *ssa.Const:
		if i, ok := constInt(v); ok {
			return asm.Const(i)
		}
	case *ssa.Parameter:
		return asm.Sym("go:" + v.Name())
	case *ssa.Convert:
		if isIntType(v.X.Type()) && isIntType(v.Type()) {
			return ssaLin(v.X, nonneg, depth+1)
		}
	case *ssa.BinOp:
		switch v.Op {
		case token.ADD:
			return ssaLin(v.X, nonneg, depth+1).Plus(ssaLin(v.Y, nonneg, depth+1), 1)
		case token.SUB:
			return ssaLin(v.X, nonneg, depth+1).Plus(ssaLin(v.Y, nonneg, depth+1), -1)
		case token.MUL:
			if k, ok := constInt(v.Y); ok {
				return asm.Const(0).Plus(ssaLin(v.X, nonneg, depth+1), k)
			}
			if k, ok := constInt(v.X); ok {
				return asm.Const(0).Plus(ssaLin(v.Y, nonneg, depth+1), k)
			}
		}
	case *ssa.Call:
		if b, ok := v.Call.Value.(*ssa.Builtin); ok && b.Name() == "len" && len(v.Call.Args) == 1 {
			s := "len:" + valueKey(v.Call.Args[0])
			nonneg[s] = true
			return asm.Sym(s)
		}
	}
	return asm.Sym("v:" + v.Name() + "@" + fmt.Sprint(v.Pos()))
}

func valueKey(v ssa.Value) string {
	switch v := v.(type) {
	case *ssa.Parameter:
		return "go:" + v.Name()
	}
	return v.Name() + "@" + fmt.Sprint(v.Pos())
}

// dominatingFacts collects the inequalities the branch conditions dominating block b establish.
func dominatingFacts(b *ssa.BasicBlock, nonneg map[string]bool) []asm.Lin {
	var facts []asm.Lin
	add := func(op token.Token, x, y asm.Lin, eqZeroNonNeg func(asm.Lin) bool) {
		le := func(p, q asm.Lin) asm.Lin { return p.Plus(q, -1) }
		lt := func(p, q asm.Lin) asm.Lin { return p.Plus(q, -1).Plus(asm.Const(1), 1) }
		switch op {
		case token.LSS:
			facts = append(facts, lt(x, y))
		case token.LEQ:
			facts = append(facts, le(x, y))
		case token.GTR:
			facts = append(facts, lt(y, x))
		case token.GEQ:
			facts = append(facts, le(y, x))
		case token.EQL:
			facts = append(facts, le(x, y), le(y, x))
		case token.NEQ:
			// x != y with x >= y known gives x > y
			if asm.Entails(facts, nonneg, le(y, x)) {
				facts = append(facts, lt(y, x))
			} else if asm.Entails(facts, nonneg, le(x, y)) {
				facts = append(facts, lt(x, y))
			}
		}
	}
	neg := map[token.Token]token.Token{token.LSS: token.GEQ, token.LEQ: token.GTR, token.GTR: token.LEQ, token.GEQ: token.LSS, token.EQL: token.NEQ, token.NEQ: token.EQL}
	// walk the dominator chain from the entry downwards so that earlier facts are available to NEQ
	var chain []*ssa.BasicBlock
	for d := b; d != nil; d = d.Idom() {
		chain = append([]*ssa.BasicBlock{d}, chain...)
	}
	for i := 0; i+1 < len(chain); i++ {
		d := chain[i]
		if len(d.Instrs) == 0 {
			continue
		}
		ifi, ok := d.Instrs[len(d.Instrs)-1].(*ssa.If)
		if !ok {
			continue
		}
		cmp, ok := ifi.Cond.(*ssa.BinOp)
		if !ok || !isIntType(cmp.X.Type()) {
			continue
		}
		if _, ok := neg[cmp.Op]; !ok {
			continue
		}
		for si, succ := range d.Succs {
			if len(succ.Preds) != 1 || !(succ == b || succ.Dominates(b)) {
				continue
			}
			op := cmp.Op
			if si == 1 {
				op = neg[op]
			}
			add(op, ssaLin(cmp.X, nonneg, 0), ssaLin(cmp.Y, nonneg, 0), nil)
		}
	}
	return facts
}

func init() {
	core.Register(&core.Rule{
		Name: "R-ASMLOAD",
		Doc: "Every memory access of the assembly kernels stays inside the object its address is derived from. An abstract interpretation of each TEXT block keeps, for every general-purpose register, a linear expression over symbols (slice base/len, scalar parameters, loop symbols where control joins, opaque results with a known range such as a zero-extended byte, a masked value or the index of a bit scan of a non-zero bounded mask) and, for every program point, the linear inequalities established by the dominating CMP/TEST + Jcc instructions (an unsigned comparison yields a fact only when the larger side is proved non-negative). Loop invariants are guessed from the loop's entry edge (with the constant weakened where edges disagree) and then verified: a guessed fact that does not hold on every incoming edge of its label is deleted and the verification repeated, so what remains is inductive. For each instruction with a register-based memory operand the rule proves base <= addr and addr+width <= base+len*elemsize for a slice parameter, 0 <= off and off+width <= sizeof(*p) for a pointer parameter (size from the Go type), 0 <= off and off+width <= framesize for the routine's own frame. A scalar precondition a kernel needs (memchrPairAVX2: offset >= 0) is a separate obligation: it must follow from the branch conditions dominating every Go call site. Not provable = violated (no over-read is tolerated: the tests run on heap buffers where reading a few bytes past the end is invisible). Decides reads and writes alike; does not decide alignment faults or what the loaded values are used for. Necessary for C07/C18 (touches no memory outside the slice).",
		Min: 128, ThoroughArchs: []string{},
		NeedSSA: true,
		Run: func(p *core.Prog) *core.RuleResult {
			ai := loadAsm(p)
			res := &core.RuleResult{}
			for _, e := range ai.errs {
				res.Fatal = append(res.Fatal, "asm parse: "+e)
			}
			bl := bodiless(p)
			var names []string
			for n := range bl {
				names = append(names, n)
			}
			sort.Strings(names)
			sizes := types.SizesFor("gc", "amd64")
			kc := core.NewKeyCounter()
			total, proved := 0, 0
			usedExempt := map[string]bool{}
			pres := map[string]*asm.Pre{}
			accs := map[string][]*asm.Access{}
			for _, name := range names {
				obj := bl[name]
				fn := ai.byName[name]
				if fn == nil {
					continue // reported by R-ASMSTORE
				}
				sig := obj.Type().(*types.Signature)
				pre := &asm.Pre{PtrSize: map[string]int64{}, ElemSize: map[string]int64{}}
				pres[name] = pre
				for i := 0; i < sig.Params().Len(); i++ {
					pa := sig.Params().At(i)
					switch t := pa.Type().Underlying().(type) {
					case *types.Pointer:
						pre.PtrSize[pa.Name()] = sizes.Sizeof(t.Elem())
					case *types.Slice:
						pre.ElemSize[pa.Name()] = sizes.Sizeof(t.Elem())
					}
				}
				for _, f := range asmPre[name] {
					l, err := asm.ParseFact(f)
					if err != nil {
						res.Fatal = append(res.Fatal, "precondition "+f+": "+err.Error())
						continue
					}
					pre.Facts = append(pre.Facts, l)
				}
			}
			{
				var wg sync.WaitGroup
				var mu sync.Mutex
				for name, pre := range pres {
					wg.Add(1)
					go func(name string, pre *asm.Pre) {
						defer wg.Done()
						a := asm.Bounds(ai.byName[name], pre)
						mu.Lock()
						accs[name] = a
						mu.Unlock()
					}(name, pre)
				}
				wg.Wait()
			}
			for _, name := range names {
				obj := bl[name]
				pre := pres[name]
				if pre == nil {
					continue
				}
				sig := obj.Type().(*types.Signature)
				for _, a := range accs[name] {
					total++
					kind := "load"
					if a.Store {
						kind = "store"
					}
					mn := strings.Fields(a.Instr)[0]
					o := core.Obligation{Key: kc.Key("R-ASMLOAD", name, kind+" "+mn+" within "+a.Object), Pos: fmt.Sprintf("%s:%d", a.File, a.Line), Nontrivial: true}
					o.Detail = fmt.Sprintf("%s ; %d bytes at %s", normInstr(a.Instr), a.Width, a.Addr)
					ek := name + "|" + normInstr(a.Instr)
					switch {
					case a.Lower && a.Upper:
						o.Status = core.Discharged
						proved++
					case asmLoadExempt[ek] != "":
						usedExempt[ek] = true
						o.Status = core.Discharged
						o.Nontrivial = false
						o.Detail += " ; NOT DECIDED (named exemption): " + asmLoadExempt[ek]
					default:
						o.Status = core.Violated
						miss := "upper bound (addr+width <= end of object)"
						if !a.Lower && !a.Upper {
							miss = "either bound"
						} else if !a.Lower {
							miss = "lower bound (start of object <= addr)"
						}
						o.Detail += " ; no dominating comparison establishes the " + miss + " ; " + a.Note
					}
					res.Obligations = append(res.Obligations, o)
				}
				// preconditions at the Go call sites
				if len(asmPre[name]) > 0 {
					callee := p.SSAFunc(obj)
					sites := 0
					for _, caller := range p.SrcFuncs() {
						for _, b := range caller.Blocks {
							for _, in := range b.Instrs {
								call, ok := in.(ssa.CallInstruction)
								if !ok || call.Common().StaticCallee() == nil || call.Common().StaticCallee() != callee {
									continue
								}
								sites++
								nonneg := map[string]bool{}
								facts := dominatingFacts(b, nonneg)
								for _, f := range pre.Facts {
									g := f
									for i := 0; i < sig.Params().Len(); i++ {
										pn := sig.Params().At(i).Name()
										arg := call.Common().Args[i]
										if _, ok := sig.Params().At(i).Type().Underlying().(*types.Slice); ok {
											s := "len:" + valueKey(arg)
											nonneg[s] = true
											g = g.Subst(pn+".len", asm.Sym(s))
										} else if isIntType(sig.Params().At(i).Type()) {
											g = g.Subst("param:"+pn, ssaLin(arg, nonneg, 0))
										}
									}
									o := core.Obligation{Key: kc.Key("R-ASMLOAD", core.FuncName(caller), "call "+name+" establishes "+f.String()+" <= 0"), Pos: p.Pos(in.Pos()), Nontrivial: true}
									if asm.Entails(facts, nonneg, g) {
										o.Status = core.Discharged
										o.Detail = "follows from the dominating branch conditions"
									} else {
										o.Status = core.Violated
										var fs []string
										for _, x := range facts {
											fs = append(fs, x.String()+"<=0")
										}
										o.Detail = "the kernel's bounds proof assumes this; the branch conditions dominating the call give only: " + strings.Join(fs, " ; ")
									}
									res.Obligations = append(res.Obligations, o)
								}
							}
						}
					}
					if callee == nil || sites == 0 {
						res.Obligations = append(res.Obligations, core.Obligation{Key: "R-ASMLOAD|" + name + "|has a Go call site", Status: core.Undecided, Detail: "kernel with preconditions but no resolved call site"})
					}
				}
			}
			for k := range asmLoadExempt {
				if !usedExempt[k] {
					res.Notes = append(res.Notes, "exemption not used (access is now decided or gone): "+k)
				}
			}
			res.Notes = append(res.Notes, fmt.Sprintf("memory accesses through registers: %d, both bounds proved: %d, named exemptions: %d", total, proved, len(usedExempt)))
			return res
		},
	})
}
