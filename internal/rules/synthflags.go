package rules

import (
	"fmt"
	"go/constant"
	"go/token"
	"strings"

	"golang.org/x/tools/go/ssa"

	"verif/internal/core"
)

// dependsOnValue: v is computed from target, by data flow or as a phi whose choice is governed by a branch on target.
func dependsOnValue(v, target ssa.Value, seen map[ssa.Value]bool) bool {
	if v == target {
		return true
	}
	if v == nil || seen[v] {
		return false
	}
	seen[v] = true
	switch x := v.(type) {
	case *ssa.BinOp:
		return dependsOnValue(x.X, target, seen) || dependsOnValue(x.Y, target, seen)
	case *ssa.UnOp:
		return dependsOnValue(x.X, target, seen)
	case *ssa.Convert:
		return dependsOnValue(x.X, target, seen)
	case *ssa.ChangeType:
		return dependsOnValue(x.X, target, seen)
	case *ssa.Phi:
		for _, e := range x.Edges {
			if dependsOnValue(e, target, seen) {
				return true
			}
		}
		// control dependence: a predecessor chain that branches on target
		for _, pred := range x.Block().Preds {
			for d := pred; d != nil; d = d.Idom() {
				if len(d.Instrs) == 0 {
					continue
				}
				if iff, ok := d.Instrs[len(d.Instrs)-1].(*ssa.If); ok && dependsOnValue(iff.Cond, target, map[ssa.Value]bool{}) {
					return true
				}
				if d == x.Block().Idom() {
					break
				}
			}
		}
	}
	return false
}

func init() {
	core.Register(&core.Rule{
		Name: "R-SYNTHFLAGS",
		Doc: "A quantifier node synthesised during compilation is as greedy as the quantifier it stands for. x{n,} is compiled as n copies of x followed by a synthetic star, x{n,m} as n copies and m-n synthetic optionals; the function that builds them receives the laziness of the counted repeat as a bool parameter (its callers pass Flags&NonGreedy != 0). Every syntax.Regexp literal with Op Star/Plus/Quest created in such a function must have a Flags value that depends on that parameter (by data flow or by a branch on it), and every call of a function that takes such a parameter must forward it. A synthetic node that takes its flags from the repeated operand (sub.Flags) or has none makes x{2,}? greedy and (?:x+?){2,} lazy. Necessary for C02 (greedy and lazy quantifiers select different spans) and C19.",
		Min: 2, NeedSSA: true,
		Run: func(p *core.Prog) *core.RuleResult {
			res := &core.RuleResult{}
			kc := core.NewKeyCounter()
			pk := p.SSAPkg("nfa")
			if pk == nil {
				res.Fatal = append(res.Fatal, "package nfa not found")
				return res
			}
			// laziness parameters: bool parameters that receive (Flags & NonGreedy) != 0 at some call site
			lazy := map[*ssa.Parameter]bool{}
			isLazyExpr := func(v ssa.Value) bool {
				bo, ok := v.(*ssa.BinOp)
				if !ok || (bo.Op != token.NEQ && bo.Op != token.EQL) {
					return false
				}
				and, ok := bo.X.(*ssa.BinOp)
				if !ok || and.Op != token.AND {
					return false
				}
				for _, s := range []ssa.Value{and.X, and.Y} {
					if c, ok := s.(*ssa.Const); ok && c.Value != nil && c.Value.Kind() == constant.Int && strings.HasSuffix(c.Type().String(), "syntax.Flags") {
						if i, ok := constant.Int64Val(c.Value); ok && i == 32 { // syntax.NonGreedy
							return true
						}
					}
				}
				return false
			}
			for changed := true; changed; {
				changed = false
				for _, fn := range p.SrcFuncs() {
					if fn.Pkg != pk {
						continue
					}
					for _, b := range fn.Blocks {
						for _, in := range b.Instrs {
							call, ok := in.(ssa.CallInstruction)
							if !ok {
								continue
							}
							g := call.Common().StaticCallee()
							if g == nil || g.Pkg != pk || len(g.Blocks) == 0 {
								continue
							}
							for i, a := range call.Common().Args {
								if i >= len(g.Params) || lazy[g.Params[i]] {
									continue
								}
								if prm, ok := a.(*ssa.Parameter); (ok && lazy[prm]) || isLazyExpr(a) {
									lazy[g.Params[i]] = true
									changed = true
								}
							}
						}
					}
				}
			}
			quant := map[int64]string{}
			if sp := p.SSA.ImportedPackage("regexp/syntax"); sp != nil {
				for _, n := range []string{"OpStar", "OpPlus", "OpQuest"} {
					if c, ok := sp.Members[n].(*ssa.NamedConst); ok {
						if v, ok := constant.Int64Val(c.Value.Value); ok {
							quant[v] = n
						}
					}
				}
			}
			if len(quant) != 3 {
				res.Fatal = append(res.Fatal, "syntax.OpStar/OpPlus/OpQuest not found")
				return res
			}
			for _, fn := range p.SrcFuncs() {
				if fn.Pkg != pk || strings.HasSuffix(p.File(fn.Pos()), "_test.go") {
					continue
				}
				var lp *ssa.Parameter
				for _, prm := range fn.Params {
					if lazy[prm] {
						lp = prm
					}
				}
				if lp == nil {
					continue
				}
				for _, b := range fn.Blocks {
					for _, in := range b.Instrs {
						al, ok := in.(*ssa.Alloc)
						if !ok || !isSyntaxRegexp(al.Type()) || al.Referrers() == nil {
							continue
						}
						op, flags := "", ssa.Value(nil)
						for _, r := range *al.Referrers() {
							fa, ok := r.(*ssa.FieldAddr)
							if !ok || fa.Referrers() == nil {
								continue
							}
							for _, r2 := range *fa.Referrers() {
								st, ok := r2.(*ssa.Store)
								if !ok || st.Addr != ssa.Value(fa) {
									continue
								}
								switch fieldNameOf(fa) {
								case "Op":
									if c, ok := st.Val.(*ssa.Const); ok && c.Value != nil {
										if v, ok := constant.Int64Val(c.Value); ok {
											op = quant[v]
										}
									}
								case "Flags":
									flags = st.Val
								}
							}
						}
						if op == "" {
							continue
						}
						o := core.Obligation{Key: kc.Key("R-SYNTHFLAGS", core.FuncName(fn), "synthetic "+op+" takes its laziness from parameter "+lp.Name()), Pos: p.Pos(al.Pos()), Nontrivial: true}
						switch {
						case flags == nil:
							o.Status = core.Violated
							o.Detail = "the synthetic quantifier has no Flags: it is greedy whatever the counted repeat was"
						case dependsOnValue(flags, lp, map[ssa.Value]bool{}):
							o.Status = core.Discharged
							o.Detail = "Flags depends on " + lp.Name()
						default:
							o.Status = core.Violated
							o.Detail = fmt.Sprintf("Flags (%s) does not depend on %s, the laziness of the counted repeat this node stands for", flags.String(), lp.Name())
						}
						res.Obligations = append(res.Obligations, o)
					}
				}
			}
			return res
		},
	})
}
