package rules

import (
	"fmt"
	"sort"
	"strings"

	"golang.org/x/tools/go/ssa"

	"verif/internal/asm"
	"verif/internal/core"
)

// literalFinder: call is a search for a literal / byte class in (a window of) the haystack: an invocation of
// prefilter.Prefilter.Find, or a static call into bytes, simd or prefilter that returns one position.
func literalFinder(call *ssa.Call) bool {
	if call.Call.IsInvoke() {
		return call.Call.Method.Name() == "Find" && strings.HasSuffix(call.Call.Value.Type().String(), "prefilter.Prefilter")
	}
	g := call.Call.StaticCallee()
	if g == nil || !isIntType(call.Type()) {
		return false
	}
	pk := ""
	if g.Pkg != nil {
		pk = g.Pkg.Pkg.Path()
	}
	switch {
	case pk == "bytes":
		return strings.HasPrefix(g.Name(), "Index")
	case strings.HasSuffix(pk, "/simd"):
		return strings.HasPrefix(g.Name(), "Mem")
	case strings.HasSuffix(pk, "/prefilter"):
		return g.Name() == "Find"
	}
	return false
}

func init() {
	core.Register(&core.Rule{
		Name: "R-CANDNEXT",
		Doc: "The candidate loops of the strategies try every occurrence of their literal. In package meta, for every search for a literal in the haystack (an invocation of prefilter.Prefilter.Find, a call of bytes.Index*, simd.Mem*) that stands in a loop and whose window (the low bound of the re-sliced haystack, or the start argument) depends on a loop-carried variable: on every back edge on which the next window is computed from the position such a search found - the rejected candidate - the next window starts exactly one byte behind that candidate (over the linear domain: next window base minus the candidate's absolute position is the constant 1). Resuming at the end of the rejected occurrence, at the anti-quadratic guard (`minStart`, which bounds how far BACK later scans may read, not where later candidates may start) or at any other computed distance skips occurrences that overlap the rejected one: `\\d+00` on 'x000' has its only match at the second '00'. Back edges whose value is not built around a found position (resuming behind a reported match, skipping a digit run under its own guard) are not decided here. The same rule inside the finders themselves is R-NOSKIP. Necessary for C01, C02, C12 and C19 (a reverse-suffix / reverse-inner searcher returns the reference result). Chosen independently by two seeding agents of round 8.",
		Min: 10, NeedSSA: true,
		Run: func(p *core.Prog) *core.RuleResult {
			res := &core.RuleResult{}
			kc := core.NewKeyCounter()
			var fns []*ssa.Function
			for _, fn := range p.SrcFuncs() {
				pk := ownPkg(fn)
				if pk == nil || !strings.HasSuffix(pk.Path(), "/meta") || strings.HasSuffix(p.File(fn.Pos()), "_test.go") {
					continue
				}
				fns = append(fns, fn)
			}
			sort.Slice(fns, func(i, j int) bool { return core.FuncName(fns[i]) < core.FuncName(fns[j]) })
			for _, fn := range fns {
				var hay *ssa.Parameter
				for _, prm := range fn.Params {
					if isByteSlice(prm.Type()) && hay == nil {
						hay = prm
					}
				}
				if hay == nil {
					continue
				}
				comp, cyclic := blockSCCs(fn)
				for _, b := range fn.Blocks {
					if !cyclic[comp[b.Index]] {
						continue
					}
					for _, in := range b.Instrs {
						call, ok := in.(*ssa.Call)
						if !ok || !literalFinder(call) {
							continue
						}
						// the window of this search: base of the slice argument plus the start argument, if any
						window := func(c *rebaseCtx, f *ssa.Call, env phiEnv) (asm.Lin, bool) {
							var S ssa.Value
							var start ssa.Value
							args := f.Call.Args
							for i, a := range args {
								if isByteSlice(a.Type()) && S == nil {
									S = a
									// a start offset follows the haystack in the finders that take one
									if i+1 < len(args) && isIntType(args[i+1].Type()) && (f.Call.IsInvoke() || !strings.HasPrefix(calleeName(f), "bytes.")) {
										start = args[i+1]
									}
								}
							}
							if S == nil {
								return asm.Lin{}, false
							}
							base, ok := c.baseOf(S, env, 0)
							if !ok {
								return asm.Lin{}, false
							}
							if start != nil && f.Call.IsInvoke() {
								base = base.Plus(c.lin(start, env, 0), 1)
							}
							return base, true
						}
						// loop-head blocks whose phis the window depends on
						c0 := &rebaseCtx{p: p, fn: fn, hay: hay, atoms: map[string]ssa.Value{}, aenv: map[string]phiEnv{}, adep: map[string]int{}}
						if _, ok := window(c0, call, phiEnv{}); !ok {
							continue
						}
						heads := map[*ssa.BasicBlock]bool{}
						var collect func(v ssa.Value, d int)
						seen := map[ssa.Value]bool{}
						collect = func(v ssa.Value, d int) {
							if v == nil || d > 8 || seen[v] {
								return
							}
							seen[v] = true
							switch x := v.(type) {
							case *ssa.Phi:
								if comp[x.Block().Index] == comp[b.Index] {
									heads[x.Block()] = true
								}
							case *ssa.BinOp:
								collect(x.X, d+1)
								collect(x.Y, d+1)
							case *ssa.Convert:
								collect(x.X, d+1)
							case *ssa.Slice:
								collect(x.X, d+1)
								collect(x.Low, d+1)
							}
						}
						for _, a := range call.Call.Args {
							collect(a, 0)
						}
						var hs []*ssa.BasicBlock
						for h := range heads {
							hs = append(hs, h)
						}
						sort.Slice(hs, func(i, j int) bool { return hs[i].Index < hs[j].Index })
						for _, h := range hs {
							for ei, pred := range h.Preds {
								if comp[pred.Index] != comp[h.Index] {
									continue // entry edge
								}
								// merge phis behind the back-edge values (if end > len { end = len }): one alternative per choice
								merges := map[*ssa.BasicBlock]bool{}
								var mwalk func(v ssa.Value, d int)
								mseen := map[ssa.Value]bool{}
								mwalk = func(v ssa.Value, d int) {
									if v == nil || d > 8 || mseen[v] {
										return
									}
									mseen[v] = true
									switch x := v.(type) {
									case *ssa.Phi:
										if x.Block() == h {
											return
										}
										merges[x.Block()] = true
										for _, e := range x.Edges {
											mwalk(e, d+1)
										}
									case *ssa.BinOp:
										mwalk(x.X, d+1)
										mwalk(x.Y, d+1)
									case *ssa.Convert:
										mwalk(x.X, d+1)
									}
								}
								for _, in2 := range h.Instrs {
									if ph, ok := in2.(*ssa.Phi); ok && ei < len(ph.Edges) {
										mwalk(ph.Edges[ei], 0)
									}
								}
								inners := []phiEnv{{}}
								var mbs []*ssa.BasicBlock
								for mb := range merges {
									mbs = append(mbs, mb)
								}
								sort.Slice(mbs, func(i, j int) bool { return mbs[i].Index < mbs[j].Index })
								for _, mb := range mbs {
									if len(inners)*len(mb.Preds) > 32 {
										break
									}
									var nx []phiEnv
									for _, e := range inners {
										for i := range mb.Preds {
											n := phiEnv{}
											for k, v := range e {
												n[k] = v
											}
											n[mb] = i
											nx = append(nx, n)
										}
									}
									inners = nx
								}
								decided, bad := 0, ""
								for _, inner := range inners {
									c := &rebaseCtx{p: p, fn: fn, hay: hay, atoms: map[string]ssa.Value{}, aenv: map[string]phiEnv{}, adep: map[string]int{}, inner: inner}
									next, ok := window(c, call, phiEnv{h: ei})
									if !ok {
										continue
									}
									// the found position the next window is computed from: the only literal-finder atom
									pa, n := "", 0
									for _, sym := range next.Symbols() {
										if f, ok := c.atoms[sym].(*ssa.Call); ok && next.Coef(sym) == 1 && literalFinder(f) {
											pa = sym
											n++
										}
									}
									if n != 1 {
										continue // not computed from one found position
									}
									found := c.atoms[pa].(*ssa.Call)
									// the candidate's absolute position: the position atom plus the base of the window it was found in
									cand := asm.Sym(pa)
									if !found.Call.IsInvoke() {
										var S ssa.Value
										for _, a := range found.Call.Args {
											if isByteSlice(a.Type()) {
												S = a
												break
											}
										}
										fb, ok := c.baseOf(S, c.aenv[pa], 0)
										if !ok {
											continue
										}
										cand = cand.Plus(fb, 1)
									}
									decided++
									step := next.Plus(cand, -1)
									if !(len(step.Symbols()) == 0 && step.ConstPart() == 1) && bad == "" {
										bad = step.String()
									}
								}
								if decided == 0 {
									continue
								}
								o := core.Obligation{Key: kc.Key("R-CANDNEXT", core.FuncName(fn), "next "+calleeName(call)+" window starts one byte behind the rejected candidate"), Pos: p.Pos(call.Pos()), Nontrivial: true}
								if bad == "" {
									o.Status = core.Discharged
									o.Detail = fmt.Sprintf("on the back edge from block %d the next window starts at candidate + 1 (%d path combination(s))", pred.Index, decided)
								} else {
									o.Status = core.Violated
									o.Detail = fmt.Sprintf("on the back edge from block %d the next search window starts at candidate + (%s), not at candidate + 1: occurrences of the literal that begin inside the skipped bytes (overlapping the rejected one) are never tried", pred.Index, bad)
								}
								res.Obligations = append(res.Obligations, o)
							}
						}
					}
				}
			}
			return res
		},
	})
}
