package rules

import (
	"go/token"
	"strings"

	"golang.org/x/tools/go/ssa"

	"verif/internal/core"
)

// isCursorPhi: an int phi of a loop header that is advanced by +1/-1 on a back edge (the scan position).
func isCursorPhi(v ssa.Value) *ssa.Phi {
	ph, ok := v.(*ssa.Phi)
	if !ok || !isIntType(ph.Type()) {
		return nil
	}
	for _, e := range ph.Edges {
		if bo, ok := e.(*ssa.BinOp); ok && (bo.Op == token.ADD || bo.Op == token.SUB) {
			if c, ok := constInt(bo.Y); ok && c == 1 {
				if bo.X == ssa.Value(ph) {
					return ph
				}
				if p2, ok := bo.X.(*ssa.Phi); ok {
					for _, e2 := range p2.Edges {
						if e2 == ssa.Value(ph) {
							return ph
						}
					}
				}
			}
		}
	}
	return nil
}

// earliestExempt: scans whose contract is the earliest match end.
var earliestExempt = map[string]string{
	"(*dfa/lazy.DFA).searchEarliestMatch": "contract: position of the earliest match (used by IsMatch-style callers)",
	"(*dfa/lazy.DFA).searchFirstAt":       "contract: end of the first match seen (SearchFirstAt), documented as such",
}

func init() {
	core.Register(&core.Rule{
		Name: "R-EARLIEST",
		Doc: "A leftmost-first scan reports the last match it recorded, not the first position at which it saw one. In the span-returning scan functions of the lazy DFA (functions that return a loop-carried 'last match' accumulator on the dead transition) no return statement returns the scan cursor itself (the loop-carried position advanced by one per byte): returning the cursor at the first match state, or at the first word boundary that completes a match, yields the earliest end, which differs from the leftmost-first end whenever some thread can still extend the match (\\bx.*error.*). Scans whose contract is the earliest end are exempt by name. Pinned tree: searchAt and SearchAtAnchored returned the cursor from the word-boundary shortcut ⇒ fixed. Necessary for C02 and C14.",
		Min: 5, NeedSSA: true,
		Run: func(p *core.Prog) *core.RuleResult {
			res := &core.RuleResult{}
			kc := core.NewKeyCounter()
			pk := p.SSAPkg("dfa/lazy")
			if pk == nil {
				res.Fatal = append(res.Fatal, "package dfa/lazy not found")
				return res
			}
			for _, fn := range p.SrcFuncs() {
				if fn.Pkg != pk || fn.Parent() != nil || strings.HasSuffix(p.File(fn.Pos()), "_test.go") {
					continue
				}
				rs := fn.Signature.Results()
				if rs.Len() != 1 || !isIntType(rs.At(0).Type()) {
					continue
				}
				scans := false
				for _, prm := range fn.Params {
					if isByteSlice(prm.Type()) {
						scans = true
					}
				}
				if !scans {
					continue
				}
				// accumulator: some return returns a merged int value that is not the cursor, in a function that has a cursor
				var rets []*ssa.Return
				hasAcc, hasCursor := false, false
				for _, b := range fn.Blocks {
					for _, in := range b.Instrs {
						if ph, ok := in.(*ssa.Phi); ok && isCursorPhi(ph) != nil {
							hasCursor = true
						}
						if r, ok := in.(*ssa.Return); ok && len(r.Results) == 1 {
							rets = append(rets, r)
							if ph, ok := r.Results[0].(*ssa.Phi); ok && isCursorPhi(ph) == nil {
								hasAcc = true
							}
						}
					}
				}
				hasAcc = hasAcc && hasCursor
				if !hasAcc {
					continue
				}
				o := core.Obligation{Key: kc.Key("R-EARLIEST", core.FuncName(fn), "returns the recorded match, never the scan cursor"), Pos: p.Pos(fn.Pos()), Nontrivial: true, Status: core.Discharged}
				o.Detail = "no return statement returns the loop-carried scan position"
				for _, r := range rets {
					if isCursorPhi(r.Results[0]) != nil {
						if why := earliestExempt[core.FuncName(fn)]; why != "" {
							o.Nontrivial = false
							o.Detail = "exempt: " + why
							continue
						}
						o.Status = core.Violated
						o.Detail = "the return at " + p.Pos(r.Pos()) + " returns the scan position itself: the earliest match end, not the end of the leftmost-first match"
					}
				}
				res.Obligations = append(res.Obligations, o)
			}
			return res
		},
	})
}
