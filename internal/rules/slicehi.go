package rules

import (
	"fmt"
	"go/token"
	"go/types"
	"strings"

	"golang.org/x/tools/go/ssa"

	"verif/internal/asm"
	"verif/internal/core"
)

// edgeFacts: the inequalities that hold on the control-flow edge pred -> succ: the facts dominating
// pred plus the outcome of pred's own branch.
func edgeFacts(pred, succ *ssa.BasicBlock, nonneg map[string]bool) []asm.Lin {
	facts := dominatingFacts(pred, nonneg)
	if len(pred.Instrs) == 0 {
		return facts
	}
	iff, ok := pred.Instrs[len(pred.Instrs)-1].(*ssa.If)
	if !ok {
		return facts
	}
	cmp, ok := iff.Cond.(*ssa.BinOp)
	if !ok || !isIntType(cmp.X.Type()) {
		return facts
	}
	neg := map[token.Token]token.Token{token.LSS: token.GEQ, token.LEQ: token.GTR, token.GTR: token.LEQ, token.GEQ: token.LSS, token.EQL: token.NEQ, token.NEQ: token.EQL}
	op, ok2 := cmp.Op, true
	if _, ok := neg[op]; !ok {
		return facts
	}
	switch {
	case pred.Succs[0] == succ && pred.Succs[1] != succ:
	case pred.Succs[1] == succ && pred.Succs[0] != succ:
		op = neg[op]
	default:
		ok2 = false
	}
	if !ok2 {
		return facts
	}
	x, y := ssaLin(cmp.X, nonneg, 0), ssaLin(cmp.Y, nonneg, 0)
	le := func(p, q asm.Lin) asm.Lin { return p.Plus(q, -1) }
	lt := func(p, q asm.Lin) asm.Lin { return p.Plus(q, -1).Plus(asm.Const(1), 1) }
	switch op {
	case token.LSS:
		facts = append(facts, lt(x, y))
	case token.LEQ:
		facts = append(facts, le(x, y))
	case token.GTR:
		facts = append(facts, lt(y, x))
	case token.GEQ:
		facts = append(facts, le(y, x))
	case token.EQL:
		facts = append(facts, le(x, y), le(y, x))
	}
	return facts
}

// provesLE: hi <= bound at block b, splitting phis of hi over their incoming edges.
func provesLE(hi ssa.Value, bound asm.Lin, b *ssa.BasicBlock, nonneg map[string]bool, depth int) bool {
	if asm.Entails(dominatingFacts(b, nonneg), nonneg, ssaLin(hi, nonneg, 0).Plus(bound, -1)) {
		return true
	}
	ph, ok := stripConv(hi).(*ssa.Phi)
	if !ok || depth > 2 {
		return false
	}
	for i, e := range ph.Edges {
		pred := ph.Block().Preds[i]
		facts := edgeFacts(pred, ph.Block(), nonneg)
		if asm.Entails(facts, nonneg, ssaLin(e, nonneg, 0).Plus(bound, -1)) {
			continue
		}
		if !provesLE(e, bound, pred, nonneg, depth+1) {
			return false
		}
	}
	return true
}

// sliceHiExempt: two-bound slices whose upper bound is right for a reason outside the linear domain.
var sliceHiExempt = map[string]string{}

func init() {
	core.Register(&core.Rule{
		Name: "R-SLICEHI",
		Doc: "A window cut out of the haystack ends inside it: for every two-bound slice expression h[lo:hi] in packages simd and prefilter whose operand is a []byte parameter (or a re-slice of one) and whose hi is not a constant, hi <= len(h) follows from the branch conditions that dominate the expression (linear inequalities over parameters, len() values and opaque values; a phi is proved edge by edge). These are the candidate-verification windows (needle at a rare-byte candidate, literal at a Teddy candidate): the candidate finders report positions near the end of the haystack, and the only thing that keeps haystack[p:p+len(needle)] from running past it is the comparison in front. Without it the expression panics (C07: no panic) exactly when a candidate lies within len(needle) of the end, which the tests' haystacks never arrange. Not provable = violated.",
		Min: 8, NeedSSA: true,
		Run: func(p *core.Prog) *core.RuleResult {
			res := &core.RuleResult{}
			kc := core.NewKeyCounter()
			pkgs := map[*ssa.Package]bool{}
			for _, rel := range []string{"simd", "prefilter"} {
				if pk := p.SSAPkg(rel); pk != nil {
					pkgs[pk] = true
				}
			}
			if len(pkgs) != 2 {
				res.Fatal = append(res.Fatal, "packages simd/prefilter not found")
				return res
			}
			for _, fn := range p.SrcFuncs() {
				pk := fn.Pkg
				if pk == nil && fn.Parent() != nil {
					pk = fn.Parent().Pkg
				}
				if !pkgs[pk] || strings.HasSuffix(p.File(fn.Pos()), "_test.go") {
					continue
				}
				for _, b := range fn.Blocks {
					for _, in := range b.Instrs {
						sl, ok := in.(*ssa.Slice)
						if !ok || sl.High == nil || !isByteSeq(sl.X.Type()) {
							continue
						}
						if _, isConst := sl.High.(*ssa.Const); isConst {
							continue
						}
						// operand: a []byte parameter or a re-slice of one
						root := sl.X
						for i := 0; i < 4; i++ {
							if s2, ok := root.(*ssa.Slice); ok {
								root = s2.X
								continue
							}
							break
						}
						if _, ok := root.(*ssa.Parameter); !ok {
							if ph, ok := root.(*ssa.Phi); ok {
								allParam := true
								for _, e := range ph.Edges {
									r := e
									for i := 0; i < 4; i++ {
										if s2, ok := r.(*ssa.Slice); ok {
											r = s2.X
											continue
										}
										break
									}
									if _, ok := r.(*ssa.Parameter); !ok && r != ssa.Value(ph) {
										allParam = false
									}
								}
								if !allParam {
									continue
								}
							} else {
								continue
							}
						}
						if _, ok := sl.X.Type().Underlying().(*types.Slice); !ok {
							continue
						}
						nonneg := map[string]bool{}
						ls := "len:" + valueKey(sl.X)
						nonneg[ls] = true
						o := core.Obligation{Key: kc.Key("R-SLICEHI", core.FuncName(fn), "window upper bound within the haystack"), Pos: p.Pos(sl.Pos()), Nontrivial: true}
						if provesLE(sl.High, asm.Sym(ls), b, nonneg, 0) {
							o.Status = core.Discharged
							o.Detail = "hi <= len(h) follows from the dominating branch conditions"
						} else if why := sliceHiExempt[core.FuncName(fn)]; why != "" {
							o.Status = core.Discharged
							o.Nontrivial = false
							o.Detail = "exempt: " + why
						} else {
							var fs []string
							for _, f := range dominatingFacts(b, nonneg) {
								fs = append(fs, f.String()+"<=0")
							}
							o.Status = core.Violated
							o.Detail = fmt.Sprintf("no dominating comparison bounds the window's end by len(h): the slice expression panics when a candidate lies near the end of the haystack; known here: %s ; needed: %s <= %s", strings.Join(fs, " ; "), ssaLin(sl.High, nonneg, 0).String(), ls)
						}
						res.Obligations = append(res.Obligations, o)
					}
				}
			}
			return res
		},
	})
}
