package rules

import (
	"fmt"
	"go/token"
	"go/types"
	"strings"

	"golang.org/x/tools/go/ssa"

	"verif/internal/core"
)

// storesTrueToField: fn stores the constant true into field f of its receiver / first parameter (directly).
func storesTrueToField(fn *ssa.Function, f *types.Var) bool {
	if fn == nil || fn.Blocks == nil || len(fn.Params) == 0 {
		return false
	}
	for _, b := range fn.Blocks {
		for _, in := range b.Instrs {
			st, ok := in.(*ssa.Store)
			if !ok {
				continue
			}
			fa, ok := st.Addr.(*ssa.FieldAddr)
			if !ok || fa.X != ssa.Value(fn.Params[0]) || innerField(fa) != f {
				continue
			}
			if k, ok := st.Val.(*ssa.Const); ok && k.Value != nil && k.Value.String() == "true" {
				return true
			}
		}
	}
	return false
}

// loadsField: fn is a getter returning field f of its receiver.
func loadsField(fn *ssa.Function, f *types.Var) bool {
	if fn == nil || fn.Blocks == nil || len(fn.Blocks) != 1 || len(fn.Params) != 1 {
		return false
	}
	for _, in := range fn.Blocks[0].Instrs {
		if r, ok := in.(*ssa.Return); ok && len(r.Results) == 1 {
			if u, ok := r.Results[0].(*ssa.UnOp); ok && u.Op == token.MUL {
				if fa, ok := u.X.(*ssa.FieldAddr); ok && fa.X == ssa.Value(fn.Params[0]) && innerField(fa) == f {
					return true
				}
			}
		}
	}
	return false
}

func init() {
	core.Register(&core.Rule{
		Name: "R-ACCELONCE",
		Doc: "A verdict about a cached DFA state that is derived from the cache's fill level is taken once. In package dfa/lazy, for every boolean 'examined' flag of lazy.State (a bool field with a getter and a method that sets it), every function that takes a *State, consults the flag and sets it on some path (directly or through a method of State) sets it on every path to return, except the paths that leave because the state is nil or the flag already held. The acceleration detector reads which transitions of the state's row happen to be cached (it tolerates uncached ones and keeps one representative byte per exit class); asked right after the state is created it always says no, so the skip path is dead and results do not depend on earlier searches. Leaving the question open until the row is 'complete enough' makes the answer depend on what earlier haystacks cached (C13) and arms a skip that only looks for the representative byte (`[g-k]a...` no longer matches at 'h'; C01, C12). Chosen independently by seeding agents of four rounds.",
		Min: 1, NeedSSA: true,
		Run: func(p *core.Prog) *core.RuleResult {
			res := &core.RuleResult{}
			kc := core.NewKeyCounter()
			pk := p.SSAPkg("dfa/lazy")
			if pk == nil {
				res.Fatal = append(res.Fatal, "package dfa/lazy not found")
				return res
			}
			stT, _ := pk.Pkg.Scope().Lookup("State").(*types.TypeName)
			if stT == nil {
				res.Fatal = append(res.Fatal, "lazy.State not found")
				return res
			}
			st, ok := stT.Type().Underlying().(*types.Struct)
			if !ok {
				res.Fatal = append(res.Fatal, "lazy.State is not a struct")
				return res
			}
			ptr := types.NewPointer(stT.Type())
			ms := p.SSA.MethodSets.MethodSet(ptr)
			for i := 0; i < st.NumFields(); i++ {
				f := st.Field(i)
				if !types.Identical(f.Type().Underlying(), types.Typ[types.Bool]) {
					continue
				}
				var getters, setters []*ssa.Function
				for j := 0; j < ms.Len(); j++ {
					m := p.SSA.MethodValue(ms.At(j))
					if loadsField(m, f) {
						getters = append(getters, m)
					}
					if storesTrueToField(m, f) {
						setters = append(setters, m)
					}
				}
				if len(getters) == 0 || len(setters) == 0 {
					continue
				}
				isIn := func(fn *ssa.Function, set []*ssa.Function) bool {
					for _, g := range set {
						if g == fn {
							return true
						}
					}
					return false
				}
				for _, fn := range p.SrcFuncs() {
					if fn.Pkg != pk || strings.HasSuffix(p.File(fn.Pos()), "_test.go") || isIn(fn, getters) || isIn(fn, setters) {
						continue
					}
					// the *State value whose flag the function consults
					var subject ssa.Value
					var getCalls = map[ssa.Value]bool{}
					marks := map[*ssa.BasicBlock]bool{}
					for _, b := range fn.Blocks {
						for _, in := range b.Instrs {
							c, ok := in.(*ssa.Call)
							if !ok || len(c.Call.Args) == 0 {
								continue
							}
							cal := c.Call.StaticCallee()
							if isIn(cal, getters) {
								subject = c.Call.Args[0]
								getCalls[c] = true
							}
						}
					}
					if subject == nil {
						continue
					}
					for _, b := range fn.Blocks {
						for _, in := range b.Instrs {
							if c, ok := in.(*ssa.Call); ok && len(c.Call.Args) > 0 && isIn(c.Call.StaticCallee(), setters) && c.Call.Args[0] == subject {
								marks[b] = true
							}
						}
					}
					if len(marks) == 0 {
						continue // only reads the flag
					}
					o := core.Obligation{Key: kc.Key("R-ACCELONCE", core.FuncName(fn), "sets "+f.Name()+" on every path"), Pos: p.Pos(fn.Pos()), Nontrivial: true}
					bad := ""
					seen := map[*ssa.BasicBlock]bool{}
					var walk func(b *ssa.BasicBlock)
					walk = func(b *ssa.BasicBlock) {
						if bad != "" || seen[b] || marks[b] {
							return
						}
						seen[b] = true
						if len(b.Instrs) == 0 {
							return
						}
						switch last := b.Instrs[len(b.Instrs)-1].(type) {
						case *ssa.Return:
							bad = p.Pos(last.Pos())
							return
						case *ssa.If:
							skipTrue := false
							if getCalls[last.Cond] {
								skipTrue = true
							}
							if cmp, ok := last.Cond.(*ssa.BinOp); ok && cmp.Op == token.EQL {
								if k, ok := cmp.Y.(*ssa.Const); ok && k.Value == nil && cmp.X == subject {
									skipTrue = true
								}
							}
							if !skipTrue {
								walk(b.Succs[0])
							}
							walk(b.Succs[1])
							return
						}
						for _, s := range b.Succs {
							walk(s)
						}
					}
					walk(fn.Blocks[0])
					if bad == "" {
						o.Status = core.Discharged
						o.Detail = fmt.Sprintf("every path that does not leave on a nil state or a set flag calls a method that sets %s", f.Name())
					} else {
						o.Status = core.Violated
						o.Detail = fmt.Sprintf("the return at %s is reached without %s being set: the verdict is asked again later, at whatever fill level earlier searches left in the cache", bad, f.Name())
					}
					res.Obligations = append(res.Obligations, o)
				}
			}
			return res
		},
	})
}
