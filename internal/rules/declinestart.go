package rules

import (
	"fmt"
	"go/constant"
	"go/token"
	"go/types"
	"strings"

	"golang.org/x/tools/go/ssa"

	"verif/internal/core"
)

// limitedCallsOf: the calls of (*lazy.DFA).SearchReverseLimited whose result v is (through phis).
func limitedCallsOf(v ssa.Value, seen map[ssa.Value]bool, out *[]*ssa.Call) {
	if v == nil || seen[v] {
		return
	}
	seen[v] = true
	switch x := v.(type) {
	case *ssa.Call:
		if cal := x.Call.StaticCallee(); cal != nil && cal.Name() == "SearchReverseLimited" && cal.Signature.Recv() != nil && strings.HasSuffix(cal.Signature.Recv().Type().String(), "lazy.DFA") {
			*out = append(*out, x)
		}
	case *ssa.Phi:
		for _, e := range x.Edges {
			limitedCallsOf(e, seen, out)
		}
	}
}

func init() {
	core.Register(&core.Rule{
		Name: "R-DECLINESTART",
		Doc: "A bounded reverse scan that declines hands over the whole question: (*lazy.DFA).SearchReverseLimited(cache, haystack, start, end, minStart) answers SearchReverseLimitedQuadratic when it would have to read below minStart, i.e. 'a match ending here may begin anywhere from start on, I did not look'. In every function of the module, on the branch taken when the scan's result equals that sentinel, (a) an NFA search is called (a method of nfa.PikeVM / nfa.BoundedBacktracker with a haystack argument) and (b) it begins where the declined scan was allowed to begin: a position argument of that search is the very value passed as `start` to the declined scan, and a search without position argument (Search, IsMatch: from 0) is only allowed when that start is the constant 0. Beginning at minStart or another loop-advanced bound - 'earlier candidates already covered that region' - loses the match that begins before a rejected candidate and spans over it (`.+\\.txt` on '.txtab.txt': [4 10] for [0 10]); beginning at 0 in a resumed search returns the previous match again (FindAll loops for ever). (c) The result of every bounded scan is compared with the sentinel somewhere (through phis): dropping the test reads 'cut short' as 'no match'. Necessary for C02, C04 (resumed searches), C11 and C12 (the guard changes speed only).",
		Min: 16, NeedSSA: true,
		Run: func(p *core.Prog) *core.RuleResult {
			res := &core.RuleResult{}
			kc := core.NewKeyCounter()
			// the sentinel's value, read from the declaration
			var sentinel constant.Value
			for _, pk := range p.Pkgs {
				if pk.Types != nil && strings.HasSuffix(pk.Types.Path(), "/dfa/lazy") {
					if c, ok := pk.Types.Scope().Lookup("SearchReverseLimitedQuadratic").(*types.Const); ok {
						sentinel = c.Val()
					}
				}
			}
			if sentinel == nil {
				res.Fatal = append(res.Fatal, "lazy.SearchReverseLimitedQuadratic not found")
				return res
			}
			isNFARecv := func(cal *ssa.Function) bool {
				if cal == nil || cal.Signature.Recv() == nil {
					return false
				}
				return nfaEngineMethod(cal)
			}
			for _, fn := range p.SrcFuncs() {
				pk := ownPkg(fn)
				if pk == nil || !p.InModule(pk) || strings.HasSuffix(p.File(fn.Pos()), "_test.go") {
					continue
				}
				// (c) every bounded scan's result is tested against the sentinel
				for _, b := range fn.Blocks {
					for _, in := range b.Instrs {
						c, ok := in.(*ssa.Call)
						if !ok {
							continue
						}
						var self []*ssa.Call
						limitedCallsOf(c, map[ssa.Value]bool{}, &self)
						if len(self) == 0 {
							continue
						}
						tested := false
						seen := map[ssa.Value]bool{}
						var follow func(v ssa.Value, d int)
						follow = func(v ssa.Value, d int) {
							if tested || seen[v] || d > 4 || v.Referrers() == nil {
								return
							}
							seen[v] = true
							for _, r := range *v.Referrers() {
								switch x := r.(type) {
								case *ssa.BinOp:
									for _, side := range []ssa.Value{x.X, x.Y} {
										if k, ok := side.(*ssa.Const); ok && k.Value != nil && constant.Compare(k.Value, token.EQL, sentinel) && (x.Op == token.EQL || x.Op == token.NEQ) {
											tested = true
										}
									}
								case *ssa.Phi:
									follow(x, d+1)
								}
							}
						}
						follow(c, 0)
						o := core.Obligation{Key: kc.Key("R-DECLINESTART", core.FuncName(fn), "result of the bounded scan tested for 'cut short'"), Pos: p.Pos(c.Pos()), Nontrivial: true}
						if tested {
							o.Status = core.Discharged
							o.Detail = "the result is compared with SearchReverseLimitedQuadratic"
						} else {
							o.Status = core.Violated
							o.Detail = "the result of the bounded scan is never compared with SearchReverseLimitedQuadratic: 'I did not look below minStart' (-2) is read as 'no match here' (any negative value), and the match that begins below the guard is lost"
						}
						res.Obligations = append(res.Obligations, o)
					}
				}
				for _, b := range fn.Blocks {
					if len(b.Instrs) == 0 {
						continue
					}
					iff, ok := b.Instrs[len(b.Instrs)-1].(*ssa.If)
					if !ok {
						continue
					}
					cmp, ok := iff.Cond.(*ssa.BinOp)
					if !ok || (cmp.Op != token.EQL && cmp.Op != token.NEQ) {
						continue
					}
					var x ssa.Value
					if k, ok := cmp.Y.(*ssa.Const); ok && k.Value != nil && constant.Compare(k.Value, token.EQL, sentinel) {
						x = cmp.X
					} else if k, ok := cmp.X.(*ssa.Const); ok && k.Value != nil && constant.Compare(k.Value, token.EQL, sentinel) {
						x = cmp.Y
					}
					if x == nil {
						continue
					}
					var scans []*ssa.Call
					limitedCallsOf(x, map[ssa.Value]bool{}, &scans)
					if len(scans) == 0 {
						continue
					}
					taken := b.Succs[0]
					if cmp.Op == token.NEQ {
						taken = b.Succs[1]
					}
					o := core.Obligation{Key: kc.Key("R-DECLINESTART", core.FuncName(fn), "take-over after a declined reverse scan"), Pos: p.Pos(iff.Cond.Pos()), Nontrivial: true}
					// the start argument of the declined scan(s): (recv, cache, haystack, start, end, minStart)
					var start ssa.Value
					agree := true
					for _, sc := range scans {
						if len(sc.Call.Args) < 6 {
							agree = false
							continue
						}
						if start == nil {
							start = sc.Call.Args[3]
						} else if start != sc.Call.Args[3] {
							if a, ok := start.(*ssa.Const); ok {
								if b2, ok := sc.Call.Args[3].(*ssa.Const); ok && a.Value != nil && b2.Value != nil && constant.Compare(a.Value, token.EQL, b2.Value) {
									continue
								}
							}
							agree = false
						}
					}
					if !agree || start == nil {
						o.Status = core.Undecided
						o.Detail = "the declined scans feeding this test do not share one start argument"
						res.Obligations = append(res.Obligations, o)
						continue
					}
					startIsZero := false
					if k, ok := start.(*ssa.Const); ok && k.Value != nil && constant.Sign(k.Value) == 0 {
						startIsZero = true
					}
					// NFA searches in the region dominated by the taken branch (it has the test block as only predecessor)
					if len(taken.Preds) != 1 {
						o.Status = core.Undecided
						o.Detail = "the branch taken for the sentinel is shared with other paths"
						res.Obligations = append(res.Obligations, o)
						continue
					}
					found, bad := 0, ""
					for _, d := range fn.Blocks {
						if d != taken && !taken.Dominates(d) {
							continue
						}
						for _, in := range d.Instrs {
							c, ok := in.(*ssa.Call)
							if !ok || !isNFARecv(c.Call.StaticCallee()) {
								continue
							}
							hasBytes := false
							var posArgs []ssa.Value
							for _, a := range c.Call.Args[1:] {
								if isByteSlice(a.Type()) {
									hasBytes = true
								} else if isIntType(a.Type()) {
									posArgs = append(posArgs, a)
								}
							}
							if !hasBytes {
								continue
							}
							found++
							switch {
							case len(posArgs) == 0 && !startIsZero:
								bad = fmt.Sprintf("%s at %s searches from 0, but the declined scan was started at %s", c.Call.StaticCallee().Name(), p.Pos(c.Pos()), start.Name())
							case len(posArgs) > 0:
								ok := false
								for _, a := range posArgs {
									if a == start {
										ok = true
									}
									if k, isK := a.(*ssa.Const); isK && startIsZero && k.Value != nil && constant.Sign(k.Value) == 0 {
										ok = true
									}
								}
								if !ok {
									bad = fmt.Sprintf("%s at %s starts at %s, the declined scan was allowed to start at %s", c.Call.StaticCallee().Name(), p.Pos(c.Pos()), posArgs[0].Name(), start.Name())
								}
							}
						}
					}
					switch {
					case found == 0:
						o.Status = core.Violated
						o.Detail = "no NFA search on the branch taken for SearchReverseLimitedQuadratic: a declined scan is read as an answer"
					case bad != "":
						o.Status = core.Violated
						o.Detail = bad + ": the match may begin anywhere from the scan's start on"
					default:
						o.Status = core.Discharged
						o.Detail = fmt.Sprintf("%d NFA search(es) on the sentinel branch begin at the declined scan's start (%s)", found, start.Name())
					}
					res.Obligations = append(res.Obligations, o)
				}
			}
			return res
		},
	})
}
