package rules

import (
	"strings"

	"golang.org/x/tools/go/ssa"

	"verif/internal/core"
)

func init() {
	core.Register(&core.Rule{
		Name: "R-READERALL",
		Doc: "A stream is matched only once it has been read to its end. In the root package, a function that takes an io.RuneReader and calls ReadRune in a loop calls no search method of the Regex inside that loop (on the text read so far): whether $, \\z, (?m)$, \\b or \\B hold at the end of a prefix says nothing about the whole text, so 'a match in the text read so far is a match in the text' is false exactly at block boundaries (foo$ on 4093 x followed by 'foobar': MatchReader true, regexp false). Necessary for C01 (MatchReader) and C02 (FindReaderIndex).",
		Min: 2, NeedSSA: true,
		Run: func(p *core.Prog) *core.RuleResult {
			res := &core.RuleResult{}
			for _, fn := range p.SrcFuncs() {
				pk := ownPkg(fn)
				if pk == nil || pk.Path() != core.ModPath || strings.HasSuffix(p.File(fn.Pos()), "_test.go") || fn.Blocks == nil {
					continue
				}
				takesReader := false
				for _, prm := range fn.Params {
					if strings.HasSuffix(prm.Type().String(), "io.RuneReader") {
						takesReader = true
					}
				}
				if !takesReader {
					continue
				}
				comp, cyclic := blockSCCs(fn)
				readLoops := map[int]bool{}
				reads := 0
				for _, b := range fn.Blocks {
					for _, in := range b.Instrs {
						if c, ok := in.(ssa.CallInstruction); ok && c.Common().IsInvoke() && c.Common().Method.Name() == "ReadRune" {
							reads++
							if cyclic[comp[b.Index]] {
								readLoops[comp[b.Index]] = true
							}
						}
					}
				}
				if reads == 0 {
					continue // delegates to another reader function
				}
				o := core.Obligation{Key: "R-READERALL|" + core.FuncName(fn) + "|no search inside the read loop", Pos: p.Pos(fn.Pos()), Nontrivial: true, Status: core.Discharged, Detail: "the Regex is searched only after the loop that drains the reader"}
				for _, b := range fn.Blocks {
					if !readLoops[comp[b.Index]] {
						continue
					}
					for _, in := range b.Instrs {
						c, ok := in.(ssa.CallInstruction)
						if !ok {
							continue
						}
						cal := c.Common().StaticCallee()
						if cal == nil || cal.Signature.Recv() == nil || !strings.HasSuffix(cal.Signature.Recv().Type().String(), "coregex.Regex") {
							continue
						}
						hasText := false
						for _, a := range c.Common().Args[1:] {
							if isByteSlice(a.Type()) || a.Type().String() == "string" {
								hasText = true
							}
						}
						if hasText {
							o.Status = core.Violated
							o.Detail = cal.Name() + " at " + p.Pos(in.Pos()) + " searches the text read so far inside the loop that is still reading: assertions at the end of a block are evaluated as if the text ended there"
						}
					}
				}
				res.Obligations = append(res.Obligations, o)
			}
			return res
		},
	})
}
