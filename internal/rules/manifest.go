package rules

import (
	"encoding/json"
	"fmt"
	"os"
	"path/filepath"
	"sort"
	"strings"

	"verif/internal/core"
)

// NotApplicable lists properties not claimed, with the reason (kept in sync with DESIGN.md §6).
var NotApplicable = map[string]string{}

func writeManifest() error {
	type lvl struct {
		Category  string `json:"category"`
		Text      string `json:"text"`
		DesignRef string `json:"design_ref"`
	}
	type check struct {
		PropertyID string `json:"property_id"`
		Quick      string `json:"quick_cmd"`
		Thorough   string `json:"thorough_cmd"`
		Evidence   string `json:"evidence_file"`
		Replay     string `json:"replay_cmd_template"`
		Engine     string `json:"engine"`
		Level      lvl    `json:"level_claimed"`
		Note       string `json:"level_note"`
		Technique  string `json:"technique"`
	}
	var ids []string
	for id := range Properties {
		ids = append(ids, id)
	}
	sort.Strings(ids)
	var checks []check
	for _, id := range ids {
		sp := Properties[id]
		checks = append(checks, check{
			PropertyID: id,
			Quick:      "./bin/vstatic check -property " + id + " -tier quick",
			Thorough:   "./bin/vstatic check -property " + id + " -tier thorough",
			Evidence:   "/verif/evidence/" + id + ".json",
			Replay:     "./bin/vstatic explain {path}",
			Engine:     "vstatic",
			Level: lvl{Category: "other",
				Text:      "Static analysis (no execution): structural necessary conditions of the property decided exactly on every path of every strategy and build configuration. DECIDED: " + sp.Decided + " NOT DECIDED: " + sp.NotDecided,
				DesignRef: sp.DesignRef},
			Note:      "Trusted: go/types, go/ssa, VTA call graph (x/tools v0.50.0, go1.26.8); the rules are necessary conditions only - the behavioural equality/bound itself is declined (DESIGN.md §5, §6). Known findings (genuine defects of the pinned tree) are listed in known_findings.txt.",
			Technique: "static analysis: " + strings.Join(sp.Rules, ", ") + " (custom go/ssa + call-graph + AST rules specific to this repository)",
		})
	}
	type na struct {
		PropertyID string `json:"property_id"`
		Reason     string `json:"reason"`
	}
	nas := []na{}
	for i := 1; i <= 20; i++ {
		id := fmt.Sprintf("C%02d", i)
		if _, claimed := Properties[id]; claimed {
			continue
		}
		reason := NotApplicable[id]
		if reason == "" {
			reason = "no static check built for this property yet (planned rules in DESIGN.md §5); not claimed until the check exists"
		}
		nas = append(nas, na{id, reason})
	}
	m := map[string]any{
		"version":   1,
		"setup_cmd": "PATH=/opt/veriftools/go1.26.8/bin:$PATH GOTOOLCHAIN=local GOFLAGS=-mod=mod GOPROXY=off GOSUMDB=off GOWORK=off go build -o bin/vstatic ./cmd/vstatic",
		"hooks": map[string]any{
			"guard":            "verif",
			"enable":           "no hooks: the analysis reads /repo's source; nothing in /repo is instrumented",
			"baseline_off_cmd": "cd /repo && GOPROXY=off go test -mod=mod -vet=off -count=1 -timeout 25m ./...",
			"source_commits":   []string{},
			"add_only":         true,
		},
		"engines": []map[string]any{{
			"name": "vstatic", "path": "/verif/cmd/vstatic", "serves_properties": ids,
			"kind_free_text": "repository-specific static analyser: type-checked AST, go/ssa, VTA/CHA call graph, ownership-class dataflow with context-sensitive summaries, Go-assembler provenance parser",
		}},
		"checks":         checks,
		"not_applicable": nas,
		"notes":          "All checks are static analyses of /repo's current working tree (loaded with go/packages on every run; nothing is cached and nothing is executed). Level 'other' everywhere: the checks decide structural necessary conditions, see DESIGN.md.",
	}
	b, err := json.MarshalIndent(m, "", " ")
	if err != nil {
		return err
	}
	return os.WriteFile(filepath.Join(core.VerifDir(), "MANIFEST.json"), append(b, '\n'), 0o644)
}
