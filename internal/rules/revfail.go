package rules

import (
	"fmt"
	"go/token"
	"strings"

	"golang.org/x/tools/go/ssa"

	"verif/internal/core"
)

func init() {
	core.Register(&core.Rule{
		Name: "R-REVFAIL",
		Doc: "A reverse scan that follows a successful forward scan cannot mean 'no match': in package meta, when the end argument of a backward DFA scan (SearchReverse*) is the match end returned by a forward span method of the lazy DFA in the same function, a match is known to exist, so a negative result only says that the reverse automaton gave up (state or determinisation limit, cache full). On the branch taken for a negative result every path to a return or loop exit must call an NFA search (a method of nfa.PikeVM / nfa.BoundedBacktracker or one of the engine's find*NFA* helpers) instead of reporting 'not found'. Declined is not 'no match' (the R-CANHANDLE principle for the DFA pair). Necessary for C12 (limits change speed only), C14 and C11.",
		Min: 4, NeedSSA: true,
		Run: func(p *core.Prog) *core.RuleResult {
			res := &core.RuleResult{}
			kc := core.NewKeyCounter()
			isNFASearch := func(cal *ssa.Function) bool {
				if cal == nil {
					return false
				}
				if nfaEngineMethod(cal) {
					return true
				}
				return strings.Contains(cal.Name(), "NFA")
			}
			for _, fn := range p.SrcFuncs() {
				pk := ownPkg(fn)
				if pk == nil || !strings.HasSuffix(pk.Path(), "/meta") || strings.HasSuffix(p.File(fn.Pos()), "_test.go") {
					continue
				}
				for _, b := range fn.Blocks {
					for _, in := range b.Instrs {
						c, ok := in.(*ssa.Call)
						if !ok {
							continue
						}
						cal := c.Call.StaticCallee()
						if _, _, ok := reverseScan(cal); !ok {
							continue
						}
						// the end argument comes from a forward span call of the lazy DFA
						fromForward := false
						for _, a := range c.Call.Args {
							if !isIntType(a.Type()) {
								continue
							}
							var walk func(v ssa.Value, d int) bool
							walk = func(v ssa.Value, d int) bool {
								if d > 5 || v == nil {
									return false
								}
								switch x := v.(type) {
								case *ssa.Call:
									cc := x.Call.StaticCallee()
									if cc != nil && cc.Signature.Recv() != nil && leftmostFirstSpanMethods[cc.Name()] {
										if cpk := ownPkg(cc); cpk != nil && strings.HasSuffix(cpk.Path(), "/dfa/lazy") {
											return true
										}
									}
								case *ssa.Phi:
									for _, e := range x.Edges {
										if walk(e, d+1) {
											return true
										}
									}
								case *ssa.BinOp:
									return walk(x.X, d+1) || walk(x.Y, d+1)
								}
								return false
							}
							if walk(a, 0) {
								fromForward = true
							}
						}
						if !fromForward {
							continue
						}
						// branches on a negative result
						for _, ref := range *c.Referrers() {
							bo, ok := ref.(*ssa.BinOp)
							if !ok {
								continue
							}
							var negTrue bool // true edge = negative result
							cst, isC := constInt(bo.Y)
							switch {
							case bo.X == ssa.Value(c) && isC && bo.Op == token.LSS && cst == 0:
								negTrue = true
							case bo.X == ssa.Value(c) && isC && bo.Op == token.EQL && cst == -1:
								negTrue = true
							case bo.X == ssa.Value(c) && isC && bo.Op == token.GEQ && cst == 0:
								negTrue = false
							case bo.X == ssa.Value(c) && isC && bo.Op == token.NEQ && cst == -1:
								negTrue = false
							default:
								continue
							}
							for _, r2 := range *bo.Referrers() {
								iff, ok := r2.(*ssa.If)
								if !ok {
									continue
								}
								neg := iff.Block().Succs[0]
								pos := iff.Block().Succs[1]
								if !negTrue {
									neg, pos = pos, neg
								}
								o := core.Obligation{Key: kc.Key("R-REVFAIL", core.FuncName(fn), "negative "+cal.Name()+" after a forward match falls back to the NFA"), Pos: p.Pos(c.Pos()), Nontrivial: true}
								// every path from neg to a Return, or to a block that is also reachable on the success side
								// (the join after the if), passes an NFA search call
								bad := ""
								seen := map[*ssa.BasicBlock]bool{}
								var dfs func(x *ssa.BasicBlock)
								dfs = func(x *ssa.BasicBlock) {
									if seen[x] || bad != "" {
										return
									}
									seen[x] = true
									for _, in2 := range x.Instrs {
										if c2, ok := in2.(ssa.CallInstruction); ok && isNFASearch(c2.Common().StaticCallee()) {
											return // this path is fine
										}
										if r, ok := in2.(*ssa.Return); ok {
											bad = "a return at " + p.Pos(r.Pos())
											return
										}
									}
									for _, s := range x.Succs {
										if s == pos || pos.Dominates(s) {
											continue
										}
										if x != neg && !neg.Dominates(s) && !(s == neg) {
											// left the negative branch without a fallback (join, loop exit)
											if len(s.Instrs) > 0 {
												bad = "the branch is left at " + p.Pos(s.Instrs[0].Pos()) + " (loop exit or join)"
											} else {
												bad = "the branch is left without a fallback"
											}
											return
										}
										dfs(s)
									}
								}
								if len(neg.Preds) == 1 {
									dfs(neg)
								} else {
									bad = "the negative result shares its successor with other paths (no dedicated branch)"
								}
								if bad == "" {
									o.Status = core.Discharged
									o.Detail = "the branch for a negative start calls an NFA search before anything is reported"
								} else {
									o.Status = core.Violated
									o.Detail = fmt.Sprintf("the forward DFA has found a match, the reverse scan returned a negative start (it gave up) and %s is reached without asking an NFA engine: the match is reported as 'not found'", bad)
								}
								res.Obligations = append(res.Obligations, o)
							}
						}
					}
				}
			}
			return res
		},
	})
}
