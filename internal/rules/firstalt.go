package rules

import (
	"go/token"
	"strings"

	"golang.org/x/tools/go/ssa"

	"verif/internal/core"
)

func init() {
	core.Register(&core.Rule{
		Name: "R-FIRSTALT",
		Doc: "A multi-literal finder that reports a span decides between the literals of one position by pattern order, not by bucket order. In every FindMatch of package prefilter that iterates a bucket mask (a loop-carried mask reduced by clearing the examined bit), no return with a non-constant result lies inside that loop: returning at the first bucket whose literal verifies makes the lowest bucket win, and buckets are assigned round-robin, so with more literals than buckets a later alternative beats an earlier one at the same position (foo before foobar, or the reverse, depending only on their indices mod 8). The span may be returned only after every bucket of the position was examined. Find (position only) is not subject: all literals of a position share it. Necessary for C16 (a complete prefilter reports the leftmost-first match of the alternation) and C02.",
		Min: 2, NeedSSA: true,
		Run: func(p *core.Prog) *core.RuleResult {
			res := &core.RuleResult{}
			subjects, errs := candidateFinders(p)
			if errs != "" {
				res.Fatal = append(res.Fatal, errs)
				return res
			}
			kc := core.NewKeyCounter()
			for _, fn := range subjects {
				if fn.Name() != "FindMatch" || ownPkg(fn) == nil || !strings.HasSuffix(ownPkg(fn).Path(), "/prefilter") {
					continue
				}
				loops := naturalLoops(fn)
				for _, b := range fn.Blocks {
					for _, in := range b.Instrs {
						ph, ok := in.(*ssa.Phi)
						if !ok {
							continue
						}
						iter := false
						for _, e := range ph.Edges {
							if bo, ok := e.(*ssa.BinOp); ok && bo.Op == token.AND_NOT && bo.X == ssa.Value(ph) {
								iter = true
							}
						}
						if !iter {
							continue
						}
						// innermost loop with this header
						var body map[*ssa.BasicBlock]bool
						for _, l := range loops {
							if l[b] && isLoopHeaderOf(b, l) && (body == nil || len(l) < len(body)) {
								body = l
							}
						}
						if body == nil {
							continue
						}
						o := core.Obligation{Key: kc.Key("R-FIRSTALT", core.FuncName(fn), "no span is returned from inside the bucket loop"), Pos: p.Pos(ph.Pos()), Nontrivial: true, Status: core.Discharged}
						o.Detail = "the bucket loop only records; the span is returned after all buckets of the position were examined"
						// a return leaves the loop from inside if it is dominated by a body block other than the header
						// (the normal exit is taken at the header, so code after the loop is dominated by the header only)
						for _, x := range fn.Blocks {
							inside := false
							for bb := range body {
								if bb != b && (bb == x || bb.Dominates(x)) {
									inside = true
								}
							}
							if !inside {
								continue
							}
							for _, in2 := range x.Instrs {
								r, ok := in2.(*ssa.Return)
								if !ok {
									continue
								}
								for _, rv := range r.Results {
									if _, isC := rv.(*ssa.Const); !isC {
										o.Status = core.Violated
										o.Detail = "the return at " + p.Pos(r.Pos()) + " leaves the loop over the bucket mask from inside: the first bucket that verifies wins, whatever the order of the alternatives"
									}
								}
							}
						}
						res.Obligations = append(res.Obligations, o)
					}
				}
			}
			return res
		},
	})
}
