package rules

import (
	"fmt"
	"go/token"
	"go/types"
	"regexp/syntax"
	"sort"
	"strings"

	"golang.org/x/tools/go/ssa"

	"verif/internal/core"
)

func isSimpleFoldCall(in ssa.Instruction) (*ssa.Call, bool) {
	c, ok := in.(*ssa.Call)
	if !ok {
		return nil, false
	}
	cal := c.Call.StaticCallee()
	if cal == nil || cal.Name() != "SimpleFold" || cal.Pkg == nil || cal.Pkg.Pkg.Path() != "unicode" {
		return nil, false
	}
	return c, true
}

// readsFoldCaseFlag finds BinOp AND with the syntax.FoldCase constant (value 1) applied to a load of a Flags field of syntax.Regexp.
func foldCaseTests(fn *ssa.Function) []*ssa.BinOp {
	var out []*ssa.BinOp
	for _, b := range fn.Blocks {
		for _, in := range b.Instrs {
			bo, ok := in.(*ssa.BinOp)
			if !ok || bo.Op != token.AND {
				continue
			}
			c, ok := bo.Y.(*ssa.Const)
			if !ok || c.Value == nil || c.Value.String() != "1" {
				continue
			}
			n, ok := bo.Type().(*types.Named)
			if !ok || n.Obj().Name() != "Flags" || n.Obj().Pkg() == nil || n.Obj().Pkg().Path() != "regexp/syntax" {
				continue
			}
			out = append(out, bo)
		}
	}
	return out
}

func init() {
	core.Register(&core.Rule{
		Name: "R-FOLD",
		Doc: "Case folding: (1) every function that tests Flags&syntax.FoldCase on a syntax tree node and then consumes the node's runes must reach unicode.SimpleFold (directly or through module callees), unless it is a bool-valued detector or declines (its FoldCase branch returns at once): folding only ASCII letters, or only upper/lower, misses orbit members such as k/K/U+212A and is wrong for every non-ASCII letter; (2) in every fold-orbit helper (a function with a rune parameter that calls unicode.SimpleFold on it) the SimpleFold call dominates every return, i.e. no shortcut path computes the orbit without it; (3) the loop that walks the orbit exits only on the comparison with the start rune (no length cap); (4) in package literal every read of the runes of a node known to be an OpLiteral is dominated by a test of that node's FoldCase flag. Necessary for C15 (simple case folding orbits) and C17 (case-fold literal variants are necessary literals).",
		Min: 6, NeedSSA: true,
		Run: func(p *core.Prog) *core.RuleResult {
			res := &core.RuleResult{}
			cg := p.CallGraph()
			// functions that reach SimpleFold
			reach := map[*ssa.Function]bool{}
			for _, fn := range p.SrcFuncs() {
				for _, b := range fn.Blocks {
					for _, in := range b.Instrs {
						if _, ok := isSimpleFoldCall(in); ok {
							reach[fn] = true
						}
					}
				}
			}
			direct := map[*ssa.Function]bool{}
			for f := range reach {
				direct[f] = true
			}
			for changed := true; changed; {
				changed = false
				for _, fn := range p.SrcFuncs() {
					if reach[fn] {
						continue
					}
					if n := cg.Nodes[fn]; n != nil {
						for _, e := range n.Out {
							if reach[e.Callee.Func] && p.InModule(ownPkg(e.Callee.Func)) {
								reach[fn] = true
								changed = true
								break
							}
						}
					}
				}
			}
			// (1)
			var fns []*ssa.Function
			for _, fn := range p.SrcFuncs() {
				if strings.HasSuffix(p.File(fn.Pos()), "_test.go") {
					continue
				}
				if len(foldCaseTests(fn)) > 0 {
					fns = append(fns, fn)
				}
			}
			sort.Slice(fns, func(i, j int) bool { return core.FuncName(fns[i]) < core.FuncName(fns[j]) })
			for _, fn := range fns {
				o := core.Obligation{Key: "R-FOLD|" + core.FuncName(fn) + "|FoldCase consumer reaches SimpleFold", Pos: p.Pos(fn.Pos()), Nontrivial: true}
				res0 := fn.Signature.Results()
				isBool := res0.Len() == 1 && types.Identical(res0.At(0).Type().Underlying(), types.Typ[types.Bool])
				switch {
				case reach[fn]:
					o.Status = core.Discharged
					o.Detail = "reaches unicode.SimpleFold"
				case isBool:
					o.Status = core.Discharged
					o.Detail = "bool-valued detector/acceptor: uses the flag to route or decline, does not build case variants"
				case foldBranchDeclines(fn):
					o.Status = core.Discharged
					o.Detail = "the FoldCase branch returns at once (declines)"
				default:
					o.Status = core.Violated
					o.Detail = "tests Flags&syntax.FoldCase and consumes the node's runes but never reaches unicode.SimpleFold: case variants outside a hand-written table (non-ASCII letters, k/K/U+212A, s/S/U+017F) are missed"
				}
				res.Obligations = append(res.Obligations, o)
			}
			// (2)
			var helpers []string
			for _, fn := range p.SrcFuncs() {
				if !direct[fn] || strings.HasSuffix(p.File(fn.Pos()), "_test.go") {
					continue
				}
				// SimpleFold called on a rune parameter
				var first *ssa.Call
				for _, b := range fn.Blocks {
					for _, in := range b.Instrs {
						if c, ok := isSimpleFoldCall(in); ok && first == nil {
							if prm, ok := c.Call.Args[0].(*ssa.Parameter); ok && prm.Parent() == fn {
								first = c
							}
						}
					}
				}
				if first == nil {
					continue
				}
				helpers = append(helpers, core.FuncName(fn))
				o := core.Obligation{Key: "R-FOLD|" + core.FuncName(fn) + "|SimpleFold dominates every return", Pos: p.Pos(fn.Pos()), Nontrivial: true, Status: core.Discharged, Detail: "every return is dominated by the SimpleFold call on the parameter"}
				for _, b := range fn.Blocks {
					for _, in := range b.Instrs {
						if r, ok := in.(*ssa.Return); ok {
							if !(first.Block() == b || first.Block().Dominates(b)) {
								o.Status = core.Violated
								o.Detail = fmt.Sprintf("the return at %s is reachable without calling unicode.SimpleFold: a shortcut computes the fold orbit from a table and can miss members (k -> U+212A, s -> U+017F)", p.Pos(r.Pos()))
							}
						}
					}
				}
				res.Obligations = append(res.Obligations, o)
				// (3) the orbit walk stops only when it returns to the start rune
				comp, cyclic := blockSCCs(fn)
				for _, b := range fn.Blocks {
					for _, in := range b.Instrs {
						c, ok := isSimpleFoldCall(in)
						if !ok || !cyclic[comp[b.Index]] {
							continue
						}
						o3 := core.Obligation{Key: "R-FOLD|" + core.FuncName(fn) + "|orbit walk ends only at the start rune", Pos: p.Pos(c.Pos()), Nontrivial: true, Status: core.Discharged, Detail: "the only exit of the SimpleFold loop compares the walk with the start rune"}
						for _, lb := range fn.Blocks {
							if comp[lb.Index] != comp[b.Index] || len(lb.Instrs) == 0 {
								continue
							}
							iff, ok := lb.Instrs[len(lb.Instrs)-1].(*ssa.If)
							if !ok {
								continue
							}
							exits := comp[lb.Succs[0].Index] != comp[b.Index] || comp[lb.Succs[1].Index] != comp[b.Index]
							if !exits {
								continue
							}
							bo, ok := iff.Cond.(*ssa.BinOp)
							isStartCmp := ok && (bo.Op == token.NEQ || bo.Op == token.EQL) && (bo.X == ssa.Value(first.Call.Args[0]) || bo.Y == ssa.Value(first.Call.Args[0]))
							if !isStartCmp {
								o3.Status = core.Violated
								o3.Detail = fmt.Sprintf("the SimpleFold orbit loop has an exit at %s that does not test for the return to the start rune (a length cap or early stop): orbits longer than the cap lose members (theta, iota, Cyrillic te have four)", p.Pos(iff.Pos()))
							}
						}
						res.Obligations = append(res.Obligations, o3)
					}
				}
			}
			// (4) literal readers: a read of N.Rune under N.Op == OpLiteral needs a dominating test of N.Flags&FoldCase
			kc := core.NewKeyCounter()
			nLit := 0
			for _, fn := range p.SrcFuncs() {
				if strings.HasSuffix(p.File(fn.Pos()), "_test.go") {
					continue
				}
				pk := ownPkg(fn)
				if pk == nil || !strings.HasSuffix(pk.Path(), "/literal") {
					continue
				}
				fieldOf := func(v ssa.Value, name string) (ssa.Value, bool) {
					u, ok := v.(*ssa.UnOp)
					if !ok || u.Op != token.MUL {
						return nil, false
					}
					fa, ok := u.X.(*ssa.FieldAddr)
					if !ok || !isSyntaxRegexpPtr(fa.X.Type()) || fieldNameOf(fa) != name {
						return nil, false
					}
					return fa.X, true
				}
				// dominating tests per node
				type test struct {
					node ssa.Value
					blk  *ssa.BasicBlock // block whose dominance proves the test
				}
				var litTests, foldTests []test
				for _, b := range fn.Blocks {
					if len(b.Instrs) == 0 {
						continue
					}
					iff, ok := b.Instrs[len(b.Instrs)-1].(*ssa.If)
					if !ok {
						continue
					}
					bo, ok := iff.Cond.(*ssa.BinOp)
					if !ok || (bo.Op != token.EQL && bo.Op != token.NEQ) {
						continue
					}
					for _, pair := range [][2]ssa.Value{{bo.X, bo.Y}, {bo.Y, bo.X}} {
						if n, ok := fieldOf(pair[0], "Op"); ok {
							if c, ok := constInt(pair[1]); ok && c == int64(syntax.OpLiteral) {
								if bo.Op == token.EQL {
									litTests = append(litTests, test{n, b.Succs[0]})
								} else {
									litTests = append(litTests, test{n, b.Succs[1]})
								}
							}
						}
						// (N.Flags & FoldCase) != 0
						if and, ok := pair[0].(*ssa.BinOp); ok && and.Op == token.AND {
							if c, ok := constInt(and.Y); ok && c == int64(syntax.FoldCase) {
								if n, ok := fieldOf(and.X, "Flags"); ok {
									foldTests = append(foldTests, test{n, b})
								}
							}
						}
					}
				}
				for _, b := range fn.Blocks {
					for _, in := range b.Instrs {
						u, ok := in.(*ssa.UnOp)
						if !ok {
							continue
						}
						n, ok := fieldOf(u, "Rune")
						if !ok {
							continue
						}
						isLit := false
						for _, t := range litTests {
							if sameExpr(t.node, n, 0) && len(t.blk.Preds) == 1 && (t.blk == b || t.blk.Dominates(b)) {
								isLit = true
							}
						}
						if !isLit {
							continue
						}
						nLit++
						o := core.Obligation{Key: kc.Key("R-FOLD", core.FuncName(fn), "literal runes read under a FoldCase test"), Pos: p.Pos(u.Pos()), Nontrivial: true}
						ok2 := false
						for _, t := range foldTests {
							if sameExpr(t.node, n, 0) && (t.blk == b || t.blk.Dominates(b)) {
								ok2 = true
							}
						}
						if ok2 {
							o.Status = core.Discharged
							o.Detail = "the read is dominated by a test of the node's FoldCase flag"
						} else {
							o.Status = core.Violated
							o.Detail = "the runes of an OpLiteral node are turned into literal bytes without looking at the node's FoldCase flag: for (?i:foo) the parser stores one spelling (FOO), so the extracted literal is required verbatim and every other spelling of a real match is rejected"
						}
						res.Obligations = append(res.Obligations, o)
					}
				}
			}
			res.Notes = append(res.Notes, fmt.Sprintf("FoldCase consumers: %d; fold-orbit helpers: %v", len(fns), helpers))
			return res
		},
	})
}

// foldBranchDeclines: some If on a FoldCase test has a successor block that returns without any call.
func foldBranchDeclines(fn *ssa.Function) bool {
	tests := map[ssa.Value]bool{}
	for _, t := range foldCaseTests(fn) {
		tests[t] = true
	}
	dependsOnTest := func(v ssa.Value) bool {
		for i := 0; i < 4; i++ {
			if tests[v] {
				return true
			}
			switch x := v.(type) {
			case *ssa.BinOp:
				if tests[x.X] || tests[x.Y] {
					return true
				}
				v = x.X
			case *ssa.UnOp:
				v = x.X
			default:
				return false
			}
		}
		return false
	}
	for _, b := range fn.Blocks {
		if len(b.Instrs) == 0 {
			continue
		}
		iff, ok := b.Instrs[len(b.Instrs)-1].(*ssa.If)
		if !ok || !dependsOnTest(iff.Cond) {
			continue
		}
		for _, s := range b.Succs {
			onlyRet := false
			for _, in := range s.Instrs {
				switch in.(type) {
				case *ssa.Return:
					onlyRet = true
				case *ssa.Call:
					onlyRet = false
				}
			}
			if onlyRet && len(s.Instrs) <= 3 {
				return true
			}
		}
	}
	return false
}
