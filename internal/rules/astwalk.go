package rules

import (
	"fmt"
	"go/ast"
	"go/token"
	"go/types"
	"sort"
	"strings"

	"golang.org/x/tools/go/packages"

	"verif/internal/core"
)

var opsWithChildren = []string{"OpCapture", "OpStar", "OpPlus", "OpQuest", "OpRepeat", "OpConcat", "OpAlternate"}

func isSyntaxRegexpPtr(t types.Type) bool {
	pt, ok := t.(*types.Pointer)
	if !ok {
		return false
	}
	n, ok := pt.Elem().(*types.Named)
	return ok && n.Obj().Name() == "Regexp" && n.Obj().Pkg() != nil && n.Obj().Pkg().Path() == "regexp/syntax"
}

type detector struct {
	pkg   *packages.Package
	fd    *ast.FuncDecl
	obj   *types.Func
	param *types.Var // the *syntax.Regexp parameter
}

// findDetectors returns self-recursive func(*syntax.Regexp[, ...]) bool functions of existential shape:
// last statement `return false`, and every self call is used as `if f(x) { return true }`, `return f(x)` or in a || chain.
func findDetectors(p *core.Prog) (dets []*detector, skipped []string) {
	for _, pk := range p.Pkgs {
		for _, f := range pk.Syntax {
			if strings.HasSuffix(p.Fset.Position(f.Pos()).Filename, "_test.go") {
				continue
			}
			for _, d := range f.Decls {
				fd, ok := d.(*ast.FuncDecl)
				if !ok || fd.Body == nil {
					continue
				}
				obj, _ := pk.TypesInfo.Defs[fd.Name].(*types.Func)
				if obj == nil {
					continue
				}
				sig := obj.Type().(*types.Signature)
				if sig.Results().Len() != 1 {
					continue
				}
				if b, ok := sig.Results().At(0).Type().Underlying().(*types.Basic); !ok || b.Kind() != types.Bool {
					continue
				}
				var prm *types.Var
				for i := 0; i < sig.Params().Len(); i++ {
					if isSyntaxRegexpPtr(sig.Params().At(i).Type()) {
						prm = sig.Params().At(i)
						break
					}
				}
				if prm == nil {
					continue
				}
				// self-recursive?
				selfCalls := 0
				ast.Inspect(fd.Body, func(n ast.Node) bool {
					if c, ok := n.(*ast.CallExpr); ok {
						if calleeObj(pk, c) == obj {
							selfCalls++
						}
					}
					return true
				})
				if selfCalls == 0 {
					continue
				}
				// last statement return false
				n := len(fd.Body.List)
				if n == 0 {
					continue
				}
				rs, ok := fd.Body.List[n-1].(*ast.ReturnStmt)
				if !ok || len(rs.Results) != 1 || !isIdentNamed(rs.Results[0], "false") {
					skipped = append(skipped, core.ObjName(obj)+" (does not end in return false: acceptor/universal shape)")
					continue
				}
				// existential use of recursion
				okShape := true
				var check func(n ast.Node, parents []ast.Node) bool
				var stack []ast.Node
				ast.Inspect(fd.Body, func(n ast.Node) bool {
					if n == nil {
						stack = stack[:len(stack)-1]
						return true
					}
					stack = append(stack, n)
					if c, ok := n.(*ast.CallExpr); ok && calleeObj(pk, c) == obj {
						if !existentialUse(stack) {
							okShape = false
						}
					}
					return true
				})
				_ = check
				if !okShape {
					skipped = append(skipped, core.ObjName(obj)+" (recursive result not used existentially)")
					continue
				}
				dets = append(dets, &detector{pkg: pk, fd: fd, obj: obj, param: prm})
			}
		}
	}
	sort.Slice(dets, func(i, j int) bool { return core.ObjName(dets[i].obj) < core.ObjName(dets[j].obj) })
	sort.Strings(skipped)
	return
}

func calleeObj(pk *packages.Package, c *ast.CallExpr) types.Object {
	switch f := c.Fun.(type) {
	case *ast.Ident:
		return pk.TypesInfo.Uses[f]
	case *ast.SelectorExpr:
		return pk.TypesInfo.Uses[f.Sel]
	}
	return nil
}

func isIdentNamed(e ast.Expr, name string) bool {
	id, ok := e.(*ast.Ident)
	return ok && id.Name == name
}

// existentialUse: the call (top of stack) is the condition (possibly within ||) of an if whose body returns true,
// or is returned directly (possibly within ||).
func existentialUse(stack []ast.Node) bool {
	i := len(stack) - 1
	// climb through parens and || chains
	for i > 0 {
		switch p := stack[i-1].(type) {
		case *ast.ParenExpr:
			i--
			continue
		case *ast.BinaryExpr:
			if p.Op == token.LOR {
				i--
				continue
			}
			return false
		}
		break
	}
	if i == 0 {
		return false
	}
	switch p := stack[i-1].(type) {
	case *ast.ReturnStmt:
		return true
	case *ast.IfStmt:
		if p.Cond != stack[i] {
			return false
		}
		if len(p.Body.List) == 0 {
			return false
		}
		r, ok := p.Body.List[len(p.Body.List)-1].(*ast.ReturnStmt)
		return ok && len(r.Results) == 1 && isIdentNamed(r.Results[0], "true")
	}
	return false
}

// childCoverage computes, for a detector, how each operator with children reaches a recursive call.
// result: op -> "all" (every element of Sub), "first" (Sub[0] only), "" (none)
func childCoverage(d *detector) (cov map[string]string, explicitLeaf map[string]bool) {
	cov = map[string]string{}
	explicitLeaf = map[string]bool{}
	pk := d.pkg
	isParamSel := func(e ast.Expr, field string) bool {
		se, ok := e.(*ast.SelectorExpr)
		if !ok || se.Sel.Name != field {
			return false
		}
		id, ok := se.X.(*ast.Ident)
		return ok && pk.TypesInfo.Uses[id] == d.param
	}
	// kind of recursion inside a statement list: "all" if a range over param.Sub contains a self call on the
	// range variable; "first" if a self call has argument param.Sub[0]
	recKind := func(stmts []ast.Stmt) string {
		kind := ""
		for _, s := range stmts {
			ast.Inspect(s, func(n ast.Node) bool {
				switch x := n.(type) {
				case *ast.RangeStmt:
					if isParamSel(x.X, "Sub") {
						found := false
						ast.Inspect(x.Body, func(m ast.Node) bool {
							if c, ok := m.(*ast.CallExpr); ok && calleeObj(pk, c) == d.obj {
								found = true
							}
							return true
						})
						if found {
							kind = "all"
						}
					}
				case *ast.CallExpr:
					if calleeObj(pk, x) == d.obj && kind == "" {
						for _, a := range x.Args {
							if ie, ok := a.(*ast.IndexExpr); ok && isParamSel(ie.X, "Sub") {
								kind = "first"
							}
						}
					}
				}
				return true
			})
		}
		return kind
	}
	opNames := func(exprs []ast.Expr) []string {
		var out []string
		for _, e := range exprs {
			if se, ok := e.(*ast.SelectorExpr); ok {
				out = append(out, se.Sel.Name)
			}
		}
		return out
	}
	better := func(op, k string) {
		if k == "all" || (k == "first" && cov[op] == "") {
			cov[op] = k
		}
	}
	for _, st := range d.fd.Body.List {
		switch x := st.(type) {
		case *ast.SwitchStmt:
			if x.Tag == nil || !isParamSel(x.Tag, "Op") {
				continue
			}
			for _, cs := range x.Body.List {
				cc := cs.(*ast.CaseClause)
				k := recKind(cc.Body)
				for _, op := range opNames(cc.List) {
					if k != "" {
						better(op, k)
					} else {
						explicitLeaf[op] = true
					}
				}
				if cc.List == nil && k != "" {
					for _, op := range opsWithChildren {
						if cov[op] == "" && !explicitLeaf[op] {
							better(op, k)
						}
					}
				}
			}
		case *ast.RangeStmt, *ast.ForStmt:
			if k := recKind([]ast.Stmt{st}); k != "" {
				for _, op := range opsWithChildren {
					better(op, k)
				}
			}
		case *ast.IfStmt:
			// if re.Op == X || re.Op == Y { ... recursion ... }  or a guard-free recursion inside an if on len(re.Sub)
			ops := condOps(x.Cond, isParamSel)
			k := recKind(x.Body.List)
			if k == "" {
				continue
			}
			if len(ops) == 0 {
				for _, op := range opsWithChildren {
					better(op, k)
				}
			} else {
				for _, op := range ops {
					better(op, k)
				}
			}
		}
	}
	return
}

func condOps(e ast.Expr, isParamSel func(ast.Expr, string) bool) []string {
	switch x := e.(type) {
	case *ast.ParenExpr:
		return condOps(x.X, isParamSel)
	case *ast.BinaryExpr:
		switch x.Op {
		case token.LOR, token.LAND:
			return append(condOps(x.X, isParamSel), condOps(x.Y, isParamSel)...)
		case token.EQL:
			if isParamSel(x.X, "Op") {
				if se, ok := x.Y.(*ast.SelectorExpr); ok {
					return []string{se.Sel.Name}
				}
			}
		}
	}
	return nil
}

func init() {
	core.Register(&core.Rule{
		Name: "R-ASTWALK",
		Doc: "Existential detectors over the syntax tree (self-recursive func(*syntax.Regexp) bool that end in `return false` and use their recursive result only as `if f(sub) { return true }` / `return f(sub)`: hasWordBoundary, containsAnchor, hasNonGreedyQuantifier, hasAnchorAssertions, ...) must reach a recursive call for each of the seven operators that have children: on every element of re.Sub for OpConcat/OpAlternate, on re.Sub[0] (or every element) for OpCapture/OpStar/OpPlus/OpQuest/OpRepeat. Necessary for C19/C02/C10: a detector that skips an operator lets e.g. (\\bfoo){2}.*bar into a strategy that cannot express \\b.",
		Min: 70,
		Run: func(p *core.Prog) *core.RuleResult {
			res := &core.RuleResult{}
			dets, skipped := findDetectors(p)
			var names, positional []string
			for _, d := range dets {
				names = append(names, core.ObjName(d.obj))
				cov, leaf := childCoverage(d)
				// positional predicates (recursing into a concatenation at a fixed child index: "starts with", "ends with") are not
				// contains-detectors; they are listed but not subject to the rule
				ranged := cov["OpConcat"] == "all"
				if !ranged {
					positional = append(positional, core.ObjName(d.obj))
					continue
				}
				for _, op := range opsWithChildren {
					o := core.Obligation{Key: "R-ASTWALK|" + core.ObjName(d.obj) + "|descends into " + op, Pos: p.Pos(d.fd.Pos()), Nontrivial: true}
					k := cov[op]
					multi := op == "OpConcat" || op == "OpAlternate"
					switch {
					case k == "all", k == "first" && !multi:
						o.Status = core.Discharged
						o.Detail = "recursion reaches " + map[string]string{"all": "every element of re.Sub", "first": "re.Sub[0]"}[k]
					case k == "first" && multi:
						o.Status = core.Violated
						o.Detail = "only the first child of " + op + " is inspected: an occurrence in a later element is missed"
					case leaf[op]:
						o.Status = core.Discharged
						o.Detail = op + " is handled explicitly as a leaf by its own case clause (deliberate)"
					default:
						o.Status = core.Violated
						o.Detail = "no recursive call is reachable for " + op + ": an occurrence below such a node is missed"
					}
					res.Obligations = append(res.Obligations, o)
				}
			}
			// reference instances confirmed by reading the pinned tree: a function of this list that still exists must
			// still be a full-traversal detector (a rewrite to positional/partial recursion would otherwise drop out silently)
			subject := map[string]bool{}
			for _, o := range res.Obligations {
				parts := strings.Split(o.Key, "|")
				subject[parts[1]] = true
			}
			for _, want := range confirmedDetectors {
				if subject[want] {
					continue
				}
				pkgRel, fn, _ := strings.Cut(want, ".")
				if obj := p.LookupFunc(pkgRel, fn); obj != nil {
					res.Obligations = append(res.Obligations, core.Obligation{Key: "R-ASTWALK|" + want + "|is a full-traversal detector", Pos: p.Pos(obj.Pos()), Status: core.Violated, Nontrivial: true,
						Detail: want + " was a contains-detector over the whole syntax tree on the reference tree but no longer recurses into every element of a concatenation / no longer has existential shape"})
				} else {
					res.Notes = append(res.Notes, "reference detector "+want+" no longer exists (renamed or removed)")
				}
			}
			res.Notes = append(res.Notes, fmt.Sprintf("existential detectors (%d): %v", len(names), names))
			res.Notes = append(res.Notes, fmt.Sprintf("positional predicates (recursion on a fixed child only; not subject to this rule): %v", positional))
			res.Notes = append(res.Notes, fmt.Sprintf("self-recursive bool functions over *syntax.Regexp not of existential shape (not subject to this rule): %v", skipped))
			return res
		},
	})
}

// confirmedDetectors: contains-detectors confirmed by reading the pinned tree (module-relative package "." name).
var confirmedDetectors = []string{
	"meta.hasWordBoundary", "meta.containsAnchor", "meta.hasNonGreedyQuantifier", "meta.hasAnchorAssertions",
	"meta.hasMultilineLineAnchor", "meta.hasNonLineAnchors", "meta.hasCaseInsensitiveUnicode", "meta.containsWildcard",
	"nfa.ContainsDot", "nfa.PatternHasUTF8Dependence", "nfa.containsEndAnchor", "nfa.containsStartAnchor",
}
