package rules

import (
	"strings"

	"golang.org/x/tools/go/ssa"

	"verif/internal/core"
)

// regexpFieldOrigin: the *syntax.Regexp value v is an element of field Sub or Sub0 of another node.
func regexpFieldOrigin(v ssa.Value, depth int) string {
	if depth > 6 {
		return ""
	}
	switch x := v.(type) {
	case *ssa.UnOp:
		if ia, ok := x.X.(*ssa.IndexAddr); ok {
			// element of a slice loaded from a field, or of an array field
			switch b := ia.X.(type) {
			case *ssa.UnOp:
				if fa, ok := b.X.(*ssa.FieldAddr); ok && isSyntaxRegexpPtr(fa.X.Type()) {
					return fieldNameOf(fa)
				}
			case *ssa.FieldAddr:
				if isSyntaxRegexpPtr(b.X.Type()) {
					return fieldNameOf(b)
				}
			}
		}
	case *ssa.Extract:
		// range over a slice: Next(tuple) ... not used for slices in go/ssa (index form), ignore
	case *ssa.Phi:
		for _, e := range x.Edges {
			if o := regexpFieldOrigin(e, depth+1); o != "" {
				return o
			}
		}
	}
	return ""
}

func init() {
	core.Register(&core.Rule{
		Name: "R-ASTREC",
		Doc: "Recursion over the syntax tree descends through Sub only: in every recursive function of the module with a *syntax.Regexp parameter, a recursive call whose node argument is an element of a node's children must take it from the Sub field. Sub0 is the parser's inline backing array for short Sub slices; after simplification it can hold stale pointers (to nodes that are no longer children, including ancestors), so following it is not structural: the recursion is no longer bounded by the nesting limit and can cycle until the goroutine stack is exhausted - a fatal error recover() cannot catch, raised by Compile on a pattern regexp accepts. Necessary for C09 (Compile accepts what regexp accepts) and C07 (no crash).",
		Min: 40, NeedSSA: true,
		Run: func(p *core.Prog) *core.RuleResult {
			res := &core.RuleResult{}
			kc := core.NewKeyCounter()
			cg := p.CallGraph()
			// functions with a Regexp parameter
			hasRe := func(f *ssa.Function) bool {
				for _, prm := range f.Params {
					if isSyntaxRegexpPtr(prm.Type()) {
						return true
					}
				}
				return false
			}
			fns := map[*ssa.Function]bool{}
			for _, f := range p.SrcFuncs() {
				if !strings.HasSuffix(p.File(f.Pos()), "_test.go") && hasRe(f) && p.InModule(ownPkg(f)) {
					fns[f] = true
				}
			}
			for _, scc := range funcSCCs(p, fns) {
				in := map[*ssa.Function]bool{}
				for _, f := range scc {
					in[f] = true
				}
				for _, f := range scc {
					n := cg.Nodes[f]
					if n == nil {
						continue
					}
					seen := map[ssa.CallInstruction]bool{}
					for _, e := range n.Out {
						if !in[e.Callee.Func] || e.Site == nil || seen[e.Site] {
							continue
						}
						seen[e.Site] = true
						for _, a := range e.Site.Common().Args {
							if !isSyntaxRegexpPtr(a.Type()) {
								continue
							}
							origin := regexpFieldOrigin(a, 0)
							if origin == "" {
								continue
							}
							o := core.Obligation{Key: kc.Key("R-ASTREC", core.FuncName(f), "recursive call on an element of "+origin), Pos: p.Pos(e.Site.Pos()), Nontrivial: true}
							if origin == "Sub" {
								o.Status = core.Discharged
								o.Detail = "descends to a child taken from Sub"
							} else {
								o.Status = core.Violated
								o.Detail = "the recursion follows " + origin + ", the inline backing array of Sub: its entries are not the node's children once the parser has simplified the tree (stale pointers, possibly to an ancestor), so the descent can cycle and overflow the stack"
							}
							res.Obligations = append(res.Obligations, o)
						}
					}
				}
			}
			return res
		},
	})
}
