package rules

import (
	"fmt"
	"sort"
	"strings"

	"golang.org/x/tools/go/ssa"

	"verif/internal/core"
)

// childIndex: the *syntax.Regexp value v is element i of a node's Sub (possibly of a re-slice Sub[lo:]): returns the
// constant index (konst=true) or the loop's first index (konst=false), both counted from Sub[0]; ok=false if v is not
// recognisably a child.
func childIndex(v ssa.Value) (idx int64, konst bool, ok bool) {
	ld, isLd := v.(*ssa.UnOp)
	if !isLd {
		return 0, false, false
	}
	ia, isIA := ld.X.(*ssa.IndexAddr)
	if !isIA {
		return 0, false, false
	}
	// base: load of re.Sub, possibly re-sliced with a constant low bound
	base := ia.X
	lo := int64(0)
	for d := 0; d < 3; d++ {
		sl, isSl := base.(*ssa.Slice)
		if !isSl {
			break
		}
		if sl.Low != nil {
			k, isK := constInt(sl.Low)
			if !isK {
				return 0, false, false
			}
			lo += k
		}
		base = sl.X
	}
	bl, isBl := base.(*ssa.UnOp)
	if !isBl {
		return 0, false, false
	}
	fa, isFA := bl.X.(*ssa.FieldAddr)
	if !isFA || !isSyntaxRegexpPtr(fa.X.Type()) || fieldNameOf(fa) != "Sub" {
		return 0, false, false
	}
	if k, isK := constInt(ia.Index); isK {
		return lo + k, true, true
	}
	// a loop index: a phi whose entry edge is a constant (for i := s; ...; i++ / range: -1 + 1)
	start := int64(0)
	found := false
	var walk func(x ssa.Value, add int64, d int)
	walk = func(x ssa.Value, add int64, d int) {
		if d > 4 || found {
			return
		}
		switch y := x.(type) {
		case *ssa.Phi:
			for i, e := range y.Edges {
				pred := y.Block().Preds[i]
				if y.Block().Dominates(pred) {
					continue // back edge
				}
				if k, isK := constInt(e); isK {
					start, found = k+add, true
				}
			}
		case *ssa.BinOp:
			if k, isK := constInt(y.Y); isK && y.Op.String() == "+" {
				walk(y.X, add+k, d+1)
			}
		}
	}
	walk(ia.Index, 0, 0)
	if !found {
		return 0, false, false
	}
	return lo + start, false, true
}

func init() {
	core.Register(&core.Rule{
		Name: "R-ASTONCE",
		Doc: "A recursive walk over the syntax tree visits a child once per level. In every function of the module with a *syntax.Regexp parameter that calls itself, two self-calls that lie on one path (the block of one reaches the block of the other) must not cover the same child: a call on Sub[k] with a constant k together with a call inside a loop over Sub that starts at or below k, or two such loops over the same children. Visiting a child twice at every level makes the walk exponential in the nesting depth (the parser allows 1000 levels): `((((...(a)...))))` of depth 40 already needs 2^40 calls, at compile time, for a predicate that regexp does not even have. Calls on different paths (clauses of a switch over the operator) are not counted. Necessary for C05 (compilation completes in time polynomial in the pattern length).",
		Min: 20, NeedSSA: true,
		Run: func(p *core.Prog) *core.RuleResult {
			res := &core.RuleResult{}
			kc := core.NewKeyCounter()
			var fns []*ssa.Function
			for _, f := range p.SrcFuncs() {
				if strings.HasSuffix(p.File(f.Pos()), "_test.go") || !p.InModule(ownPkg(f)) {
					continue
				}
				for _, prm := range f.Params {
					if isSyntaxRegexpPtr(prm.Type()) {
						fns = append(fns, f)
						break
					}
				}
			}
			sort.Slice(fns, func(i, j int) bool { return core.FuncName(fns[i]) < core.FuncName(fns[j]) })
			for _, f := range fns {
				type site struct {
					call  ssa.CallInstruction
					idx   int64
					konst bool
				}
				var sites []site
				for _, b := range f.Blocks {
					for _, in := range b.Instrs {
						c, ok := in.(ssa.CallInstruction)
						if !ok || c.Common().StaticCallee() != f {
							continue
						}
						for _, a := range c.Common().Args {
							if !isSyntaxRegexpPtr(a.Type()) {
								continue
							}
							if idx, k, ok := childIndex(a); ok {
								sites = append(sites, site{c, idx, k})
							}
						}
					}
				}
				if len(sites) == 0 {
					continue
				}
				o := core.Obligation{Key: kc.Key("R-ASTONCE", core.FuncName(f), "each child is visited by one self-call per path"), Pos: p.Pos(f.Pos()), Nontrivial: true, Status: core.Discharged}
				o.Detail = fmt.Sprintf("%d self-call(s) on children; no two on one path cover the same child", len(sites))
				for i, a := range sites {
					for j, b := range sites {
						if i >= j || o.Status == core.Violated {
							continue
						}
						ba, bb := a.call.Block(), b.call.Block()
						onePath := ba == bb || blockReaches(ba, bb) || blockReaches(bb, ba)
						if !onePath {
							continue
						}
						overlap := false
						switch {
						case a.konst && b.konst:
							overlap = a.idx == b.idx && ba != bb // the same child named twice in sequence
							if ba == bb && a.idx == b.idx {
								overlap = true
							}
						case a.konst && !b.konst:
							overlap = a.idx >= b.idx
						case !a.konst && b.konst:
							overlap = b.idx >= a.idx
						default:
							overlap = ba != bb // two loops over the children, one after the other
						}
						// a loop's own back edge makes its block reach itself: one call site is not two visits
						if a.call == b.call {
							overlap = false
						}
						if overlap {
							o.Status = core.Violated
							o.Detail = fmt.Sprintf("the self-calls at %s and %s lie on one path and both cover child %d of the node: the walk visits it twice at every level, 2^depth calls for nested groups", p.Pos(a.call.Pos()), p.Pos(b.call.Pos()), maxI64(a.idx, b.idx))
						}
					}
				}
				res.Obligations = append(res.Obligations, o)
			}
			return res
		},
	})
}

func maxI64(a, b int64) int64 {
	if a > b {
		return a
	}
	return b
}
