package rules

import (
	"fmt"
	"go/token"
	"go/types"
	"sort"
	"strings"

	"golang.org/x/tools/go/ssa"

	"verif/internal/core"
)

func isSearchStatePtr(t types.Type) bool {
	pt, ok := t.(*types.Pointer)
	if !ok {
		return false
	}
	n, ok := pt.Elem().(*types.Named)
	return ok && n.Obj().Name() == "SearchState" && n.Obj().Pkg() != nil && strings.HasSuffix(n.Obj().Pkg().Path(), "/meta")
}

// variadicStateParam: index of a parameter of type ...*SearchState, or -1.
func variadicStateParam(g *ssa.Function) int {
	if !g.Signature.Variadic() {
		return -1
	}
	n := g.Signature.Params().Len()
	last := g.Signature.Params().At(n - 1).Type()
	if sl, ok := last.(*types.Slice); ok && isSearchStatePtr(sl.Elem()) {
		idx := n - 1
		if g.Signature.Recv() != nil {
			idx++
		}
		return idx
	}
	return -1
}

func hasStateParam(g *ssa.Function) bool {
	for _, prm := range g.Params {
		if isSearchStatePtr(prm.Type()) {
			return true
		}
	}
	return false
}

// underNilTest: block b is dominated by the 'is nil' edge of a branch that tests exactly one value for nil, and that
// value is (a) a load of a field of the receiver (a component that was not built: the fallback of a strategy whose
// searcher is missing) when what == "component", or (b) the given value when what == "value".
func underNilTest(b *ssa.BasicBlock, what string, val ssa.Value) bool {
	for d := b; d != nil; d = d.Idom() {
		id := d.Idom()
		if id == nil || len(id.Instrs) == 0 || len(d.Preds) != 1 {
			continue
		}
		iff, ok := id.Instrs[len(id.Instrs)-1].(*ssa.If)
		if !ok {
			continue
		}
		bo, ok := iff.Cond.(*ssa.BinOp)
		if !ok || (bo.Op != token.EQL && bo.Op != token.NEQ) {
			continue
		}
		var x ssa.Value
		if k, ok := bo.Y.(*ssa.Const); ok && k.Value == nil {
			x = bo.X
		} else if k, ok := bo.X.(*ssa.Const); ok && k.Value == nil {
			x = bo.Y
		} else {
			continue
		}
		nilEdge := (bo.Op == token.EQL) == (id.Succs[0] == d)
		if !nilEdge {
			continue
		}
		switch what {
		case "value":
			if x == val {
				return true
			}
		case "component":
			if ld, ok := x.(*ssa.UnOp); ok {
				if fa, ok := ld.X.(*ssa.FieldAddr); ok {
					if _, isParam := fa.X.(*ssa.Parameter); isParam {
						return true
					}
				}
			}
		}
	}
	return false
}

func init() {
	core.Register(&core.Rule{
		Name: "R-NESTEDSTATE",
		Doc: "A search that holds the per-search state does not take a second one. Package meta: the getter of pooled state is (*Engine).getSearchState (single GC-proof slot, then sync.Pool). 'Acquires' is computed over static calls: a function acquires if it calls the getter, or calls an acquiring function that has no *SearchState parameter of its own (a function with such a parameter works on the state it is given; a function with a variadic ...*SearchState acquires only when called without one; a call made only where a component field of the receiver is nil - the fallback for a searcher that was not built - is not a path of a working engine and does not count). In every function that was handed a state (a *SearchState parameter), no call reaches an acquisition: a callee with a variadic state parameter is given the state, and no acquiring callee without a state parameter is called, except where the function's own state parameter is nil (it holds nothing). A nested acquisition finds the single slot empty, takes a second full SearchState from the pool, and the two swap places between slot and pool on every call: results are unchanged, but the pooled one is dropped at each GC and rebuilt (for the bounded backtracker: a 64 MB visited table per rebuild) - the zero-allocation and bounded-heap clauses of C20 (seed C20-18: the optional state argument dropped in one call).",
		Min: 1, NeedSSA: true,
		Run: func(p *core.Prog) *core.RuleResult {
			res := &core.RuleResult{}
			kc := core.NewKeyCounter()
			pk := p.SSAPkg("meta")
			if pk == nil {
				res.Fatal = append(res.Fatal, "package meta not found")
				return res
			}
			var getter *ssa.Function
			var fns []*ssa.Function
			for _, fn := range p.SrcFuncs() {
				if fn.Pkg != pk || strings.HasSuffix(p.File(fn.Pos()), "_test.go") {
					continue
				}
				fns = append(fns, fn)
				if fn.Name() == "getSearchState" && fn.Signature.Recv() != nil {
					getter = fn
				}
			}
			if getter == nil {
				res.Fatal = append(res.Fatal, "(*meta.Engine).getSearchState not found")
				return res
			}
			sort.Slice(fns, func(i, j int) bool { return core.FuncName(fns[i]) < core.FuncName(fns[j]) })
			// passesState: the call hands a state to g's variadic parameter
			passesState := func(c ssa.CallInstruction, g *ssa.Function) bool {
				vi := variadicStateParam(g)
				if vi < 0 || vi >= len(c.Common().Args) {
					return false
				}
				a := c.Common().Args[vi]
				if k, ok := a.(*ssa.Const); ok && k.Value == nil {
					return false // nil slice: called without a state
				}
				return true
			}
			acquires := map[*ssa.Function]bool{getter: true}
			for changed := true; changed; {
				changed = false
				for _, fn := range fns {
					if acquires[fn] {
						continue
					}
					for _, b := range fn.Blocks {
						for _, in := range b.Instrs {
							c, ok := in.(ssa.CallInstruction)
							if !ok {
								continue
							}
							g := c.Common().StaticCallee()
							if g == nil || !acquires[g] {
								continue
							}
							if g != getter && hasStateParam(g) && variadicStateParam(g) < 0 {
								continue // works on the state it is given; its own body is examined as a holder
							}
							if variadicStateParam(g) >= 0 && passesState(c, g) {
								continue
							}
							if underNilTest(b, "component", nil) {
								continue // the strategy's searcher was not built: not a path of a working engine
							}
							acquires[fn] = true
							changed = true
						}
					}
				}
			}
			var acq []string
			for f := range acquires {
				acq = append(acq, core.FuncName(f))
			}
			sort.Strings(acq)
			res.Notes = append(res.Notes, fmt.Sprintf("acquiring functions (%d): %s", len(acq), strings.Join(acq, ", ")))
			for _, fn := range fns {
				if !hasStateParam(fn) || variadicStateParam(fn) >= 0 || fn.Name() == "putSearchState" {
					continue
				}
				for _, b := range fn.Blocks {
					for _, in := range b.Instrs {
						c, ok := in.(ssa.CallInstruction)
						if !ok {
							continue
						}
						g := c.Common().StaticCallee()
						if g == nil || g.Pkg != pk {
							continue
						}
						vi := variadicStateParam(g)
						if !acquires[g] && vi < 0 {
							continue
						}
						if g != getter && hasStateParam(g) && vi < 0 {
							continue
						}
						holdsNone := false
						for _, prm := range fn.Params {
							if isSearchStatePtr(prm.Type()) && underNilTest(b, "value", prm) {
								holdsNone = true
							}
						}
						if holdsNone || underNilTest(b, "component", nil) {
							continue
						}
						o := core.Obligation{Key: kc.Key("R-NESTEDSTATE", core.FuncName(fn), "call of "+core.FuncName(g)+" while holding a state"), Pos: p.Pos(in.Pos()), Nontrivial: true}
						switch {
						case vi >= 0 && passesState(c, g):
							o.Status = core.Discharged
							o.Detail = "the held state is handed to the callee's optional state parameter"
						case vi >= 0:
							o.Status = core.Violated
							o.Detail = core.FuncName(g) + " takes an optional state and acquires one of its own when called without: the caller holds a state and does not pass it, so every call takes a second SearchState from the pool"
						default:
							o.Status = core.Violated
							o.Detail = core.FuncName(g) + " acquires a SearchState (directly or through callees) and the caller already holds one: nested acquisition"
						}
						res.Obligations = append(res.Obligations, o)
					}
				}
			}
			return res
		},
	})
}
