package rules

import (
	"fmt"
	"go/token"
	"go/types"
	"sort"
	"strings"

	"golang.org/x/tools/go/ssa"

	"verif/internal/core"
)

// R-GATE: a literal sequence that may have lost alternatives (partial coverage) must never become a
// prefilter (a miss of such a prefilter proves nothing) or a verification literal.

type seqOrigin struct {
	desc    string
	partial bool // may carry partialCoverage = true
	unknown bool
}

type gateCtx struct {
	p          *core.Prog
	mayPartial map[*ssa.Function]bool
	litPkg     *ssa.Package
}

func isSeqPtr(t types.Type) bool {
	pt, ok := t.Underlying().(*types.Pointer)
	if !ok {
		return false
	}
	n := namedOfType(pt.Elem())
	return n != nil && n.Obj().Name() == "Seq" && n.Obj().Pkg() != nil && strings.HasSuffix(n.Obj().Pkg().Path(), "/literal")
}

// computeMayPartial: functions of package literal that can hand out a Seq with partialCoverage set.
func (g *gateCtx) computeMayPartial() {
	g.mayPartial = map[*ssa.Function]bool{}
	cgr := g.p.CallGraph()
	for _, fn := range g.p.SrcFuncs() {
		if fn.Pkg != g.litPkg {
			continue
		}
		for _, b := range fn.Blocks {
			for _, in := range b.Instrs {
				if st, ok := in.(*ssa.Store); ok {
					if _, ok := isNamedStructField(st.Addr, "Seq", "partialCoverage"); ok {
						if v, known := evalBool(st.Val, nil); !known || v {
							g.mayPartial[fn] = true
						}
					}
				}
				// composite literal &Seq{partialCoverage: x}
			}
		}
	}
	for changed := true; changed; {
		changed = false
		for _, fn := range g.p.SrcFuncs() {
			if fn.Pkg != g.litPkg || g.mayPartial[fn] {
				continue
			}
			if n := cgr.Nodes[fn]; n != nil {
				for _, e := range n.Out {
					if g.mayPartial[e.Callee.Func] {
						g.mayPartial[fn] = true
						changed = true
						break
					}
				}
			}
		}
	}
}

// guardedNotPartial: instruction `at` in block b is dominated by the false edge of v.IsPartialCoverage().
func guardedNotPartial(v ssa.Value, b *ssa.BasicBlock) bool {
	fn := b.Parent()
	for _, blk := range fn.Blocks {
		if len(blk.Instrs) == 0 {
			continue
		}
		iff, ok := blk.Instrs[len(blk.Instrs)-1].(*ssa.If)
		if !ok {
			continue
		}
		cond := iff.Cond
		neg := false
		if u, ok := cond.(*ssa.UnOp); ok && u.Op == token.NOT {
			cond = u.X
			neg = true
		}
		c, ok := cond.(*ssa.Call)
		if !ok {
			continue
		}
		cal := c.Call.StaticCallee()
		if cal == nil || cal.Name() != "IsPartialCoverage" || len(c.Call.Args) == 0 || c.Call.Args[0] != v {
			continue
		}
		safe := blk.Succs[1] // condition false => not partial
		if neg {
			safe = blk.Succs[0]
		}
		if len(safe.Preds) == 1 && (safe == b || safe.Dominates(b)) {
			return true
		}
	}
	return false
}

// origins traces where a *literal.Seq value comes from; guard=true stops the trace (value proven not partial here).
func (g *gateCtx) origins(v ssa.Value, useBlock *ssa.BasicBlock, depth int, seen map[ssa.Value]bool, out *[]seqOrigin) {
	if seen[v] {
		return
	}
	seen[v] = true
	if guardedNotPartial(v, useBlock) {
		*out = append(*out, seqOrigin{desc: "guarded by !IsPartialCoverage() in " + core.FuncName(useBlock.Parent())})
		return
	}
	if depth > 5 {
		*out = append(*out, seqOrigin{desc: "trace depth exceeded", unknown: true})
		return
	}
	switch x := v.(type) {
	case *ssa.Const:
		*out = append(*out, seqOrigin{desc: "nil"})
	case *ssa.Call:
		cal := x.Call.StaticCallee()
		if cal == nil {
			*out = append(*out, seqOrigin{desc: "dynamic call", unknown: true})
			return
		}
		if cal.Pkg == g.litPkg {
			if cal.Name() == "NewSeq" {
				*out = append(*out, seqOrigin{desc: "fresh NewSeq(...)"})
				return
			}
			*out = append(*out, seqOrigin{desc: "literal." + cal.Name() + "()", partial: g.mayPartial[cal]})
			return
		}
		*out = append(*out, seqOrigin{desc: "result of " + core.FuncName(cal), unknown: true})
	case *ssa.Phi:
		for _, e := range x.Edges {
			g.origins(e, useBlock, depth+1, seen, out)
		}
	case *ssa.Parameter:
		fn := x.Parent()
		idx := -1
		for i, pr := range fn.Params {
			if pr == x {
				idx = i
			}
		}
		n := g.p.CallGraph().Nodes[fn]
		callers := 0
		if n != nil {
			for _, e := range n.In {
				if e.Site == nil || strings.HasSuffix(g.p.File(e.Caller.Func.Pos()), "_test.go") {
					continue
				}
				args := e.Site.Common().Args
				if e.Site.Common().IsInvoke() {
					continue
				}
				if idx < len(args) {
					callers++
					g.origins(args[idx], e.Site.Block(), depth+1, seen, out)
				}
			}
		}
		if callers == 0 {
			if fn.Object() != nil && fn.Object().Exported() {
				*out = append(*out, seqOrigin{desc: "parameter of exported " + core.FuncName(fn) + " (supplied by code outside the module; no module caller)"})
			} else {
				*out = append(*out, seqOrigin{desc: "parameter of " + core.FuncName(fn) + " without callers"})
			}
		}
	case *ssa.UnOp:
		if x.Op == token.MUL {
			if fa, ok := x.X.(*ssa.FieldAddr); ok {
				// field load: trace every store to that field in the module
				fld := innerField(fa)
				found := 0
				for _, fn := range g.p.SrcFuncs() {
					if strings.HasSuffix(g.p.File(fn.Pos()), "_test.go") {
						continue
					}
					for _, b := range fn.Blocks {
						for _, in := range b.Instrs {
							if st, ok := in.(*ssa.Store); ok {
								if fa2, ok := st.Addr.(*ssa.FieldAddr); ok && innerField(fa2) == fld {
									found++
									g.origins(st.Val, b, depth+1, seen, out)
								}
							}
						}
					}
				}
				if found == 0 {
					*out = append(*out, seqOrigin{desc: "field " + fld.Name() + " never stored"})
				}
				return
			}
			// load of a local variable cell: trace stores to it
			if al, ok := x.X.(*ssa.Alloc); ok && al.Referrers() != nil {
				for _, r := range *al.Referrers() {
					if st, ok := r.(*ssa.Store); ok && st.Addr == ssa.Value(al) {
						g.origins(st.Val, st.Block(), depth+1, seen, out)
					}
				}
				return
			}
		}
		*out = append(*out, seqOrigin{desc: "unrecognised value " + x.String(), unknown: true})
	default:
		*out = append(*out, seqOrigin{desc: fmt.Sprintf("unrecognised value %T", v), unknown: true})
	}
}

func init() {
	core.Register(&core.Rule{
		Name: "R-GATE",
		Doc: "A literal sequence that may have dropped alternatives (functions of package literal that can set partialCoverage, computed transitively) must not reach (a) the prefilter builder (prefilter.NewBuilder arguments) or (b) a LongestCommonPrefix/Suffix whose result is stored for search-time verification, unless the use is dominated by the false edge of IsPartialCoverage() on that value (traced through parameters, phis, fields and locals across the call graph). Necessary for C01/C02/C16/C12: a miss of a prefilter built from a non-covering set proves nothing, so every 'no candidate => no match' exit and the PikeVM skip-ahead would skip real matches.",
		Min: 7, NeedSSA: true,
		Run: func(p *core.Prog) *core.RuleResult {
			res := &core.RuleResult{}
			g := &gateCtx{p: p, litPkg: p.SSAPkg("literal")}
			if g.litPkg == nil {
				res.Fatal = append(res.Fatal, "package literal not found")
				return res
			}
			g.computeMayPartial()
			var mp []string
			for f := range g.mayPartial {
				if f.Object() != nil && f.Object().Exported() {
					mp = append(mp, f.Name())
				}
			}
			res.Notes = append(res.Notes, fmt.Sprintf("exported literal functions that may return a partial-coverage Seq: %v", sortedStrs(mp)))
			if len(mp) == 0 {
				res.Fatal = append(res.Fatal, "no function sets partialCoverage: anchor lost")
			}
			kc := core.NewKeyCounter()
			sinkFuncs := map[string]bool{"NewBuilder": true}
			for _, fn := range p.SrcFuncs() {
				if strings.HasSuffix(p.File(fn.Pos()), "_test.go") {
					continue
				}
				for _, b := range fn.Blocks {
					for _, in := range b.Instrs {
						c, ok := in.(*ssa.Call)
						if !ok {
							continue
						}
						cal := c.Call.StaticCallee()
						if cal == nil {
							continue
						}
						var seqArgs []ssa.Value
						kind := ""
						switch {
						case sinkFuncs[cal.Name()] && cal.Pkg != nil && (strings.HasSuffix(cal.Pkg.Pkg.Path(), "/prefilter") || strings.HasSuffix(cal.Pkg.Pkg.Path(), "/dfa/lazy")) && cal.Signature.Recv() == nil:
							for _, a := range c.Call.Args {
								if isSeqPtr(a.Type()) && !isNilConst(a) {
									seqArgs = append(seqArgs, a)
								}
							}
							kind = "prefilter built from"
						case (cal.Name() == "LongestCommonPrefix" || cal.Name() == "LongestCommonSuffix") && cal.Pkg == g.litPkg && fn.Pkg != g.litPkg:
							// only when the result is kept for search time (stored into a struct field)
							if storedToField(c) {
								seqArgs = append(seqArgs, c.Call.Args[0])
								kind = cal.Name() + " kept for verification from"
							}
						}
						for _, a := range seqArgs {
							// inside the sink functions themselves parameters are traced to their callers anyway
							var outs []seqOrigin
							g.origins(a, b, 0, map[ssa.Value]bool{}, &outs)
							o := core.Obligation{Key: kc.Key("R-GATE", core.FuncName(fn), kind+" "+cal.Name()), Pos: p.Pos(c.Pos()), Nontrivial: true}
							var descs []string
							bad, unk := "", ""
							for _, og := range outs {
								descs = append(descs, og.desc)
								if og.partial {
									bad = og.desc
								}
								if og.unknown {
									unk = og.desc
								}
							}
							sort.Strings(descs)
							switch {
							case bad != "":
								o.Status = core.Violated
								o.Detail = fmt.Sprintf("%s a literal sequence that may be partial-coverage (%s) without a dominating !IsPartialCoverage() test; origins: %v", kind, bad, descs)
							case unk != "":
								o.Status = core.Undecided
								o.Detail = fmt.Sprintf("cannot trace the literal sequence: %s", unk)
							default:
								o.Status = core.Discharged
								o.Detail = fmt.Sprintf("origins: %v", descs)
							}
							res.Obligations = append(res.Obligations, o)
						}
					}
				}
			}
			return res
		},
	})
}

// storedToField: the call result (or a value derived from it by len/slice) is stored into a struct field.
func storedToField(c *ssa.Call) bool {
	if c.Referrers() == nil {
		return false
	}
	for _, r := range *c.Referrers() {
		if st, ok := r.(*ssa.Store); ok && st.Val == ssa.Value(c) {
			if _, ok := st.Addr.(*ssa.FieldAddr); ok {
				return true
			}
		}
	}
	return false
}
