package rules

import (
	"fmt"
	"go/constant"
	"go/token"
	"go/types"
	"sort"
	"strings"

	"golang.org/x/tools/go/ssa"

	"verif/internal/core"
)

// rootStructOfAddr: the named struct type whose memory the address addr points into (field of a struct, element of a
// slice/array/map held in a field of a struct, ...); nil if not recognisable.
func rootStructOfAddr(addr ssa.Value, d int) *types.Named {
	if d > 6 {
		return nil
	}
	switch a := addr.(type) {
	case *ssa.FieldAddr:
		if pt, ok := a.X.Type().Underlying().(*types.Pointer); ok {
			if n, ok := pt.Elem().(*types.Named); ok {
				return n
			}
		}
		return rootStructOfAddr(a.X, d+1)
	case *ssa.IndexAddr:
		return rootStructOfAddr(a.X, d+1)
	case *ssa.UnOp:
		if a.Op == token.MUL {
			return rootStructOfAddr(a.X, d+1)
		}
	case *ssa.Slice:
		return rootStructOfAddr(a.X, d+1)
	}
	return nil
}

// nodeFieldLoads: name of the field if v is a load of a field of the *syntax.Regexp value node.
func nodeFieldLoad(v ssa.Value, node ssa.Value) (string, bool) {
	ld, ok := v.(*ssa.UnOp)
	if !ok || ld.Op != token.MUL {
		return "", false
	}
	fa, ok := ld.X.(*ssa.FieldAddr)
	if !ok || fa.X != node || !isSyntaxRegexpPtr(fa.X.Type()) {
		return "", false
	}
	return fieldNameOf(fa), true
}

// dependsOnNodeField: the backward slice of v reaches a load of field Cap or Name of node.
func dependsOnNodeField(v ssa.Value, node ssa.Value, seen map[ssa.Value]bool, d int) string {
	if v == nil || seen[v] || d > 8 {
		return ""
	}
	seen[v] = true
	if f, ok := nodeFieldLoad(v, node); ok && (f == "Cap" || f == "Name") {
		return f
	}
	switch x := v.(type) {
	case *ssa.BinOp:
		if r := dependsOnNodeField(x.X, node, seen, d+1); r != "" {
			return r
		}
		return dependsOnNodeField(x.Y, node, seen, d+1)
	case *ssa.UnOp:
		if x.Op == token.MUL {
			return "" // another load: memory, not the node's field
		}
		return dependsOnNodeField(x.X, node, seen, d+1)
	case *ssa.Convert:
		return dependsOnNodeField(x.X, node, seen, d+1)
	case *ssa.ChangeType:
		return dependsOnNodeField(x.X, node, seen, d+1)
	case *ssa.Phi:
		for _, e := range x.Edges {
			if r := dependsOnNodeField(e, node, seen, d+1); r != "" {
				return r
			}
		}
	case *ssa.Call:
		// conversions through small helpers (conv.IntToUint32(re.Cap))
		for _, a := range x.Call.Args {
			if r := dependsOnNodeField(a, node, seen, d+1); r != "" {
				return r
			}
		}
	}
	return ""
}

// blocksUnderOp: the blocks of f reachable from the entry when field Op of node equals op: branches on a comparison of
// node.Op with a constant are followed on the edge the value decides, every other branch on both edges.
func blocksUnderOp(f *ssa.Function, node ssa.Value, op int64) map[*ssa.BasicBlock]bool {
	seen := map[*ssa.BasicBlock]bool{}
	var walk func(b *ssa.BasicBlock)
	walk = func(b *ssa.BasicBlock) {
		if seen[b] {
			return
		}
		seen[b] = true
		if len(b.Instrs) == 0 {
			return
		}
		if iff, ok := b.Instrs[len(b.Instrs)-1].(*ssa.If); ok {
			if bo, ok := iff.Cond.(*ssa.BinOp); ok && (bo.Op == token.EQL || bo.Op == token.NEQ) {
				var k int64
				var have bool
				for _, pr := range [][2]ssa.Value{{bo.X, bo.Y}, {bo.Y, bo.X}} {
					if fn, ok := nodeFieldLoad(pr[0], node); ok && fn == "Op" {
						if c, ok := pr[1].(*ssa.Const); ok && c.Value != nil {
							if i, ok := constant.Int64Val(c.Value); ok {
								k, have = i, true
							}
						}
					}
				}
				if have {
					truth := (k == op) == (bo.Op == token.EQL)
					if truth {
						walk(b.Succs[0])
					} else {
						walk(b.Succs[1])
					}
					return
				}
			}
		}
		for _, s := range b.Succs {
			walk(s)
		}
	}
	if len(f.Blocks) > 0 {
		walk(f.Blocks[0])
	}
	return seen
}

func init() {
	core.Register(&core.Rule{
		Name: "R-CAPTABLE",
		Doc: "The capture tables describe the parsed pattern, not the compiled automaton. regexp's NumSubexp and SubexpNames count every group of the syntax tree, also a group under x{0} or in a branch the compiler drops, and every API reports NumSubexp()+1 groups. A function of the module that stores a value read from the Cap or Name field of a *syntax.Regexp node into a struct of the module (the compiler's capture count and name table) must therefore be a total walk of its own: it calls itself, for each of the seven operators with children the code reached when the node has that operator contains a self-call on the children (every element of Sub for a concatenation or alternation, Sub[0] or every element otherwise), and it reads no field of the node but Op, Sub, Cap and Name - a table that depends on Min, Max or Flags depends on how the node is compiled. Copies into another syntax.Regexp (cloning) are not tables. Necessary for C09 (NumSubexp, SubexpNames, SubexpIndex agree with regexp) and C03 (the number of reported groups).",
		Min: 12, NeedSSA: true,
		Run: func(p *core.Prog) *core.RuleResult {
			res := &core.RuleResult{}
			sp := p.SSA.ImportedPackage("regexp/syntax")
			if sp == nil {
				res.Fatal = append(res.Fatal, "package regexp/syntax not found")
				return res
			}
			opVal := map[string]int64{}
			for _, n := range opsWithChildren {
				if c, ok := sp.Members[n].(*ssa.NamedConst); ok {
					if v, ok := constant.Int64Val(c.Value.Value); ok {
						opVal[n] = v
					}
				}
			}
			if len(opVal) != len(opsWithChildren) {
				res.Fatal = append(res.Fatal, "operator constants not found in regexp/syntax")
				return res
			}
			type subject struct {
				f     *ssa.Function
				node  *ssa.Parameter
				sinks []string
			}
			var subs []*subject
			for _, f := range p.SrcFuncs() {
				if strings.HasSuffix(p.File(f.Pos()), "_test.go") || !p.InModule(ownPkg(f)) {
					continue
				}
				var node *ssa.Parameter
				for _, prm := range f.Params {
					if isSyntaxRegexpPtr(prm.Type()) {
						node = prm
						break
					}
				}
				if node == nil {
					continue
				}
				var sinks []string
				for _, b := range f.Blocks {
					for _, in := range b.Instrs {
						st, ok := in.(*ssa.Store)
						if !ok {
							continue
						}
						root := rootStructOfAddr(st.Addr, 0)
						if root == nil || root.Obj().Pkg() == nil || !p.InModule(root.Obj().Pkg()) {
							continue
						}
						if fld := dependsOnNodeField(st.Val, node, map[ssa.Value]bool{}, 0); fld != "" {
							sinks = append(sinks, fmt.Sprintf("%s.%s <- node.%s (%s)", root.Obj().Pkg().Name(), root.Obj().Name(), fld, p.Pos(st.Pos())))
						}
					}
				}
				if len(sinks) > 0 {
					subs = append(subs, &subject{f, node, sinks})
				}
			}
			sort.Slice(subs, func(i, j int) bool { return core.FuncName(subs[i].f) < core.FuncName(subs[j].f) })
			for _, s := range subs {
				f := s.f
				fname := core.FuncName(f)
				// self-calls on children
				type site struct {
					b     *ssa.BasicBlock
					idx   int64
					konst bool
				}
				var sites []site
				for _, b := range f.Blocks {
					for _, in := range b.Instrs {
						c, ok := in.(ssa.CallInstruction)
						if !ok || c.Common().StaticCallee() != f {
							continue
						}
						for _, a := range c.Common().Args {
							if !isSyntaxRegexpPtr(a.Type()) {
								continue
							}
							if idx, k, ok := childIndex(a); ok {
								sites = append(sites, site{b, idx, k})
							}
						}
					}
				}
				o := core.Obligation{Key: "R-CAPTABLE|" + fname + "|the table is filled by a walk of its own", Pos: p.Pos(f.Pos()), Nontrivial: true, Status: core.Discharged}
				o.Detail = fmt.Sprintf("fills %s; %d self-call(s) on children of the node", strings.Join(s.sinks, "; "), len(sites))
				if len(sites) == 0 {
					o.Status = core.Violated
					o.Detail = fmt.Sprintf("fills %s but never calls itself on the node's children: the table is filled only where whoever calls it gets to (a compiler skips x{0}, dropped branches), regexp counts every group of the parsed pattern", strings.Join(s.sinks, "; "))
				}
				res.Obligations = append(res.Obligations, o)
				if len(sites) > 0 {
					for _, opn := range opsWithChildren {
						reach := blocksUnderOp(f, s.node, opVal[opn])
						multi := opn == "OpConcat" || opn == "OpAlternate"
						best := ""
						for _, st := range sites {
							if !reach[st.b] || st.idx != 0 {
								continue
							}
							if !st.konst {
								best = "all"
							} else if best == "" {
								best = "first"
							}
						}
						oo := core.Obligation{Key: "R-CAPTABLE|" + fname + "|descends into " + opn, Pos: p.Pos(f.Pos()), Nontrivial: true}
						switch {
						case best == "all", best == "first" && !multi:
							oo.Status = core.Discharged
							oo.Detail = "with node.Op == " + opn + " a self-call on " + map[string]string{"all": "every element of Sub", "first": "Sub[0]"}[best] + " is reached"
						case best == "first":
							oo.Status = core.Violated
							oo.Detail = "with node.Op == " + opn + " only Sub[0] is walked: groups in later elements are not counted/named"
						default:
							oo.Status = core.Violated
							oo.Detail = "with node.Op == " + opn + " no self-call on the children is reachable: groups below such a node are not counted/named"
						}
						res.Obligations = append(res.Obligations, oo)
					}
				}
				// field whitelist
				bad := map[string]string{}
				for _, b := range f.Blocks {
					for _, in := range b.Instrs {
						fa, ok := in.(*ssa.FieldAddr)
						if !ok || fa.X != ssa.Value(s.node) {
							continue
						}
						switch n := fieldNameOf(fa); n {
						case "Op", "Sub", "Cap", "Name":
						default:
							if bad[n] == "" {
								bad[n] = p.Pos(fa.Pos())
							}
						}
					}
				}
				of := core.Obligation{Key: "R-CAPTABLE|" + fname + "|reads only Op, Sub, Cap, Name of the node", Pos: p.Pos(f.Pos()), Nontrivial: true, Status: core.Discharged,
					Detail: "no other field of the node is read"}
				if len(bad) > 0 {
					var names []string
					for n, pos := range bad {
						names = append(names, n+" ("+pos+")")
					}
					sort.Strings(names)
					of.Status = core.Violated
					of.Detail = "the walk that fills the capture table reads " + strings.Join(names, ", ") + " of the node: the table then depends on how the node is compiled (x{0}, flags), regexp's depends on the parsed pattern only"
				}
				res.Obligations = append(res.Obligations, of)
			}
			var names []string
			for _, s := range subs {
				names = append(names, core.FuncName(s.f))
			}
			res.Notes = append(res.Notes, fmt.Sprintf("functions that fill a module struct from node.Cap / node.Name (%d): %v", len(subs), names))
			return res
		},
	})
}
