package rules

import (
	"fmt"
	"go/token"
	"go/types"
	"strings"

	"golang.org/x/tools/go/ssa"

	"verif/internal/core"
)

// allocRoot follows IndexAddr/FieldAddr/Slice chains down to the alloc they address.
func allocRoot(v ssa.Value) *ssa.Alloc {
	for i := 0; i < 8; i++ {
		switch x := v.(type) {
		case *ssa.Alloc:
			return x
		case *ssa.IndexAddr:
			v = x.X
		case *ssa.FieldAddr:
			v = x.X
		case *ssa.Slice:
			v = x.X
		default:
			return nil
		}
	}
	return nil
}

func isSyntaxRegexp(t types.Type) bool {
	if p, ok := t.Underlying().(*types.Pointer); ok {
		t = p.Elem()
	}
	n, ok := t.(*types.Named)
	return ok && n.Obj().Pkg() != nil && n.Obj().Pkg().Path() == "regexp/syntax" && n.Obj().Name() == "Regexp"
}

// classRuneTaint returns the values of fn that are data-dependent on the elements of a character
// class's rune ranges (syntax.Regexp.Rune or a []rune parameter).
func classRuneTaint(fn *ssa.Function) (map[ssa.Value]bool, bool) {
	runeSlices := map[ssa.Value]bool{}
	for _, pa := range fn.Params {
		if sl, ok := pa.Type().Underlying().(*types.Slice); ok && isRuneType(sl.Elem()) {
			runeSlices[pa] = true
		}
	}
	for _, b := range fn.Blocks {
		for _, in := range b.Instrs {
			if fa, ok := in.(*ssa.FieldAddr); ok && fieldNameOf(fa) == "Rune" && isSyntaxRegexp(fa.X.Type()) {
				runeSlices[fa] = true
			}
		}
	}
	if len(runeSlices) == 0 {
		return nil, false
	}
	taint := map[ssa.Value]bool{}
	taintedAlloc := map[*ssa.Alloc]bool{}
	// slices loaded from the Rune field address
	for changed := true; changed; {
		changed = false
		mark := func(v ssa.Value) {
			if !taint[v] {
				taint[v] = true
				changed = true
			}
		}
		for _, b := range fn.Blocks {
			for _, in := range b.Instrs {
				switch x := in.(type) {
				case *ssa.UnOp:
					if x.Op == token.MUL {
						// load
						if runeSlices[x.X] {
							if !runeSlices[x] {
								runeSlices[x] = true // the slice value itself
								changed = true
							}
							continue
						}
						if ia, ok := x.X.(*ssa.IndexAddr); ok && runeSlices[ia.X] {
							mark(x)
							continue
						}
						if a := allocRoot(x.X); a != nil && taintedAlloc[a] {
							mark(x)
						}
						continue
					}
					if taint[x.X] {
						mark(x)
					}
				case *ssa.Slice:
					if runeSlices[x.X] && !runeSlices[x] {
						runeSlices[x] = true
						changed = true
					}
				case *ssa.BinOp:
					switch x.Op {
					case token.EQL, token.NEQ, token.LSS, token.LEQ, token.GTR, token.GEQ:
						// a comparison result is control, not data
					default:
						if taint[x.X] || taint[x.Y] {
							mark(x)
						}
					}
				case *ssa.Convert:
					if taint[x.X] {
						mark(x)
					}
				case *ssa.ChangeType:
					if taint[x.X] {
						mark(x)
					}
				case *ssa.Phi:
					for _, e := range x.Edges {
						if taint[e] {
							mark(x)
						}
					}
				case *ssa.Extract:
					if taint[x.Tuple] {
						mark(x)
					}
				case *ssa.Index:
					if taint[x.X] {
						mark(x)
					}
				case *ssa.Call:
					any := false
					for _, a := range x.Call.Args {
						if taint[a] {
							any = true
						}
					}
					if any {
						if x.Type() != nil {
							mark(x)
						}
						for _, a := range x.Call.Args {
							if r := allocRoot(a); r != nil && !taintedAlloc[r] {
								taintedAlloc[r] = true
								changed = true
							}
						}
					}
				case *ssa.Store:
					if taint[x.Val] {
						if r := allocRoot(x.Addr); r != nil && !taintedAlloc[r] {
							taintedAlloc[r] = true
							changed = true
						}
					}
				}
			}
		}
	}
	return taint, true
}

// counterConstRange: v is a loop counter `for b := A; b <= B (or b < B+1); b++` with constant A and B.
func counterConstRange(v ssa.Value) (lo, hi int64, ok bool) {
	ph, isPhi := v.(*ssa.Phi)
	if !isPhi || len(ph.Edges) != 2 {
		return 0, 0, false
	}
	var init int64
	var step ssa.Value
	found := false
	for i, e := range ph.Edges {
		if c, isC := constInt(e); isC {
			init, step, found = c, ph.Edges[1-i], true
		}
	}
	if !found {
		return 0, 0, false
	}
	inc, isBin := step.(*ssa.BinOp)
	if !isBin || inc.Op != token.ADD || inc.X != ssa.Value(ph) {
		return 0, 0, false
	}
	if c, isC := constInt(inc.Y); !isC || c != 1 {
		return 0, 0, false
	}
	// the loop test in the phi's block (or referrers): a comparison of the counter with a constant
	if ph.Referrers() == nil {
		return 0, 0, false
	}
	for _, r := range *ph.Referrers() {
		cmp, isBin := r.(*ssa.BinOp)
		if !isBin || cmp.X != ssa.Value(ph) {
			continue
		}
		b, isC := constInt(cmp.Y)
		if !isC {
			continue
		}
		isCond := false
		if cmp.Referrers() != nil {
			for _, rr := range *cmp.Referrers() {
				if _, isIf := rr.(*ssa.If); isIf {
					isCond = true
				}
			}
		}
		if !isCond {
			continue
		}
		switch cmp.Op {
		case token.LEQ:
			return init, b, true
		case token.LSS:
			return init, b - 1, true
		}
	}
	return 0, 0, false
}

func init() {
	core.Register(&core.Rule{
		Name: "R-INVALIDBYTE",
		Doc: "A 256-entry byte table filled from a character class may depend on the class's runes only in its ASCII half. regexp reads every byte that is not part of a well-formed UTF-8 sequence as U+FFFD of width 1, so a class containing U+FFFD (every negated ASCII class: [^a], \\D, \\W, \\S) accepts the bytes 0x80-0xBF, 0xC0, 0xC1, 0xF5-0xFF, which are the lead byte of no rune. An entry >= 0x80 computed from the class's rune values (lead byte of the range ends, by bit arithmetic, an encoder helper or utf8.EncodeRune) is therefore wrong unless the function also consults U+FFFD; the upper half must be class-independent (a constant, or a counter with constant bounds that covers all of 0x80-0xFF: 'admit every byte >= 0x80' - a counter over the lead bytes 0xC2-0xF4 only is the same narrowing in constant form). Decided by data flow: in every module function that reads syntax.Regexp.Rune (or a []rune parameter) and stores into a [256]T table, the index of each store is either not data-dependent on the rune elements (comparisons are control, not data), or bounded by 0x7F at the store (the R-RUNEBYTE lemma), or the function compares something with 0xFFFD. Necessary for C15/C19/C01 (first-byte rejection filters, class tables). Six independent seeding agents chose this change.",
		Min: 8, NeedSSA: true,
		Run: func(p *core.Prog) *core.RuleResult {
			res := &core.RuleResult{}
			kc := core.NewKeyCounter()
			currentProg = p
			analysed := 0
			for _, fn := range p.SrcFuncs() {
				if strings.HasSuffix(p.File(fn.Pos()), "_test.go") || !p.InModule(ownPkg(fn)) {
					continue
				}
				var stores []*ssa.Store
				for _, b := range fn.Blocks {
					for _, in := range b.Instrs {
						st, ok := in.(*ssa.Store)
						if !ok {
							continue
						}
						ia, ok := st.Addr.(*ssa.IndexAddr)
						if !ok {
							continue
						}
						pt, ok := ia.X.Type().Underlying().(*types.Pointer)
						if !ok {
							continue
						}
						arr, ok := pt.Elem().Underlying().(*types.Array)
						if !ok || arr.Len() != 256 {
							continue
						}
						stores = append(stores, st)
					}
				}
				if len(stores) == 0 {
					continue
				}
				taint, reads := classRuneTaint(fn)
				if !reads {
					continue
				}
				analysed++
				consultsFFFD := false
				for _, b := range fn.Blocks {
					for _, in := range b.Instrs {
						if bo, ok := in.(*ssa.BinOp); ok {
							for _, v := range []ssa.Value{bo.X, bo.Y} {
								if c, ok := constInt(v); ok && c == 0xFFFD {
									consultsFFFD = true
								}
							}
						}
					}
				}
				for _, st := range stores {
					ia := st.Addr.(*ssa.IndexAddr)
					idx := stripConv(ia.Index)
					o := core.Obligation{Key: kc.Key("R-INVALIDBYTE", core.FuncName(fn), "table entry set from the class"), Pos: p.Pos(st.Pos()), Nontrivial: true}
					lo, hi, isCounter := counterConstRange(idx)
					switch {
					case !taint[idx] && !taint[ia.Index] && isCounter && hi >= 0x80 && (lo > 0x80 || hi < 0xFF) && !consultsFFFD:
						o.Status = core.Violated
						o.Detail = fmt.Sprintf("the class-independent counter that fills the upper half runs over 0x%X..0x%X only: a class with a non-ASCII member may contain U+FFFD, as which regexp reads every byte that is not part of a well-formed sequence (0x80-0xC1, 0xF5-0xFF included), so every byte >= 0x80 has to be admitted, not only the lead bytes", lo, hi)
					case !taint[idx] && !taint[ia.Index]:
						o.Status = core.Discharged
						o.Detail = "the index does not depend on the class's rune values (constant or class-independent counter)"
						if isCounter && hi >= 0x80 {
							o.Detail = fmt.Sprintf("the index is a class-independent counter over 0x%X..0x%X, which covers every byte >= 0x80", lo, hi)
						}
					case boundedASCII(ia.Index, st.Block(), 0) || boundedASCII(idx, st.Block(), 0):
						o.Status = core.Discharged
						o.Detail = "the index depends on the class's runes and is bounded by 0x7F here (ASCII half)"
					case consultsFFFD:
						o.Status = core.Discharged
						o.Detail = "the index depends on the class's runes; the function compares with U+FFFD"
					case runeByteExempt[core.FuncName(fn)] != "" || (core.FuncName(fn) == "meta.buildCharClassTable" && callersRejectNonASCIIRunes(p, fn)):
						o.Status = core.Discharged
						o.Nontrivial = false
						o.Detail = "exempt as in R-RUNEBYTE: the runes reaching this store are ASCII by a guard the bound lemma does not model"
					default:
						o.Status = core.Violated
						o.Detail = fmt.Sprintf("the entry's index is computed from the class's rune values and is not bounded by 0x7F: for a class containing U+FFFD the bytes that are no rune's lead byte (0x80-0xC1, 0xF5-0xFF) must be admitted too, and the function never looks at U+FFFD")
					}
					res.Obligations = append(res.Obligations, o)
				}
			}
			res.Notes = append(res.Notes, fmt.Sprintf("%d functions read class runes and fill a 256-entry table", analysed))
			return res
		},
	})
}
