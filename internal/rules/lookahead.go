package rules

import (
	"fmt"
	"strings"

	"golang.org/x/tools/go/ssa"

	"verif/internal/core"
)

// lookAheadExempt: functions that hand an upper-truncated haystack to a matching engine soundly, with the reason.
var lookAheadExempt = map[string]string{
	"(*dfa/lazy.DFA).nfaFallbackReverse":     revWhy,
	"(*dfa/lazy.DFA).SearchReverse":          revWhy,
	"(*dfa/lazy.DFA).SearchReverseLimited":   revWhy,
	"(*dfa/lazy.DFA).IsMatchReverse":         revWhy,
	"(*dfa/lazy.DFA).searchReverseFallback":  revWhy,
	"(*dfa/lazy.DFA).isMatchReverseFallback": revWhy,

	"(*meta.Engine).findIndicesBoundedBacktrackerAtWithState": btWindowWhy,
	"(*meta.Engine).findIndicesBoundedBacktrackerAt":          btWindowWhy,
}

const btWindowWhy = "windowed fallback of UseBoundedBacktracker when no DFA pair exists: that strategy is selected only for start-anchored patterns (answered by the PikeVM before this point) and for repetitions of one character class, which contain no assertions (the same reason R-LOOPARG accepts haystack[at:] here)"

const revWhy = "reverse fallback of a reverse automaton: reverse automata are only built for patterns whose assertions survive the reversal check (R-REVLOOK), i.e. none that look at the byte behind the window's end"

func init() {
	core.Register(&core.Rule{
		Name: "R-LOOKAHEAD",
		Doc: "An engine that evaluates assertions sees the byte behind the place where it stops: in packages nfa, meta, dfa/lazy and the root package, a matching function of the module (any function or method with a []byte parameter outside the byte-search packages simd, prefilter and literal) is never handed a re-slice of the caller's haystack parameter that has an upper bound (h[:end], h[lo:end]) - neither directly nor after the parameter was overwritten with such a re-slice. The assertions \\b, \\B, $ and (?m)$ evaluated at the cut see end-of-text instead of the real next byte: a higher-priority alternative is accepted wrongly and other capture groups are reported over the same span ((?:(a+)\\b|(a)) on 'aab' restricted to [0,1]). The counterpart of R-LOOPARG (which guards the low bound). Functions not reachable from a search entry point are exempt; exemptions by name carry the reason. Necessary for C14 (exact-or-declined engines), C02/C03 (spans and captures).",
		Min: 3, NeedSSA: true,
		Run: func(p *core.Prog) *core.RuleResult {
			res := &core.RuleResult{}
			kc := core.NewKeyCounter()
			cg := p.CallGraph()
			examined := 0
			for _, fn := range p.SrcFuncs() {
				if strings.HasSuffix(p.File(fn.Pos()), "_test.go") {
					continue
				}
				pk := ownPkg(fn)
				if pk == nil || !p.InModule(pk) {
					continue
				}
				rel := strings.TrimPrefix(pk.Path(), core.ModPath)
				if rel != "" && rel != "/meta" && rel != "/nfa" && rel != "/dfa/lazy" {
					continue
				}
				params := map[ssa.Value]bool{}
				for _, prm := range fn.Params {
					if isByteSlice(prm.Type()) {
						params[prm] = true
					}
				}
				if len(params) == 0 {
					continue
				}
				for _, b := range fn.Blocks {
					for _, in := range b.Instrs {
						c, ok := in.(ssa.CallInstruction)
						if !ok {
							continue
						}
						cc := c.Common()
						cal := cc.StaticCallee()
						if cal == nil {
							continue
						}
						cpk := ownPkg(cal)
						if cpk == nil || !p.InModule(cpk) {
							continue
						}
						crel := strings.TrimPrefix(cpk.Path(), core.ModPath)
						if crel == "/simd" || crel == "/prefilter" || crel == "/literal" || strings.HasPrefix(crel, "/internal") {
							continue
						}
						for _, a := range cc.Args {
							if !isByteSlice(a.Type()) {
								continue
							}
							base := a
							high := false
							for i := 0; i < 4; i++ {
								sl, ok := base.(*ssa.Slice)
								if !ok {
									break
								}
								if sl.High != nil {
									high = true
								}
								base = sl.X
							}
							if !params[base] {
								continue
							}
							examined++
							if !high {
								continue
							}
							o := core.Obligation{Key: kc.Key("R-LOOKAHEAD", core.FuncName(fn), "upper-truncated haystack passed to "+cal.Name()), Pos: p.Pos(in.Pos()), Nontrivial: true}
							switch {
							case lookAheadExempt[core.FuncName(fn)] != "":
								o.Status = core.Discharged
								o.Nontrivial = false
								o.Detail = "exempt: " + lookAheadExempt[core.FuncName(fn)]
							case cg.Nodes[fn] == nil || len(cg.Nodes[fn].In) == 0:
								o.Status = core.Discharged
								o.Nontrivial = false
								o.Detail = "the function has no caller in the module (an exported helper that no search entry point uses)"
							default:
								o.Status = core.Violated
								o.Detail = fmt.Sprintf("%s receives the haystack cut off at an upper bound: \\b, \\B, $ and (?m)$ at the cut see end-of-text instead of the next byte", cal.Name())
							}
							res.Obligations = append(res.Obligations, o)
						}
					}
				}
			}
			res.Obligations = append(res.Obligations, core.Obligation{Key: "R-LOOKAHEAD|census|haystack arguments examined", Status: core.Discharged, Nontrivial: true, Detail: fmt.Sprintf("%d haystack arguments of matching functions derive from the caller's haystack parameter", examined)})
			if examined < 200 {
				res.Fatal = append(res.Fatal, fmt.Sprintf("only %d haystack arguments examined", examined))
			}
			return res
		},
	})
}
