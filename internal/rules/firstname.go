package rules

import (
	"fmt"
	"go/token"
	"go/types"
	"sort"
	"strings"

	"golang.org/x/tools/go/ssa"

	"verif/internal/core"
)

// loopIndexOf: v is (phi) or (phi + k) for a phi standing at a loop header whose back-edge value is phi + k: returns k.
func loopIndexOf(v ssa.Value) (k int64, ok bool) {
	ph, isPhi := v.(*ssa.Phi)
	if !isPhi {
		bo, isBo := v.(*ssa.BinOp)
		if !isBo || (bo.Op != token.ADD && bo.Op != token.SUB) {
			return 0, false
		}
		ph, isPhi = bo.X.(*ssa.Phi)
		if !isPhi {
			return 0, false
		}
	}
	for i, e := range ph.Edges {
		if !ph.Block().Dominates(ph.Block().Preds[i]) {
			continue
		}
		bo, isBo := e.(*ssa.BinOp)
		if !isBo || bo.X != ssa.Value(ph) {
			continue
		}
		c, isK := constInt(bo.Y)
		if !isK {
			continue
		}
		switch bo.Op {
		case token.ADD:
			return c, true
		case token.SUB:
			return -c, true
		}
	}
	return 0, false
}

// mapFieldOf: the struct field a map value is loaded from ("pkg.Type.field"), or "" for a local map.
func mapFieldOf(m ssa.Value) string {
	if ld, ok := m.(*ssa.UnOp); ok && ld.Op == token.MUL {
		if fa, ok := ld.X.(*ssa.FieldAddr); ok {
			if pt, ok := fa.X.Type().Underlying().(*types.Pointer); ok {
				return core.TypeName(pt.Elem()) + "." + fieldNameOf(fa)
			}
		}
	}
	return ""
}

// absentGuarded: the block b is reached only when a comma-ok lookup of key in (the same field's) map said "absent".
func absentGuarded(b *ssa.BasicBlock, m ssa.Value, key ssa.Value) bool {
	mf := mapFieldOf(m)
	for d := b.Idom(); d != nil; d = d.Idom() {
		if len(d.Instrs) == 0 {
			continue
		}
		iff, ok := d.Instrs[len(d.Instrs)-1].(*ssa.If)
		if !ok {
			continue
		}
		cond := iff.Cond
		neg := false
		if u, ok := cond.(*ssa.UnOp); ok && u.Op == token.NOT {
			cond, neg = u.X, true
		}
		ex, ok := cond.(*ssa.Extract)
		if !ok || ex.Index != 1 {
			continue
		}
		lk, ok := ex.Tuple.(*ssa.Lookup)
		if !ok || !lk.CommaOk || lk.Index != key {
			continue
		}
		if lk.X != m && (mf == "" || mapFieldOf(lk.X) != mf) {
			continue
		}
		// b must lie on the "absent" edge
		absent := d.Succs[1]
		if neg {
			absent = d.Succs[0]
		}
		if absent == b || absent.Dominates(b) {
			return true
		}
	}
	return false
}

func init() {
	core.Register(&core.Rule{
		Name: "R-FIRSTNAME",
		Doc: "SubexpIndex answers with the leftmost group of a name: regexp allows (?P<n>a)(?P<n>b) and documents that the index of the leftmost such group is returned. In (*Regex).SubexpIndex and the module functions it reaches through static calls (three deep) every returned index is (a) the index of an ascending loop returned from inside the loop (the first equal name returns), or a loop-carried 'last hit' of a descending loop, or (b) slices.Index, or (c) read from a map - and then every insertion into that map (same struct field, or a local map stored into it) whose value is the index of an ascending loop is reached only on the 'absent' edge of a comma-ok lookup of the same key. A name -> index map filled by a plain forward loop keeps the rightmost group. Necessary for C09 (SubexpIndex agrees with regexp).",
		Min: 1, NeedSSA: true,
		Run: func(p *core.Prog) *core.RuleResult {
			res := &core.RuleResult{}
			kc := core.NewKeyCounter()
			root := p.SSAFunc(p.LookupFunc("", "Regex.SubexpIndex"))
			if root == nil {
				res.Notes = append(res.Notes, "(*Regex).SubexpIndex not found: nothing to decide")
				return res
			}
			// family
			fam := []*ssa.Function{root}
			depth := map[*ssa.Function]int{root: 0}
			for i := 0; i < len(fam); i++ {
				f := fam[i]
				if depth[f] >= 3 {
					continue
				}
				for _, b := range f.Blocks {
					for _, in := range b.Instrs {
						c, ok := in.(ssa.CallInstruction)
						if !ok {
							continue
						}
						g := c.Common().StaticCallee()
						if g == nil || g.Blocks == nil || !p.InModule(ownPkg(g)) {
							continue
						}
						if _, seen := depth[g]; !seen {
							depth[g] = depth[f] + 1
							fam = append(fam, g)
						}
					}
				}
			}
			mapFields := map[string]bool{}
			for _, f := range fam {
				rs := f.Signature.Results()
				if rs.Len() != 1 {
					continue
				}
				if bt, ok := rs.At(0).Type().Underlying().(*types.Basic); !ok || bt.Info()&types.IsInteger == 0 {
					continue
				}
				for _, b := range f.Blocks {
					for _, in := range b.Instrs {
						rt, ok := in.(*ssa.Return)
						if !ok || len(rt.Results) != 1 {
							continue
						}
						var decide func(v ssa.Value, d int) (core.Status, string)
						decide = func(v ssa.Value, d int) (core.Status, string) {
							if d > 4 {
								return core.Undecided, "value too deep"
							}
							if _, isK := v.(*ssa.Const); isK {
								return core.Discharged, "constant"
							}
							if k, ok := loopIndexOf(v); ok {
								ph, isPhi := v.(*ssa.Phi)
								if isPhi && len(ph.Edges) > 0 {
									// the phi itself returned: the loop-carried value
									_ = ph
								}
								if k > 0 {
									return core.Discharged, "index of an ascending loop, returned from inside the loop: the first equal name answers"
								}
								return core.Undecided, "index of a descending loop returned from inside the loop: the last group of the name answers"
							}
							switch x := v.(type) {
							case *ssa.Phi:
								// loop-carried "last hit": header phi merging a start constant with values assigned in the loop
								if hdr := x.Block(); func() bool {
									for i := range x.Edges {
										if hdr.Dominates(hdr.Preds[i]) {
											return true
										}
									}
									return false
								}() {
									// find an index assigned inside
									var dir int64
									seen := map[ssa.Value]bool{}
									var walk func(y ssa.Value, d int)
									walk = func(y ssa.Value, d int) {
										if y == nil || seen[y] || d > 5 {
											return
										}
										seen[y] = true
										if k, ok := loopIndexOf(y); ok && y != ssa.Value(x) {
											dir = k
											return
										}
										if ph, ok := y.(*ssa.Phi); ok {
											for _, e := range ph.Edges {
												walk(e, d+1)
											}
										}
									}
									for _, e := range x.Edges {
										walk(e, 0)
									}
									switch {
									case dir > 0:
										return core.Violated, "the result is overwritten at every equal name of an ascending loop and returned behind it: the rightmost group of the name answers, regexp returns the leftmost"
									case dir < 0:
										return core.Discharged, "last hit of a descending loop = leftmost group"
									}
									return core.Undecided, "loop-carried result whose updates are not loop indices"
								}
								worst, why := core.Discharged, "every merged value is first-wins"
								for _, e := range x.Edges {
									s, w := decide(e, d+1)
									if s != core.Discharged {
										worst, why = s, w
									}
								}
								return worst, why
							case *ssa.Extract:
								if lk, ok := x.Tuple.(*ssa.Lookup); ok {
									if mf := mapFieldOf(lk.X); mf != "" {
										mapFields[mf] = true
										return core.Discharged, "read from the map " + mf + " (its insertions are obligations of their own)"
									}
								}
							case *ssa.Lookup:
								if mf := mapFieldOf(x.X); mf != "" {
									mapFields[mf] = true
									return core.Discharged, "read from the map " + mf + " (its insertions are obligations of their own)"
								}
							case *ssa.Call:
								if g := x.Call.StaticCallee(); g != nil {
									if _, inFam := depth[g]; inFam {
										return core.Discharged, "result of " + core.FuncName(g) + " (decided there)"
									}
									if g.Pkg != nil && g.Pkg.Pkg.Path() == "slices" && (strings.HasPrefix(g.Name(), "Index")) {
										return core.Discharged, "slices." + g.Name() + " returns the first index"
									}
									if o := g.Origin(); o != nil && o.Pkg != nil && o.Pkg.Pkg.Path() == "slices" && strings.HasPrefix(o.Name(), "Index") {
										return core.Discharged, "slices." + o.Name() + " returns the first index"
									}
								}
							}
							return core.Undecided, "returned index of unrecognised origin (" + v.String() + ")"
						}
						st, why := decide(rt.Results[0], 0)
						if _, isK := rt.Results[0].(*ssa.Const); isK {
							continue
						}
						res.Obligations = append(res.Obligations, core.Obligation{Key: kc.Key("R-FIRSTNAME", core.FuncName(f), "returned index is the leftmost group's"), Pos: p.Pos(rt.Pos()), Status: st, Detail: why, Nontrivial: true})
					}
				}
			}
			// insertions into the maps the family reads
			if len(mapFields) > 0 {
				for _, f := range p.SrcFuncs() {
					if strings.HasSuffix(p.File(f.Pos()), "_test.go") || !p.InModule(ownPkg(f)) {
						continue
					}
					// local maps stored into one of the fields
					localTo := map[ssa.Value]string{}
					for _, b := range f.Blocks {
						for _, in := range b.Instrs {
							if st, ok := in.(*ssa.Store); ok {
								if fa, ok := st.Addr.(*ssa.FieldAddr); ok {
									if pt, ok := fa.X.Type().Underlying().(*types.Pointer); ok {
										n := core.TypeName(pt.Elem()) + "." + fieldNameOf(fa)
										if mapFields[n] {
											localTo[st.Val] = n
										}
									}
								}
							}
						}
					}
					for _, b := range f.Blocks {
						for _, in := range b.Instrs {
							mu, ok := in.(*ssa.MapUpdate)
							if !ok {
								continue
							}
							mf := mapFieldOf(mu.Map)
							if !mapFields[mf] {
								mf = localTo[mu.Map]
							}
							if mf == "" || !mapFields[mf] {
								continue
							}
							o := core.Obligation{Key: kc.Key("R-FIRSTNAME", core.FuncName(f), "insertion into "+mf+" keeps the first index"), Pos: p.Pos(mu.Pos()), Nontrivial: true}
							k, isIdx := loopIndexOf(mu.Value)
							switch {
							case !isIdx:
								o.Status = core.Undecided
								o.Detail = "value inserted is not a loop index"
							case k < 0:
								o.Status = core.Discharged
								o.Detail = "descending loop: the leftmost group is inserted last"
							case absentGuarded(b, mu.Map, mu.Key):
								o.Status = core.Discharged
								o.Detail = "reached only when a comma-ok lookup of the same key found nothing: the first index stays"
							default:
								o.Status = core.Violated
								o.Detail = "an ascending loop overwrites the entry of a name at every later group of that name: SubexpIndex answers with the rightmost group, regexp with the leftmost ((?P<n>a)(?P<n>b): 2 for 1)"
							}
							res.Obligations = append(res.Obligations, o)
						}
					}
				}
			}
			var fs []string
			for _, f := range fam {
				fs = append(fs, core.FuncName(f))
			}
			sort.Strings(fs)
			res.Notes = append(res.Notes, fmt.Sprintf("SubexpIndex family (%d): %v; maps read: %d", len(fam), fs, len(mapFields)))
			return res
		},
	})
}
