package rules

import (
	"strings"

	"golang.org/x/tools/go/ssa"

	"verif/internal/core"
)

func init() {
	core.Register(&core.Rule{
		Name: "R-UNMARSHAL",
		Doc: "Decoding replaces the value. regexp's UnmarshalText compiles the text and assigns the result to the receiver, whatever the receiver held: in every Unmarshal* method of a module type (the encoding.TextUnmarshaler / json.Unmarshaler implementations of the root package), every path from the entry to a return of a nil error passes through a whole-value assignment to the receiver (*r = ...). A shortcut that returns early when the text equals the pattern already held keeps whatever else the old value carried - leftmost-longest mode set by Longest() or CompilePOSIX - so the decoded value matches differently from regexp's (C09: a round trip through MarshalText/UnmarshalText behaves like Compile; C10).",
		Min: 1, NeedSSA: true,
		Run: func(p *core.Prog) *core.RuleResult {
			res := &core.RuleResult{}
			for _, fn := range p.SrcFuncs() {
				pk := ownPkg(fn)
				if pk == nil || pk.Path() != core.ModPath || strings.HasSuffix(p.File(fn.Pos()), "_test.go") {
					continue
				}
				if fn.Signature.Recv() == nil || !strings.HasPrefix(fn.Name(), "Unmarshal") || fn.Blocks == nil || len(fn.Params) == 0 {
					continue
				}
				rs := fn.Signature.Results()
				if rs.Len() != 1 || rs.At(0).Type().String() != "error" {
					continue
				}
				recv := fn.Params[0]
				assigns := map[*ssa.BasicBlock]bool{}
				for _, b := range fn.Blocks {
					for _, in := range b.Instrs {
						if st, ok := in.(*ssa.Store); ok && st.Addr == ssa.Value(recv) {
							assigns[b] = true
						}
					}
				}
				o := core.Obligation{Key: "R-UNMARSHAL|" + core.FuncName(fn) + "|success replaces the receiver", Pos: p.Pos(fn.Pos()), Nontrivial: true}
				bad := ""
				seen := map[*ssa.BasicBlock]bool{}
				var walk func(b *ssa.BasicBlock)
				walk = func(b *ssa.BasicBlock) {
					if bad != "" || seen[b] || assigns[b] {
						return
					}
					seen[b] = true
					for _, in := range b.Instrs {
						if r, ok := in.(*ssa.Return); ok && len(r.Results) == 1 {
							if k, ok := r.Results[0].(*ssa.Const); ok && k.Value == nil {
								bad = p.Pos(r.Pos())
							}
						}
					}
					for _, s := range b.Succs {
						walk(s)
					}
				}
				walk(fn.Blocks[0])
				switch {
				case len(assigns) == 0:
					o.Status = core.Violated
					o.Detail = "the method never assigns to *receiver"
				case bad != "":
					o.Status = core.Violated
					o.Detail = "the return of a nil error at " + bad + " is reached without assigning the decoded value to the receiver: the receiver keeps its old state (mode flags included)"
				default:
					o.Status = core.Discharged
					o.Detail = "every successful return follows *receiver = <compiled value>"
				}
				res.Obligations = append(res.Obligations, o)
			}
			return res
		},
	})
}
