package rules

import (
	"strings"

	"golang.org/x/tools/go/ssa"

	"verif/internal/core"
)

func init() {
	core.Register(&core.Rule{
		Name: "R-WBTAG",
		Doc: "Whether a word boundary completes a match at a position does not depend on the state's match tag. The lazy DFA reports matches with a delay of one byte: a state is match-tagged when the state it was entered from held an NFA match. The boundary shortcut answers a different question - does resolving \\b / \\B against the next byte reach a match NOW - and all threads of a match-tagged state precede the tagged match in priority (break-at-match removed the others), so a match they complete here replaces it. In package dfa/lazy (a) the predicates of the shortcut (functions returning bool that read the precomputed flags State.matchAtWordBoundary / matchAtNonWordBoundary, or call resolveWordBoundaries) do not read State.isMatch, and (b) the stores that precompute the two flags in determinize are not control-dependent on the value that tags the new state as match. Pinned tree: both were guarded by 'already a match: let normal processing handle it', so \\d.+\\B[b]* on '1xbaa' ended at 3 for 4 (Find [0 3], FindSubmatch [0 4]; found by the differential campaign) => fixed. Necessary for C02, C11 and C14.",
		Min: 3, NeedSSA: true,
		Run: func(p *core.Prog) *core.RuleResult {
			res := &core.RuleResult{}
			kc := core.NewKeyCounter()
			pk := p.SSAPkg("dfa/lazy")
			if pk == nil {
				res.Fatal = append(res.Fatal, "package dfa/lazy not found")
				return res
			}
			isFlag := func(name string) bool { return name == "matchAtWordBoundary" || name == "matchAtNonWordBoundary" }
			for _, fn := range p.SrcFuncs() {
				if fn.Pkg != pk || strings.HasSuffix(p.File(fn.Pos()), "_test.go") {
					continue
				}
				readsFlag, resolves, readsTag := false, false, ""
				var flagStores []*ssa.Store
				for _, b := range fn.Blocks {
					for _, in := range b.Instrs {
						switch x := in.(type) {
						case *ssa.FieldAddr:
							name := fieldNameOf(x)
							if !strings.HasSuffix(x.X.Type().String(), "lazy.State") {
								continue
							}
							if x.Referrers() == nil {
								continue
							}
							for _, r := range *x.Referrers() {
								switch y := r.(type) {
								case *ssa.UnOp:
									if isFlag(name) {
										readsFlag = true
									}
									if name == "isMatch" {
										readsTag = p.Pos(y.Pos())
									}
								case *ssa.Store:
									if isFlag(name) && y.Addr == ssa.Value(x) {
										flagStores = append(flagStores, y)
									}
								}
							}
						case *ssa.Call:
							if cal := x.Call.StaticCallee(); cal != nil {
								if cal.Name() == "resolveWordBoundaries" {
									resolves = true
								}
								if cal.Name() == "IsMatch" && cal.Signature.Recv() != nil && strings.HasSuffix(cal.Signature.Recv().Type().String(), "lazy.State") {
									readsTag = p.Pos(x.Pos())
								}
							}
						}
					}
				}
				rs := fn.Signature.Results()
				isPred := rs.Len() == 1 && rs.At(0).Type().String() == "bool"
				if isPred && (readsFlag || resolves) {
					o := core.Obligation{Key: kc.Key("R-WBTAG", core.FuncName(fn), "boundary predicate independent of the match tag"), Pos: p.Pos(fn.Pos()), Nontrivial: true}
					if readsTag == "" {
						o.Status = core.Discharged
						o.Detail = "the predicate does not read State.isMatch"
					} else {
						o.Status = core.Violated
						o.Detail = "the predicate reads the state's match tag at " + readsTag + ": a match completed by a boundary one byte after another match is not seen"
					}
					res.Obligations = append(res.Obligations, o)
				}
				for _, st := range flagStores {
					o := core.Obligation{Key: kc.Key("R-WBTAG", core.FuncName(fn), "boundary flag computed for every new state"), Pos: p.Pos(st.Pos()), Nontrivial: true, Status: core.Discharged, Detail: "the store is not control-dependent on the new state's match tag"}
					// governing conditions on the dominator chain
					for d := st.Block(); d != nil; d = d.Idom() {
						id := d.Idom()
						if id == nil || len(id.Instrs) == 0 {
							continue
						}
						iff, ok := id.Instrs[len(id.Instrs)-1].(*ssa.If)
						if !ok || len(d.Preds) != 1 {
							continue
						}
						if dependsOnMatchTag(iff.Cond, map[ssa.Value]bool{}, 0) {
							o.Status = core.Violated
							o.Detail = "the flag is only computed when the new state is not match-tagged (condition at " + p.Pos(iff.Cond.Pos()) + "): match-tagged states never report a boundary match"
						}
					}
					res.Obligations = append(res.Obligations, o)
				}
			}
			return res
		},
	})
}

// dependsOnMatchTag: v is computed from the result of containsMatchState (the value that tags the new state).
func dependsOnMatchTag(v ssa.Value, seen map[ssa.Value]bool, d int) bool {
	if v == nil || seen[v] || d > 6 {
		return false
	}
	seen[v] = true
	switch x := v.(type) {
	case *ssa.Call:
		if cal := x.Call.StaticCallee(); cal != nil && cal.Name() == "containsMatchState" {
			return true
		}
	case *ssa.BinOp:
		return dependsOnMatchTag(x.X, seen, d+1) || dependsOnMatchTag(x.Y, seen, d+1)
	case *ssa.UnOp:
		return dependsOnMatchTag(x.X, seen, d+1)
	case *ssa.Phi:
		for _, e := range x.Edges {
			if dependsOnMatchTag(e, seen, d+1) {
				return true
			}
		}
		// a && b lowers to a phi over branch outcomes: include the branch conditions
		for _, pred := range x.Block().Preds {
			if len(pred.Instrs) > 0 {
				if iff, ok := pred.Instrs[len(pred.Instrs)-1].(*ssa.If); ok && dependsOnMatchTag(iff.Cond, seen, d+1) {
					return true
				}
			}
		}
	}
	return false
}
