package rules

import (
	"fmt"
	"go/token"
	"go/types"
	"strings"

	"golang.org/x/tools/go/ssa"

	"verif/internal/core"
)

func init() {
	core.Register(&core.Rule{
		Name: "R-TRANSEQ",
		Doc: "Two ways to consume a byte are one transition of the one-pass automaton only if they agree in every component. In package dfa/onepass, where the builder finds an entry already recorded for a byte class (a comma-ok lookup in a map whose values are a struct describing a transition: target state, capture slots), every field of that struct is compared with the new entry's value on the way to 'keep one transition' - a field that is merged instead (slots OR-ed) makes the automaton follow one path and report another's captures: ([ab][ab]*)+ reaches the same target through the inner loop and through a new iteration of the group, and the merged mask gave [0 2 1 2] for 'ab' (regexp [0 2 0 2]). Pinned tree: only the target was compared => fixed. Necessary for C03 (captures of the leftmost-first path), C14 (the one-pass automaton is exact or refuses).",
		Min: 2, NeedSSA: true,
		Run: func(p *core.Prog) *core.RuleResult {
			res := &core.RuleResult{}
			kc := core.NewKeyCounter()
			pk := p.SSAPkg("dfa/onepass")
			if pk == nil {
				res.Fatal = append(res.Fatal, "package dfa/onepass not found")
				return res
			}
			for _, fn := range p.SrcFuncs() {
				if fn.Pkg != pk || strings.HasSuffix(p.File(fn.Pos()), "_test.go") {
					continue
				}
				for _, b := range fn.Blocks {
					for _, in := range b.Instrs {
						lk, ok := in.(*ssa.Lookup)
						if !ok || !lk.CommaOk {
							continue
						}
						mt, ok := lk.X.Type().Underlying().(*types.Map)
						if !ok {
							continue
						}
						st, ok := mt.Elem().Underlying().(*types.Struct)
						if !ok || st.NumFields() < 2 {
							continue
						}
						// the struct value extracted from the tuple
						compared := map[int]bool{}
						if lk.Referrers() != nil {
							for _, r := range *lk.Referrers() {
								ex, ok := r.(*ssa.Extract)
								if !ok || ex.Index != 0 || ex.Referrers() == nil {
									continue
								}
								isCmp := func(v ssa.Value) bool {
									if v.Referrers() == nil {
										return false
									}
									for _, r3 := range *v.Referrers() {
										if bo, ok := r3.(*ssa.BinOp); ok && (bo.Op == token.EQL || bo.Op == token.NEQ) {
											return true
										}
									}
									return false
								}
								for _, r2 := range *ex.Referrers() {
									switch x := r2.(type) {
									case *ssa.Field:
										if isCmp(x) {
											compared[x.Field] = true
										}
									case *ssa.Store:
										// the entry is kept in a local: fields are read through the cell
										al, ok := x.Addr.(*ssa.Alloc)
										if !ok || x.Val != ssa.Value(ex) || al.Referrers() == nil {
											continue
										}
										for _, r3 := range *al.Referrers() {
											fa, ok := r3.(*ssa.FieldAddr)
											if !ok || fa.Referrers() == nil {
												continue
											}
											for _, r4 := range *fa.Referrers() {
												if ld, ok := r4.(*ssa.UnOp); ok && ld.Op == token.MUL && isCmp(ld) {
													compared[fa.Field] = true
												}
											}
										}
									}
								}
							}
						}
						var missing []string
						for i := 0; i < st.NumFields(); i++ {
							if !compared[i] {
								missing = append(missing, st.Field(i).Name())
							}
						}
						o := core.Obligation{Key: kc.Key("R-TRANSEQ", core.FuncName(fn), "recorded transition compared in every component"), Pos: p.Pos(lk.Pos()), Nontrivial: true}
						if len(missing) == 0 {
							o.Status = core.Discharged
							o.Detail = fmt.Sprintf("all %d fields of the recorded entry are compared with the new one", st.NumFields())
						} else {
							o.Status = core.Violated
							o.Detail = "the recorded entry's " + strings.Join(missing, ", ") + " is not compared with the new entry's: two paths that differ there are taken for one transition"
						}
						res.Obligations = append(res.Obligations, o)
					}
				}
			}
			return res
		},
	})
}
