package rules

import (
	"fmt"
	"go/types"
	"strings"

	"golang.org/x/tools/go/ssa"

	"verif/internal/core"
)

// sliceRoot follows slicing/phis back to the allocation of a local scalar slice (make or a local array).
func localSliceRoot(v ssa.Value, depth int) ssa.Value {
	if depth > 6 {
		return nil
	}
	switch x := v.(type) {
	case *ssa.MakeSlice:
		return x
	case *ssa.Alloc:
		return x
	case *ssa.Slice:
		return localSliceRoot(x.X, depth+1)
	}
	return nil
}

func scalarElem(t types.Type) bool {
	switch u := t.Underlying().(type) {
	case *types.Slice:
		_, ok := u.Elem().Underlying().(*types.Basic)
		return ok
	case *types.Pointer:
		if a, ok := u.Elem().Underlying().(*types.Array); ok {
			_, ok := a.Elem().Underlying().(*types.Basic)
			return ok
		}
	}
	return false
}

func init() {
	core.Register(&core.Rule{
		Name: "R-LOCALSCRATCH",
		Doc: "A local scalar buffer that is allocated before a loop S and refilled inside S by an inner index loop T, then read in S (loaded, or passed to a call), must be written on every path through an iteration of T - or be constant-filled inside S before the read. If T can skip the store for some index (a store only under `if group matched`), the buffer keeps that index's value from the previous iteration of S: the match-index buffer of ReplaceAll would expand $1 with the previous match's group when the group does not participate in this match. Necessary for C08 (unmatched groups expand to nothing), C03 and C13 (no value carried from one match to the next).",
		Min: 1, NeedSSA: true,
		Run: func(p *core.Prog) *core.RuleResult {
			res := &core.RuleResult{}
			kc := core.NewKeyCounter()
			for _, fn := range p.SrcFuncs() {
				if strings.HasSuffix(p.File(fn.Pos()), "_test.go") {
					continue
				}
				if pk := ownPkg(fn); pk == nil || !p.InModule(pk) {
					continue
				}
				comp, cyclic := blockSCCs(fn)
				// element stores per local root
				type stInfo struct {
					st    *ssa.Store
					konst bool
				}
				stores := map[ssa.Value][]stInfo{}
				for _, b := range fn.Blocks {
					for _, in := range b.Instrs {
						st, ok := in.(*ssa.Store)
						if !ok {
							continue
						}
						ia, ok := st.Addr.(*ssa.IndexAddr)
						if !ok {
							continue
						}
						root := localSliceRoot(ia.X, 0)
						if root == nil || !scalarElem(root.Type()) {
							continue
						}
						_, k := st.Val.(*ssa.Const)
						stores[root] = append(stores[root], stInfo{st, k})
					}
				}
				for root, sts := range stores {
					rootBlock := root.(ssa.Instruction).Block()
					// T: an inner loop with non-constant element stores; S: an enclosing loop that does not contain the allocation
					for _, si := range sts {
						if si.konst {
							continue
						}
						tb := si.st.Block()
						tSCC := comp[tb.Index]
						if !cyclic[tSCC] || comp[rootBlock.Index] == tSCC {
							continue
						}
						// the loop nest: blockSCCs gives the outermost cycle; find the inner loop T = natural loop of the
						// innermost header dominating tb that has a back edge from a block dominated by it
						var tHeader *ssa.BasicBlock
						for h := tb; h != nil; h = h.Idom() {
							if comp[h.Index] != tSCC {
								break
							}
							back := false
							for _, pr := range h.Preds {
								if h.Dominates(pr) {
									back = true
								}
							}
							if back {
								tHeader = h
								break
							}
						}
						if tHeader == nil {
							continue
						}
						// S header: an outer header (in the same SCC) strictly dominating tHeader
						var sHeader *ssa.BasicBlock
						for h := tHeader.Idom(); h != nil; h = h.Idom() {
							if comp[h.Index] != tSCC {
								break
							}
							back := false
							for _, pr := range h.Preds {
								if h.Dominates(pr) {
									back = true
								}
							}
							if back {
								sHeader = h
							}
						}
						if sHeader == nil || sHeader == tHeader {
							continue
						}
						// body of T: blocks dominated by tHeader that can reach tHeader
						inT := map[*ssa.BasicBlock]bool{}
						for _, b := range fn.Blocks {
							if tHeader.Dominates(b) && comp[b.Index] == tSCC && reachesWithin(b, tHeader, tHeader) {
								inT[b] = true
							}
						}
						inT[tHeader] = true
						storeBlocks := map[*ssa.BasicBlock]bool{}
						for _, s2 := range sts {
							if inT[s2.st.Block()] {
								storeBlocks[s2.st.Block()] = true
							}
						}
						// is the buffer read in S outside T?
						read := false
						var readPos string
						var visit func(v ssa.Value, d int)
						seenV := map[ssa.Value]bool{}
						visit = func(v ssa.Value, d int) {
							if d > 4 || seenV[v] || v.Referrers() == nil {
								return
							}
							seenV[v] = true
							for _, r := range *v.Referrers() {
								rb := r.Block()
								switch x := r.(type) {
								case *ssa.Slice:
									visit(x, d+1)
								case *ssa.IndexAddr:
									for _, r2 := range *x.Referrers() {
										if u, ok := r2.(*ssa.UnOp); ok && sHeader.Dominates(u.Block()) && comp[u.Block().Index] == tSCC && !inT[u.Block()] {
											read = true
											readPos = p.Pos(u.Pos())
										}
									}
								case ssa.CallInstruction:
									if sHeader.Dominates(rb) && comp[rb.Index] == tSCC && !inT[rb] {
										if _, isB := x.Common().Value.(*ssa.Builtin); !isB {
											read = true
											readPos = p.Pos(x.Pos())
										}
									}
								}
							}
						}
						visit(root, 0)
						if !read {
							continue
						}
						// skip path through one iteration of T avoiding every store
						seenB := map[*ssa.BasicBlock]bool{}
						skip := false
						var dfs func(b *ssa.BasicBlock)
						dfs = func(b *ssa.BasicBlock) {
							if seenB[b] || !inT[b] || storeBlocks[b] {
								return
							}
							seenB[b] = true
							for _, sc := range b.Succs {
								if sc == tHeader {
									skip = true
									return
								}
								dfs(sc)
							}
						}
						// start from the body successor(s) of the header that stay in T
						for _, sc := range tHeader.Succs {
							if inT[sc] {
								dfs(sc)
							}
						}
						key := kc.Key("R-LOCALSCRATCH", core.FuncName(fn), "local "+types.TypeString(root.Type(), nil)+" buffer refilled per iteration")
						dup := false
						for _, o := range res.Obligations {
							if o.Pos == p.Pos(root.Pos()) {
								dup = true
							}
						}
						if dup {
							continue
						}
						o := core.Obligation{Key: key, Pos: p.Pos(root.Pos()), Nontrivial: true}
						// constant fill inside S before T?
						fillInS := false
						for _, s2 := range sts {
							b2 := s2.st.Block()
							if s2.konst && comp[b2.Index] == tSCC && sHeader.Dominates(b2) && !inT[b2] {
								fillInS = true
							}
						}
						switch {
						case !skip:
							o.Status = core.Discharged
							o.Detail = "every iteration of the refill loop stores to the buffer on every path (read at " + readPos + ")"
						case fillInS:
							o.Status = core.Discharged
							o.Detail = "the buffer is constant-filled inside the outer loop before it is refilled"
						default:
							o.Status = core.Violated
							o.Detail = fmt.Sprintf("the refill loop can skip the store for an index (store only on one branch) and the buffer is not reset inside the outer loop: the element keeps its value from the previous iteration and is read at %s", readPos)
						}
						res.Obligations = append(res.Obligations, o)
					}
				}
				// helper form: the refill loop T lives in a helper that is handed the buffer inside S
				// (fillGroupIndices(matchIndices, m, n)); the obligation is the same, decided in the helper
				for _, b := range fn.Blocks {
					if !cyclic[comp[b.Index]] {
						continue
					}
					for _, in := range b.Instrs {
						c, ok := in.(*ssa.Call)
						if !ok {
							continue
						}
						cal := c.Call.StaticCallee()
						if cal == nil || cal.Blocks == nil || cal.Pkg == nil || !p.InModule(cal.Pkg.Pkg) {
							continue
						}
						for ai, a := range c.Call.Args {
							root := localSliceRoot(a, 0)
							if root == nil || !scalarElem(root.Type()) || ai >= len(cal.Params) {
								continue
							}
							rootBlock := root.(ssa.Instruction).Block()
							if comp[rootBlock.Index] == comp[b.Index] {
								continue // allocated per iteration
							}
							found, skip, konstFill := paramRefill(cal, cal.Params[ai])
							if !found {
								continue
							}
							// read in the caller's loop besides this call
							read, readPos := false, ""
							seenV := map[ssa.Value]bool{}
							var visit func(v ssa.Value, d int)
							visit = func(v ssa.Value, d int) {
								if d > 4 || seenV[v] || v.Referrers() == nil {
									return
								}
								seenV[v] = true
								for _, r := range *v.Referrers() {
									rb := r.Block()
									if rb == nil || comp[rb.Index] != comp[b.Index] {
										if sl, ok := r.(*ssa.Slice); ok {
											visit(sl, d+1)
										}
										continue
									}
									switch x := r.(type) {
									case *ssa.Slice:
										visit(x, d+1)
									case *ssa.IndexAddr:
										for _, r2 := range *x.Referrers() {
											if u, ok := r2.(*ssa.UnOp); ok {
												read, readPos = true, p.Pos(u.Pos())
											}
										}
									case ssa.CallInstruction:
										if x != ssa.CallInstruction(c) {
											if _, isB := x.Common().Value.(*ssa.Builtin); !isB {
												read, readPos = true, p.Pos(x.Pos())
											}
										}
									}
								}
							}
							visit(root, 0)
							if !read {
								continue
							}
							dup := false
							for _, o := range res.Obligations {
								if o.Pos == p.Pos(root.Pos()) {
									dup = true
								}
							}
							if dup {
								continue
							}
							o := core.Obligation{Key: kc.Key("R-LOCALSCRATCH", core.FuncName(fn), "local "+types.TypeString(root.Type(), nil)+" buffer refilled per iteration"), Pos: p.Pos(root.Pos()), Nontrivial: true}
							switch {
							case !skip:
								o.Status = core.Discharged
								o.Detail = "every iteration of the refill loop in " + core.FuncName(cal) + " stores to the buffer on every path (read at " + readPos + ")"
							case konstFill:
								o.Status = core.Discharged
								o.Detail = core.FuncName(cal) + " constant-fills the buffer before it refills it"
							default:
								o.Status = core.Violated
								o.Detail = fmt.Sprintf("the refill loop in %s can skip the store for an index (store only on one branch) and the buffer is not reset inside the outer loop: the element keeps its value from the previous iteration and is read at %s", core.FuncName(cal), readPos)
							}
							res.Obligations = append(res.Obligations, o)
						}
					}
				}
			}
			return res
		},
	})
}

// paramRefill: fn stores non-constant values into elements of its slice parameter prm inside a loop; skip reports that
// one iteration of that loop can reach the next without a store; konstFill that fn stores a constant into prm's
// elements in an earlier loop of its own.
func paramRefill(fn *ssa.Function, prm *ssa.Parameter) (found, skip, konstFill bool) {
	comp, cyclic := blockSCCs(fn)
	var sts []*ssa.Store
	isPrm := func(v ssa.Value) bool {
		for d := 0; d < 6; d++ {
			if v == ssa.Value(prm) {
				return true
			}
			sl, ok := v.(*ssa.Slice)
			if !ok {
				return false
			}
			v = sl.X
		}
		return false
	}
	for _, b := range fn.Blocks {
		for _, in := range b.Instrs {
			st, ok := in.(*ssa.Store)
			if !ok {
				continue
			}
			ia, ok := st.Addr.(*ssa.IndexAddr)
			if !ok || !isPrm(ia.X) {
				continue
			}
			sts = append(sts, st)
		}
	}
	for _, st := range sts {
		if _, k := st.Val.(*ssa.Const); k {
			continue
		}
		tb := st.Block()
		tSCC := comp[tb.Index]
		if !cyclic[tSCC] {
			continue
		}
		var tHeader *ssa.BasicBlock
		for h := tb; h != nil; h = h.Idom() {
			if comp[h.Index] != tSCC {
				break
			}
			back := false
			for _, pr := range h.Preds {
				if h.Dominates(pr) {
					back = true
				}
			}
			if back {
				tHeader = h
				break
			}
		}
		if tHeader == nil {
			continue
		}
		found = true
		inT := map[*ssa.BasicBlock]bool{tHeader: true}
		for _, b := range fn.Blocks {
			if tHeader.Dominates(b) && comp[b.Index] == tSCC && reachesWithin(b, tHeader, tHeader) {
				inT[b] = true
			}
		}
		storeBlocks := map[*ssa.BasicBlock]bool{}
		for _, s2 := range sts {
			if inT[s2.Block()] {
				storeBlocks[s2.Block()] = true
			}
			// a constant fill that runs before T: in a block dominating T's header, or in an earlier loop of fn
			_, k := s2.Val.(*ssa.Const)
			sb := s2.Block()
			if k && !inT[sb] && (sb.Dominates(tHeader) || (cyclic[comp[sb.Index]] && comp[sb.Index] != tSCC && sb.Index < tHeader.Index)) {
				konstFill = true
			}
		}
		seenB := map[*ssa.BasicBlock]bool{}
		var dfs func(b *ssa.BasicBlock)
		dfs = func(b *ssa.BasicBlock) {
			if seenB[b] || !inT[b] || storeBlocks[b] {
				return
			}
			seenB[b] = true
			for _, sc := range b.Succs {
				if sc == tHeader {
					skip = true
					return
				}
				dfs(sc)
			}
		}
		for _, sc := range tHeader.Succs {
			if inT[sc] {
				dfs(sc)
			}
		}
	}
	return found, skip, konstFill
}

// reachesWithin: from b, following successors dominated by dom, target is reachable.
func reachesWithin(b, target, dom *ssa.BasicBlock) bool {
	seen := map[*ssa.BasicBlock]bool{}
	var dfs func(x *ssa.BasicBlock) bool
	dfs = func(x *ssa.BasicBlock) bool {
		if seen[x] || !dom.Dominates(x) {
			return false
		}
		seen[x] = true
		for _, s := range x.Succs {
			if s == target || dfs(s) {
				return true
			}
		}
		return false
	}
	return dfs(b)
}
