package rules

import (
	"fmt"
	"go/token"
	"go/types"
	"sort"
	"strings"

	"golang.org/x/tools/go/ssa"

	"verif/internal/core"
)

func isBoolType(t types.Type) bool {
	b, ok := t.Underlying().(*types.Basic)
	return ok && b.Kind() == types.Bool
}

// positionParam: the first int parameter behind a []byte parameter (the search's start position), nil if none.
func positionParam(f *ssa.Function) *ssa.Parameter {
	seenH := false
	for _, prm := range f.Params {
		if isByteSlice(prm.Type()) {
			seenH = true
			continue
		}
		if seenH && isIntType(prm.Type()) {
			return prm
		}
	}
	return nil
}

func init() {
	core.Register(&core.Rule{
		Name: "R-ANCHFALL",
		Doc: "The NFA take-over of a lazy DFA scan answers the question the scan was asked. Package dfa/lazy, every function with a haystack parameter that calls the NFA fallback (a method of nfa.PikeVM returning (start, end, matched), directly or through a nfaFallback* helper of the DFA): (a) where it begins - if the function has a start position parameter (the first int behind the haystack) the position handed to a forward fallback is that parameter, not a constant: a search asked to start at 'at' that restarts at 0 reports a match that ends before 'at'; (b) anchoring - an anchored scan (a function that fetches its start state through a getter whose bool parameter is stored into StartConfig.Anchored, with the constant true) may only use an unanchored NFA search when the start of the match it reports is compared with the position it was started at, in the function that makes the call (the leftmost match starts at the position iff an anchored match exists, and then they are the same match): otherwise 'no match begins here' is answered with the end of a match that begins later, and the candidate verification of the meta strategies (ReverseInner, digit prefilter, literal candidates) accepts a candidate it should reject. Necessary for C14 (anchored and offset modes of the lazy DFA are exact or decline, for every cache capacity) and C12 (cache limits change speed only).",
		Min: 10, NeedSSA: true, ThoroughArchs: []string{},
		Run: func(p *core.Prog) *core.RuleResult {
			res := &core.RuleResult{}
			pk := p.SSAPkg("dfa/lazy")
			if pk == nil {
				res.Fatal = append(res.Fatal, "package dfa/lazy not found")
				return res
			}
			kc := core.NewKeyCounter()
			var fns []*ssa.Function
			for _, fn := range p.SrcFuncs() {
				if fn.Pkg == pk && !strings.HasSuffix(p.File(fn.Pos()), "_test.go") {
					fns = append(fns, fn)
				}
			}
			sort.Slice(fns, func(i, j int) bool { return core.FuncName(fns[i]) < core.FuncName(fns[j]) })
			isPikeSearch := func(cal *ssa.Function) bool {
				if cal == nil || cal.Signature.Recv() == nil || !nfaEngineMethod(cal) {
					return false
				}
				rs := cal.Signature.Results()
				return rs.Len() == 3 && isIntType(rs.At(0).Type()) && isIntType(rs.At(1).Type()) && isBoolType(rs.At(2).Type())
			}
			// anchored start-state getters: bool parameter stored into a field named Anchored
			anchoredGetter := map[*ssa.Function]int{}
			for _, fn := range fns {
				for _, b := range fn.Blocks {
					for _, in := range b.Instrs {
						st, ok := in.(*ssa.Store)
						if !ok {
							continue
						}
						fa, ok := st.Addr.(*ssa.FieldAddr)
						if !ok || fieldNameOf(fa) != "Anchored" {
							continue
						}
						for i, prm := range fn.Params {
							if st.Val == ssa.Value(prm) && isBoolType(prm.Type()) {
								anchoredGetter[fn] = i
							}
						}
					}
				}
			}
			// does the helper compare the start of its PikeVM match with the position it passes?
			startCompared := func(c *ssa.Call) bool {
				var posArg ssa.Value
				for _, a := range c.Call.Args {
					if isIntType(a.Type()) {
						posArg = a
						break
					}
				}
				for _, ref := range *c.Referrers() {
					ex, ok := ref.(*ssa.Extract)
					if !ok || ex.Index != 0 {
						continue
					}
					for _, r2 := range *ex.Referrers() {
						bo, ok := r2.(*ssa.BinOp)
						if !ok || (bo.Op != token.EQL && bo.Op != token.NEQ) {
							continue
						}
						other := bo.X
						if other == ssa.Value(ex) {
							other = bo.Y
						}
						if posArg != nil && other == posArg {
							return true
						}
					}
				}
				return false
			}
			helperKeepsAnchor := func(h *ssa.Function) (bool, bool) { // (has a PikeVM search, all of them compared)
				has, all := false, true
				for _, b := range h.Blocks {
					for _, in := range b.Instrs {
						if c, ok := in.(*ssa.Call); ok && isPikeSearch(c.Call.StaticCallee()) {
							has = true
							if !startCompared(c) {
								all = false
							}
						}
					}
				}
				return has, all
			}
			nGetters := 0
			for range anchoredGetter {
				nGetters++
			}
			for _, fn := range fns {
				var hay *ssa.Parameter
				for _, prm := range fn.Params {
					if isByteSlice(prm.Type()) {
						hay = prm
						break
					}
				}
				if hay == nil {
					continue
				}
				pos := positionParam(fn)
				anchored := false
				for _, b := range fn.Blocks {
					for _, in := range b.Instrs {
						c, ok := in.(ssa.CallInstruction)
						if !ok {
							continue
						}
						g := c.Common().StaticCallee()
						if idx, isG := anchoredGetter[g]; isG {
							args := c.Common().Args
							off := 0
							if g.Signature.Recv() != nil {
								off = 0 // Params include the receiver, Args too for static method calls
							}
							if idx+off < len(args) {
								if k, ok := args[idx+off].(*ssa.Const); ok && k.Value != nil && k.Value.String() == "true" {
									anchored = true
								}
							}
						}
					}
				}
				for _, b := range fn.Blocks {
					for _, in := range b.Instrs {
						c, ok := in.(*ssa.Call)
						if !ok {
							continue
						}
						g := c.Call.StaticCallee()
						if g == nil {
							continue
						}
						direct := isPikeSearch(g)
						helper := g.Pkg == pk && strings.HasPrefix(g.Name(), "nfaFallback")
						if !direct && !helper {
							continue
						}
						// takes the haystack?
						takesHay := false
						var ints []ssa.Value
						for _, a := range c.Call.Args {
							if a == ssa.Value(hay) {
								takesHay = true
							}
							if isIntType(a.Type()) {
								ints = append(ints, a)
							}
						}
						if !takesHay {
							continue
						}
						// (a) begins where the search was asked to begin
						if pos != nil && len(ints) >= 1 && !(helper && strings.Contains(g.Name(), "Reverse")) {
							o := core.Obligation{Key: kc.Key("R-ANCHFALL", core.FuncName(fn), "fallback begins at the search's own start"), Pos: p.Pos(c.Pos()), Nontrivial: true}
							switch a := ints[0].(type) {
							case *ssa.Parameter:
								if a == pos {
									o.Status = core.Discharged
									o.Detail = "position argument is the parameter " + pos.Name()
								} else {
									o.Status = core.Violated
									o.Detail = fmt.Sprintf("the fallback %s is started at parameter %s, the search at %s", g.Name(), a.Name(), pos.Name())
								}
							case *ssa.Const:
								o.Status = core.Violated
								o.Detail = fmt.Sprintf("the fallback %s is started at the constant %s although the function was asked to search from %s: it can report a match that ends before %s", g.Name(), a.Value, pos.Name(), pos.Name())
							default:
								// computed positions are R-DFAFAIL's subject (values from the scan loop); a value without phi is a window base
								o.Status = core.Discharged
								o.Detail = "position argument computed from " + ints[0].String() + " (loop-carried positions are decided by R-DFAFAIL)"
							}
							res.Obligations = append(res.Obligations, o)
						}
						// (b) anchored scans keep the anchor
						if anchored && !(helper && strings.Contains(g.Name(), "Reverse")) {
							o := core.Obligation{Key: kc.Key("R-ANCHFALL", core.FuncName(fn), "fallback of an anchored scan keeps the anchor"), Pos: p.Pos(c.Pos()), Nontrivial: true}
							ok := false
							if direct {
								ok = startCompared(c)
							} else {
								has, all := helperKeepsAnchor(g)
								ok = has && all
							}
							if ok {
								o.Status = core.Discharged
								o.Detail = "the start of the NFA's match is compared with the position the search was started at"
							} else {
								o.Status = core.Violated
								o.Detail = fmt.Sprintf("%s fetches an anchored start state, but when the DFA gives up %s runs an unanchored NFA search and its start is never compared with the start position: 'no match begins here' is answered with the end of a match that begins later", core.FuncName(fn), g.Name())
							}
							res.Obligations = append(res.Obligations, o)
						}
					}
				}
			}
			res.Notes = append(res.Notes, fmt.Sprintf("anchored start-state getters: %d", nGetters))
			if nGetters == 0 {
				res.Fatal = append(res.Fatal, "no anchored start-state getter found in dfa/lazy (bool parameter stored into StartConfig.Anchored)")
			}
			return res
		},
	})
}
