package rules

import (
	"fmt"
	"go/token"
	"go/types"
	"sort"
	"strings"

	"golang.org/x/tools/go/ssa"

	"verif/internal/core"
)

// modeFields: bool fields of module struct types that a Set* method stores from its bool parameter
// (PikeVMState.Longest via PikeVM.SetLongest, BacktrackerState.Longest via BoundedBacktracker.SetLongest ...).
func modeFields(p *core.Prog) map[fieldKey]string {
	out := map[fieldKey]string{}
	for _, fn := range p.SrcFuncs() {
		if fn.Signature.Recv() == nil || !strings.HasPrefix(fn.Name(), "Set") || fn.Blocks == nil || strings.HasSuffix(p.File(fn.Pos()), "_test.go") {
			continue
		}
		for _, b := range fn.Blocks {
			for _, in := range b.Instrs {
				st, ok := in.(*ssa.Store)
				if !ok {
					continue
				}
				prm, ok := st.Val.(*ssa.Parameter)
				if !ok || !types.Identical(prm.Type().Underlying(), types.Typ[types.Bool]) {
					continue
				}
				fa, ok := st.Addr.(*ssa.FieldAddr)
				if !ok {
					continue
				}
				if k, ok := fieldKeyOf(fa); ok {
					out[k] = core.FuncName(fn)
				}
			}
		}
	}
	return out
}

func init() {
	core.Register(&core.Rule{
		Name: "R-WHOLESTORE",
		Doc: "Re-initialising scratch does not wipe the mode. A struct that carries a mode flag (a bool field that a Set* method stores from its parameter: PikeVMState.Longest, BacktrackerState.Longest) is never overwritten as a whole through a pointer the function received (`*state = T{...}`), unless the literal carries the old value of the flag over (a store into the literal's flag field of a load of the destination's flag field). The state objects are configured once (SetLongest, getSearchState) and re-initialised on other occasions (initState when the NFA changes size, reset between searches); a struct literal assigned over the whole object zeroes every field it does not list, so leftmost-longest mode silently falls back to leftmost-first after the re-initialisation (C14-9). Field-by-field resets are unaffected. Necessary for C10 (every API honours the mode) and C13.",
		Min: 2, NeedSSA: true,
		Run: func(p *core.Prog) *core.RuleResult {
			res := &core.RuleResult{}
			mf := modeFields(p)
			var names []string
			byStruct := map[*types.Struct][]fieldKey{}
			for k, setter := range mf {
				names = append(names, k.t.Field(k.i).Name()+" (set by "+setter+")")
				byStruct[k.t] = append(byStruct[k.t], k)
			}
			sort.Strings(names)
			res.Notes = append(res.Notes, "mode fields: "+strings.Join(names, ", "))
			for k, setter := range mf {
				res.Obligations = append(res.Obligations, core.Obligation{Key: "R-WHOLESTORE|mode field|" + k.t.Field(k.i).Name() + " set by " + setter, Status: core.Discharged, Nontrivial: true, Detail: "tracked"})
			}
			kc := core.NewKeyCounter()
			for _, fn := range p.SrcFuncs() {
				if strings.HasSuffix(p.File(fn.Pos()), "_test.go") || !p.InModule(ownPkg(fn)) {
					continue
				}
				for _, b := range fn.Blocks {
					for _, in := range b.Instrs {
						st, ok := in.(*ssa.Store)
						if !ok {
							continue
						}
						sT, ok := st.Val.Type().Underlying().(*types.Struct)
						if !ok || len(byStruct[sT]) == 0 {
							continue
						}
						// destination: a pointer the function received (parameter or a field/element reached from one), not a fresh object
						root := st.Addr
						for i := 0; i < 4; i++ {
							switch x := root.(type) {
							case *ssa.FieldAddr:
								root = x.X
								continue
							case *ssa.IndexAddr:
								root = x.X
								continue
							case *ssa.UnOp:
								if x.Op == token.MUL {
									root = x.X
									continue
								}
							}
							break
						}
						if _, isParam := root.(*ssa.Parameter); !isParam {
							continue
						}
						for _, k := range byStruct[sT] {
							o := core.Obligation{Key: kc.Key("R-WHOLESTORE", core.FuncName(fn), "whole-struct store keeps "+k.t.Field(k.i).Name()), Pos: p.Pos(st.Pos()), Nontrivial: true}
							kept := false
							// the stored value is a load of a local literal: look for literal.flag = load(dest.flag)
							if ld, ok := st.Val.(*ssa.UnOp); ok && ld.Op == token.MUL {
								if al, ok := ld.X.(*ssa.Alloc); ok && al.Referrers() != nil {
									for _, r := range *al.Referrers() {
										fa, ok := r.(*ssa.FieldAddr)
										if !ok || fa.Field != k.i || fa.Referrers() == nil {
											continue
										}
										for _, r2 := range *fa.Referrers() {
											if s2, ok := r2.(*ssa.Store); ok && s2.Addr == ssa.Value(fa) {
												if l2, ok := s2.Val.(*ssa.UnOp); ok && l2.Op == token.MUL {
													if f2, ok := l2.X.(*ssa.FieldAddr); ok && f2.Field == k.i {
														kept = true
													}
												}
											}
										}
									}
								}
							}
							if kept {
								o.Status = core.Discharged
								o.Detail = "the literal carries the old flag value over"
							} else {
								o.Status = core.Violated
								o.Detail = fmt.Sprintf("the object is overwritten as a whole and the literal does not carry %s over: the mode set by %s is lost at this re-initialisation", k.t.Field(k.i).Name(), mf[k])
							}
							res.Obligations = append(res.Obligations, o)
						}
					}
				}
			}
			return res
		},
	})
}
